(* C14 — Concurrent appends never lose, tear or double-assign a record.
   Statements over the interleaving model of Model/C14.v: any number of threads, any assignment of
   threads to processes, any schedule (list of thread ids; a thread that cannot move is skipped), any
   record size and any cut point of the write. Atomicity of the individual steps (flock, the
   lockFD map under its mutex, seek, write of a byte range) is the stated assumption of the model. *)
From Verif Require Import Base.Common Model.C14 Proofs.C14.

Definition WellFormed (c : cfg) (init : list Z) (n0 : nat) : Prop :=
  (0 < sz c)%nat /\ (half c <= sz c)%nat /\ (forall t, length (recd c t) = sz c) /\ length init = (n0 * sz c)%nat.

(* mutual exclusion in every reachable state *)
Theorem C14_mutex : forall c init n0, WellFormed c init n0 -> forall sch t t',
  let s := run c sch (init_st init) in
  holder (pcs s t) = true -> holder (pcs s t') = true -> t = t' /\ owner s = Some t.
Proof. intros c init n0 (H1 & H2 & H3 & H4). exact (mutex c init n0 H1 H2 H3 H4). Qed.
Print Assumptions C14_mutex.

(* every returned index holds that call's record, intact, under every interleaving *)
Theorem C14_record_intact : forall c init n0, WellFormed c init n0 -> forall sch t i,
  let s := run c sch (init_st init) in
  pcs s t = PDoneOk i -> (n0 < i)%nat /\ firstn (sz c) (skipn ((i - 1) * sz c) (file s)) = recd c t.
Proof. intros c init n0 (H1 & H2 & H3 & H4). exact (record_intact c init n0 H1 H2 H3 H4). Qed.
Print Assumptions C14_record_intact.

(* no index is assigned twice *)
Theorem C14_distinct_indices : forall c init n0, WellFormed c init n0 -> forall sch t t' i,
  let s := run c sch (init_st init) in pcs s t = PDoneOk i -> pcs s t' = PDoneOk i -> t = t'.
Proof. intros c init n0 (H1 & H2 & H3 & H4). exact (distinct_indices c init n0 H1 H2 H3 H4). Qed.
Print Assumptions C14_distinct_indices.

(* once all calls have returned: length = initial + one record per success; locks and table are free *)
Theorem C14_outcome : forall c init n0, WellFormed c init n0 -> forall sch,
  let s := run c sch (init_st init) in quiescent s ->
  length (file s) = (length init + sz c * length (log s))%nat /\
  (forall t, In t (log s) <-> exists i, pcs s t = PDoneOk i) /\ NoDup (log s) /\
  owner s = None /\ (forall p, tbl s p = false).
Proof. intros c init n0 (H1 & H2 & H3 & H4). exact (quiescent_outcome c init n0 H1 H2 H3 H4). Qed.
Print Assumptions C14_outcome.

(* ... so an append issued after the others have finished (whether they succeeded, were refused, or failed
   in the middle of the critical section) always succeeds ([away c t = false]: the call names this file, not a
   file whose write the OS refuses) *)
Theorem C14_later_append_succeeds : forall c init n0, WellFormed c init n0 -> forall sch t,
  let s := run c sch (init_st init) in quiescent s -> pcs s t = PStart -> bad c t = false -> away c t = false ->
  exists s', replay c [t; t; t; t; t; t; t] s = Some s' /\
             pcs s' t = PDoneOk (S (n0 + length (log s))) /\ log s' = log s ++ [t].
Proof. intros c init n0 (H1 & H2 & H3 & H4). exact (later_append_succeeds c init n0 H1 H2 H3 H4). Qed.
Print Assumptions C14_later_append_succeeds.

(* no deadlock *)
Theorem C14_progress : forall c init n0, WellFormed c init n0 -> forall sch t,
  let s := run c sch (init_st init) in
  pcs s t <> PStart -> finished (pcs s t) = false -> exists t', step c s t' <> None.
Proof. intros c init n0 (H1 & H2 & H3 & H4). exact (progress c init n0 H1 H2 H3 H4). Qed.
Print Assumptions C14_progress.

(* A failed call leaves nothing behind, I (calls on other files). [away c t]: the call of thread t names another
   record file and fails there in its write (ENOSPC, EDQUOT, EFBIG, EIO). For EVERY history, erasing those calls
   from it changes nothing: the file, the order of the completed writes, the lock state and the program counter -
   hence the result - of every call on this file are the same as in the history in which the failed calls never
   happened. No hypothesis on the configuration. *)
Theorem C14_failed_elsewhere_leaves_nothing : forall c init sch,
  let s := run c sch (init_st init) in
  let s' := run c (filter (fun t => negb (away c t)) sch) (init_st init) in
  file s = file s' /\ log s = log s' /\ owner s = owner s' /\ (forall p, tbl s p = tbl s' p) /\
  (forall t, away c t = false -> pcs s t = pcs s' t) /\
  (forall t, away c t = true -> pcs s t = PStart \/ pcs s t = PDoneErr).
Proof. exact failed_elsewhere_leaves_nothing. Qed.
Print Assumptions C14_failed_elsewhere_leaves_nothing.

(* A failed call leaves nothing behind, II (same file). A call whose write fails inside the critical section, issued
   while nobody else is inside a call, returns the error and gives back exactly the state it found: file, log,
   flock, table and the other calls' program counters - so whatever is appended later gets the result it would
   have got without the failed call. (Concurrent failed calls: C14_outcome and C14_record_intact hold for every
   schedule, with [bad] threads in it.) *)
Theorem C14_failed_append_leaves_nothing : forall c init n0, WellFormed c init n0 -> forall sch u,
  let s := run c sch (init_st init) in
  quiescent s -> pcs s u = PStart -> bad c u = true -> away c u = false ->
  exists s', replay c [u; u; u; u; u; u] s = Some s' /\ pcs s' u = PDoneErr /\
             file s' = file s /\ log s' = log s /\ owner s' = owner s /\ (forall p, tbl s' p = tbl s p) /\
             (forall t, t <> u -> pcs s' t = pcs s t).
Proof. intros c init n0 (H1 & H2 & H3 & H4). exact (failed_append_leaves_nothing c init n0 H1 H2 H3 H4). Qed.
Print Assumptions C14_failed_append_leaves_nothing.

(* Big record files. AppendRecord computes the slot and the byte offset of the write from the file length in machine
   arithmetic (Model/C14.v append_idx / append_off / append_ret: a 64-bit quotient, a 64-bit product, wrap after every
   operation). For EVERY record size and EVERY file length such that the file after the append still has a length an
   off_t can hold (2^63), nothing wraps: the offset is the exact multiple of the record size at or just below the end of
   the file (the end itself for a file of whole records), Seek accepts it, the returned index is the slot + 1 - and both
   are the numbers the interleaving model above computes on nat ([length file / sz] in step PFlocked, [i * sz] in step
   PSeeked, [S i] in step PUnflocked). So the theorems above speak about files of 2 GiB, 4 GiB and more as well as about
   small ones. (What is a theorem: the arithmetic. That the compiled code uses these widths is validated by the check on
   sparse files around 2^31, 2^32, 2^33 and 2^40 bytes.) *)
Theorem C14_offset_exact : forall fsize szz, 0 < szz -> 0 <= fsize -> fsize + szz < 9223372036854775808 ->
  append_idx fsize szz = fsize / szz /\
  append_off fsize szz = fsize / szz * szz /\
  append_ret fsize szz = fsize / szz + 1 /\
  append_seek_ok fsize szz = true /\
  append_off fsize szz <= fsize < append_off fsize szz + szz /\
  (fsize mod szz = 0 -> append_off fsize szz = fsize) /\
  Z.to_nat (append_off fsize szz) = (Z.to_nat fsize / Z.to_nat szz * Z.to_nat szz)%nat /\
  Z.to_nat (append_ret fsize szz) = S (Z.to_nat fsize / Z.to_nat szz).
Proof. exact offset_exact. Qed.
Print Assumptions C14_offset_exact.

(* Whole records in front of the file do not matter. [shifted k P s s']: s' is s with P in front of the file and every
   index held by a thread (the slot it seeked to, the index it returned) increased by k - same program counters otherwise,
   same lock table, same flock owner, same order of completed writes. For EVERY configuration, EVERY prefix P of k whole
   records, EVERY initial file and EVERY schedule, the run on [P ++ init] is the shifted run on [init], and a strict
   replay is accepted on the one iff it is accepted on the other. With C14_offset_exact this is what lets the check replay
   a trace observed on a file of 4 GiB through the model on the window that starts at the last initial record: the
   33 554 431 records in front of it are P. *)
Theorem C14_prefix_shift : forall c k P, (0 < sz c)%nat -> length P = (k * sz c)%nat -> forall init sch,
  shifted k P (run c sch (init_st init)) (run c sch (init_st (P ++ init))) /\
  match replay c sch (init_st init), replay c sch (init_st (P ++ init)) with
  | Some a, Some a' => shifted k P a a'
  | None, None => True
  | _, _ => False
  end.
Proof. exact prefix_shift. Qed.
Print Assumptions C14_prefix_shift.
