(* C18 — Byte-string primitives agree with their C counterparts and never crash.
   Only statements here; every proof is `exact <lemma of Proofs/C18*.v>`.
   Model/C18.v mirrors the Go helpers as they are in the working tree (after the fix: commits listed in
   findings/C18.txt); the specifications (strcmp_spec, strcasecmp_spec, strstr_rel, fnv1a_spec, fnv1_spec,
   split_lines, dbcs_final) are in Base/Cstr.v. All statements quantify over arbitrary lists of integers,
   byte strings in particular; [cprefix] is the NUL-terminated prefix of an array. *)
From Verif Require Import Base.Common Base.Cstr Gen.Consts_default Gen.AnsiTab Gen.StrTab Model.C18 Proofs.C18.

(* Cstrcmp / Cstrcasecmp have the sign of strcmp / strcasecmp on the NUL-terminated prefixes — for all arrays,
   terminated or not, on either side. (Proofs: the values are even equal.) *)
Theorem C18_cmp_sign : forall a b,
  Z.sgn (cstrcmp a b) = Z.sgn (strcmp_spec (cprefix a) (cprefix b)) /\
  Z.sgn (cstrcasecmp a b) = Z.sgn (strcasecmp_spec (cprefix a) (cprefix b)).
Proof. exact cmp_sign. Qed.
Print Assumptions C18_cmp_sign.

(* Cstrstr: for a NUL-free needle the result is the offset of the first occurrence in the NUL-terminated prefix of
   the haystack, -1 if there is none — provided needle and haystack prefix are not both empty *)
Theorem C18_strstr : forall a n, ~ In 0 n -> (n <> [] \/ cprefix a <> []) -> strstr_rel (cprefix a) n (cstrstr a n).
Proof. exact strstr_position. Qed.
Print Assumptions C18_strstr.

(* ... and the case-folding variants: Cstrcasestr, CstrCaseHasPrefix *)
Theorem C18_strcasestr : forall a n, ~ In 0 n -> (n <> [] \/ cprefix a <> []) ->
  strstr_rel (map lower_spec (cprefix a)) (map lower_spec n) (cstrcasestr a n).
Proof. exact strcasestr_position. Qed.
Print Assumptions C18_strcasestr.

Theorem C18_case_has_prefix : forall a n, ~ In 0 n ->
  cstr_case_has_prefix a n = has_prefix (map lower_spec (cprefix a)) (map lower_spec n).
Proof. exact case_has_prefix_spec. Qed.
Print Assumptions C18_case_has_prefix.

(* strstr("", "") is offset 0, Cstrstr answers -1: known finding C18/strstr-empty-empty, deliberately unchanged *)
Theorem C18_strstr_refuted_empty : exists a n, ~ In 0 n /\ strstr_rel (cprefix a) n 0 /\ cstrstr a n = -1.
Proof. exact strstr_refuted_empty. Qed.
Print Assumptions C18_strstr_refuted_empty.

(* StringHash is 32-bit FNV-1a with pttbbs' offset basis 33554467 over the upper-cased NUL-terminated prefix;
   StringHashWithHashBits is that value mod 2^HASH_BITS (= 2^16) *)
Theorem C18_hash : forall a,
  string_hash a = fnv1a_spec 32 16777619 33554467 (map upper_spec (cprefix a)) /\
  string_hash_bits a = fnv1a_spec 32 16777619 33554467 (map upper_spec (cprefix a)) mod 2 ^ 16.
Proof. exact hash_spec. Qed.
Print Assumptions C18_hash.

(* the rest of the FNV family, for every start value: FNV-1a (mod 2^32 / 2^64) over the prefix, FNV-1 over the
   whole buffer; Fnv64Buf over len(buf) bytes *)
Theorem C18_hash_family : forall l h,
  fnv1a32_bytes l h = fnv1a_spec 32 16777619 h (cprefix l) /\
  fnv1a32_strcase l h = fnv1a_spec 32 16777619 h (map upper_spec (cprefix l)) /\
  fnv1a64_bytes l h = fnv1a_spec 64 1099511628211 h (cprefix l) /\
  fnv1a64_strcase l h = fnv1a_spec 64 1099511628211 h (map upper_spec (cprefix l)) /\
  fnv32_bytes l h = fnv1_spec 32 16777619 h l /\
  fnv64_bytes l h = fnv1_spec 64 1099511628211 h l /\
  fnv64_buf l (lenZ l) h = fnv1_spec 64 1099511628211 h l.
Proof. exact hash_family. Qed.
Print Assumptions C18_hash_family.

(* the DBCS-aware variants: ASCII bytes are upper-cased except in trail position *)
Theorem C18_hash_dbcs : forall l h,
  fnv1a32_dbcscase l false h = fnv1a_spec 32 16777619 h (dbcs_upper (cprefix l) false) /\
  fnv1a64_dbcscase l false h = fnv1a_spec 64 1099511628211 h (dbcs_upper (cprefix l) false).
Proof. exact hash_dbcs. Qed.
Print Assumptions C18_hash_dbcs.

(* CstrTokenR(cstr, sep) = (first, rest): cstr = first ++ tail, no byte of first is NUL or a separator, and either
   tail is empty (then rest is) or tail is a NUL/separator byte followed by rest *)
Theorem C18_token_r : forall a sep,
  let (f, r) := cstr_token_r a sep in
  exists tail, a = f ++ tail /\ Forall (fun c => tok_stop sep c = false) f /\
               ((tail = [] /\ r = []) \/ exists c, tail = c :: r /\ tok_stop sep c = true).
Proof. exact token_r_spec. Qed.
Print Assumptions C18_token_r.

(* calling ReadLine until EOF returns exactly the lines of the stream: split at LF, each without its LF and one
   trailing CR, empty lines included, EOF exactly at the end — and never panics or spins *)
Theorem C18_readline : forall s, read_lines s = Ok (split_lines s).
Proof. exact readline_split_lines. Qed.
Print Assumptions C18_readline.

(* ReadLine over a reader that can FAIL. The stream under the bufio.Reader is a list of events, a byte (< 256) or a
   read error (256 + code; 256 is io.EOF) that the underlying Read hands out once ([read_calls n s]: n calls of
   ReadLine in a row; [RlLine l] is (l, nil), [RlErr c] is (nil, error c); the model is independent of how the bytes
   are cut into Read calls, of bufio's buffer size and of whether the error arrives with the last data).
   For every stream [whole ++ frag ++ e :: rest] where [whole] is any number of complete lines, [frag] is the
   beginning (possibly empty) of the next line and [e] is a read error other than io.EOF: the calls return exactly
   the lines of [whole], then the error e, then whatever the calls on [rest] return. The fragment is never handed
   out as a line: a caller that loops on err == nil ([until_err]) sees the lines of [whole] and the error. *)
Theorem C18_readline_io_error : forall whole frag e rest n,
  (forall c, In c whole -> c < 256) -> (whole = [] \/ exists w, whole = w ++ [10]) ->
  (forall c, In c frag -> c < 256) -> ~ In 10 frag -> 256 < e ->
  exists more, read_calls n rest = Ok more /\
    read_calls (length (split_lines whole) + S n) (whole ++ frag ++ e :: rest)
      = Ok (map RlLine (split_lines whole) ++ RlErr e :: more) /\
    until_err (map RlLine (split_lines whole) ++ RlErr e :: more) = (split_lines whole, Some e).
Proof. exact readline_io_error. Qed.
Print Assumptions C18_readline_io_error.

(* ... and on a stream without read errors the event model is the model of C18_readline: the lines of the stream,
   then io.EOF on every further call *)
Theorem C18_readline_ev_clean : forall s n, (forall c, In c s -> c < 256) ->
  read_calls (length (split_lines s) + n) s = Ok (map RlLine (split_lines s) ++ repeat (RlErr EV_EOF) n) /\
  read_lines s = Ok (split_lines s).
Proof. exact readline_ev_clean. Qed.
Print Assumptions C18_readline_ev_clean.

(* ... and ReadLine returns on every event stream whatsoever (errors anywhere, io.EOF in the middle included) *)
Theorem C18_readline_ev_total : forall n s, exists o, read_calls n s = Ok o /\ length o = n.
Proof. exact read_calls_total. Qed.
Print Assumptions C18_readline_ev_total.

(* cmsys.FileFindRecord / FileExistsRecord read EVERY line of the file, whatever its length: the answer is the
   1-based number of the first line (lines as split_lines cuts them) that matches the key, 0 / false exactly when no
   line of the file matches — in particular a line of any size before the one looked for does not hide it *)
Theorem C18_find_record : forall content key,
  exists idx, file_find_record content key = Ok idx /\ file_exists_record content key = Ok (0 <? idx) /\ 0 <= idx /\
    ((idx = 0 /\ forall l, In l (split_lines content) -> line_matches key l = false) \/
     (exists pre l post, split_lines content = pre ++ l :: post /\ idx = lenZ pre + 1 /\
        line_matches key l = true /\ forall l', In l' pre -> line_matches key l' = false)).
Proof. exact file_find_record_spec. Qed.
Print Assumptions C18_find_record.

(* a line matches when strcasecmp of the NUL-terminated prefixes of the key and of the line's first token is 0; the
   token is a prefix of the line (cmsys.tokenize cuts at the LAST blank/tab/CR/LF of the line), the whole line when
   the line has no such byte *)
Theorem C18_line_matches : forall key line,
  line_matches key line = (strcasecmp_spec (cprefix key) (cprefix (tokenize_first line BYTES_SPACE)) =? 0) /\
  (exists tail, line = tokenize_first line BYTES_SPACE ++ tail) /\
  ((forall c, In c line -> existsb (Z.eqb c) BYTES_SPACE = false) -> tokenize_first line BYTES_SPACE = line).
Proof. exact line_matches_spec. Qed.
Print Assumptions C18_line_matches.

(* the table StripAnsi consults has one entry per byte value; parameter bytes are 0-9 ; = and command
   bytes are ABCDHIJKfhlmsu — re-checked against the table regenerated from cmsys/const.go *)
Theorem C18_escape_flag_spec :
  length ESCAPE_FLAG = 256%nat /\
  forall c, 0 <= c < 256 -> is_escape_param c = param_spec c /\ is_escape_command c = command_spec c.
Proof. exact escape_flag_spec. Qed.
Print Assumptions C18_escape_flag_spec.

(* StripAnsi returns on every input in every mode (truncated sequences included) *)
Theorem C18_stripansi_total : forall s flag, exists o, strip_ansi s flag = Ok o.
Proof. exact stripansi_total. Qed.
Print Assumptions C18_stripansi_total.

(* strip-all mode: no ESC byte survives, and stripping twice equals stripping once *)
Theorem C18_strip_all_no_esc : forall s o, strip_ansi s cmsys.STRIP_ANSI_ALL = Ok o -> ~ In ESC o.
Proof. exact strip_all_no_esc. Qed.
Print Assumptions C18_strip_all_no_esc.

Theorem C18_strip_all_idempotent : forall s o,
  strip_ansi s cmsys.STRIP_ANSI_ALL = Ok o -> strip_ansi o cmsys.STRIP_ANSI_ALL = Ok o.
Proof. exact strip_all_idempotent. Qed.
Print Assumptions C18_strip_all_idempotent.

(* all modes: the input is a sequence of tokens (text byte | ESC [ params cmd | ESC x) up to a NUL, the end, or a
   sequence cut off by the end; the output is the concatenation of what the mode keeps of each token — text always,
   a CSI sequence byte for byte or not at all, nothing else *)
Theorem C18_strip_modes : forall s flag,
  strip_ansi s flag = Ok (concat (map (keep flag) (tokens s))) /\
  (exists rest, s = concat (map raw (tokens s)) ++ rest) /\ Forall token_ok (tokens s).
Proof. exact strip_modes. Qed.
Print Assumptions C18_strip_modes.

(* which CSI sequences a mode keeps: none / colour (cmd 'm') / those with a command byte of ESCAPE_FLAG *)
Theorem C18_strip_modes_keep : forall p c,
  keep cmsys.STRIP_ANSI_ALL (TCsi p c) = [] /\
  keep cmsys.STRIP_ANSI_ONLY_COLOR (TCsi p c) = (if c =? 109 then raw (TCsi p c) else []) /\
  keep cmsys.STRIP_ANSI_NO_RELOAD (TCsi p c) = (if is_escape_command c then raw (TCsi p c) else []).
Proof. exact keep_modes. Qed.
Print Assumptions C18_strip_modes_keep.

(* StripNoneBig5: the output consists of printable ASCII bytes and complete lead/trail pairs only, is a fixed
   point of the function, and the caller's array keeps its length *)
Theorem C18_dbcs_wellformed : forall s,
  big5_units (strip_none_big5 s) /\ strip_none_big5 (strip_none_big5 s) = strip_none_big5 s /\
  length (write_back s (strip_none_big5 s)) = length s.
Proof. exact dbcs_wellformed. Qed.
Print Assumptions C18_dbcs_wellformed.

(* DBCSStatus(str, pos) is the lead/trail parity of str[0..pos] (0 for pos < 0 and for empty input) *)
Theorem C18_dbcs_status : forall s pos,
  dbcs_status s pos = Ok (if pos <? 0 then 0 else dbcs_final (firstn (Z.to_nat (pos + 1)) s)).
Proof. exact dbcs_status_spec. Qed.
Print Assumptions C18_dbcs_status.

(* DBCSSafeTrim returns its input or its input without the last byte; it cuts exactly when the input ends in a
   dangling lead byte, and the result never does *)
Theorem C18_safetrim : forall s,
  exists r, dbcs_safe_trim s = Ok r /\ (r = s \/ exists c, s = r ++ [c]) /\ (r = s <-> dbcs_final s <> 1) /\ dbcs_final r <> 1.
Proof. exact safetrim_spec. Qed.
Print Assumptions C18_safetrim.

(* TrimDBCS: the same on the NUL-terminated prefix of an array, which keeps its length *)
Theorem C18_trimdbcs : forall a,
  exists r arr, trim_dbcs a = Ok (r, arr) /\ (r = cprefix a \/ exists c, cprefix a = r ++ [c]) /\
                (r = cprefix a <-> dbcs_final (cprefix a) <> 1) /\ dbcs_final r <> 1 /\ length arr = length a.
Proof. exact trimdbcs_spec. Qed.
Print Assumptions C18_trimdbcs.

(* SubjectEx terminates without a panic; the new title is a suffix of the NUL-terminated title with no reply/forward
   tag left in front ([no_prefix_left]); the type is NORMAL exactly when nothing was removed, otherwise it is the type
   of the tag removed last ([last_chunk]: REPLY for "Re:", FORWARD for "Fw:" and the legacy tag, compared byte-wise
   case-insensitively, each followed by at most one blank); the cut never falls after a lead byte *)
Theorem C18_subjectex : forall title,
  exists ty pre rest, subject_ex title = Ok (ty, rest) /\ cprefix title = pre ++ rest /\
    ((pre = [] /\ ty = ptttype.SUBJECT_NORMAL) \/ (pre <> [] /\ last_chunk ty pre)) /\
    no_prefix_left rest /\ dbcs_final pre <> 1.
Proof. exact subjectex_spec. Qed.
Print Assumptions C18_subjectex.

(* StripANSIMoveCmd keeps the length; a byte either stays or is a cursor-movement command byte replaced by 's';
   text without ESC is returned unchanged; and a byte that changes is the command byte of a cursor-movement sequence:
   ESC, then bytes of "0123456789;,[" only, then one of "ABCDfjHJRu" ([move_seq_end]) *)
Theorem C18_movecmd : forall s,
  length (strip_movecmd s) = length s /\ Forall2 move_rel s (strip_movecmd s) /\ (~ In ESC s -> strip_movecmd s = s) /\
  (forall i, nth i (strip_movecmd s) 0 <> nth i s 0 -> nth i (strip_movecmd s) 0 = 115 /\ move_seq_end s i).
Proof. exact movecmd_spec. Qed.
Print Assumptions C18_movecmd.

(* Trim / StripBlank: prefix of the (NUL-terminated) input, cut before the trailing blanks / at the first blank *)
Theorem C18_trim : forall s, exists sp, cprefix s = trim s ++ sp /\ Forall (fun c => c = 32) sp /\ last (trim s) 0 <> 32.
Proof. exact trim_spec. Qed.
Print Assumptions C18_trim.

Theorem C18_strip_blank : forall s,
  exists rest, s = strip_blank s ++ rest /\ ~ In 32 (strip_blank s) /\ (rest = [] \/ exists t, rest = 32 :: t).
Proof. exact strip_blank_spec. Qed.
Print Assumptions C18_strip_blank.

(* no helper whose code indexes, slices or loops on a condition returns Crash or Hang, on any input *)
Theorem C18_no_crash :
  (forall s, exists ls, read_lines s = Ok ls) /\
  (forall a, exists r, trim_dbcs a = Ok r) /\
  (forall s flag, exists o, strip_ansi s flag = Ok o) /\
  (forall s pos, exists st, dbcs_status s pos = Ok st) /\
  (forall s, exists r, dbcs_safe_trim s = Ok r) /\
  (forall title, exists r, subject_ex title = Ok r).
Proof. exact no_crash. Qed.
Print Assumptions C18_no_crash.

(* ... and the same for the very function the harness extracts and runs against the implementation on every case:
   [run_case] answers status 0 (ok) or 9 (malformed case line), never 1 (crash) or 2 (hang) *)
Theorem C18_run_case_status : forall args, hd 9 (run_case args) = ST_OK \/ hd 9 (run_case args) = ST_BADCASE.
Proof. exact run_case_status. Qed.
Print Assumptions C18_run_case_status.

(* A helper called on buf[:n] of a LARGER buffer (a Go slice with len < cap, e.g. a prefix of a dirty arena): whatever
   bytes [snd p] lie behind the inputs [fst p], the call (operation 28 of the harness) answers exactly what the helper
   answers on the inputs alone, and the bytes behind every input are afterwards what they were - the helpers are
   functions of the len bytes of their arguments and write nowhere else. *)
Theorem C18_window_frame : forall iop ps extra,
  let out := run_op_base iop (map fst ps ++ extra) in
  hd 9 out = ST_OK ->
  run_case ([28] :: [iop] :: win_lens ps :: win_bufs ps ++ extra) = ST_OK :: lenZ out :: out ++ concat (map snd ps).
Proof. exact window_frame. Qed.
Print Assumptions C18_window_frame.

(* Helpers called by g goroutines of one process for any number of rounds (operation 29): the model helpers have no
   state, so every case has ONE answer, the one it gives when called alone. What this theorem fixes is the
   specification the implementation is held against; that the Go helpers really share no state between concurrent
   calls is VALIDATED by running them in parallel (manifest level_note), not proved. *)
Theorem C18_concurrent_independent : forall g rounds cases, 1 <= g <= 64 -> 1 <= rounds ->
  run_case ([29] :: [g; rounds] :: conc_groups cases) =
  ST_OK :: lenZ cases :: wire_conc (map (fun c => run_op_base (fst c) (snd c)) cases).
Proof. exact conc_independent. Qed.
Print Assumptions C18_concurrent_independent.
