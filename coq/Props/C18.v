(* C18 — Byte-string primitives agree with their C counterparts and never crash.
   Only statements here; every proof is `exact <lemma of Proofs/C18*.v>`. *)
From Verif Require Import Base.Common Gen.Consts_default Gen.AnsiTab Gen.StrTab Model.C18 Proofs.C18.

(* the table StripAnsi consults has one entry per byte value; parameter bytes are 0-9 ; = and command
   bytes are ABCDHIJKfhlmsu — re-checked against the table regenerated from cmsys/const.go *)
Theorem C18_escape_flag_spec :
  length ESCAPE_FLAG = 256%nat /\
  forall c, 0 <= c < 256 -> is_escape_param c = param_spec c /\ is_escape_command c = command_spec c.
Proof. exact escape_flag_spec. Qed.
Print Assumptions C18_escape_flag_spec.
