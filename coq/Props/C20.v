(* C20 — A user's balance is the same in shared memory and .PASSWDS and never negative.
   Only statements here; every proof is `exact <lemma of Proofs/C20.v>`.
   Vocabulary (Model/C20.v): st = (shm : index -> balance of the segment, file : bytes of .PASSWDS);
   step / run = SetUMoney, DeUMoney, MoneyOf as written in cache/cache_money.go and cache/passwd.go;
   spec_step / spec_run = plain arithmetic on a map slot -> balance (set, credit, saturating debit);
   valid u = 1 <= u <= MAX_USERS; hist_ok = every operation is on a valid slot, every amount is an int32 and
   every sum stays inside int32; Agree s b = the file has MAX_USERS records and on every valid slot
   segment = Money field of the record = b. *)
From Verif Require Import Base.Common Model.C20 Proofs.C20.

(* a cold load of any .PASSWDS of MAX_USERS records starts the three views in agreement *)
Theorem C20_load_agree : forall f, length f = Z.to_nat (MAXU * RECSZ) ->
  Agree (cold_load f) (fun u => money_field f u).
Proof. exact load_agree. Qed.
Print Assumptions C20_load_agree.

(* for all histories on valid slots (first and last included) whose sums stay inside int32, after EVERY step
   (every prefix of the history) and on every valid slot: the segment, the decoded Money field of the record,
   what MoneyOf answers and plain arithmetic are equal; and every call returned the arithmetic value, no error *)
Theorem C20_agree : forall h s b n, Agree s b -> hist_ok b h ->
  let h' := firstn n h in
  (forall u, valid u ->
     shm (fst (run s h')) (u - 1) = fst (spec_run b h') u /\
     money_field (file (fst (run s h'))) u = fst (spec_run b h') u /\
     money_of (fst (run s h')) u = Ok (fst (spec_run b h') u)) /\
  snd (run s h') = map OVal (snd (spec_run b h')).
Proof. exact agree_every_step. Qed.
Print Assumptions C20_agree.

(* a debit larger than the balance leaves 0 in the segment, in the file and in arithmetic, and returns 0
   (every int32 amount, -2^31 included) *)
Theorem C20_saturate : forall s b u m, Agree s b -> valid u -> int32 m -> m < 0 -> b u < - m ->
  let s' := fst (step s (OpDe u m)) in
  snd (step s (OpDe u m)) = OVal 0 /\ shm s' (u - 1) = 0 /\ money_field (file s') u = 0 /\
  fst (spec_step b (OpDe u m)) u = 0.
Proof. exact saturate. Qed.
Print Assumptions C20_saturate.

(* if no balance starts negative and no *set* amount is negative, no balance is ever negative, in either copy *)
Theorem C20_nonneg : forall h s b, Agree s b -> (forall u, valid u -> 0 <= b u) -> hist_ok b h -> sets_nonneg h ->
  forall u, valid u -> 0 <= shm (fst (run s h)) (u - 1) /\ 0 <= money_field (file (fst (run s h))) u.
Proof. exact nonneg. Qed.
Print Assumptions C20_nonneg.

(* an operation on an invalid slot (any integer outside 1..MAX_USERS, any amount, any state) returns an error
   and leaves segment and file exactly as they were *)
Theorem C20_invalid_slot : forall s u m, ~ valid u ->
  step s (OpSet u m) = (s, OErr (-1) ERR_INVALID_UID) /\ step s (OpDe u m) = (s, OErr (-1) ERR_INVALID_UID).
Proof. exact invalid_slot. Qed.
Print Assumptions C20_invalid_slot.

(* frame: whatever the operation does, the file keeps its length, every byte outside the 4 bytes of the
   addressed record's Money field is unchanged (all other records, all other fields of this one), and
   no other balance of the segment changes *)
Theorem C20_frame : forall s o, length (file s) = Z.to_nat (MAXU * RECSZ) ->
  let s' := fst (step s o) in let u := target o in
  length (file s') = length (file s) /\
  (forall i, (i < money_pos u \/ money_pos u + 4 <= i)%nat -> nth i (file s') 0 = nth i (file s) 0) /\
  (forall j, j <> u - 1 -> shm s' j = shm s j).
Proof. exact frame. Qed.
Print Assumptions C20_frame.

(* ... and those 4 bytes lie inside record u *)
Theorem C20_field_inside_record : forall u, valid u ->
  RECSZ * (u - 1) <= Z.of_nat (money_pos u) /\ Z.of_nat (money_pos u) + 4 <= RECSZ * u.
Proof. exact money_pos_in_record. Qed.
Print Assumptions C20_field_inside_record.
