(* C20 — A user's balance is the same in shared memory and .PASSWDS and never negative.
   Only statements here; every proof is `exact <lemma of Proofs/C20.v>`.
   Vocabulary (Model/C20.v): st = (shm : index -> balance of the segment, file : bytes of .PASSWDS);
   step / run = SetUMoney, DeUMoney, MoneyOf as written in cache/cache_money.go and cache/passwd.go, and the other
   writers of a user's record interleaved with them: OpRewrite u rec = ptt.passwdSyncUpdate(u, rec) (the end of
   every pwcu* update, SetUserPerm, killUser, SetupNewUser) with ANY record rec of the caller's — any Money in it,
   stale or zero —, OpPart u k bs = cmbbs.PasswdUpdatePasswd / PasswdUpdateEmail;
   spec_step / spec_run = plain arithmetic on a map slot -> balance (set, credit, saturating debit; the record
   writers change no balance);
   valid u = 1 <= u <= MAX_USERS; hist_ok = every operation is on a valid slot, every amount is an int32,
   every sum stays inside int32, a record has USEREC_RAW_SZ bytes and a field its own size; Agree s b = the file
   has MAX_USERS records and on every valid slot segment = Money field of the record = b. *)
From Verif Require Import Base.Common Model.C20 Proofs.C20.

(* a cold load of any .PASSWDS of MAX_USERS records starts the three views in agreement *)
Theorem C20_load_agree : forall f, length f = Z.to_nat (MAXU * RECSZ) ->
  Agree (cold_load f) (fun u => money_field f u).
Proof. exact load_agree. Qed.
Print Assumptions C20_load_agree.

(* for all histories on valid slots (first and last included) whose sums stay inside int32 — money operations
   interleaved in any order with whole-record write-backs of arbitrary caller records and one-field updates —,
   after EVERY step (every prefix of the history) and on every valid slot: the segment, the decoded Money field of
   the record, what MoneyOf answers and plain arithmetic are equal; and every call returned the arithmetic value
   (a write-back hands the balance back in the caller's record), no error *)
Theorem C20_agree : forall h s b n, Agree s b -> hist_ok b h ->
  let h' := firstn n h in
  (forall u, valid u ->
     shm (fst (run s h')) (u - 1) = fst (spec_run b h') u /\
     money_field (file (fst (run s h'))) u = fst (spec_run b h') u /\
     money_of (fst (run s h')) u = Ok (fst (spec_run b h') u)) /\
  snd (run s h') = map OVal (snd (spec_run b h')).
Proof. exact agree_every_step. Qed.
Print Assumptions C20_agree.

(* a debit larger than the balance leaves 0 in the segment, in the file and in arithmetic, and returns 0
   (every int32 amount, -2^31 included) *)
Theorem C20_saturate : forall s b u m, Agree s b -> valid u -> int32 m -> m < 0 -> b u < - m ->
  let s' := fst (step s (OpDe u m)) in
  snd (step s (OpDe u m)) = OVal 0 /\ shm s' (u - 1) = 0 /\ money_field (file s') u = 0 /\
  fst (spec_step b (OpDe u m)) u = 0.
Proof. exact saturate. Qed.
Print Assumptions C20_saturate.

(* if no balance starts negative and no *set* amount is negative, no balance is ever negative, in either copy *)
Theorem C20_nonneg : forall h s b, Agree s b -> (forall u, valid u -> 0 <= b u) -> hist_ok b h -> sets_nonneg h ->
  forall u, valid u -> 0 <= shm (fst (run s h)) (u - 1) /\ 0 <= money_field (file (fst (run s h))) u.
Proof. exact nonneg. Qed.
Print Assumptions C20_nonneg.

(* an operation on an invalid slot (any integer outside 1..MAX_USERS, any amount, any state) returns an error
   and leaves segment and file exactly as they were *)
Theorem C20_invalid_slot : forall s u m, ~ valid u ->
  step s (OpSet u m) = (s, OErr (-1) ERR_INVALID_UID) /\ step s (OpDe u m) = (s, OErr (-1) ERR_INVALID_UID).
Proof. exact invalid_slot. Qed.
Print Assumptions C20_invalid_slot.

(* ... the same for the writers of the whole record / of one field: error, nothing written *)
Theorem C20_invalid_slot_writers : forall s u (rec : list Z) k (bs : list Z), ~ valid u ->
  step s (OpRewrite u rec) = (s, OErr (rec_money rec) ERR_INVALID_UID) /\ step s (OpPart u k bs) = (s, OErr 0 ERR_INVALID_UID).
Proof. exact invalid_slot_writers. Qed.
Print Assumptions C20_invalid_slot_writers.

(* the overlay of passwdSyncUpdate, with NO agreement assumed: after a whole-record write-back of any record rec the
   Money field of record u in the file is the balance the segment holds (whatever Money rec carried, whatever the
   file held), the call hands that balance back, no balance of the segment changes, and every other byte of the
   record in the file is rec's *)
Theorem C20_rewrite_overlay : forall s u (rec : list Z), length (file s) = Z.to_nat (MAXU * RECSZ) -> valid u ->
  length rec = Z.to_nat RECSZ -> int32 (shm s (u - 1)) ->
  let s' := fst (step s (OpRewrite u rec)) in
  snd (step s (OpRewrite u rec)) = OVal (shm s (u - 1)) /\
  money_field (file s') u = shm s (u - 1) /\
  (forall j, shm s' j = shm s j) /\
  (forall k, (k < Z.to_nat RECSZ)%nat -> (k < Z.to_nat MONEY_OFF \/ Z.to_nat MONEY_OFF + 4 <= k)%nat ->
     nth (rec_pos u + k) (file s') 0 = nth k rec 0).
Proof. exact rewrite_overlay. Qed.
Print Assumptions C20_rewrite_overlay.

(* frame: whatever the operation does, the file keeps its length, every byte outside the operation's footprint is
   unchanged, and no other balance of the segment changes. footprint (Model/C20.v) = the 4 bytes of the addressed
   record's Money field for SetUMoney / DeUMoney / MoneyOf (so: all other records and all other fields of this one
   are unchanged, as before), the addressed record for a whole-record write-back, the field for a one-field update *)
Theorem C20_frame : forall s o, length (file s) = Z.to_nat (MAXU * RECSZ) -> op_shape o ->
  let s' := fst (step s o) in let u := target o in let p := fst (footprint o) in let n := snd (footprint o) in
  length (file s') = length (file s) /\
  (forall i, (i < p \/ p + n <= i)%nat -> nth i (file s') 0 = nth i (file s) 0) /\
  (forall j, j <> u - 1 -> shm s' j = shm s j).
Proof. exact frame. Qed.
Print Assumptions C20_frame.

(* ... the record writers change no balance of the segment at all *)
Theorem C20_writers_keep_segment : forall s o, length (file s) = Z.to_nat (MAXU * RECSZ) -> op_shape o ->
  match o with OpRewrite _ _ | OpPart _ _ _ => forall j, shm (fst (step s o)) j = shm s j | _ => True end.
Proof. exact writers_keep_shm. Qed.
Print Assumptions C20_writers_keep_segment.

(* ... every footprint of an operation on a valid slot lies inside that slot's record *)
Theorem C20_footprint_inside_record : forall o, valid (target o) ->
  RECSZ * (target o - 1) <= Z.of_nat (fst (footprint o)) /\
  Z.of_nat (fst (footprint o)) + Z.of_nat (snd (footprint o)) <= RECSZ * target o.
Proof. exact footprint_in_record. Qed.
Print Assumptions C20_footprint_inside_record.

(* "no other user's record changes", for whole histories (any slots, valid or not, any operations): a user v that no
   operation of the history addresses keeps every byte of the record and the balance in the segment *)
Theorem C20_frame_history : forall h s v, length (file s) = Z.to_nat (MAXU * RECSZ) -> Forall op_shape h -> valid v ->
  (forall o, In o h -> target o <> v) ->
  length (file (fst (run s h))) = length (file s) /\
  (forall i, RECSZ * (v - 1) <= Z.of_nat i < RECSZ * v -> nth i (file (fst (run s h))) 0 = nth i (file s) 0) /\
  shm (fst (run s h)) (v - 1) = shm s (v - 1).
Proof. exact run_frame. Qed.
Print Assumptions C20_frame_history.

(* ... and the 4 bytes of the Money field lie inside record u *)
Theorem C20_field_inside_record : forall u, valid u ->
  RECSZ * (u - 1) <= Z.of_nat (money_pos u) /\ Z.of_nat (money_pos u) + 4 <= RECSZ * u.
Proof. exact money_pos_in_record. Qed.
Print Assumptions C20_field_inside_record.

(* ---- writes that are refused, disagreement that is already there (Model/C20.v: xop, xstep, xrun) ----
   XOk o = the call o goes through; XRefused o = the same call while .PASSWDS refuses the write (file away / device
   full): an error comes back, nothing is written — SetUMoney has already stored the balance into the segment;
   XPlantShm / XPlantFile = the segment's balance / the record's Money field is changed alone (a process that died
   between the two stores; a restore of the file). xspec_run: arithmetic follows the segment, and a set d of dirty slots
   is kept: a refused set/credit/debit and a planted value make the slot dirty, every SUCCESSFUL set / credit / debit /
   whole-record write-back makes it clean. xhist_ok = valid slots, int32 amounts, sums inside int32.

   For all such histories from an agreeing state, after EVERY step, on every valid slot: segment = MoneyOf = arithmetic,
   and the Money field of the record is equal too on every slot that is not dirty; every call returns what the
   specification says (the arithmetic value, or the error for a refused write). In particular a successful operation
   always writes the file: it cannot leave its slot dirty. *)
Theorem C20_resync_histories : forall h s b n, Agree s b -> xhist_ok b (fun _ => false) h ->
  let h' := firstn n h in
  let s' := fst (xrun s h') in let b' := fst (fst (xspec_run b (fun _ => false) h')) in
  let d' := snd (fst (xspec_run b (fun _ => false) h')) in
  (forall u, valid u ->
     shm s' (u - 1) = b' u /\ money_of s' u = Ok (b' u) /\ (d' u = false -> money_field (file s') u = b' u)) /\
  snd (xrun s h') = snd (xspec_run b (fun _ => false) h').
Proof. exact resync_every_step. Qed.
Print Assumptions C20_resync_histories.

(* the repair in one call, with NO agreement between the file and the segment assumed for any slot d marks: a successful
   SetUMoney / DeUMoney / passwdSyncUpdate on slot u leaves segment = Money field of the record = the value returned
   = m for a set, the saturating sum computed from the segment's balance for a credit/debit, the segment's balance for a
   write-back — whatever .PASSWDS held before *)
Theorem C20_write_resyncs : forall s b d x u, AgreeExcept s b d -> xop_ok b x ->
  (exists m, x = XOk (OpSet u m)) \/ (exists m, x = XOk (OpDe u m)) \/ (exists rec, x = XOk (OpRewrite u rec)) ->
  let s' := fst (xstep s x) in let b' := fst (fst (xspec_step b d x)) in
  shm s' (u - 1) = b' u /\ money_field (file s') u = b' u /\ snd (xstep s x) = OVal (b' u) /\
  b' u = match x with XOk (OpSet _ m) => m | XOk (OpDe _ m) => de_value b u m | _ => b u end.
Proof. exact write_resyncs. Qed.
Print Assumptions C20_write_resyncs.

(* ---- any table size (Model/C20.v: gst, g_step, g_run) ----
   The same Go functions on a table of N slots, .PASSWDS abstracted to the Money field of each record (bytes and codec:
   the theorems above; the record layout is the same in both builds). For EVERY table size 0 < N < 2^31, every history
   as above, after every step, on every slot 1..N: segment = MoneyOf = arithmetic = Money field unless dirty. *)
Theorem C20_any_table_size : forall N, 0 < N < 2147483648 -> forall h s b d n, GAgree N s b d -> g_hist_ok N b d h ->
  let h' := firstn n h in
  let s' := fst (g_run N s h') in let b' := fst (fst (xspec_run b d h')) in let d' := snd (fst (xspec_run b d h')) in
  (forall u, 1 <= u <= N ->
     gshm s' (u - 1) = b' u /\ g_money_of N s' u = Ok (b' u) /\ (d' u = false -> gfld s' u = b' u)) /\
  snd (g_run N s h') = snd (xspec_run b d h').
Proof. exact any_size_every_step. Qed.
Print Assumptions C20_any_table_size.

(* ... instantiated at MAX_USERS of the production build (-tags docker; g_size 1 is regenerated from
   ptttype/01-config-docker.go): all 2 000 000 slots, 65 537 and the last one like the first *)
Theorem C20_production_table : forall h s b d n, GAgree (g_size 1) s b d -> g_hist_ok (g_size 1) b d h ->
  let h' := firstn n h in
  let s' := fst (g_run (g_size 1) s h') in let b' := fst (fst (xspec_run b d h')) in let d' := snd (fst (xspec_run b d h')) in
  (forall u, 1 <= u <= 2000000 ->
     gshm s' (u - 1) = b' u /\ g_money_of (g_size 1) s' u = Ok (b' u) /\ (d' u = false -> gfld s' u = b' u)) /\
  snd (g_run (g_size 1) s h') = snd (xspec_run b d h').
Proof. exact production_size_every_step. Qed.
Print Assumptions C20_production_table.

(* ---- operations issued concurrently, each goroutine on slots of its own (the logic part; see manifest level_note) ----
   Arithmetic for slot u after ANY history h - in particular after any interleaving of the operations of several
   goroutines, taken as wholes - is the arithmetic of u's own operations in their own order: the operations addressed to
   other slots, wherever they fall in between, do not matter. *)
Theorem C20_interleaving_independent : forall h b u,
  fst (spec_run b h) u = fst (spec_run b (filter (fun o => target o =? u) h)) u.
Proof. exact slot_own_history. Qed.
Print Assumptions C20_interleaving_independent.

(* ... and so, with C20_agree, do the segment and the Money field of the record: after any interleaving h of whole operations
   (valid slots, sums inside int32) both hold what u's own operations compute. That an operation of one goroutine behaves as a
   whole while another goroutine is inside its own (no state shared between two calls of one process) is NOT a theorem:
   it is validated on the real code, see checks/C20.py (kind 6). *)
Theorem C20_interleaved_whole_operations : forall h s b u, Agree s b -> hist_ok b h -> valid u ->
  shm (fst (run s h)) (u - 1) = fst (spec_run b (filter (fun o => target o =? u) h)) u /\
  money_field (file (fst (run s h))) u = fst (spec_run b (filter (fun o => target o =? u) h)) u.
Proof. exact interleaved_whole_ops. Qed.
Print Assumptions C20_interleaved_whole_operations.
