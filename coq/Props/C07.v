(* C07 — Board read access is enforced identically at every read entry point.
   Only statements here; every proof is `exact <lemma of Proofs/C07.v>`.
   [inp] is the record of the 16 facts about a caller and a board the code looks at (Model/C07.v);
   [perm_stat] mirrors boardPermStat/boardPermStatNormally/IsBMCache step by step; [may_read] / [may_list]
   are the specification written from the property text. *)
From Verif Require Import Base.Common Gen.Consts_default Model.C07 Proofs.C07.

(* the coded decision sequence allows exactly when the specification allows — for every one of the 2^16
   combinations of inputs (evaluated exhaustively inside the kernel) *)
Theorem C07_rule : forall i : inp, perm_stat i <> NBRD_INVALID <-> may_read i = true.
Proof. exact rule. Qed.
Print Assumptions C07_rule.

(* the function the harness runs on the numbers the code sees (user level, board attribute and level words)
   is the rule above applied to the abstraction of those numbers, for all numbers *)
Theorem C07_rule_on_bits : forall ulevel o18 inbm fr nbm battr blevel,
  perm_stat_bits ulevel o18 inbm fr battr blevel = perm_stat (abs ulevel o18 inbm fr nbm battr blevel) /\
  group_op_bits ulevel nbm = group_op (abs ulevel o18 inbm fr nbm battr blevel) /\
  consistent (abs ulevel o18 inbm fr nbm battr blevel) = true.
Proof. exact rule_on_bits. Qed.
Print Assumptions C07_rule_on_bits.

(* every consistent row of the decision table is the abstraction of some 32-bit user level, board attribute
   and board level: the table the harness materialises has no unreachable rows *)
Theorem C07_rows_realisable : forall i, consistent i = true ->
  exists ulevel battr blevel, 0 <= ulevel < 2 ^ 32 /\ 0 <= battr < 2 ^ 32 /\ 0 <= blevel < 2 ^ 32 /\
    abs ulevel (i_uover18 i) (i_inbm i) (i_friend i) (i_namedbm i) battr blevel = i.
Proof. exact rows_realisable. Qed.
Print Assumptions C07_rows_realisable.

(* the permission and attribute bits regenerated from the Go source equal the frozen reference values — in the default
   build the harness links AND in every build configuration gosync translates ([build]: Default = Gen/Consts_default.v,
   Docker = Gen/Consts_docker.v, the production build -tags docker): [build_words c] lists the same 19 constants in the
   same order as that build has them, [use_real_desc c] is its USE_REAL_DESC_FOR_HIDDEN_BOARD_IN_MYFAV. A change of
   either configuration file that moves one of them breaks this obligation. *)
Theorem C07_constants :
  PERM_BASIC = 1 /\ PERM_LOGINOK = 16 /\ PERM_BM = 1024 /\ PERM_BOARD = 8192 /\ PERM_SYSOP = 16384 /\
  PERM_NOCITIZEN = 4194304 /\ PERM_POLICE_MAN = 268435456 /\ PERM_POLICE = 2147483648 /\
  BRD_GROUPBOARD = 8 /\ BRD_HIDE = 16 /\ BRD_POSTMASK = 32 /\ BRD_SYMBOLIC = 32768 /\ BRD_OVER18 = 16777216 /\
  NBRD_INVALID = 0 /\ NBRD_FAV = 1 /\ NBRD_BOARD = 2 /\ NBRD_LINE = 4 /\ NBRD_FOLDER = 8 /\ USE_REAL_DESC = 0 /\
  (forall c : build, build_words c =
     [1; 16; 1024; 8192; 16384; 4194304; 268435456; 2147483648; 8; 16; 32; 32768; 16777216; 0; 1; 2; 4; 8; 0]) /\
  (forall c : build, use_real_desc c = 0).
Proof. exact constants. Qed.
Print Assumptions C07_constants.

(* every article-returning entry point (validity query, article list, pinned list, cursor search, article body,
   post template) answers with the board's data exactly when [may_read] holds and with "not permitted" otherwise *)
Theorem C07_entry_points : forall i : inp,
  ep_is_board_valid_user i = Data (may_read i) /\
  (forall A total (recs : list A), ep_load_general_articles i total recs =
     if may_read i then (if total =? 0 then Data [] else Data recs) else NotPermitted) /\
  (forall A total (recs : list A), ep_load_bottom_articles i total recs =
     if may_read i then (if total =? 0 then Data [] else Data recs) else NotPermitted) /\
  (forall total idx, ep_find_article_start_idx i total idx =
     if may_read i then (if total =? 0 then OtherErr 2 else Data idx) else NotPermitted) /\
  (forall A fn0 (content : A), ep_read_post i fn0 content =
     if (fn0 =? 76) || (fn0 =? 0) then OtherErr 1 else if may_read i then Data content else NotPermitted) /\
  (forall A (content : A), ep_read_post_template i content = if may_read i then Data content else NotPermitted).
Proof. exact entry_points. Qed.
Print Assumptions C07_entry_points.

(* the same for EVERY board content (no article at all, articles but no pinned one, pinned ones only, both; the
   article file / post template present or not; the pinned counter of the shared segment loaded or not): the validity
   query answers [may_read], and every other article entry point answers "not permitted" — read from the error
   value, [refused], never from whether the payload is empty — exactly when [may_read] is false. In particular an
   entry point that looks at the content first (returning an empty list for an empty board before asking the rule)
   does not satisfy this statement. *)
Theorem C07_entry_points_any_content : forall (i : inp) (c : content),
  epc_is_board_valid_user i c = Data (may_read i) /\
  refused (epc_load_general_articles i c) = negb (may_read i) /\
  refused (epc_load_bottom_articles i c) = negb (may_read i) /\
  refused (epc_find_article_start_idx i c) = negb (may_read i) /\
  (forall fn0, (fn0 =? 76) || (fn0 =? 0) = false -> refused (epc_read_post i fn0 c) = negb (may_read i)) /\
  refused (epc_read_post_template i c) = negb (may_read i).
Proof. exact entry_points_any_content. Qed.
Print Assumptions C07_entry_points_any_content.

(* ... and what a permitted caller receives is the board's content: the records (the empty list where the counter
   is 0), the position, the file (or the error of the missing file) *)
Theorem C07_entry_points_content_data : forall (i : inp) (c : content), may_read i = true ->
  epc_load_general_articles i c = Data (if c_total c =? 0 then [] else c_recs c) /\
  epc_load_bottom_articles i c = Data (if c_nbottom c =? 0 then [] else c_pinned c) /\
  epc_find_article_start_idx i c = (if c_total c =? 0 then OtherErr 2 else Data (c_idx c)) /\
  (forall fn0, (fn0 =? 76) || (fn0 =? 0) = false -> epc_read_post i fn0 c = file_outcome (c_body c)) /\
  epc_read_post_template i c = file_outcome (c_template c).
Proof. exact entry_points_content_data. Qed.
Print Assumptions C07_entry_points_content_data.

(* board listings (general, auto-complete, by ids, hot): what is shown is a board the caller may read, or
   administers, or is a named moderator of — and it then carries its title; conversely such a board that passes
   the listing's own filter (named, not a group/link where the listing excludes those, keyword) is shown *)
Theorem C07_listing : forall u bs,
  (forall s, In s (load_general_boards u bs) \/ In s (load_autocomplete_boards u bs) \/ In s (load_boards_by_bids u bs) \/ In s (load_hot_boards u bs) ->
     exists b, In b bs /\ s_bid s = b_bid b /\ may_list (row u b) = true /\ s_title s = may_list (row u b)) /\
  (forall b, In b bs -> b_named b = true -> may_list (row u b) = true ->
     (is_group b = false -> b_match b = true -> In (summarize false u b) (load_general_boards u bs)) /\
     (is_group b = false -> In b (take_while b_match bs) -> In (summarize false u b) (load_autocomplete_boards u bs)) /\
     In (summarize true u b) (load_boards_by_bids u bs) /\
     (is_group b = false -> In (summarize false u b) (load_hot_boards u bs)) /\
     s_title (summarize false u b) = true /\ s_title (summarize true u b) = true).
Proof. exact listing. Qed.
Print Assumptions C07_listing.

(* the class listing (LoadClassBoards: the walk along the sibling chain of a class, at most ChildCount + 5 entries as in
   pttbbs) RETURNS for every chain — also when children are refused, are no classes or are vacated slots: the walk
   goes on with the next sibling — and what it returns is the chain filtered by "named class or link that the caller
   may read, or administers, or is a named moderator of", in chain order. So every entry is such a child and carries
   its title (sound), and, when the listable children fit the bound and the chain holds every board once, a child is
   listed exactly when the rule allows or the caller administers boards or is a named moderator (complete). *)
Theorem C07_class_listing : forall u cc chain,
  exists l, load_class_boards u cc chain = Ok l /\
    l = firstn (cc + 5) (map (summarize true u) (filter (class_listable u) chain)) /\
    (forall s, In s l -> exists b, In b chain /\ s = summarize true u b /\ s_bid s = b_bid b /\
       b_named b = true /\ is_group b = true /\ may_list (row u b) = true /\ s_title s = true) /\
    ((length (filter (class_listable u) chain) <= cc + 5)%nat -> NoDup (map b_bid chain) ->
       forall b, In b chain -> (In (b_bid b) (map s_bid l) <-> b_named b && is_group b && may_list (row u b) = true)).
Proof. exact class_listing. Qed.
Print Assumptions C07_class_listing.

(* the full class listing (LoadFullClassBoards: every board number in turn) is the same filter over all boards *)
Theorem C07_full_class_listing : forall u boards,
  load_full_class_boards u boards = map (summarize true u) (filter (class_listable u) boards) /\
  (forall s, In s (load_full_class_boards u boards) -> exists b, In b boards /\ s = summarize true u b /\ s_bid s = b_bid b /\
     b_named b = true /\ is_group b = true /\ may_list (row u b) = true /\ s_title s = true) /\
  (forall b, In b boards -> b_named b && is_group b && may_list (row u b) = true -> In (summarize true u b) (load_full_class_boards u boards)).
Proof. exact full_class_listing. Qed.
Print Assumptions C07_full_class_listing.

(* the single-board summary always answers; it reveals the title exactly when the caller may list the board *)
Theorem C07_summary_title : forall u b,
  s_title (load_board_summary u b) = may_list (row u b) /\ s_bid (load_board_summary u b) = b_bid b.
Proof. exact summary_title. Qed.
Print Assumptions C07_summary_title.

(* the same in EVERY build configuration ([load_board_summary_in c]: LoadBoardSummary compiled with the options of build
   c — the production build -tags docker included): the title is revealed exactly when the caller may list the board; and
   no entry of a listing depends on a build option at all (the entries of a listing are of boards the caller may list, by
   C07_listing / C07_class_listing, and for those the summary is the same function whatever the option) *)
Theorem C07_summary_title_every_build : forall c : build,
  (forall u b, s_title (load_board_summary_in c u b) = may_list (row u b) /\ s_bid (load_board_summary_in c u b) = b_bid b) /\
  (forall pf u b, may_list (row u b) = true -> summarize_with (use_real_desc c) pf u b = summarize pf u b).
Proof. exact every_build. Qed.
Print Assumptions C07_summary_title_every_build.

(* ... and the guarantee holds for a build EXACTLY when its option USE_REAL_DESC_FOR_HIDDEN_BOARD_IN_MYFAV is off
   ([load_board_summary_with urd]: the function compiled with the option at urd): a configuration that switches it on
   reveals the title of an unreadable board, so the value of the option in each build is part of the property *)
Theorem C07_summary_title_iff_option_off : forall urd : Z,
  (forall u b, s_title (load_board_summary_with urd u b) = may_list (row u b)) <-> urd = 0.
Proof. exact summary_title_iff_option_off. Qed.
Print Assumptions C07_summary_title_iff_option_off.

(* building a listing entry may write BRD_POSTMASK into the header of a hidden board (newBoardStat); for every
   user that write can only withdraw read access, never grant it *)
Theorem C07_forced_postmask_only_restricts : forall i, i_hidden i = true -> may_read (with_postmask i) = true -> may_read i = true.
Proof. exact forced_postmask_only_restricts. Qed.
Print Assumptions C07_forced_postmask_only_restricts.

(* BOARD LIFE CYCLE. "Moderator of that board" is read from a cache the segment keeps per board SLOT (Shm.BMCache), so
   the verdict on a board could depend on which boards were in its slot before. [l_run true [] steps] runs any history of
   steps - ptt.NewBoard (free slot of .BRD if there is one, else append; both end in cache.ResetBoard), removal of a board
   (record blanked, boards reloaded; the moderator caches are left), reload, query - from the state in which no board has
   been created yet. After EVERY history: if board n is there with header b, the moderator cache c of its slot is
   ParseBMList of b's own moderator field, and a query about n is answered - at the validity query, the five other ptt
   article entry points, the two bbs wrappers, the listing by number and the summary - by the specification
   (may_read / may_list, [l_spec_answer]) applied to the caller and to b alone. *)
Theorem C07_life_cycle : forall steps n b c u ulevel o18,
  find (l_named n) (fst (l_run true [] steps)) = Some (Some b, c) ->
  c = parse_bm_list (lb_bms b) /\
  l_query (fst (l_run true [] steps)) n u ulevel o18 = l_spec_answer (l_inp b (parse_bm_list (lb_bms b)) u ulevel o18).
Proof. exact life_cycle. Qed.
Print Assumptions C07_life_cycle.

(* ... and the call of cache.ResetBoard on the free-slot path of addBoardRecord is what this rests on: the same history
   machine with the header published alone ([l_run false]: not the code) lets the moderator of the board that was in the
   slot before read the new board and refuses the new board's own moderator *)
Theorem C07_life_cycle_needs_reset : exists steps n b c old new ulevel,
  find (l_named n) (fst (l_run false [] steps)) = Some (Some b, c) /\
  may_read (l_inp b (parse_bm_list (lb_bms b)) old ulevel false) = false /\
  nth 1 (l_query (fst (l_run false [] steps)) n old ulevel false) 0 = 1 /\
  may_read (l_inp b (parse_bm_list (lb_bms b)) new ulevel false) = true /\
  nth 1 (l_query (fst (l_run false [] steps)) n new ulevel false) 0 = 0.
Proof. exact life_cycle_needs_reset. Qed.
Print Assumptions C07_life_cycle_needs_reset.

(* NOT covered by the theorems above, and false of the code (known findings): the entry points take the board
   number and the board name separately and nothing ties the two — permission is evaluated on the numbered board,
   the files read are the named board's (known finding bid-name-mismatch) ... *)
Theorem C07_pair_mismatch_refuted : exists i_bid i_name, consistent i_bid = true /\ consistent i_name = true /\
  may_read i_name = false /\ ep_read_post_pair i_bid 77 196 = Data 196.
Proof. exact pair_mismatch_refuted. Qed.
Print Assumptions C07_pair_mismatch_refuted.

(* ... and the exported helper LoadGeneralArticlesSameCreateTime returns index entries without looking at any
   caller (known finding unguarded-LoadGeneralArticlesSameCreateTime) *)
Theorem C07_unguarded_helper_refuted : exists i, consistent i = true /\ may_read i = false /\
  ep_load_same_create_time 2 [1; 2] = Data [1; 2].
Proof. exact unguarded_helper_refuted. Qed.
Print Assumptions C07_unguarded_helper_refuted.
