(* C10 — Comments are appended, never rewrite, and move the score by at most one.
   Only statements here; every proof is `exact <lemma of Proofs/C10.v>`.
   Model/C10.v: st = (article bytes, .DIR bytes); recommend c name ct content clock mtime s is ptt.Recommend after
   its permission checks (C07/C08), with the clock string of the line and the article's mtime after the append as
   inputs; find_entry is the index lookup by name (cmsys.GetRecord itself is the subject of C06). *)
From Verif Require Import Base.Common Model.C10 Proofs.C10.

(* a successful comment appends exactly the returned line to the article and touches no earlier byte; the line is
   type mark, blank, colour, commenter (all 13 bytes of the id array on aligned boards), ": ", text, padding to the
   fixed width, reset, [ip on IP-logging boards], blank, MM/DD HH:MM, LF — and when commenter, ip, text and clock
   contain no LF the only LF is the last byte (it is exactly one line) *)
Theorem C10_append_only : forall c name ct content clock mtime s line s',
  recommend c name ct content clock mtime s = COk line s' ->
  s_art s' = s_art s ++ line /\
  line = type_mark ct ++ [32] ++ ansi_color [51; 51] ++ (if c_align c then c_uid13 c else cprefix (c_uid13 c)) ++
         (ansi_reset ++ ansi_color [51; 51] ++ [58; 32]) ++ content ++
         repeat 32 (Z.to_nat (62 - (if c_iplog c then 15 else 0) - lenZ (if c_align c then c_uid13 c else cprefix (c_uid13 c)) - lenZ content)) ++
         ansi_reset ++ ((if c_iplog c then cprefix (c_ip16 c) else []) ++ [32] ++ clock) ++ [10] /\
  (~ In 10 (c_uid13 c) -> ~ In 10 (c_ip16 c) -> ~ In 10 content -> ~ In 10 clock ->
   exists body, line = body ++ [10] /\ ~ In 10 body).
Proof. exact append_only. Qed.
Print Assumptions C10_append_only.

(* .DIR keeps its length and differs from the old .DIR at most in bytes 28..31 (Modified) and 33 (Recommend) of the
   addressed 128-byte entry: every other entry and every other field of this entry is untouched *)
Theorem C10_index_frame : forall c name ct content clock mtime s line s',
  recommend c name ct content clock mtime s = COk line s' ->
  exists i, find_entry (s_dir s) name (length (s_dir s) / REC_SZ) = Some i /\
    length (s_dir s') = length (s_dir s) /\
    forall k, ~ (i * REC_SZ + 28 <= k < i * REC_SZ + 32)%nat -> k <> (i * REC_SZ + 33)%nat ->
      nth_error (s_dir s') k = nth_error (s_dir s) k.
Proof. exact index_frame. Qed.
Print Assumptions C10_index_frame.

(* for EVERY start score in [-100, 100] and every comment type: the new score of the addressed entry is
   clamp(old + delta) with delta = +1 for a push, -1 for a boo, 0 otherwise; it stays in [-100, 100] and moves by at
   most one (mtime > 0: the article file exists after the append) *)
Theorem C10_score : forall c name ct content clock mtime s line s' i,
  recommend c name ct content clock mtime s = COk line s' ->
  find_entry (s_dir s) name (length (s_dir s) / REC_SZ) = Some i ->
  0 < mtime ->
  -100 <= rec_score (rec_at (s_dir s) i) <= 100 ->
  rec_score (rec_at (s_dir s') i) = clamp (rec_score (rec_at (s_dir s) i) + delta ct) /\
  -100 <= rec_score (rec_at (s_dir s') i) <= 100 /\
  -1 <= rec_score (rec_at (s_dir s') i) - rec_score (rec_at (s_dir s) i) <= 1.
Proof. exact score_step. Qed.
Print Assumptions C10_score.

(* the entry's modification time after an accepted comment is the article file's mtime after the append (the clock
   reading the file system gave it) - for EVERY stamp the entry carried before, earlier or later than that reading *)
Theorem C10_modified_is_file_mtime : forall c name ct content clock mtime s line s' i,
  recommend c name ct content clock mtime s = COk line s' ->
  find_entry (s_dir s) name (length (s_dir s) / REC_SZ) = Some i ->
  0 < mtime ->
  rec_modified (rec_at (s_dir s') i) = le32 mtime.
Proof. exact modified_is_mtime. Qed.
Print Assumptions C10_modified_is_file_mtime.

(* a clock reading EARLIER than the stamp stored in the entry (the host clock was stepped back, or the entry was stamped
   by a host whose clock runs ahead; stamp_entry/stamp_named in Model/C10.v plant such a stamp, op 4 of the drivers):
   the comment is appended, the score moves to clamp(old + delta) and Modified becomes the file's mtime all the same *)
Theorem C10_clock_behind_stamp : forall c name ct content clock mtime s line s' i stamp,
  recommend c name ct content clock mtime s = COk line s' ->
  find_entry (s_dir s) name (length (s_dir s) / REC_SZ) = Some i ->
  rec_modified (rec_at (s_dir s) i) = le32 stamp -> 0 < mtime < stamp ->
  -100 <= rec_score (rec_at (s_dir s) i) <= 100 ->
  s_art s' = s_art s ++ line /\
  rec_score (rec_at (s_dir s') i) = clamp (rec_score (rec_at (s_dir s) i) + delta ct) /\
  rec_modified (rec_at (s_dir s') i) = le32 mtime.
Proof. exact clock_behind_stamp. Qed.
Print Assumptions C10_clock_behind_stamp.

(* comments are refused on no-comment boards, on link entries (name L...), on marked-and-solved articles: the result
   is ErrNotPermitted and neither file changes *)
Theorem C10_refusals : forall (c : cfg) name ct content clock mtime s i,
  find_entry (s_dir s) name (length (s_dir s) / REC_SZ) = Some i ->
  c_norec c = true \/ nth 0 name 0 = 76 \/ locked (rec_filemode (rec_at (s_dir s) i)) = true ->
  recommend c name ct content clock mtime s = CErr E_PERM /\
  next_state s (recommend c name ct content clock mtime s) = s.
Proof. exact refusals. Qed.
Print Assumptions C10_refusals.

(* ... and along EVERY sequence of comments (any types, texts, clock strings, mtimes > 0) on an article that accepts
   comments, from every start score in [-100, 100]: the score after the sequence is the fold of clamp(. + delta) over
   the comment types, and it is within [-100, 100] (by induction: after every prefix) *)
Theorem C10_score_seq : forall c name (steps : list step_in) s i,
  find_entry (s_dir s) name (length (s_dir s) / REC_SZ) = Some i ->
  c_norec c = false -> nth 0 name 0 <> 76 -> locked (rec_filemode (rec_at (s_dir s) i)) = false ->
  Forall (fun st : step_in => 0 < snd st) steps ->
  -100 <= rec_score (rec_at (s_dir s) i) <= 100 ->
  let s' := run_seq c name steps s in
  rec_score (rec_at (s_dir s') i) = score_after (rec_score (rec_at (s_dir s) i)) steps /\
  -100 <= rec_score (rec_at (s_dir s') i) <= 100.
Proof. exact score_seq. Qed.
Print Assumptions C10_score_seq.

(* BOARD SESSIONS. board = every comment-related attribute of the board header: aligned comments, IP log, no-comment,
   no-boo, no-fast-recommend and FastRecommendPause (any value); bst = (the article files of the board, .DIR);
   hstep = one comment: commenter (13-byte id), ip, the article addressed, type, text, clock string, mtime;
   run_hist = the state after a history of such comments, each accepted or refused by board_step (= recommend on the
   addressed article file and the .DIR).
   After EVERY history of comments — by ANY commenters, of any types and texts, on ANY articles of the board, for EVERY
   combination of the board attributes and every pause — the next accepted comment has exactly the outcome that its own
   type and the addressed entry determine: the returned line carries the mark of the REQUESTED type and the commenter;
   the addressed article file grows by exactly this line and every other article file is unchanged; the addressed entry
   (the one the name designated in the initial index) goes to clamp(old + delta(requested type)); every other entry is
   byte for byte unchanged; all scores stay within [-100, 100] and no entry changes its name or file mode. *)
Theorem C10_board_history : forall b names (hist : list hstep) s0 x line s1,
  scores_ok (bs_dir s0) -> Forall (fun y : hstep => 0 < h_mtime y) hist -> 0 < h_mtime x ->
  board_step b names x (run_hist b names hist s0) = COk line s1 ->
  let s := run_hist b names hist s0 in
  let s' := board_next x s (COk line s1) in
  line = comment_line (b_align b) (b_iplog b) (h_uid13 x) (h_ip16 x) (h_ct x) (h_content x) (h_clock x) /\
  ((h_art x < length (bs_arts s))%nat -> nth (h_art x) (bs_arts s') [] = nth (h_art x) (bs_arts s) [] ++ line) /\
  (forall j, j <> h_art x -> nth j (bs_arts s') [] = nth j (bs_arts s) []) /\
  length (bs_arts s') = length (bs_arts s) /\
  exists i, find_entry (bs_dir s0) (nth (h_art x) names []) (length (bs_dir s0) / REC_SZ) = Some i /\
    rec_score (rec_at (bs_dir s') i) = clamp (rec_score (rec_at (bs_dir s) i) + delta (h_ct x)) /\
    (forall j, (j < length (bs_dir s0) / REC_SZ)%nat -> j <> i -> rec_at (bs_dir s') j = rec_at (bs_dir s) j) /\
    scores_ok (bs_dir s') /\ same_index (bs_dir s0) (bs_dir s').
Proof. exact board_history. Qed.
Print Assumptions C10_board_history.

(* ... in particular a push is a push whatever was commented before (by the same user or anybody else, a moment ago or not,
   on a no-fast-recommend board or not): the line starts with ESC[1;37m B1 C0 ' ' and the score of the addressed entry
   goes up by exactly one (it stays at +100) *)
Theorem C10_push_after_any_history : forall b names (hist : list hstep) s0 x line s1,
  scores_ok (bs_dir s0) -> Forall (fun y : hstep => 0 < h_mtime y) hist -> 0 < h_mtime x ->
  h_ct x = CT_RECOMMEND ->
  board_step b names x (run_hist b names hist s0) = COk line s1 ->
  let s := run_hist b names hist s0 in
  (exists rest, line = [27; 91; 49; 59; 51; 55; 109; 177; 192; 32] ++ rest) /\
  exists i, find_entry (bs_dir s0) (nth (h_art x) names []) (length (bs_dir s0) / REC_SZ) = Some i /\
    rec_score (rec_at (s_dir s1) i) = (if rec_score (rec_at (bs_dir s) i) <? 100 then rec_score (rec_at (bs_dir s) i) + 1 else 100).
Proof. exact push_after_any_history. Qed.
Print Assumptions C10_push_after_any_history.
