(* C03 — Registration, login and password change follow the account model.
   Statements about the executable model of Model/C03.v (the one the harness runs against bbs.* and the gin
   handlers): a table of MAX_USERS slots, [lookup] = the case-insensitive index, [kb pw] = the DES key block of a
   password (all crypt(3) sees of it; C02), [gen]/[verify] = cmbbs.GenPasswd/CheckPasswd on that abstraction,
   [a_old] = last login older than the keep period plus the clean-up range (the clock's only entry), [throttle] =
   .fresh is younger than an hour.  [acceptable] = well-formed (2..IDLEN alphanumerics, leading letter) and not
   new / guest / a reserved id in any letter case;  [taken] = some slot holds the id in some letter case;
   [room] = a slot is empty, or the hourly clean-up may run and some slot other than uid 1 holds an expired account
   (not PERM_XEMPT, not guest) — as the code stands after commit 5b250dd (killUser releases the slot). *)
From Verif Require Import Base.Common Gen.Consts_default Model.C03 Proofs.C03.

(* Registration succeeds exactly for acceptable, not-yet-taken ids while there is room; then the new account (id as
   typed, hash of the password, e-mail) goes into the first free slot of the table after the clean-up, and nothing
   else changes (see C03_slot_frame_register); otherwise it is refused and every slot is as before. *)
Theorem C03_register_exact : forall c name pw email,
  let rc := register c name pw email in
  if acceptable c name && negb (taken c name) && room c
  then exists k, find_empty (slots (after_clean c)) = Some k /\ fst rc = ROk (cid name) /\
       slots (snd rc) = set_nth k (mkAcct (cid name) (gen pw) (cstr_field (Z.to_nat ptttype.EMAILSZ) email) false false) (slots (after_clean c))
  else (exists e, fst rc = RErr e) /\ slots (snd rc) = slots c.
Proof. exact register_exact. Qed.
Print Assumptions C03_register_exact.

(* what [taken] means: a slot holds a non-empty id equal to the requested one up to letter case *)
Theorem C03_taken_any_case : forall c name, cid name <> [] ->
  (taken c name = true <-> exists k a, nth_error (slots c) k = Some a /\ a_id a <> [] /\ key (a_id a) = key (cid name)).
Proof. exact taken_spec. Qed.
Print Assumptions C03_taken_any_case.

(* keyed by case-insensitive id: in a table whose ids are distinct up to case, the slot the index answers is the
   only slot holding that id in any letter case *)
Theorem C03_lookup_unique : forall c id k j b, WF c -> lookup (slots c) id = Some k ->
  nth_error (slots c) j = Some b -> a_id b <> [] -> key (a_id b) = key id -> j = k.
Proof. exact lookup_unique. Qed.
Print Assumptions C03_lookup_unique.

(* Login succeeds exactly when the id is well-formed, the index knows it, and the password verifies against the
   stored hash — or the stored id is literally "guest"; it then answers the stored spelling of the id and only
   refreshes the last-login age of that slot; otherwise it is refused (ErrInvalidUserID) and nothing changes. *)
Theorem C03_login_exact : forall c name pw,
  let rc := login c name pw in
  match lookup (slots c) (cid name) with
  | Some k =>
      let a := nth k (slots c) no_acct in
      if id_valid name && (eqbl (a_id a) ptttype.STR_GUEST || verify (a_pw a) pw)
      then fst rc = ROk (shown_id a) /\
           slots (snd rc) = set_nth k (mkAcct (a_id a) (a_pw a) (a_email a) false (a_xempt a)) (slots c)
      else fst rc = RErr E_USERID /\ snd rc = c
  | None => fst rc = RErr E_USERID /\ snd rc = c
  end.
Proof. exact login_exact. Qed.
Print Assumptions C03_login_exact.

(* the password check: never changes anything; accepts exactly a verifying password of a known id (no guest bypass) *)
Theorem C03_check_passwd_exact : forall c name pw,
  let rc := check_pw c name pw in
  snd rc = c /\
  (fst rc = ROk [] <-> id_valid name = true /\ exists k, lookup (slots c) (cid name) = Some k /\
                        verify (a_pw (nth k (slots c) no_acct)) pw = true).
Proof. exact check_pw_exact. Qed.
Print Assumptions C03_check_passwd_exact.

(* "the current password": a generated hash verifies exactly the passwords with the same key block — and nothing at
   all when the password is empty or starts with NUL: GenPasswd answers the all-zero hash for those (it used to
   panic on the empty one), registration and password change store it, and the account can no longer log in *)
Theorem C03_current_password : forall pw pw',
  verify (gen pw) pw' = true <-> hd 0 pw <> 0 /\ kb pw = kb pw'.
Proof. exact verify_gen. Qed.
Print Assumptions C03_current_password.

(* a password change needs the old password and replaces only the hash of that account's slot; with a wrong old
   password (or an unknown id) it is refused and nothing changes *)
Theorem C03_change_needs_old : forall c name old new,
  let rc := change_pw c name old new in
  (forall p, fst rc = ROk p ->
     exists k, lookup (slots c) (cid name) = Some k /\ id_valid name = true /\
       verify (a_pw (nth k (slots c) no_acct)) old = true /\
       let a := nth k (slots c) no_acct in
       slots (snd rc) = set_nth k (mkAcct (a_id a) (gen new) (a_email a) (a_old a) (a_xempt a)) (slots c)) /\
  ((forall k, lookup (slots c) (cid name) = Some k -> verify (a_pw (nth k (slots c) no_acct)) old = false) ->
     (exists e, fst rc = RErr e) /\ snd rc = c).
Proof. exact change_needs_old. Qed.
Print Assumptions C03_change_needs_old.

(* no other slot changes: every operation except a registration changes at most one slot ... *)
Theorem C03_slot_frame : forall c o, (forall n p e, o <> ORegister n p e) ->
  exists k, same_except k (slots c) (slots (snd (step c o))).
Proof. exact slot_frame_other. Qed.
Print Assumptions C03_slot_frame.

(* ... and a registration changes the slot it is given plus — only when the table was full and the hourly clean-up
   ran — the slots of expired accounts other than uid 1, which become empty *)
Theorem C03_slot_frame_register : forall c name pw email,
  let c' := snd (register c name pw email) in
  length (slots c') = length (slots c) /\
  exists k, forall j, j <> k ->
    nth_error (slots c') j = nth_error (slots c) j \/
    (find_empty (slots c) = None /\ throttle c = false /\
     exists j' a, j = S j' /\ nth_error (slots c) j = Some a /\ cleanable a = true /\ nth_error (slots c') j = Some no_acct).
Proof. exact slot_frame_register. Qed.
Print Assumptions C03_slot_frame_register.

(* end to end, in any letter case of the id: after a successful registration a login under any spelling of the id
   succeeds exactly with a password that has the registered password's key block, and answers the registered spelling *)
Theorem C03_register_then_login : forall c name pw email name' pw',
  acceptable c name && negb (taken c name) && room c = true ->
  id_valid name' = true -> key (cid name') = key (cid name) ->
  let c' := snd (register c name pw email) in
  (fst (login c' name' pw') = ROk (cid name) <-> hd 0 pw <> 0 /\ kb pw = kb pw') /\
  (fst (login c' name' pw') = ROk (cid name) \/ fst (login c' name' pw') = RErr E_USERID).
Proof. exact register_then_login. Qed.
Print Assumptions C03_register_then_login.

(* ================================================================== refinement to the account map

   The specification (Proofs/C03_refine.v). A state [sst] is a map [s_map : case-folded id -> option account] (account
   = registered spelling, key block of the current password or None "nothing verifies", e-mail, slot, the two facts
   expiry reads) plus the table size, the reserved ids and the .fresh throttle; states with the same accounts are the
   same state ([seq]). [sstep s o r s'] = request [o] in state [s] is answered [r] and leaves [s']:
     register     — RErr for an id that is not [id_acceptable]; RErr for one whose folded id is in the map; otherwise
                    on the accounts [cleaned] (the map itself, or — table full and not throttled — the map without
                    the [expired] accounts, throttle set): ROk with the new account (id as typed, [gen] of the
                    password, e-mail, slot = the least unused slot) added under the folded id, or RErr when every
                    slot is used;
     login        — ROk (registered spelling) iff the id is well-formed, in the map, and the account is guest or the
                    password verifies; only the account's last-login age is reset;
     check-passwd — ROk iff well-formed, in the map and the password verifies; no change;
     change-passwd— the same test on the old password; then the account's password becomes [gen new];
     change-email, exists, get-user, hour — lookups under the folded id / the throttle.
   [srun] = histories. [abs c] reads the map off the concrete table: the account under key i is the first slot whose
   non-empty id case-folds to i, with that slot's index. [WF c] = the ids of the table are distinct up to letter case
   (true of any table built by registrations; preserved by every step: C03_history_invariant). *)

(* C03_refines: over any history of requests, from any table with case-distinct ids, the answers of the concrete
   model (the one run against the server) are answers the account-map specification gives from [abs] of the initial
   table, and the final table abstracts to the specification's final state. *)
Theorem C03_refines : forall ops c, WF c ->
  srun (abs c) ops (fst (run c ops)) (abs (snd (run c ops))).
Proof. exact run_refines. Qed.
Print Assumptions C03_refines.

(* the step it is built from: each concrete step returns the specification's answer and commutes with [abs] *)
Theorem C03_refines_step : forall c o, WF c ->
  exists s', sstep (abs c) o (fst (step c o)) s' /\ seq s' (abs (snd (step c o))).
Proof. exact step_refines. Qed.
Print Assumptions C03_refines_step.

(* "the spec's answer" is unique: for every state and request the specification allows one answer and one successor,
   so C03_refines pins every concrete answer down *)
Theorem C03_spec_deterministic : forall s o r1 s1 r2 s2, sstep s o r1 s1 -> sstep s o r2 s2 -> r1 = r2 /\ s1 = s2.
Proof. exact sstep_det. Qed.
Print Assumptions C03_spec_deterministic.

(* the same one layer higher: a request through the gin handlers ([api_step]: the model the check runs for one
   history in five) is answered as the specification behind the handlers' guard answers it — changing the password
   or e-mail of the literal id guest is refused before the accounts are asked, every refusal is one status *)
Theorem C03_refines_api_step : forall c o, WF c ->
  exists s', sapi_step (abs c) o (fst (api_step c o)) s' /\ seq s' (abs (snd (api_step c o))).
Proof. exact api_step_refines. Qed.
Print Assumptions C03_refines_api_step.

(* [abs] yields a finite map of accounts: every account sits under its own case-folded id, in a slot of the table,
   and no two accounts share a slot *)
Theorem C03_abs_account_map : forall c, WF c -> sinv (abs c).
Proof. exact abs_inv. Qed.
Print Assumptions C03_abs_account_map.

(* histories keep the hypothesis of all of the above: ids stay distinct up to letter case, the table keeps its size *)
Theorem C03_history_invariant : forall ops c, WF c ->
  WF (snd (run c ops)) /\ length (slots (snd (run c ops))) = length (slots c).
Proof. intros ops c W. exact (conj (run_WF ops c W) (run_length ops c)). Qed.
Print Assumptions C03_history_invariant.

(* ---- the corollaries the property text names, on the account map (s = abs of the table before, s' = after) *)

(* registration exactness: accepted exactly for an acceptable id (well-formed, not new/guest/reserved in any letter
   case) not in the map while there is room (the table is not full, or the clean-up may run and some account is
   expired); then the new account is added under its folded id in the least free slot of the cleaned map; refused
   otherwise, and then every account is as before *)
Theorem C03_register_exact_accounts : forall c n p e, WF c ->
  let s := abs c in let rc := register c n p e in let s' := abs (snd rc) in
  (fst rc = ROk (cid n) \/ exists err, fst rc = RErr err) /\
  (fst rc = ROk (cid n) <-> id_acceptable (s_resv s) n = true /\ s_map s (fold_id n) = None /\ room_spec s) /\
  (fst rc = ROk (cid n) -> exists s1 k, cleaned s s1 /\ least_free s1 k /\
     forall i, s_map s' i = upd (s_map s1) (fold_id n)
                 (Some (mkSA (cid n) (gen p) (cstr_field (Z.to_nat ptttype.EMAILSZ) e) k false false)) i) /\
  ((exists err, fst rc = RErr err) -> forall i, s_map s' i = s_map s i).
Proof. exact register_exact_accounts. Qed.
Print Assumptions C03_register_exact_accounts.

(* login exactness: accepted exactly for a well-formed id of an account whose current password is presented (guest
   needs none); answers the registered spelling; a refusal changes nothing; no other account changes and the named
   one keeps id, password, e-mail and slot *)
Theorem C03_login_exact_accounts : forall c n p, WF c ->
  let s := abs c in let rc := login c n p in let s' := abs (snd rc) in
  (forall x, fst rc = ROk x <->
     id_valid n = true /\ exists a, s_map s (fold_id n) = Some a /\
       (eqbl (s_id a) ptttype.STR_GUEST = true \/ verify (s_pw a) p = true) /\ x = shown (s_id a)) /\
  ((exists x, fst rc = ROk x) \/ (fst rc = RErr E_USERID /\ forall i, s_map s' i = s_map s i)) /\
  (forall i, i <> fold_id n -> s_map s' i = s_map s i) /\
  (forall a, s_map s (fold_id n) = Some a -> exists a', s_map s' (fold_id n) = Some a' /\
     s_id a' = s_id a /\ s_pw a' = s_pw a /\ s_email a' = s_email a /\ s_slot a' = s_slot a).
Proof. exact login_exact_accounts. Qed.
Print Assumptions C03_login_exact_accounts.

(* password-check exactness (no guest bypass), and it never changes an account *)
Theorem C03_check_passwd_exact_accounts : forall c n p, WF c ->
  let s := abs c in let rc := check_pw c n p in
  (fst rc = ROk [] <-> id_valid n = true /\ exists a, s_map s (fold_id n) = Some a /\ verify (s_pw a) p = true) /\
  (fst rc = ROk [] \/ exists err, fst rc = RErr err) /\
  forall i, s_map (abs (snd rc)) i = s_map s i.
Proof. exact check_pw_exact_accounts. Qed.
Print Assumptions C03_check_passwd_exact_accounts.

(* a password change needs the old password and replaces it: accepted exactly when the account's current password is
   presented as the old one; then that account's password — nothing else of it, and no other account — becomes the
   hash of the new one (with C03_current_password: the new password verifies from then on, unless it is empty or
   NUL-leading, in which case nothing does); a refusal changes no account *)
Theorem C03_change_needs_old_accounts : forall c n old new, WF c ->
  let s := abs c in let rc := change_pw c n old new in let s' := abs (snd rc) in
  (fst rc = ROk [] <-> id_valid n = true /\ exists a, s_map s (fold_id n) = Some a /\ verify (s_pw a) old = true) /\
  (fst rc = ROk [] \/ exists err, fst rc = RErr err) /\
  (forall a, fst rc = ROk [] -> s_map s (fold_id n) = Some a ->
     s_map s' (fold_id n) = Some (mkSA (s_id a) (gen new) (s_email a) (s_slot a) (s_old a) (s_xempt a)) /\
     forall i, i <> fold_id n -> s_map s' i = s_map s i) /\
  ((exists err, fst rc = RErr err) -> forall i, s_map s' i = s_map s i).
Proof. exact change_needs_old_accounts. Qed.
Print Assumptions C03_change_needs_old_accounts.

(* only the account named changes: every request other than a registration leaves all accounts but (at most) one as
   they are, and that one keeps its registered id and its slot (with C03_slot_frame: in the table, one slot) ... *)
Theorem C03_accounts_frame : forall c o, WF c -> (forall n p e, o <> ORegister n p e) ->
  exists i, same_but i (abs c) (abs (snd (step c o))).
Proof. exact accounts_frame. Qed.
Print Assumptions C03_accounts_frame.

(* ... and a registration leaves every account other than the new one as it is, except that on a full, unthrottled
   table the expired accounts are removed *)
Theorem C03_register_frame_accounts : forall c n p e, WF c ->
  let s := abs c in let s' := abs (snd (register c n p e)) in
  forall i, i <> fold_id n ->
    s_map s' i = s_map s i \/
    (full s /\ s_thr s = false /\ exists a, s_map s i = Some a /\ expired a = true /\ s_map s' i = None).
Proof. exact register_frame_accounts. Qed.
Print Assumptions C03_register_frame_accounts.

(* the empty password (and one that starts with NUL): the hash generated for it verifies nothing, so an account
   registered with it, or changed to it, exists and cannot log in — the behaviour of the code as it stands *)
Theorem C03_empty_password_locks : forall pw pw', hd 0 pw = 0 -> verify (gen pw) pw' = false.
Proof. exact gen_empty_locks. Qed.
Print Assumptions C03_empty_password_locks.

(* ================================================================== ids are ASCII alphanumerics; the index built from .PASSWDS
   (Proofs/C03_loader.v).  [ascii_letter ch] = 65..90 or 97..122; [ascii_alnum ch] = that or 48..57.
   [indexed pre inv recs] = the loader's choice (cache/uhash_loader.go userecRawAddToUHash), record by record: true = put
   into the user-id index; [pre] = PRE_ALLOCATED_USERS, [inv] = its counter of ill-formed ids so far. [ninv l] = number of
   records of l whose id is not well-formed (free slots). [lookup_ix ix sl] / [find_empty_ix ix sl] = the lookups as an index
   holding only the records marked in [ix] can answer them. [accounts_only sl] = every slot is free or holds a well-formed id. *)

(* "2-12 alphanumerics, leading letter" means ASCII: a well-formed id has 2..IDLEN bytes, each an ASCII letter or digit (so
   below 0x80), the first an ASCII letter. An id containing any byte >= 0x80 - Big5 or Latin-1 text - is not well-formed. *)
Theorem C03_valid_id_is_ascii : forall name, id_valid name = true ->
  (2 <= length (cid name) <= Z.to_nat ptttype.IDLEN)%nat /\ ascii_letter (hd 0 (cid name)) /\
  (forall ch, In ch (cid name) -> ascii_alnum ch /\ ch < 128).
Proof. exact valid_id_ascii. Qed.
Print Assumptions C03_valid_id_is_ascii.

(* every request that names an id that is not well-formed - register, login, password check, password change, e-mail
   change, exists, get-user - is refused and leaves the whole state as it is; at the bbs layer ... *)
Theorem C03_malformed_id_refused : forall c o name, op_name o = Some name -> id_valid name = false ->
  (exists e, fst (step c o) = RErr e) /\ snd (step c o) = c.
Proof. exact malformed_id_refused. Qed.
Print Assumptions C03_malformed_id_refused.

(* ... and through the gin handlers *)
Theorem C03_malformed_id_refused_api : forall c o name, op_name o = Some name -> id_valid name = false ->
  (exists e, fst (api_step c o) = RErr e) /\ snd (api_step c o) = c.
Proof. exact malformed_id_refused_api. Qed.
Print Assumptions C03_malformed_id_refused_api.

(* the loader, exactly: record k of the file is put into the index iff its id is well-formed, or it is among the first
   [pre] records whose id is not (the free slots kept for new registrations) - for every file, of any length *)
Theorem C03_loader_index_exact : forall pre recs inv k a, nth_error recs k = Some a ->
  nth_error (indexed pre inv recs) k = Some (id_valid (a_id a) || (inv + ninv (firstn (S k) recs) <=? pre)%nat).
Proof. exact indexed_exact. Qed.
Print Assumptions C03_loader_index_exact.

(* hence no account is left out of the index, however many free records precede it in .PASSWDS *)
Theorem C03_loader_keeps_accounts : forall pre recs k a, nth_error recs k = Some a -> id_valid (a_id a) = true ->
  nth_error (indexed pre 0 recs) k = Some true.
Proof. exact loader_keeps_accounts. Qed.
Print Assumptions C03_loader_keeps_accounts.

(* after a server start, on a table of accounts of any size, the index answers every lookup as the table does and offers
   the table's first free slot to a registration (one pre-allocated slot suffices): the operations of the model, which
   read the table, are the operations on the index *)
Theorem C03_index_after_load : forall pre sl, (0 < pre)%nat -> accounts_only sl ->
  (forall id, lookup_ix (indexed pre 0 sl) sl id = lookup sl id) /\
  find_empty_ix (indexed pre 0 sl) sl = find_empty sl.
Proof. exact index_after_load. Qed.
Print Assumptions C03_index_after_load.

(* in particular every account of .PASSWDS, wherever it is stored, is answered with its own slot after a server start:
   it can be looked up, logs in with its password (C03_login_exact) and its id is taken (C03_register_exact) *)
Theorem C03_account_found_after_load : forall pre c k a, (0 < pre)%nat -> WF c -> accounts_only (slots c) ->
  nth_error (slots c) k = Some a -> a_id a <> [] ->
  lookup_ix (indexed pre 0 (slots c)) (slots c) (a_id a) = Some k.
Proof. exact account_found_after_load. Qed.
Print Assumptions C03_account_found_after_load.

(* ---- the clock. [expired keep age] (Model/C03.v) = the clean-up removes a non-exempt account whose last login is [age] seconds
   before the clock reading ([age] < 0: the stored stamp is LATER than the clock reads - the clock was stepped back, or
   the stamp came from another host). Exactly, for every age of either sign: removed iff at least
   (keep + CLEAN_USER_EXPIRE_RANGE_MIN + 1) whole minutes have passed. *)
Theorem C03_expired_exact : forall keep age, 0 <= keep + ptttype.CLEAN_USER_EXPIRE_RANGE_MIN ->
  0 <= ptttype.CLEAN_USER_EXPIRE_RANGE_MIN ->
  Model.C03.expired keep age = ((keep + ptttype.CLEAN_USER_EXPIRE_RANGE_MIN + 1) * 60 <=? age).
Proof. exact expired_spec. Qed.
Print Assumptions C03_expired_exact.

(* an account whose last-login stamp is not before the clock reading is never removed: a registration on a full table
   cannot take the slot of an account that was just used, whatever the clock did afterwards *)
Theorem C03_stamp_ahead_never_expires : forall keep age, 0 <= keep + ptttype.CLEAN_USER_EXPIRE_RANGE_MIN ->
  age <= 0 -> Model.C03.expired keep age = false.
Proof. exact stamp_ahead_never_expires. Qed.
Print Assumptions C03_stamp_ahead_never_expires.

(* stepping the clock back never makes an account expire; and the ages the harness gives to accounts stay on their
   side of the limit under every step back it takes - which is why operation 12 leaves the model's table as it is *)
Theorem C03_clock_back_keeps_unexpired : forall keep age d, 0 <= keep + ptttype.CLEAN_USER_EXPIRE_RANGE_MIN ->
  0 <= d -> Model.C03.expired keep age = false -> Model.C03.expired keep (age - d) = false.
Proof. exact clock_back_keeps_unexpired. Qed.
Print Assumptions C03_clock_back_keeps_unexpired.

Theorem C03_harness_ages_stable : forall code d, 0 <= d <= MAX_CLOCK_BACK ->
  Model.C03.expired KEEP_MIN_UNREGGED (age_of code - d) = Model.C03.expired KEEP_MIN_UNREGGED (age_of code).
Proof. exact harness_ages_stable. Qed.
Print Assumptions C03_harness_ages_stable.

(* ---- the on-line table: an account that has an entry re-uses it, from whatever address it logs in (the address is not
   an argument of [utmp_take]) ... *)
Theorem C03_utmp_reuse : forall size ut pid, In pid ut -> utmp_take size ut pid = Some ut.
Proof. exact utmp_take_reuse. Qed.
Print Assumptions C03_utmp_reuse.

(* ... hence, as long as the accounts that log in or register during one shared-memory lifetime are among at most [size]
   accounts, no login is ever refused for want of an entry, however many logins there are *)
Theorem C03_utmp_never_full : forall size accts pids ut,
  (length accts <= size)%nat -> NoDup ut -> incl ut accts -> incl pids accts ->
  exists ut', utmp_run size ut pids = Some ut' /\ NoDup ut' /\ incl ut' accts.
Proof. exact utmp_never_full. Qed.
Print Assumptions C03_utmp_never_full.
