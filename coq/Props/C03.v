(* C03 — Registration, login and password change follow the account model.
   Statements about the executable model of Model/C03.v (the one the harness runs against bbs.* and the gin
   handlers): a table of MAX_USERS slots, [lookup] = the case-insensitive index, [kb pw] = the DES key block of a
   password (all crypt(3) sees of it; C02), [gen]/[verify] = cmbbs.GenPasswd/CheckPasswd on that abstraction,
   [a_old] = last login older than the keep period plus the clean-up range (the clock's only entry), [throttle] =
   .fresh is younger than an hour.  [acceptable] = well-formed (2..IDLEN alphanumerics, leading letter) and not
   new / guest / a reserved id in any letter case;  [taken] = some slot holds the id in some letter case;
   [room] = a slot is empty, or the hourly clean-up may run and some slot other than uid 1 holds an expired account
   (not PERM_XEMPT, not guest) — as the code stands after commit 5b250dd (killUser releases the slot). *)
From Verif Require Import Base.Common Gen.Consts_default Model.C03 Proofs.C03.

(* Registration succeeds exactly for acceptable, not-yet-taken ids while there is room; then the new account (id as
   typed, hash of the password, e-mail) goes into the first free slot of the table after the clean-up, and nothing
   else changes (see C03_slot_frame_register); otherwise it is refused and every slot is as before. *)
Theorem C03_register_exact : forall c name pw email,
  let rc := register c name pw email in
  if acceptable c name && negb (taken c name) && room c
  then exists k, find_empty (slots (after_clean c)) = Some k /\ fst rc = ROk (cid name) /\
       slots (snd rc) = set_nth k (mkAcct (cid name) (gen pw) (cstr_field (Z.to_nat ptttype.EMAILSZ) email) false false) (slots (after_clean c))
  else (exists e, fst rc = RErr e) /\ slots (snd rc) = slots c.
Proof. exact register_exact. Qed.
Print Assumptions C03_register_exact.

(* what [taken] means: a slot holds a non-empty id equal to the requested one up to letter case *)
Theorem C03_taken_any_case : forall c name, cid name <> [] ->
  (taken c name = true <-> exists k a, nth_error (slots c) k = Some a /\ a_id a <> [] /\ key (a_id a) = key (cid name)).
Proof. exact taken_spec. Qed.
Print Assumptions C03_taken_any_case.

(* keyed by case-insensitive id: in a table whose ids are distinct up to case, the slot the index answers is the
   only slot holding that id in any letter case *)
Theorem C03_lookup_unique : forall c id k j b, WF c -> lookup (slots c) id = Some k ->
  nth_error (slots c) j = Some b -> a_id b <> [] -> key (a_id b) = key id -> j = k.
Proof. exact lookup_unique. Qed.
Print Assumptions C03_lookup_unique.

(* Login succeeds exactly when the id is well-formed, the index knows it, and the password verifies against the
   stored hash — or the stored id is literally "guest"; it then answers the stored spelling of the id and only
   refreshes the last-login age of that slot; otherwise it is refused (ErrInvalidUserID) and nothing changes. *)
Theorem C03_login_exact : forall c name pw,
  let rc := login c name pw in
  match lookup (slots c) (cid name) with
  | Some k =>
      let a := nth k (slots c) no_acct in
      if id_valid name && (eqbl (a_id a) ptttype.STR_GUEST || verify (a_pw a) pw)
      then fst rc = ROk (shown_id a) /\
           slots (snd rc) = set_nth k (mkAcct (a_id a) (a_pw a) (a_email a) false (a_xempt a)) (slots c)
      else fst rc = RErr E_USERID /\ snd rc = c
  | None => fst rc = RErr E_USERID /\ snd rc = c
  end.
Proof. exact login_exact. Qed.
Print Assumptions C03_login_exact.

(* the password check: never changes anything; accepts exactly a verifying password of a known id (no guest bypass) *)
Theorem C03_check_passwd_exact : forall c name pw,
  let rc := check_pw c name pw in
  snd rc = c /\
  (fst rc = ROk [] <-> id_valid name = true /\ exists k, lookup (slots c) (cid name) = Some k /\
                        verify (a_pw (nth k (slots c) no_acct)) pw = true).
Proof. exact check_pw_exact. Qed.
Print Assumptions C03_check_passwd_exact.

(* "the current password": a generated hash verifies exactly the passwords with the same key block — and nothing at
   all when the password is empty or starts with NUL: GenPasswd answers the all-zero hash for those (it used to
   panic on the empty one), registration and password change store it, and the account can no longer log in *)
Theorem C03_current_password : forall pw pw',
  verify (gen pw) pw' = true <-> hd 0 pw <> 0 /\ kb pw = kb pw'.
Proof. exact verify_gen. Qed.
Print Assumptions C03_current_password.

(* a password change needs the old password and replaces only the hash of that account's slot; with a wrong old
   password (or an unknown id) it is refused and nothing changes *)
Theorem C03_change_needs_old : forall c name old new,
  let rc := change_pw c name old new in
  (forall p, fst rc = ROk p ->
     exists k, lookup (slots c) (cid name) = Some k /\ id_valid name = true /\
       verify (a_pw (nth k (slots c) no_acct)) old = true /\
       let a := nth k (slots c) no_acct in
       slots (snd rc) = set_nth k (mkAcct (a_id a) (gen new) (a_email a) (a_old a) (a_xempt a)) (slots c)) /\
  ((forall k, lookup (slots c) (cid name) = Some k -> verify (a_pw (nth k (slots c) no_acct)) old = false) ->
     (exists e, fst rc = RErr e) /\ snd rc = c).
Proof. exact change_needs_old. Qed.
Print Assumptions C03_change_needs_old.

(* no other slot changes: every operation except a registration changes at most one slot ... *)
Theorem C03_slot_frame : forall c o, (forall n p e, o <> ORegister n p e) ->
  exists k, same_except k (slots c) (slots (snd (step c o))).
Proof. exact slot_frame_other. Qed.
Print Assumptions C03_slot_frame.

(* ... and a registration changes the slot it is given plus — only when the table was full and the hourly clean-up
   ran — the slots of expired accounts other than uid 1, which become empty *)
Theorem C03_slot_frame_register : forall c name pw email,
  let c' := snd (register c name pw email) in
  length (slots c') = length (slots c) /\
  exists k, forall j, j <> k ->
    nth_error (slots c') j = nth_error (slots c) j \/
    (find_empty (slots c) = None /\ throttle c = false /\
     exists j' a, j = S j' /\ nth_error (slots c) j = Some a /\ cleanable a = true /\ nth_error (slots c') j = Some no_acct).
Proof. exact slot_frame_register. Qed.
Print Assumptions C03_slot_frame_register.

(* end to end, in any letter case of the id: after a successful registration a login under any spelling of the id
   succeeds exactly with a password that has the registered password's key block, and answers the registered spelling *)
Theorem C03_register_then_login : forall c name pw email name' pw',
  acceptable c name && negb (taken c name) && room c = true ->
  id_valid name' = true -> key (cid name') = key (cid name) ->
  let c' := snd (register c name pw email) in
  (fst (login c' name' pw') = ROk (cid name) <-> hd 0 pw <> 0 /\ kb pw = kb pw') /\
  (fst (login c' name' pw') = ROk (cid name) \/ fst (login c' name' pw') = RErr E_USERID).
Proof. exact register_then_login. Qed.
Print Assumptions C03_register_then_login.

(* Over histories. The full refinement statement of DESIGN —
     C03_refines : forall c ops, WF c -> let (rs, c') := run c ops in
        exists a', spec_run (abs c) ops rs a' /\ forall k, abs c' k = a' k
   with abs c : case-folded id -> option (uid, account) and spec_run the relational account-map machine
   (registration may take ANY free uid) — is not proved here. What is proved for every history of any length: ids
   stay distinct up to letter case and the table keeps its size, so that every per-operation theorem above applies
   at every step with [lookup] being THE account of that case-folded id (C03_lookup_unique); the correspondence run
   by the check compares the model with the server after every step of every history. *)
Theorem C03_refines_partial : forall ops c, WF c ->
  WF (snd (run c ops)) /\ length (slots (snd (run c ops))) = length (slots c).
Proof. intros ops c W. exact (conj (run_WF ops c W) (run_length ops c)). Qed.
Print Assumptions C03_refines_partial.
