(* C05 — Record-file operations touch exactly the addressed record.
   Only statements here; every proof is `exact <lemma of Proofs/C05.v>`.
   A file is its byte list; sz is the stride the callers pass (unsafe.Sizeof of the record type); a record image
   is what binary.Write produces. `record sz j f` is the j-th (0-based) sz-byte slice, `count` = GetNumRecords. *)
From Coq Require Import String.
From Verif Require Import Base.Common Base.RecFile Model.C05 Proofs.C05.
From Verif Require Model.C01.
Local Open Scope Z_scope.

(* AppendRecord with an image as long as the stride (C01_padding_free for every record type in use): returns
   count+1, the file becomes exactly (count+1) records, everything below count*sz is unchanged (a partial tail
   is overwritten), record count+1 is the image, every earlier record is intact *)
Theorem C05_append : forall sz rec f, (0 < sz)%nat -> length rec = sz ->
  let c := count sz f in
  let r := append_record sz rec f in
  fst r = num_records sz f + 1 /\
  length (snd r) = ((c + 1) * sz)%nat /\
  firstn (c * sz) (snd r) = firstn (c * sz) f /\
  record sz c (snd r) = rec /\
  count sz (snd r) = (c + 1)%nat /\
  (forall j, (j < c)%nat -> record sz j (snd r) = record sz j f).
Proof. exact append_spec. Qed.
Print Assumptions C05_append.

(* without that hypothesis the statement is false: a 99-byte image under stride 100 (ptt.PostLog before the
   repair) makes the second append return the same index and the file never holds a complete record *)
Theorem C05_append_short_record_refuted :
  exists sz rec rec' f, (length rec < sz)%nat /\
    fst (append_record sz rec' (snd (append_record sz rec f))) = fst (append_record sz rec f) /\
    count sz (snd (append_record sz rec' (snd (append_record sz rec f)))) = 0%nat.
Proof. exact append_short_record_refuted. Qed.
Print Assumptions C05_append_short_record_refuted.

(* an append cut short after ANY k < sz bytes: the count ignores the torn tail, every acknowledged record is
   intact, and the next append returns the same index, overwrites the tail and leaves whole records only *)
Theorem C05_torn_tail : forall sz rec rec' k f, (0 < sz)%nat -> (k < sz)%nat -> length rec' = sz ->
  let c := count sz f in
  let t := crash_append sz rec k f in
  let r := append_record sz rec' t in
  count sz t = c /\
  (forall j, (j < c)%nat -> record sz j t = record sz j f) /\
  fst r = Z.of_nat c + 1 /\
  record sz c (snd r) = rec' /\
  length (snd r) = ((c + 1) * sz)%nat /\
  (forall j, (j < c)%nat -> record sz j (snd r) = record sz j f).
Proof. exact torn_tail. Qed.
Print Assumptions C05_torn_tail.

(* SubstituteRecord on an existing record (0-based index): length unchanged, bytes before and after the record
   unchanged, the record is the image, every other record identical *)
Theorem C05_substitute_frame : forall sz idx rec f, (0 < sz)%nat -> length rec = sz -> 0 <= idx < num_records sz f ->
  exists f', substitute_record sz idx rec f = ROk f' /\
    length f' = length f /\
    firstn (Z.to_nat idx * sz) f' = firstn (Z.to_nat idx * sz) f /\
    skipn (Z.to_nat idx * sz + sz) f' = skipn (Z.to_nat idx * sz + sz) f /\
    record sz (Z.to_nat idx) f' = rec /\
    (forall j, j <> Z.to_nat idx -> record sz j f' = record sz j f).
Proof. exact substitute_frame. Qed.
Print Assumptions C05_substitute_frame.

(* DeleteRecord on an existing record: exactly the first |tag| bytes of that record become the delete tag *)
Theorem C05_delete_frame : forall sz idx tag f, (0 < sz)%nat -> (length tag <= sz)%nat -> 0 <= idx < num_records sz f ->
  exists f', delete_record sz idx tag f = ROk f' /\
    length f' = length f /\
    firstn (Z.to_nat idx * sz) f' = firstn (Z.to_nat idx * sz) f /\
    skipn (Z.to_nat idx * sz + length tag) f' = skipn (Z.to_nat idx * sz + length tag) f /\
    read_at (Z.to_nat idx * sz) (length tag) f' = tag /\
    (forall j, j <> Z.to_nat idx -> record sz j f' = record sz j f).
Proof. exact delete_frame. Qed.
Print Assumptions C05_delete_frame.

(* ModifyDirLite (1-based index) accepts only an index inside the file whose stored name equals the given one;
   then the length is unchanged, the stored name is unchanged and every other record is identical *)
Theorem C05_modify_frame : forall idx name a f f', modify_dir_lite idx name a f = ROk f' ->
  1 <= idx <= num_records FH_SZ f /\
  cstrcmp (read_at 0 LEN_FILENAME (record FH_SZ (Z.to_nat (idx - 1)) f)) name = 0 /\
  length f' = length f /\
  read_at 0 LEN_FILENAME (record FH_SZ (Z.to_nat (idx - 1)) f') = read_at 0 LEN_FILENAME (record FH_SZ (Z.to_nat (idx - 1)) f) /\
  (forall j, j <> Z.to_nat (idx - 1) -> record FH_SZ j f' = record FH_SZ j f).
Proof. exact modify_frame. Qed.
Print Assumptions C05_modify_frame.

(* ... and a stale index or name is refused: no file is written *)
Theorem C05_modify_refuses_stale : forall idx name a f,
  (num_records FH_SZ f < idx \/ idx < 1 \/
   cstrcmp (read_at 0 LEN_FILENAME (record FH_SZ (Z.to_nat (idx - 1)) f)) name <> 0) ->
  exists e, modify_dir_lite idx name a f = RErr e.
Proof. exact modify_refuses. Qed.
Print Assumptions C05_modify_refuses_stale.

(* the byte offsets ModifyDirLite's model edits are the regenerated FileHeaderRaw layout, in both configurations *)
Theorem C05_modify_offsets_match_layout : forall c,
  C01.go_layout_of c "FileHeaderRaw"%string =
  Some (Z.of_nat FH_SZ,
        [("Filename"%string, Z.of_nat OFF_FILENAME, Z.of_nat LEN_FILENAME); ("Modified"%string, Z.of_nat OFF_MODIFIED, 4);
         ("Pad"%string, 32, 1); ("Recommend"%string, Z.of_nat OFF_RECOMMEND, 1); ("Owner"%string, Z.of_nat OFF_OWNER, Z.of_nat LEN_OWNER);
         ("Date"%string, Z.of_nat OFF_DATE, Z.of_nat LEN_DATE); ("Title"%string, Z.of_nat OFF_TITLE, Z.of_nat LEN_TITLE);
         ("Pad2"%string, 119, 1); ("Multi"%string, Z.of_nat OFF_MULTI, Z.of_nat LEN_MULTI); ("Filemode"%string, Z.of_nat OFF_FILEMODE, 1);
         ("Pad3"%string, 125, 3)]).
Proof. exact modify_offsets_match_layout. Qed.
Print Assumptions C05_modify_offsets_match_layout.

(* what the unchecked SubstituteRecord does at or beyond the last complete record (nobody should read the frame
   theorem as more than it says): the file grows to idx+1 records, existing bytes below idx*sz and every
   complete record stay; a negative index is refused by the seek *)
Theorem C05_out_of_range_behaviour : forall sz idx bs f, (0 < sz)%nat -> length bs = sz -> num_records sz f <= idx ->
  exists f', substitute_record sz idx bs f = ROk f' /\
    length f' = ((Z.to_nat idx + 1) * sz)%nat /\
    count sz f' = (Z.to_nat idx + 1)%nat /\
    firstn (Nat.min (length f) (Z.to_nat idx * sz)) f' = firstn (Nat.min (length f) (Z.to_nat idx * sz)) f /\
    record sz (Z.to_nat idx) f' = bs /\
    (forall j, (j < count sz f)%nat -> record sz j f' = record sz j f).
Proof. exact out_of_range_behaviour. Qed.
Print Assumptions C05_out_of_range_behaviour.

Theorem C05_negative_index_refused : forall sz idx bs f, idx < 0 ->
  substitute_record sz idx bs f = RErr ERR_SEEK /\ delete_record sz idx bs f = RErr ERR_SEEK.
Proof. exact negative_index_refused. Qed.
Print Assumptions C05_negative_index_refused.

(* GetRecords returns exactly the records start, start+1, ... (or start, start-1, ...): at most n, clipped to
   [1, count]; nothing when start lies beyond the last record; ErrInvalidIdx for start < 1 *)
Theorem C05_get_records : forall sz start n desc f, 1 <= start -> 0 <= n ->
  get_records sz start n desc f =
  ROk (map (fun i => (i, record sz (Z.to_nat (i - 1)) f))
           (let cnt := num_records sz f in
            if cnt <? start then []
            else if desc then map (fun i => start - Z.of_nat i) (seq 0 (Z.to_nat (Z.min n start)))
            else map (fun i => start + Z.of_nat i) (seq 0 (Z.to_nat (Z.min n (cnt - start + 1)))))).
Proof. exact get_records_spec. Qed.
Print Assumptions C05_get_records.

Theorem C05_get_records_invalid : forall sz start n desc f, start < 1 ->
  get_records sz start n desc f = RErr ERR_INVALID_IDX.
Proof. exact get_records_invalid. Qed.
Print Assumptions C05_get_records_invalid.

(* any history of append / substitute / delete-mark / modify / read operations (images no longer than the
   stride; indices arbitrary, out of range included): a record that no operation addresses keeps its bytes and
   stays inside the file *)
Theorem C05_history : forall sz, (0 < sz)%nat -> forall ops f j, Forall (op_wf sz) ops -> (j < count sz f)%nat ->
  untouched sz j ops f -> record sz j (run sz ops f) = record sz j f /\ (j < count sz (run sz ops f))%nat.
Proof. exact history. Qed.
Print Assumptions C05_history.

(* windows of ANY length on files of ANY size: the index-level loop (what the harness runs against GetRecords on
   generated files of thousands of records, too large to be carried as byte lists) is the byte-level loop with the
   records dropped ... *)
Theorem C05_get_records_by_index : forall sz start n desc f,
  get_records sz start n desc f =
  rmap (map (fun i => (i, record sz (Z.to_nat (i - 1)) f))) (get_records_idx start n desc (num_records sz f)).
Proof. exact get_records_by_index. Qed.
Print Assumptions C05_get_records_by_index.

(* ... and the number of records returned is min(n, length of the run to the end of the file / down to record 1):
   no other bound (an allocation cap, a page size) shortens a window, however large n and the file are; each
   returned pair is (index, record at that index) *)
Theorem C05_get_records_any_length : forall sz start n desc f, 1 <= start -> 0 <= n ->
  exists l, get_records sz start n desc f = ROk l /\
    get_records_idx start n desc (num_records sz f) = ROk (map fst l) /\
    lenZ l = (let cnt := num_records sz f in
              if cnt <? start then 0 else if desc then Z.min n start else Z.min n (cnt - start + 1)) /\
    (forall i r, In (i, r) l -> r = record sz (Z.to_nat (i - 1)) f).
Proof. exact get_records_any_length. Qed.
Print Assumptions C05_get_records_any_length.

(* histories of one process during some operations of which the OS refuses the write (EFBIG / ENOSPC, `HRefused`):
   the refused operation leaves the file as it found it and does not report success, the final file is the one of
   the history with the refused operations deleted, and every completed operation returned and left exactly what it
   returns and leaves in that shorter history - a refused write leaves no trace for later operations *)
Theorem C05_refused_write_leaves_no_trace : forall sz hs f,
  hfinal sz hs f = run sz (completed hs) f /\
  do_entries hs (htrace sz hs f) = trace sz (completed hs) f /\
  (forall o g, snd (hstep sz (HRefused o) g) = g /\
     (match o with ORead _ _ _ => True | _ => fst (fst (hstep sz (HRefused o) g)) <> ST_OK end)).
Proof. exact refused_no_trace. Qed.
Print Assumptions C05_refused_write_leaves_no_trace.

(* hence the history theorem holds with refused writes interleaved anywhere *)
Theorem C05_history_with_refused_writes : forall sz, (0 < sz)%nat -> forall hs f j,
  Forall (op_wf sz) (completed hs) -> (j < count sz f)%nat -> untouched sz j (completed hs) f ->
  record sz j (hfinal sz hs f) = record sz j f /\ (j < count sz (hfinal sz hs f))%nat.
Proof. exact history_with_refused. Qed.
Print Assumptions C05_history_with_refused_writes.

(* ---- sparse files: offsets at and beyond 2^31 / 2^32 bytes. The harness runs the operations on files of up to a
   terabyte (sparse on disk) against `sp_*`: a file is its size and the stride-sized slots holding a non-zero byte.
   Slot level, for EVERY slot index q (no bound): a write changes slot q only - the size becomes max(size, q*sz+|bs|),
   slot q holds bs followed by what it held beyond |bs|, every other slot is what it was *)
Theorem C05_sparse_frame : forall sz q bs s,
  fst (sp_write sz q bs s) = Z.max (fst s) (q * Z.of_nat sz + lenZ bs) /\
  sp_get q (snd (sp_write sz q bs s)) = trim0 (bs ++ skipn (length bs) (sp_get q (snd s))) /\
  (forall q', q' <> q -> sp_get q' (snd (sp_write sz q bs s)) = sp_get q' (snd s)).
Proof. exact sparse_frame. Qed.
Print Assumptions C05_sparse_frame.

(* ... and the sparse operations ARE the byte-list operations of the theorems above, for every file and every index:
   if (size, slots) represents the byte list f (same length, same byte at every position), then count agrees, append
   returns the same index, and append / substitute / delete-mark lead to a representation of the byte-list result (or
   both refuse a negative index with the same code). So C05_append, C05_substitute_frame, C05_out_of_range_behaviour,
   C05_history speak about the files of 2^32 bytes and more the harness uses. *)
Theorem C05_sparse_is_the_byte_model : forall sz f s, (0 < sz)%nat -> represents sz f s ->
  sp_count sz s = num_records sz f /\
  (forall rec, (length rec <= sz)%nat ->
     fst (sp_append sz rec s) = fst (append_record sz rec f) /\
     represents sz (snd (append_record sz rec f)) (snd (sp_append sz rec s))) /\
  (forall idx bs, (length bs <= sz)%nat ->
     match substitute_record sz idx bs f, sp_substitute sz idx bs s with
     | ROk f', ROk s' => 0 <= idx /\ represents sz f' s'
     | RErr e, RErr e' => idx < 0 /\ e = e'
     | _, _ => False
     end) /\
  (forall idx tag, (length tag <= sz)%nat ->
     match delete_record sz idx tag f, sp_delete sz idx tag s with
     | ROk f', ROk s' => 0 <= idx /\ represents sz f' s'
     | RErr e, RErr e' => idx < 0 /\ e = e'
     | _, _ => False
     end).
Proof. exact sparse_represents. Qed.
Print Assumptions C05_sparse_is_the_byte_model.

(* GetRecords and ModifyDirLite through the sparse description are the byte-list ones *)
Theorem C05_sparse_read : forall f s start n desc, represents FH_SZ f s ->
  sp_get_records start n desc s = get_records FH_SZ start n desc f.
Proof. exact sp_get_records_represents. Qed.
Print Assumptions C05_sparse_read.

Theorem C05_sparse_modify : forall f s idx name a, represents FH_SZ f s ->
  match modify_dir_lite idx name a f, sp_modify idx name a s with
  | ROk f', ROk s' => represents FH_SZ f' s'
  | RErr e, RErr e' => e = e'
  | _, _ => False
  end.
Proof. exact sp_modify_represents. Qed.
Print Assumptions C05_sparse_modify.

(* the model's offset q * sz (in Z) is what int64(idx) * int64(size) computes: no int32 index and stride up to 65535
   makes a 64-bit product wrap. (A product formed in 32 bits does, from offset 2^31 on - that is what the sparse
   cases of the check are for.) *)
Theorem C05_offset_fits_int64 : forall idx sz, - 2147483648 <= idx < 2147483648 -> 0 <= sz <= 65535 ->
  - 9223372036854775808 <= idx * sz < 9223372036854775808.
Proof. exact offset_fits_int64. Qed.
Print Assumptions C05_offset_fits_int64.
