(* C06 — Article lookup and paging over a board index equal a linear scan.
   Only statements here; every proof is `exact <lemma of Proofs/C06.v>`.
   Vocabulary (Model/C06.v, Proofs/C06.v): an index file is a list of entries, [None] = delete-marked/unparsable;
   [vat es i tn] = entry i (0-based) is parsable and is the pair tn = (creation time, name suffix);
   [sorted es] = parsable creation times never decrease along the file; [names_unique es] = no two parsable
   entries are equal; [find] models cmsys.FindRecordStartIdx; [find_spec] is the linear scan: the entry equal
   to the cursor if there is one, else the last entry not newer (descending) / the first entry not older
   (ascending) than the cursor, positions counted from 1. *)
From Verif Require Import Base.Common Model.C06 Proofs.C06.

(* From ANY starting index between the first and the last parsable entry, the directional post-search returns
   what the linear scan returns (0-based): correctness does not depend on where the binary search stops. *)
Theorem C06_postsearch_any_start : forall es ss ee idx T name,
  sorted es -> bounds es ss ee -> ss <= idx <= ee ->
  post_desc es idx ss ee T name = spec_res (find_spec es T name true) /\
  post_asc es idx ss ee T name = spec_res (find_spec es T name false).
Proof. exact (fun es ss ee idx T name Hs Hb Hi => conj (post_desc_any_start es ss ee idx T name Hs Hb Hi) (post_asc_any_start es ss ee idx T name Hs Hb Hi)). Qed.
Print Assumptions C06_postsearch_any_start.

(* The odd binary search, started on parsable ends s <= e, never runs out of its fuel (2n+2 rounds), never
   fails, and stops on a parsable entry inside [s, e] whose header it returns - for ANY file, sorted or not. *)
Theorem C06_binsearch_in_range_terminates : forall es T s e,
  0 <= s -> s <= e -> e < lenZ es -> valid_at es s -> valid_at es e ->
  exists idx tn, binsearch (bfuel es) es s e T = FOk (idx, Some tn) /\ s <= idx <= e /\ vat es idx tn.
Proof. exact binsearch_in_range_terminates. Qed.
Print Assumptions C06_binsearch_in_range_terminates.

(* FindRecordStartIdx = linear scan: every file with non-decreasing parsable times and unparsable entries
   anywhere, every cursor (with or without a file name), both directions; not-found exactly when the scan finds
   nothing; in particular it always returns. *)
Theorem C06_find_eq_scan : forall es T name desc,
  sorted es -> names_unique es -> find es (lenZ es) T name desc = find_res (find_spec es T name desc).
Proof. exact find_eq_scan. Qed.
Print Assumptions C06_find_eq_scan.

(* GetRecord: an article is found by its file name, at its position, iff an entry carries that name *)
Theorem C06_getrecord : forall es T nm, sorted es -> names_unique es ->
  (forall i, vat es i (T, nm) -> get_record es (lenZ es) T nm = FOk (i + 1)) /\
  ((forall i, ~ vat es i (T, nm)) -> get_record es (lenZ es) T nm = FErr E_NOTFOUND).
Proof. exact (fun es T nm Hs Hu => conj (fun i Hv => getrecord_found es T nm i Hs Hu Hv) (getrecord_absent es T nm Hs Hu)). Qed.
Print Assumptions C06_getrecord.

(* Page walk, the step the walk rests on: the next-cursor of a parsable entry resolves to exactly that entry's
   position, in both directions, so the following page starts where the previous one ended.
   PARTIAL: the full statement
     forall es k desc, sorted es -> names_unique es -> (0 < k)%nat -> every next-cursor entry parsable ->
       page_walk es k desc = FOk (0, max 1 (ceil (n/k)), [1..n] or [n..1])
   (induction over the pages on top of this lemma and the GetRecords loop) is not proved here; it is validated by
   the check for every file of n <= 7 (thorough: 9) entries, every page size <= n+1, both directions, on the
   implementation (cmsys-level walk and bbs.LoadGeneralArticles) and on this model. *)
Theorem C06_page_walk_partial : forall es T nm i desc,
  sorted es -> names_unique es -> vat es i (T, nm) -> find es (lenZ es) T (Some nm) desc = FOk (i + 1).
Proof. exact find_present. Qed.
Print Assumptions C06_page_walk_partial.

(* The walk as the property states it ("visits every entry") is false: a page boundary on a delete-marked entry
   yields a cursor DeserializeArticleIdxStr rejects; with [article; deleted; article] and page size 1 the newest-first
   walk serves one page (entry 3) and stops with the strconv error - entries 2 and 1 are never visited.
   Known finding C06/deleted-page-boundary. *)
Theorem C06_page_walk_refuted_deleted_boundary :
  exists es k desc, sorted es /\ names_unique es /\ (0 < k)%nat /\
    page_walk es k desc = FOk (E_ATOI, 1, [3]) /\ lenZ es = 3.
Proof. exact page_walk_refuted_deleted_boundary. Qed.
Print Assumptions C06_page_walk_refuted_deleted_boundary.
