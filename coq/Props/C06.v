(* C06 — Article lookup and paging over a board index equal a linear scan.
   Only statements here; every proof is `exact <lemma of Proofs/C06.v>`.
   Vocabulary (Model/C06.v, Proofs/C06.v): an index file is a list of entries, [None] = delete-marked/unparsable;
   [vat es i tn] = entry i (0-based) is parsable and is the pair tn = (creation time, name suffix);
   [sorted es] = parsable creation times never decrease along the file; [names_unique es] = no two parsable
   entries are equal; [find] models cmsys.FindRecordStartIdx; [find_spec] is the linear scan: the entry equal
   to the cursor if there is one, else the last entry not newer (descending) / the first entry not older
   (ascending) than the cursor, positions counted from 1; [page_walk] models bbs.LoadGeneralArticles iterated on
   its own next-cursor; [FHang] = a call that does not return within the fuel of its loops. *)
From Verif Require Import Base.Common Model.C06 Proofs.C06.

(* From ANY starting index between the first and the last parsable entry, the directional post-search returns
   what the linear scan returns (0-based): correctness does not depend on where the binary search stops. *)
Theorem C06_postsearch_any_start : forall es ss ee idx T name,
  sorted es -> bounds es ss ee -> ss <= idx <= ee ->
  post_desc es idx ss ee T name = spec_res (find_spec es T name true) /\
  post_asc es idx ss ee T name = spec_res (find_spec es T name false).
Proof. exact (fun es ss ee idx T name Hs Hb Hi => conj (post_desc_any_start es ss ee idx T name Hs Hb Hi) (post_asc_any_start es ss ee idx T name Hs Hb Hi)). Qed.
Print Assumptions C06_postsearch_any_start.

(* The odd binary search, started on parsable ends s <= e, never runs out of its fuel (2n+2 rounds), never
   fails, and stops on a parsable entry inside [s, e] whose header it returns - for ANY file, sorted or not. *)
Theorem C06_binsearch_in_range_terminates : forall es T s e,
  0 <= s -> s <= e -> e < lenZ es -> valid_at es s -> valid_at es e ->
  exists idx tn, binsearch (bfuel es) es s e T = FOk (idx, Some tn) /\ s <= idx <= e /\ vat es idx tn.
Proof. exact binsearch_in_range_terminates. Qed.
Print Assumptions C06_binsearch_in_range_terminates.

(* FindRecordStartIdx = linear scan: every file with non-decreasing parsable times and unparsable entries
   anywhere, every cursor (with or without a file name), both directions; not-found exactly when the scan finds
   nothing; in particular it always returns. *)
Theorem C06_find_eq_scan : forall es T name desc,
  sorted es -> names_unique es -> find es (lenZ es) T name desc = find_res (find_spec es T name desc).
Proof. exact find_eq_scan. Qed.
Print Assumptions C06_find_eq_scan.

(* GetRecord: an article is found by its file name, at its position, iff an entry carries that name *)
Theorem C06_getrecord : forall es T nm, sorted es -> names_unique es ->
  (forall i, vat es i (T, nm) -> get_record es (lenZ es) T nm = FOk (i + 1)) /\
  ((forall i, ~ vat es i (T, nm)) -> get_record es (lenZ es) T nm = FErr E_NOTFOUND).
Proof. exact (fun es T nm Hs Hu => conj (fun i Hv => getrecord_found es T nm i Hs Hu Hv) (getrecord_absent es T nm Hs Hu)). Qed.
Print Assumptions C06_getrecord.

(* Totality of the lookups: FindRecordStartIdx, GetRecord and GetRecords return (a value or an error) on EVERY
   input - any file (sorted or not, names repeated or not), any cached total (also one beyond the file, where the
   error of the second end search is dropped and the binary search runs with end = -1), any cursor, both directions:
   no loop of record.go runs out of the fuel the model gives it (n+2 per linear loop, 2n+2 binary-search rounds). *)
Theorem C06_no_hang : forall es total T name nm desc start n,
  find es total T name desc <> FHang /\ get_record es total T nm <> FHang /\ get_records es start n desc <> FHang.
Proof. exact no_hang. Qed.
Print Assumptions C06_no_hang.

(* Page walk, the step the walk rests on: the next-cursor of a parsable entry resolves to exactly that entry's
   position, in both directions, so the following page starts where the previous one ended.  Entries with equal
   creation times make the cursor's time ambiguous; [names_unique] (file names are created with O_EXCL) is exactly
   what resolves it (satisfiable together with equal times: ex_file_unique / ex_valid_file_ok; not droppable:
   walk_needs_unique_names - three entries with one name, page size 1: the walk never ends). *)
Theorem C06_page_walk_cursor_resolves : forall es T nm i desc,
  sorted es -> names_unique es -> vat es i (T, nm) -> find es (lenZ es) T (Some nm) desc = FOk (i + 1).
Proof. exact find_present. Qed.
Print Assumptions C06_page_walk_cursor_resolves.

(* THE PAGE WALK.  [page_walk es k desc] iterates bbs.LoadGeneralArticles on its own next-cursor from the first
   page (k entries per page, the (k+1)-th is the cursor, FindRecordStartIdx positions the next page) and returns
   (how it ended, pages served, positions visited); [up_from a m] = [a; a+1; ...] and [down_from a m] = [a; a-1; ...]
   (m terms), [ceil_div n k] = (n+k-1)/k.
   [boundaries_parsable es k desc]: for every j >= 1 with j*k < n the entry that opens page j+1 - 0-based position
   j*k ascending, n-1-j*k descending - is parsable; nothing is asked of any other entry.
   For EVERY index file with non-decreasing parsable times and unique names, unparsable entries anywhere else, every
   page size k >= 1, both directions: the walk ends normally (code 0, never Hang / out of fuel, no error), after
   exactly ceil(n/k) pages (one page for an empty board), having visited 1..n (n..1 newest first) - every position
   exactly once, in order.  The case the hypothesis excludes is C06_page_walk_refuted_deleted_boundary below. *)
Theorem C06_page_walk : forall es k desc,
  sorted es -> names_unique es -> (0 < k)%nat -> boundaries_parsable es k desc ->
  page_walk es k desc =
    FOk (0, Z.max 1 (ceil_div (lenZ es) (Z.of_nat k)),
         if desc then down_from (lenZ es) (length es) else up_from 1 (length es)).
Proof. exact page_walk_complete. Qed.
Print Assumptions C06_page_walk.

(* "every entry exactly once": that visited list has no repetition, has n elements and contains exactly 1..n *)
Theorem C06_page_walk_each_once : forall (es : list entry) (desc : bool),
  let visited := if desc then down_from (lenZ es) (length es) else up_from 1 (length es) in
  NoDup visited /\ (forall i, In i visited <-> 1 <= i <= lenZ es) /\ length visited = length es.
Proof. exact walk_order_once. Qed.
Print Assumptions C06_page_walk_each_once.

(* The special case without unparsable entries: no hypothesis on page boundaries is left *)
Theorem C06_page_walk_all_valid : forall es k desc,
  sorted es -> names_unique es -> (0 < k)%nat -> all_parsable es ->
  page_walk es k desc =
    FOk (0, Z.max 1 (ceil_div (lenZ es) (Z.of_nat k)),
         if desc then down_from (lenZ es) (length es) else up_from 1 (length es)).
Proof. exact page_walk_all_valid. Qed.
Print Assumptions C06_page_walk_all_valid.

(* "...and always terminates", with NO hypothesis on page boundaries: every walk over a file with non-decreasing
   parsable times and unique names ends - either normally (code 0) after all n positions, or with the strconv
   error of an unparsable page-boundary entry after a proper prefix of the n positions; never out of fuel (Hang),
   never another error, never a position twice or out of order.  (names_unique is needed: walk_needs_unique_names.) *)
Theorem C06_page_walk_always_terminates : forall es k desc,
  sorted es -> names_unique es -> (0 < k)%nat ->
  exists code pages m,
    page_walk es k desc =
      FOk (code, pages, firstn m (if desc then down_from (lenZ es) (length es) else up_from 1 (length es))) /\
    ((code = 0 /\ m = length es) \/ (code = E_ATOI /\ (m < length es)%nat)).
Proof. exact page_walk_terminates. Qed.
Print Assumptions C06_page_walk_always_terminates.

(* The walk as the property states it ("visits every entry", no proviso) is false: a page boundary on a delete-marked entry
   yields a cursor DeserializeArticleIdxStr rejects; with [article; deleted; article] and page size 1 the newest-first
   walk serves one page (entry 3) and stops with the strconv error - entries 2 and 1 are never visited.
   This file violates [boundaries_parsable] (refuted_file_boundary).  Known finding C06/deleted-page-boundary. *)
Theorem C06_page_walk_refuted_deleted_boundary :
  exists es k desc, sorted es /\ names_unique es /\ (0 < k)%nat /\
    page_walk es k desc = FOk (E_ATOI, 1, [3]) /\ lenZ es = 3.
Proof. exact page_walk_refuted_deleted_boundary. Qed.
Print Assumptions C06_page_walk_refuted_deleted_boundary.

(* ---- bbs.LoadGeneralArticles as ONE CALL, with whatever cursor the client sends (Model: bbs_start -> find -> load_page) ----
   [bbs_page es cur k desc] models bbs.LoadGeneralArticles(cursor, k, desc) on the board whose index is es: [cur = None] is
   the empty cursor text, [Some (T, nm)] the text "<T>@<article id of M.<T>.A.<nm>>"; the result is the list of
   (position, entry) pairs of the page and the entry after it (the next cursor).  [bbs_page_spec] (Model/C06.v) is the
   property's reading: no cursor - the page from the newest / the first entry; a cursor - the page [page_of es s k desc] of
   the k entries from the position s the LINEAR SCAN [find_spec] gives (the entry itself if present, else the nearest entry
   in the listing direction) and the entry after them; NOT FOUND when the scan finds nothing in that direction.
   For EVERY file with non-decreasing parsable times and unique names, EVERY cursor - present, absent, older than
   everything, newer than everything - both directions, every page size: the call returns exactly that. *)
Theorem C06_bbs_page_eq_scan : forall es cur k desc,
  sorted es -> names_unique es -> bbs_page es cur k desc = bbs_page_spec es cur k desc.
Proof. exact bbs_page_eq_scan. Qed.
Print Assumptions C06_bbs_page_eq_scan.

(* In particular a cursor with no entry in the listing direction - every parsable entry newer than it when listing newest
   first, older than it when listing oldest first - ENDS the listing (not found): it is never answered with a page, so a
   walk cannot start over from it. *)
Theorem C06_bbs_cursor_out_of_range_ends : forall (es : list entry) (T nm : Z) (k : nat) (desc : bool),
  sorted es -> names_unique es -> es <> [] ->
  (forall i tn, vat es i tn -> if desc then T < fst tn else fst tn < T) ->
  bbs_page es (Some (T, nm)) k desc = FErr E_NOTFOUND.
Proof. exact bbs_cursor_out_of_range. Qed.
Print Assumptions C06_bbs_cursor_out_of_range_ends.

(* STALE CURSORS (histories).  [times_strict es]: parsable creation times strictly increase; [deletions es es']: es' is es
   after any number of deletions (same length; every entry unchanged or unparsable now).  If (T, nm) was the entry at
   0-based position i of es, then on ANY such later file es' the cursor (T, nm) resolves - in either direction - to
   [nearest_live es' desc i]: the nearest parsable entry of es' at or after position i in the listing direction (position
   j + 1, nothing parsable between i and j), and to NOT FOUND when no parsable entry is left in that direction.  A cursor
   is a bookmark that survives deletions: it never points back into what was listed already.
   (times_strict is not droppable: stale_cursor_equal_times_goes_back in Proofs/C06.v - with two articles of one second
   the scan by creation time returns to the far end of that second.) *)
Theorem C06_stale_cursor_is_bookmark : forall es es' i T nm desc,
  times_strict es -> deletions es es' -> vat es i (T, nm) ->
  nearest_live es' desc i (find es' (lenZ es') T (Some nm) desc).
Proof. exact stale_cursor_bookmark. Qed.
Print Assumptions C06_stale_cursor_is_bookmark.

(* THE WALK RESUMED AFTER DELETIONS.  [bwalk fuel es k desc cur pg dels vis tr] iterates bbs.LoadGeneralArticles on the
   cursors it hands out (Model/C06.v; [vis] = positions listed so far, [dels] = deletions still scheduled).  A cursor
   (T, nm) was handed out for position i of es; when the next page is requested the file is es' (any deletions since).
   Then EITHER some entry survives at or after i in the listing direction, j is the nearest one, and the rest of the walk
   lists j+1, j+1 +- 1, ... - each position once, in order, nothing before j+1 again - to the end of the file (code 0, all
   [remn es' desc (j+1)] remaining positions) or to an unparsable page boundary (the known finding, code E_ATOI, a proper
   prefix), never out of fuel; OR nothing survives in that direction and the walk ends at once with NOT FOUND having
   listed nothing more.  Every further deletion starts another instance of this theorem. *)
Theorem C06_walk_resumes_after_deletions :
  forall (es es' : list entry) (i T nm : Z) (k : nat) (desc : bool) (pg : Z) (vis tr : list Z),
  times_strict es -> deletions es es' -> vat es i (T, nm) -> (0 < k)%nat ->
  (exists j tn, (if desc then j <= i else i <= j) /\ vat es' j tn /\
     (forall j' tn', (if desc then j < j' <= i else i <= j' < j) -> ~ vat es' j' tn') /\
     exists code pg' m tr',
       bwalk (bwfuel es') es' k desc (Some (T, nm)) pg [] vis tr = FOk (code, pg', vis ++ zseq (dir desc) (j + 1) m, tr') /\
       ((code = 0 /\ m = Z.to_nat (remn es' desc (j + 1))) \/ (code = E_ATOI /\ (m < Z.to_nat (remn es' desc (j + 1)))%nat))) \/
  ((forall j tn, (if desc then j <= i else i <= j) -> ~ vat es' j tn) /\
   bwalk (bwfuel es') es' k desc (Some (T, nm)) pg [] vis tr = FOk (E_NOTFOUND, pg, vis, tr)).
Proof. exact walk_resumes_after_deletions. Qed.
Print Assumptions C06_walk_resumes_after_deletions.

(* ---- GetRecords: every summary is the record at its position, for every count ----
   [get_records es start n desc] models cmsys.GetRecords(board, dir, start, n, desc); [tag es i] = (i, the record stored at
   1-based position i); [zseq (dir desc) start m] = start, start +- 1, ... (m terms); [remn es desc start] = records left
   from start in the listing direction.  For EVERY file, every start position inside it, EVERY count n (one record, one read
   block of 128, several blocks, more than the file holds), both directions: min(n, what is left) summaries come back and
   the j-th one is the record stored at position start +- j.  The page of bbs.LoadGeneralArticles is cut from this list
   (load_page), so a page of 128 and more entries lists the same records as 128 pages of one. *)
Theorem C06_getrecords_eq_scan : forall es start n desc, 1 <= start <= lenZ es ->
  get_records es start n desc =
    FOk (map (tag es) (zseq (dir desc) start (Nat.min n (Z.to_nat (remn es desc start))))).
Proof. exact getrecords_eq_scan. Qed.
Print Assumptions C06_getrecords_eq_scan.

(* ---- the name comparison, on bytes, under every site configuration ----
   [fname t nm] = the bytes of "M.<t as 10 decimal digits>.A.<nm as 3 hex digits>"; [fn_eq sd a b] models
   ptttype.Filename_t.Eq (Cstrcmp from byte 2 on) on a site whose safe-delete prefix FN_SAFEDEL has sd bytes (2 for the
   default ".d", 8 for ".deleted").  For ALL article names and EVERY sd the comparison is exactly the equality of the
   (creation time, suffix) pairs that find / get_record / find_spec work with: two names that differ only in the leading
   digits of the time are different names, whatever the delete prefix of the site is. *)
Theorem C06_name_eq_bytes : forall sd t nm t' nm', name_ok t nm -> name_ok t' nm' ->
  fn_eq sd (fname t nm) (fname t' nm') = (t =? t') && (nm =? nm').
Proof. exact fn_eq_pair. Qed.
Print Assumptions C06_name_eq_bytes.

(* The offset matters: comparing from byte 8 (after a ".deleted"-sized prefix) instead of byte 2 identifies different
   articles - M.1607203395.A.F6C and M.1607213395.A.F6C, 10000 seconds apart.  Such a comparison is not name equality;
   the check runs every lookup under FN_SAFEDEL=".deleted" as well as ".d" with names of exactly this shape. *)
Theorem C06_name_eq_from_safedel_prefix_refuted :
  exists t nm t' nm', name_ok t nm /\ name_ok t' nm' /\ (t, nm) <> (t', nm') /\
    fn_eq_from 8 (fname t nm) (fname t' nm') = true.
Proof. exact fn_eq_from_safedel_prefix_refuted. Qed.
Print Assumptions C06_name_eq_from_safedel_prefix_refuted.

(* The configuration is not an input of lookup and paging: a case run "under FN_SAFEDEL of length sd" (first group
   [20; sd; op], what the harness sends after configuring the site) is answered by the model exactly as under the default *)
Theorem C06_config_independent : forall sd op rest, 2 <= sd <= 8 ->
  run_case ([20; sd; op] :: rest) = run_case ([op] :: rest).
Proof. exact config_independent. Qed.
Print Assumptions C06_config_independent.

(* FIRST ACCESS.  The listing takes the board's article count from shared memory; when it is not there yet,
   cache.GetBTotalWithRetry -> SetBTotal computes it as (size of the index file) / 128.  For EVERY index file - its
   records followed by any incomplete record of slack < 128 bytes - that count is the number of records
   (C06_btotal_of_size), and the first page / cursor request served with it is the linear-scan page
   (bbs_page_first = bbs_page_at with that count).  The size must be that of the file the records are in: with the
   size of anything else (8 bytes: the text of a symbolic link) the count is 0 and the listing is empty although the scan
   finds the entries (first_access_wrong_size_loses in Proofs/C06.v).  That the code asks the operating system for the
   size of the right object is NOT a theorem - the check validates it on symbolic-link and hard-link layouts. *)
Theorem C06_btotal_of_size : forall es slack, 0 <= slack < REC_SZ -> btotal_of_size (fsize es slack) = lenZ es.
Proof. exact btotal_of_fsize. Qed.
Print Assumptions C06_btotal_of_size.

Theorem C06_first_access_page_eq_scan : forall es slack cur k desc,
  0 <= slack < REC_SZ -> sorted es -> names_unique es ->
  bbs_page_first es slack cur k desc = bbs_page_spec es cur k desc.
Proof. exact first_access_page_eq_scan. Qed.
Print Assumptions C06_first_access_page_eq_scan.

(* The path layout of the index (case group [30; layout; op]) and another operation of the same process inside the index
   ([31; mode; op]) are not inputs of the MODEL: it answers from the entries alone (true by construction - that the CODE
   does is validated by the check, not proved: goroutines and the kernel's path resolution are outside the model).
   The one op that reads the count by first access, op 7 under 30, is the linear-scan page (op 9). *)
Theorem C06_env_independent : forall c v op rest,
  (c = 30 /\ 0 <= v <= 4 /\ op <> 7) \/ (c = 31 /\ 1 <= v <= 4) ->
  run_case ([c; v; op] :: rest) = run_case ([op] :: rest).
Proof. exact env_independent. Qed.
Print Assumptions C06_env_independent.

Theorem C06_first_access_case : forall es hascur T nm k desc v, 0 <= v <= 4 ->
  sorted (entries_of_wire es) -> names_unique (entries_of_wire es) ->
  run_case [[30; v; 7]; es; [hascur; T; nm; k; desc]] = run_case [[9]; es; [hascur; T; nm; k; desc]].
Proof. exact first_access_case. Qed.
Print Assumptions C06_first_access_case.
