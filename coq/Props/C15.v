(* C15 — Concurrent registrations cannot duplicate a user ID or share a slot.
   Statements over the interleaving model of Model/C15.v (ptt.SetupNewUser under the passwd semaphore): any number
   of threads spread over any number of processes, any ids, any initial account table, any schedule (list of actions:
   a step of a thread, an interrupted semaphore wait, [Join p] = a process starting while the others run (its start-up
   calls cmbbs.PasswdInit on the attach path), [Die p] = a process going away at any moment, by exit or SIGKILL, with
   the kernel applying its SEM_UNDO adjustment; an action that is not enabled is skipped). Every theorem below that
   quantifies over [sch] therefore holds with processes joining and leaving while registrations are in flight.
   Atomicity of the individual steps
   (one index lookup, semop, SetUserID, the write of one .PASSWDS record) is the stated assumption of the model.
   [idx s k] is the id the shared-memory index holds for slot k, [pwd s k] the id in record k of .PASSWDS,
   [] the empty id; [key] folds letter case. [PDoneOk k] = the call returned nil and the account is in slot k;
   [PDead], [PDeadW k], [PDeadOk k] = the call's process went away before it returned (having written nothing / the
   index entry of slot k only / both the index entry and the record of slot k). *)
From Verif Require Import Base.Common Model.C15 Proofs.C15.

Definition WellFormed (c : cfg) : Prop := forall t, uid c t <> [].
Definition NoDuplicates (c : cfg) (init : nat -> list Z) : Prop :=
  forall k k', (k < nslots c)%nat -> (k' < nslots c)%nat -> init k <> [] -> key (init k) = key (init k') -> k = k'.

(* mutual exclusion on the critical section, in every reachable state (with or without the lookup inside the lock) *)
Theorem C15_mutex : forall c init, WellFormed c -> forall sch t t',
  let s := run c sch (init_st init) in
  holder (pcs s t) = true -> holder (pcs s t') = true -> t = t' /\ sem s = Some t.
Proof. intros c init H. exact (mutex c init H). Qed.
Print Assumptions C15_mutex.

(* two successful registrations never get the same slot — under every interleaving, for the code as found and as repaired *)
Theorem C15_distinct_slots : forall c init, WellFormed c -> forall sch t t' k,
  let s := run c sch (init_st init) in pcs s t = PDoneOk k -> pcs s t' = PDoneOk k -> t = t'.
Proof. intros c init H. exact (distinct_slots c init H). Qed.
Print Assumptions C15_distinct_slots.

(* the slot a successful registration reports was free before and holds exactly the registered id *)
Theorem C15_slot_was_free : forall c init, WellFormed c -> forall sch t k,
  let s := run c sch (init_st init) in
  pcs s t = PDoneOk k -> (k < nslots c)%nat /\ init k = [] /\ idx s k = uid c t.
Proof. intros c init H. exact (slot_was_free c init H). Qed.
Print Assumptions C15_slot_was_free.

(* once all calls have returned: the semaphore is free, the index and .PASSWDS agree slot by slot, and every slot holds
   either what it held before (no success was given it) or the id of the one successful registration that was given it *)
Theorem C15_index_agrees : forall c init, WellFormed c -> forall sch,
  let s := run c sch (init_st init) in quiescent s ->
  sem s = None /\
  forall k, pwd s k = idx s k /\
    ((exists t, pcs s t = PDoneOk k /\ idx s k = uid c t /\ init k = []) \/
     ((forall t, pcs s t <> PDoneOk k) /\ idx s k = init k)).
Proof. intros c init H. exact (index_agrees c init H). Qed.
Print Assumptions C15_index_agrees.

(* The passwd semaphore is a COUNTER in the model ([semv], what semctl(GETVAL) reads): PasswdLock needs it positive and
   decrements it, every PasswdUnlock increments it and nothing caps it. For the protocol as coded, under every schedule
   and history (refusals inside the critical section — id found by the lookup under the lock, no free slot —,
   interrupted waits, any number of later registrations on the same semaphore, processes starting while a call is
   inside the lock, processes going away while one of their calls holds the lock or waits for it): the value never exceeds 1, it is 0
   while a call is between its PasswdLock and its PasswdUnlock, it is 1 whenever no call is inside, in particular at
   quiescence. (Proofs/C15.v ex_counter_2_shares_slot: from a value of 2 the step relation hands one slot to two ids.) *)
Theorem C15_sem_counter : forall c init, WellFormed c -> forall sch,
  let s := run c sch (init_st init) in
  (semv s <= 1)%nat /\
  (forall t, holder (pcs s t) = true -> semv s = 0%nat) /\
  ((forall t, holder (pcs s t) = false) -> semv s = 1%nat) /\
  (quiescent s -> semv s = 1%nat).
Proof. intros c init H. exact (sem_counter c init H). Qed.
Print Assumptions C15_sem_counter.

(* the replay the check runs on observed traces (schedule numbers with observation marks where the driver read the
   semaphore): its final state is [run] of the trace without the marks — so all theorems here apply to it — and every
   value it reports at a mark is 0 or 1 *)
Theorem C15_observed_counter : forall c init, WellFormed c -> forall zs s' o,
  replay_obs c zs (init_st init) = Some (s', o) ->
  s' = run c (unmark zs) (init_st init) /\ Forall (fun v => v = 0 \/ v = 1) o /\ (semv s' <= 1)%nat.
Proof. intros c init H. exact (observed_counter c init H). Qed.
Print Assumptions C15_observed_counter.

(* no deadlock: while some call has neither returned nor lost its process, some thread can move — a call waiting for
   the semaphore is never stuck behind a holder whose process went away (without [Die] in the schedule no call is ever
   [dead] and this is the statement "while some call has not returned, some thread can move") *)
Theorem C15_progress : forall c init, WellFormed c -> forall sch t,
  let s := run c sch (init_st init) in
  finished (pcs s t) = false -> dead (pcs s t) = false -> exists t', step c s (Step t') <> None.
Proof. intros c init H. exact (progress c init H). Qed.
Print Assumptions C15_progress.

(* A process starting in ANY reachable state — whatever the calls of the other processes are doing — can always do so
   and changes neither the semaphore nor anything else; a lock that is held stays held (value 0, same holder). *)
Theorem C15_join_keeps_lock : forall c init, WellFormed c -> forall sch p,
  let s := run c sch (init_st init) in
  exists s', step c s (Join p) = Some s' /\
    semv s' = semv s /\ pcs s' = pcs s /\ idx s' = idx s /\ pwd s' = pwd s /\ adj s' = adj s /\
    (forall t, holder (pcs s t) = true -> semv s' = 0%nat /\ holder (pcs s' t) = true).
Proof. intros c init H. exact (join_keeps_lock c init H). Qed.
Print Assumptions C15_join_keeps_lock.

(* SEM_UNDO: in every reachable state the adjustment the kernel keeps for process p is 1 if the call inside the lock
   runs in p and 0 otherwise (0 for every process when no call is inside). *)
Theorem C15_undo_adjustment : forall c init, WellFormed c -> forall sch p,
  let s := run c sch (init_st init) in
  (forall t, holder (pcs s t) = true -> adj s p = if Nat.eqb (proc c t) p then 1 else 0) /\
  ((forall t, holder (pcs s t) = false) -> adj s p = 0).
Proof. intros c init H. exact (undo_adjustment c init H). Qed.
Print Assumptions C15_undo_adjustment.

(* Process p going away in ANY reachable state: its calls stop where they are ([kill]: what they wrote stays), the
   calls of the other processes and both tables are untouched; if the call inside the lock — if there is one — runs in
   p the semaphore is free afterwards (value 1: the next registration gets in, C15_progress), and if it runs in
   another process the semaphore stays taken (value 0). *)
Theorem C15_process_exit : forall c init, WellFormed c -> forall sch p,
  let s := run c sch (init_st init) in let s' := run c (sch ++ [Die p]) (init_st init) in
  (forall t, proc c t = p -> pcs s' t = kill (pcs s t)) /\
  (forall t, proc c t <> p -> pcs s' t = pcs s t) /\
  idx s' = idx s /\ pwd s' = pwd s /\
  ((forall t, holder (pcs s t) = true -> proc c t = p) -> semv s' = 1%nat) /\
  (forall t, holder (pcs s t) = true -> proc c t <> p -> semv s' = 0%nat).
Proof. intros c init H. exact (process_exit c init H). Qed.
Print Assumptions C15_process_exit.

(* a slot is owned by at most one call, also counting the calls that lost their process after writing the index
   ([owned p = Some k] for PWrite k, PUnlock k, PDoneOk k, PDeadW k, PDeadOk k) *)
Theorem C15_distinct_owners : forall c init, WellFormed c -> forall sch t t' k,
  let s := run c sch (init_st init) in owned (pcs s t) = Some k -> owned (pcs s t') = Some k -> t = t'.
Proof. intros c init H. exact (distinct_owners c init H). Qed.
Print Assumptions C15_distinct_owners.

(* C15_index_agrees with processes gone: once every call has returned or lost its process, the semaphore is free, the
   index and .PASSWDS agree on every slot (except a slot whose writer lost its process between the two writes), and every
   slot holds what it held before or the id of the ONE call (returned with success, or gone after writing) given it *)
Theorem C15_settled_agrees : forall c init, WellFormed c -> forall sch,
  let s := run c sch (init_st init) in settled s ->
  semv s = 1%nat /\ sem s = None /\
  forall k, ((forall t, pcs s t <> PDeadW k) -> pwd s k = idx s k) /\
    ((exists t, (pcs s t = PDoneOk k \/ pcs s t = PDeadOk k \/ pcs s t = PDeadW k) /\ idx s k = uid c t /\ init k = []) \/
     ((forall t, owned (pcs s t) <> Some k) /\ idx s k = init k)).
Proof. intros c init H. exact (settled_agrees c init H). Qed.
Print Assumptions C15_settled_agrees.

(* The code as found (existence check only outside the semaphore): "at most one registration of an id succeeds" is
   false. Two registrations of the same id — and of ids differing only in letter case — both succeed under
   A.Check, B.Check, A.Lock .. A.Unlock, B.Lock .. B.Unlock; the index then holds the id twice. The same schedule is
   replayed on the implementation by the check. *)
Theorem C15_unique_id_refuted :
  (exists c init sch t t' k k', recheck c = false /\ WellFormed c /\ NoDuplicates c init /\ t <> t' /\
     uid c t = uid c t' /\
     let s := run c sch (init_st init) in pcs s t = PDoneOk k /\ pcs s t' = PDoneOk k' /\ idx s k = idx s k') /\
  (exists c init sch t t' k k', recheck c = false /\ WellFormed c /\ NoDuplicates c init /\ t <> t' /\
     uid c t <> uid c t' /\ key (uid c t) = key (uid c t') /\
     let s := run c sch (init_st init) in pcs s t = PDoneOk k /\ pcs s t' = PDoneOk k').
Proof. exact unique_id_refuted. Qed.
Print Assumptions C15_unique_id_refuted.

(* The code in the tree looks the id up again inside the critical section ... *)
Theorem C15_code_rechecks : code_rechecks = true.
Proof. exact code_rechecks_true. Qed.
Print Assumptions C15_code_rechecks.

(* ... and for that protocol, from a table without duplicates: in every reachable state no id (case-insensitively) is
   held by two slots; at most one of the registrations of the same case-insensitive id succeeds, under every
   interleaving; and none succeeds for an id the table already held *)
Theorem C15_unique_id : forall c init, WellFormed c -> recheck c = true -> NoDuplicates c init -> forall sch,
  let s := run c sch (init_st init) in
  (forall k k', (k < nslots c)%nat -> (k' < nslots c)%nat -> idx s k <> [] -> key (idx s k) = key (idx s k') -> k = k') /\
  (forall t t' k k', pcs s t = PDoneOk k -> pcs s t' = PDoneOk k' -> key (uid c t) = key (uid c t') -> t = t') /\
  (forall t k k0, pcs s t = PDoneOk k -> (k0 < nslots c)%nat -> init k0 <> [] -> key (init k0) <> key (uid c t)).
Proof. intros c init H1 H2 H3 sch. exact (unique_id_all c init H1 H2 H3 sch). Qed.
Print Assumptions C15_unique_id.

(* The existence check and the size of the table. [exists_id n tab id] is cache.DoSearchUserRaw(id) != 0 on a table of
   n = MAX_USERS slots: it answers "found" exactly when SOME slot below n holds the id in whatever letter case. Nothing else
   bounds the lookup - in particular not the number of buckets of the id index (65 536, while the production configuration
   has 2 000 000 slots): every theorem above is stated for any [nslots c]. *)
Theorem C15_lookup_sees_every_slot : forall n tab id,
  exists_id n tab id = true <-> exists k, (k < n)%nat /\ key (tab k) = key id.
Proof. exact exists_id_spec. Qed.
Print Assumptions C15_lookup_sees_every_slot.

(* ... so, in any state and for a table of any size, a call whose id is held by ANY slot of the index (case-insensitively)
   is refused: by the check outside the semaphore, and by the lookup inside it (the one the loser of a race depends on).
   The check runs the real calls on the production-size tables with accounts in slots above the number of buckets. *)
Theorem C15_existing_id_refused : forall c s t k, (k < nslots c)%nat -> key (idx s k) = key (uid c t) ->
  (pcs s t = PCheck -> step c s (Step t) = Some (set_pc s t (PDoneErr E_EXISTS))) /\
  (pcs s t = PRecheck -> step c s (Step t) = Some (set_pc s t (PUnlockErr E_EXISTS))).
Proof. exact existing_id_refused. Qed.
Print Assumptions C15_existing_id_refused.

(* ------------------------------------------------------------------ the expiry sweep inside SetupNewUser (full table)
   A registration that sees no free slot runs tryCleanUser before it takes the semaphore: every account from uid 2 on
   whose distance [now] - LastLogin, taken in int32 and in minutes, exceeds its keep time by more than
   CLEAN_USER_EXPIRE_RANGE_MIN is killed (index entry and .PASSWDS record emptied) and its slot is handed to the new
   request. [now] is the clock of the sweeping process, LastLogin was stored by another request: nothing orders them.
   [live now r] = the stamp of r lies less than SPARE_SECONDS (182.5 days + 30 minutes) before [now] OR AFTER it
   (down to now - stamp = -2^31). These statements are about the table function [sweep] and the sequential machine
   [sw_step] of Model/C15.v (what op 6 of the driver is validated against); the sweep is not an action of the
   interleaving relation [run] above. *)

(* no account whose stamp is recent - or later than the clock that judges it - is ever killed, whatever its id and level *)
Theorem C15_sweep_spares_live : forall now id lv ll,
  -2147483648 <= now - ll < SPARE_SECONDS -> sweep_kills now id lv ll = false.
Proof. exact sweep_spares. Qed.
Print Assumptions C15_sweep_spares_live.

(* the slot of a live account survives a sweep, whatever the rest of the table holds; the sweep never moves or changes
   an account: slot by slot the table is what it was, or free *)
Theorem C15_sweep_keeps_live_slot : forall now t k,
  (live now (nth k t srec_empty) -> nth k (sweep now t) srec_empty = nth k t srec_empty)
  /\ (nth k (sweep now t) srec_empty = nth k t srec_empty \/ nth k (sweep now t) srec_empty = srec_empty)
  /\ length (sweep now t) = length t.
Proof. intros now t k. split; [apply sweep_keeps_live|split; [apply sweep_only_frees|apply sweep_length]]. Qed.
Print Assumptions C15_sweep_keeps_live_slot.

(* on a table of live accounts the sweep is the identity - so the step that leaves reg.checked changes nothing, a full
   table stays full, and the request is refused instead of being given the slot of a success *)
Theorem C15_sweep_identity_on_live : forall now t, Forall (live now) t ->
  sweep now t = t
  /\ (sw_free t 0 = None -> sw_free (sweep now t) 0 = None)
  /\ (forall ids lls stale pcs th v tab' stale' pcs', nth th pcs (9, 0) = (1, v) ->
        sw_step now ids lls (t, stale, pcs) th = Some (tab', stale', pcs') -> tab' = t).
Proof.
  intros now t L. split; [apply sweep_identity; exact L|split; [apply sw_full_stays_full; exact L|]].
  intros ids lls stale pcs th v tab' stale' pcs' P E. exact (sw_step_checked_keeps now ids lls t stale pcs th tab' stale' pcs' v L P E).
Qed.
Print Assumptions C15_sweep_identity_on_live.

(* non-vacuity: an unregistered account last seen 200 days ago is killed; one whose stamp is 5 seconds LATER than the
   sweeping clock, or 100 years later in int32 wrap-around terms, is not *)
Theorem C15_sweep_examples :
  sweep_kills 1790000000 [97; 98; 99] 7 (1790000000 - 200 * 86400) = true
  /\ sweep_kills 1790000000 [97; 98; 99] 7 (1790000000 + 5) = false
  /\ sweep 1790000000 [([115], 7, 0); ([97], 7, 1790000005); ([98], 7, 1790000000 - 200 * 86400)]
     = [([115], 7, 0); ([97], 7, 1790000005); srec_empty].
Proof. vm_compute. repeat split. Qed.
Print Assumptions C15_sweep_examples.
