(* C02 — Password hashes are crypt(3) DES and verify only the right password.
   Only statements here; every proof is `exact <lemma of Proofs/C02*.v>`. *)
From Verif Require Import Base.Common Gen.CryptTab Model.C02 Proofs.C02.
From Verif Require Model.C02_Frozen.

Theorem C02_tables :
  con_salt = C02_Frozen.con_salt /\ cov_2char = C02_Frozen.cov_2char /\ shifts2 = C02_Frozen.shifts2 /\
  skb = C02_Frozen.skb /\ SPtrans = C02_Frozen.SPtrans.
Proof. exact tables_frozen. Qed.
Print Assumptions C02_tables.
