(* C02 — Password hashes are crypt(3) DES and verify only the right password.
   Only statements here; every proof is `exact <lemma of Proofs/C02_*.v>`.

   The model (Model/C02.v) is crypt/crypt.go + cmbbs/passwd.go transcribed over Z; [fcrypt pw salt] is crypt.Fcrypt,
   [gen_passwd pw salt] is cmbbs.GenPasswd with the two salt bytes it drew, [check_passwd stored pw] is
   cmbbs.CheckPasswd; the specification (Model/C02_DesSpec.v) is textbook DES and crypt(3) on bit lists.
   Both are extracted and run against the Go code and libcrypt on every case of every run of the check.

   What is a theorem and what is only validated:
   - theorems for ALL passwords and salts: shape, key locality (bytes after the 8th, after a NUL, bit 7), generate
     then verify (Fcrypt/CheckPasswd and GenPasswd/CheckPasswd), the empty hash verifies nothing;
   - theorems over ALL table entries of the regenerated tables: frozen copy, SPtrans = P after S, skb = PC2 pieces,
     rotation schedule, cov_2char = alphabet, con_salt = its inverse;
   - theorems for ALL inputs about the table-free networks: the head of desSetKey is PC1, the tail of body is FP;
   - theorems for ALL key blocks / halves / round keys / salts: the 16 round keys of desSetKey are the FIPS round keys,
     one dEncrypt step is one Feistel round with crypt(3)'s salted E;
   - C02_equals_crypt3: whole-function equality with textbook crypt(3) for ALL passwords and ALL alphabet salts;
   - C02_calls_independent, C02_order_independent: the model functions have no state, so the answers of ANY sequence
     of calls are the single-call answers, at every position and in every order — true by construction of the model;
     that the Go code is such a function (no result aliasing a shared buffer, no shared scratch state) is what the
     harness checks with sessions of calls whose results are kept uncopied and with concurrent goroutines;
   - C02_accounts_*: histories of account operations (Register, Login, CheckPasswd, ChangePasswd at the bbs layer and
     through the gin handlers): for ALL histories the password an accepted Register / ChangePasswd set — the very bytes
     the entry point was given, bytes >= 0x80 included — opens the account at every entry point that asks for one, the
     stored hash is crypt(3) of exactly those bytes, and no operation moves another account's hash; that the four bbs
     entry points and the five handlers ARE the model's operations (none of them transcodes, trims, folds or truncates
     the password on its way down) is what the harness checks with op 7;
   - C02_reject_partial: "rejected for any differing password" CANNOT be proved (it would say that DES has no
     colliding keys here); it is exercised by differential testing only. *)
From Verif Require Import Base.Common Gen.CryptTab Model.C02 Model.C02_DesSpec Proofs.C02.
From Verif Require Model.C02_Frozen.
From Coq Require Import Permutation.

(* Every hash made with a 7-bit salt (what GenPasswd draws; what an ASCII hash carries) is 13 characters plus NUL:
   the two salt characters (a zero byte written as 'A'), then eleven characters of ./0-9A-Za-z. No crash. *)
Theorem C02_shape : forall pw salt, salt7 salt ->
  exists h, fcrypt pw salt = Ok h /\ length h = 14%nat /\ nth 13 h 1 = 0 /\ firstn 2 h = norm salt /\
            forallb crypt_char (firstn 11 (skipn 2 h)) = true.
Proof. exact shape. Qed.
Print Assumptions C02_shape.

(* The hash depends on the password only through the 8-byte key block ... *)
Theorem C02_key_locality : forall pw pw' salt, keyblock pw = keyblock pw' -> fcrypt pw salt = fcrypt pw' salt.
Proof. exact key_locality. Qed.
Print Assumptions C02_key_locality.

(* ... which ignores bytes after the eighth, *)
Theorem C02_key_ignores_after_8 : forall a t t', length a = 8%nat -> keyblock (a ++ t) = keyblock (a ++ t').
Proof. exact keyblock_after_8. Qed.
Print Assumptions C02_key_ignores_after_8.

(* bytes after a NUL, *)
Theorem C02_key_ignores_after_nul : forall a t t', keyblock (a ++ 0 :: t) = keyblock (a ++ 0 :: t').
Proof. exact keyblock_after_nul. Qed.
Print Assumptions C02_key_ignores_after_nul.

(* and bit 7 of every byte (a byte terminates the password only if all eight bits are zero), as in crypt(3): *)
Theorem C02_key_ignores_bit7 : forall pw pw', Forall2 same_low7 pw pw' -> keyblock pw = keyblock pw'.
Proof. exact keyblock_bit7. Qed.
Print Assumptions C02_key_ignores_bit7.

(* it is exactly crypt(3)'s key — the low seven bits of the first eight bytes of the C string decide it. *)
Theorem C02_key_is_crypt3_key : forall pw pw',
  keyblock pw = crypt_key pw /\ (keyblock pw = keyblock pw' <-> low7_key pw = low7_key pw').
Proof. exact key_is_crypt3_key. Qed.
Print Assumptions C02_key_is_crypt3_key.

(* A hash verifies against the password that produced it and against every password with the same key block. *)
Theorem C02_generate_then_verify : forall pw salt, salt7 salt ->
  exists h, fcrypt pw salt = Ok h /\ forall pw', keyblock pw' = keyblock pw -> check_passwd h pw' = Ok true.
Proof. exact generate_then_verify. Qed.
Print Assumptions C02_generate_then_verify.

(* The same through the real entry points: GenPasswd (non-empty password, any 7-bit salt draw) then CheckPasswd. *)
Theorem C02_genpasswd_then_checkpasswd : forall c pw s0 s1, c <> 0 -> 0 <= s0 < 128 -> 0 <= s1 < 128 ->
  exists h, gen_passwd (c :: pw) [s0; s1] = Ok h /\ check_passwd h (c :: pw) = Ok true.
Proof. exact gen_then_check. Qed.
Print Assumptions C02_genpasswd_then_checkpasswd.

(* GenPasswd's documented exception (as pttbbs genpasswd): an empty password, or one starting with NUL, gets the
   empty hash — without a crash — and the empty hash verifies against no password at all ("unable to login"). *)
Theorem C02_empty_password_cannot_login : forall salt r pw,
  gen_passwd [] salt = Ok (repeat 0 14) /\ gen_passwd (0 :: r) salt = Ok (repeat 0 14) /\
  check_passwd (repeat 0 14) pw = Ok false.
Proof. exact empty_password_cannot_login. Qed.
Print Assumptions C02_empty_password_cannot_login.

(* The tables regenerated from crypt/const.go equal the frozen reference copy, entry by entry
   (128 + 64 + 16 + 8x64 + 8x64); wraps in the model are mod 2^32 / mod 2^8. *)
Theorem C02_tables :
  con_salt = C02_Frozen.con_salt /\ cov_2char = C02_Frozen.cov_2char /\ shifts2 = C02_Frozen.shifts2 /\
  skb = C02_Frozen.skb /\ SPtrans = C02_Frozen.SPtrans.
Proof. exact tables_frozen. Qed.
Print Assumptions C02_tables.

(* cov_2char is the crypt alphabet and con_salt is its inverse on it; con_salt is defined exactly on 0..127. *)
Theorem C02_alphabet_tables :
  cov_2char = ALPHABET /\
  (forall c i, index_of c ALPHABET O = Some i -> (i < 64)%nat /\ norm_byte c = c /\ nthZ con_salt c = Some (Z.of_nat i)) /\
  (forall v, 0 <= v < 64 -> exists ch, nthZ cov_2char v = Some ch /\ crypt_char ch = true /\ nthZ con_salt ch = Some v) /\
  (forall x, 0 <= x < 128 -> exists e, nthZ con_salt x = Some e /\ 0 <= e < 64) /\
  (forall x, 128 <= x -> nthZ con_salt x = None).
Proof. exact alphabet_tables. Qed.
Print Assumptions C02_alphabet_tables.

(* All 8 x 64 entries of SPtrans are P applied to the output of S-box i+1 (FIPS 46-3 tables of C02_DesSpec), with
   index bit j = FIPS input bit j+1 of the box and FIPS output bit j stored at word bit (j mod 32). *)
Theorem C02_sptrans_is_P_after_S : forall i x, (i < 8)%nat -> 0 <= x < 64 -> tab SPtrans i x = sp_spec i x.
Proof. exact sptrans_is_P_after_S. Qed.
Print Assumptions C02_sptrans_is_P_after_S.

(* All 8 x 64 entries of skb are PC2 applied to the piece of C ++ D the table covers (conventions at the top of
   Proofs/C02_Tables.v); tables 0..3 fill only the word s, tables 4..7 only the word t. *)
Theorem C02_skb_is_PC2 : forall k x, (k < 8)%nat -> 0 <= x < 64 ->
  skb_spec k x = if (k <? 4)%nat then (tab skb k x, 0) else (0, tab skb k x).
Proof. exact skb_is_PC2. Qed.
Print Assumptions C02_skb_is_PC2.

(* The PermOp/HPermOp network at the head of desSetKey is PC1, for every 8-byte key block: bit j < 28 of the word c
   (d) is FIPS key bit PC1[j] (PC1[28+j]); bits 28..31 are zero. Proved by symbolic evaluation (Proofs/C02_Sym.v). *)
Theorem C02_setkey_head_is_PC1 : forall key, length key = 8%nat -> bytes_ok key = true -> forall j, 0 <= j < 32 ->
  Z.testbit (fst (pc1_words key)) j = (if j <? 28 then key_bit key (Z.of_nat (nth (Z.to_nat j) PC1 O)) else false) /\
  Z.testbit (snd (pc1_words key)) j = (if j <? 28 then key_bit key (Z.of_nat (nth (Z.to_nat (28 + j)) PC1 O)) else false).
Proof. exact setkey_head_is_PC1. Qed.
Print Assumptions C02_setkey_head_is_PC1.

(* The network at the tail of body is FP, for all 32-bit l, r: bit j of output word w is FIPS bit FP[out_n w j] of the
   pre-output block l ++ r held in fcrypt's rotated representation (block_bit). *)
Theorem C02_body_tail_is_FP : forall l r, 0 <= l < 2 ^ 32 -> 0 <= r < 2 ^ 32 -> forall j, 0 <= j < 32 ->
  Z.testbit (fst (final_perm l r)) j = block_bit l r (Z.of_nat (nth (Z.to_nat (out_n 0 j)) FP O)) /\
  Z.testbit (snd (final_perm l r)) j = block_bit l r (Z.of_nat (nth (Z.to_nat (out_n 1 j)) FP O)).
Proof. exact body_tail_is_FP. Qed.
Print Assumptions C02_body_tail_is_FP.

(* desSetKey, whole: for every 8-byte key block, schedule words 2r and 2r+1 are the FIPS round key K_(r+1) of that
   key (textbook PC1, rotations, PC2 of Model/C02_DesSpec.v), laid out by [place]: word 2r carries the six bits for
   S-boxes 1, 3, 5, 7 at bits 0.., 8.., 16.., 24..; word 2r+1 those for S-boxes 2, 4, 6, 8 at the same offsets rotated
   left by 4; all other bits zero. Proved by symbolic GF(2) evaluation of all of desSetKey (Proofs/C02_KeySched.v). *)
Theorem C02_round_keys : forall key r h, length key = 8%nat -> bytes_ok key = true -> (r < 16)%nat -> (h < 2)%nat ->
  nth (2 * r + h) (set_key key) 0 = place h (nth r (key_schedule (flat_map byte_bits key)) []).
Proof. exact round_keys. Qed.
Print Assumptions C02_round_keys.

(* dEncrypt, one step: for ALL 32-bit halves L, R (FIPS bit q at word bit q mod 32: [hw]), ALL 48-bit round keys K in
   placed form and ALL 12 salt bits (bits 0..5 in E0, bits 6..11 in E1 >> 4), the Go step returns L xor f(R, K) where f
   is the textbook cipher function with crypt(3)'s salted E (salt bit i swaps E bits i and i+24), S1..S8 and P. *)
Theorem C02_round_is_feistel : forall sb Lb Rb K,
  length sb = 12%nat -> length Lb = 32%nat -> length Rb = 32%nat -> length K = 48%nat ->
  d_encrypt (hw Lb) (hw Rb) (E0_of sb) (E1_of sb) (place 0 K) (place 1 K) = hw (xorl Lb (feistel sb Rb K)).
Proof. exact d_encrypt_is_feistel. Qed.
Print Assumptions C02_round_is_feistel.

(* The building blocks in one statement (all used by C02_equals_crypt3): same key block and same salt bits go in;
   SPtrans, skb, shifts2, cov_2char are the FIPS tables; the head of desSetKey is PC1 and the tail of body is FP; the
   equality on VECTORS by kernel evaluation (the general theorem is not vacuous). *)
Theorem C02_equals_crypt3_blocks :
  (forall pw s0 s1 i0 i1, index_of s0 ALPHABET O = Some i0 -> index_of s1 ALPHABET O = Some i1 ->
     keyblock pw = crypt_key pw /\
     nthZ con_salt (norm_byte s0) = Some (Z.of_nat i0) /\ nthZ con_salt (norm_byte s1) = Some (Z.of_nat i1) /\
     (i0 < 64)%nat /\ (i1 < 64)%nat) /\
  (forall i x, (i < 8)%nat -> 0 <= x < 64 -> tab SPtrans i x = sp_spec i x) /\
  (forall k x, (k < 8)%nat -> 0 <= x < 64 -> skb_spec k x = if (k <? 4)%nat then (tab skb k x, 0) else (0, tab skb k x)) /\
  map (fun b => Z.to_nat (1 + b)) shifts2 = SHIFTS /\
  cov_2char = ALPHABET /\
  (forall key, length key = 8%nat -> bytes_ok key = true -> forall j, 0 <= j < 32 ->
     Z.testbit (fst (pc1_words key)) j = (if j <? 28 then key_bit key (Z.of_nat (nth (Z.to_nat j) PC1 O)) else false) /\
     Z.testbit (snd (pc1_words key)) j = (if j <? 28 then key_bit key (Z.of_nat (nth (Z.to_nat (28 + j)) PC1 O)) else false)) /\
  (forall l r, 0 <= l < 2 ^ 32 -> 0 <= r < 2 ^ 32 -> forall j, 0 <= j < 32 ->
     Z.testbit (fst (final_perm l r)) j = block_bit l r (Z.of_nat (nth (Z.to_nat (out_n 0 j)) FP O)) /\
     Z.testbit (snd (final_perm l r)) j = block_bit l r (Z.of_nat (nth (Z.to_nat (out_n 1 j)) FP O))) /\
  forallb agree VECTORS = true.
Proof. exact equals_crypt3_blocks. Qed.
Print Assumptions C02_equals_crypt3_blocks.

(* body, whole: for every 8-byte key block and every 12 salt bits, the 25 x 16 dEncrypt steps followed by the final
   PermOp network return, as two little-endian words, the 64 bits of 25 chained textbook DES encryptions (salted E)
   of the zero block: bit j of word w is bit out_n w j (0-based, FIPS order) of that block. *)
Theorem C02_body_is_25_des : forall key sb, length key = 8%nat -> bytes_ok key = true -> length sb = 12%nat ->
  let blk := Nat.iter 25 (des_block sb (key_schedule (flat_map byte_bits key))) (repeat false 64) in
  body (set_key key) (E0_of sb) (E1_of sb) = (ofbits (out_bits 0 blk), ofbits (out_bits 1 blk)) /\ length blk = 64%nat.
Proof. exact body_is_crypt_core. Qed.
Print Assumptions C02_body_is_25_des.

(* The output loop of cFcrypt on those two words is the textbook base-64 grouping: eleven 6-bit groups, most
   significant bit first, of the 64 bits plus two zero bits, through the alphabet ./0-9A-Za-z. *)
Theorem C02_output_is_base64 : forall blk, length blk = 64%nat ->
  encode (ofbits (out_bits 0 blk)) (ofbits (out_bits 1 blk)) =
  Ok (map (fun v => nth v ALPHABET 0) (groups6 11 (blk ++ [false; false]))).
Proof. exact encode_is_groups6. Qed.
Print Assumptions C02_output_is_base64.

(* THE WHOLE FUNCTION. For ALL passwords (any bytes, any length) and ALL salts on which traditional crypt(3) is defined
   (two characters of ./0-9A-Za-z, anything after them ignored), the model of crypt.Fcrypt returns exactly the
   13 characters of textbook crypt(3) (Model/C02_DesSpec.v: FIPS 46-3 tables IP, E, S1..S8, P, PC1, PC2, rotation
   schedule on bit lists; 25 encryptions of the zero block under the salted E; base-64) followed by the NUL byte.
   Nothing is left validated-only in this chain: key block, salt, 16 round keys, each round, 16 x 25 rounds, FP, output. *)
Theorem C02_equals_crypt3 : forall pw salt h, crypt pw salt = Some h -> fcrypt pw salt = Ok (h ++ [0]).
Proof. exact equals_crypt3. Qed.
Print Assumptions C02_equals_crypt3.

(* crypt(3) is defined exactly on the alphabet salts, so the theorem above covers every such salt (and only those:
   outside the alphabet the specification says nothing and fcrypt still follows con_salt, see C02_shape). *)
Theorem C02_equals_crypt3_on_alphabet : forall pw s0 s1 rest,
  index_of s0 ALPHABET O <> None -> index_of s1 ALPHABET O <> None ->
  exists h, crypt pw (s0 :: s1 :: rest) = Some h /\ fcrypt pw (s0 :: s1 :: rest) = Ok (h ++ [0]).
Proof. exact equals_crypt3_alphabet. Qed.
Print Assumptions C02_equals_crypt3_on_alphabet.

(* PARTIAL. "Rejected for any password whose first eight bytes differ in the low seven bits" is not provable: it
   says 25 salted DES iterations of the zero block never collide for two keys. Proved: CheckPasswd accepts exactly
   when re-hashing with the stored hash as salt reproduces all 14 bytes of it, and passwords that differ in those
   56 bits do get different DES key blocks. The step "different key => different hash" is exercised by differential
   testing only (single-bit flips through cmbbs.CheckPasswd, checks/C02.py). *)
Theorem C02_reject_partial :
  (forall stored pw, check_passwd stored pw = Ok true <-> fcrypt pw stored = Ok stored) /\
  (forall pw pw', low7_key pw <> low7_key pw' -> keyblock pw <> keyblock pw').
Proof. exact reject_partial. Qed.
Print Assumptions C02_reject_partial.

(* CALLS DO NOT INFLUENCE EACH OTHER. A session is any list of calls (Fcrypt, GenPasswd, CheckPasswd on a slice of the
   caller's own, CheckPasswd on the very slice an earlier call returned) made by one caller who keeps every result
   and reads it after the last call. In the model a call is a function of its arguments, so — for ALL histories [pre]
   and ALL continuations [post] —
   (1) the answer read at the end for call c is the answer of c given only the values the earlier hash calls return
       ALONE (what they would return as the only call ever made);
   (2) a call that refers to no earlier result answers as it does alone, whatever the caller holds;
   (3) hence the answers of a sequence of such calls are the map of the single-call answers;
   (4) CheckPasswd(h, pw) with h the slice call d returned is CheckPasswd on the value d returns alone: later calls
       ([mid]) have not changed h, and the check does not compare h with itself.
   This is trivially true of the model (it has no state to share) and is stated so that the harness predicate
   "every kept slice still holds crypt(3) of ITS OWN password and salt; a kept hash rejects a wrong password" has its
   counterpart; whether crypt.Fcrypt / cmbbs.* ARE such functions is validated by ops 5 and 6 of checks/C02.py. *)
Theorem C02_calls_independent :
  (forall pre c post, nth_error (session (pre ++ c :: post)) (length pre) = Some (step (map kept_alone pre) c)) /\
  (forall kept c, closed c = true -> step kept c = alone c) /\
  (forall calls, Forall (fun c => closed c = true) calls -> session calls = map alone calls) /\
  (forall pre d mid post pw h, kept_alone d = Some h ->
     nth_error (session (pre ++ d :: mid ++ CCheckKept (length pre) pw :: post)) (length (pre ++ d :: mid)) =
     Some (Some (res_map wire_bool (check_passwd h pw)))).
Proof. exact calls_independent. Qed.
Print Assumptions C02_calls_independent.

(* ... and in every order: however the same calls are rearranged (the order in which concurrent requests happen to be
   served), every call gets the answer it gets alone. Interleavings INSIDE a call do not exist in the model; for the
   Go code they are exercised by op 6 (goroutines, every answer compared with the sequential one). *)
Theorem C02_order_independent : forall calls calls', Permutation calls calls' -> Forall (fun c => closed c = true) calls ->
  Permutation (combine calls (session calls)) (combine calls' (session calls')).
Proof. exact order_independent. Qed.
Print Assumptions C02_order_independent.

(* THE PASSWORD AS THE SERVER'S ENTRY POINTS HAND IT ON. An account is its stored hash; a history is any list of
   Register / Login / CheckPasswd / ChangePasswd operations on any accounts (Model/C02.v: aop, astep, after, arun — what
   bbs.Register, bbs.Login, bbs.CheckPasswd, bbs.ChangePasswd and the gin handlers in front of them do with the password
   string: []byte(passwd), unchanged, into cmbbs.GenPasswd / cmbbs.CheckPasswd).

   No operation of a history crashes (stored hashes and drawn salts are 7-bit), and the answers are one per operation. *)
Theorem C02_accounts_total : forall ops st, wf_accounts st -> Forall op_ok ops ->
  (exists l, arun st ops = Ok l /\ length l = length ops) /\
  (exists st', after st ops = Ok st' /\ wf_accounts st' /\ length st' = length st).
Proof. exact accounts_total. Qed.
Print Assumptions C02_accounts_total.

(* Every entry point that asks for a password makes ONE comparison: cmbbs.CheckPasswd(stored hash of the account, the
   bytes it was given). Login and CheckPasswd answer it and change nothing; ChangePasswd is accepted exactly when it is
   true of the old password; an account without a record accepts nothing. *)
Theorem C02_accounts_entry_points_agree : forall st u q,
  astep st (ALogin u q) = res_map (fun b => (st, b)) (accepts st u q) /\
  astep st (ACheck u q) = res_map (fun b => (st, b)) (accepts st u q) /\
  (forall new s, salt7 s -> wf_accounts st ->
     exists b st', accepts st u q = Ok b /\ astep st (AChange u q new s) = Ok (st', b)) /\
  (forall h, stored_of st u = Some h -> accepts st u q = check_passwd h q) /\
  (stored_of st u = None -> accepts st u q = Ok false).
Proof. exact entry_points_agree. Qed.
Print Assumptions C02_accounts_entry_points_agree.

(* An operation that is refused changes nothing; an operation changes at most the hash of its own account, and only a
   Register / ChangePasswd of that account can. *)
Theorem C02_accounts_frame : forall st o st' b, astep st o = Ok (st', b) ->
  (b = false -> st' = st) /\
  (forall v, sets v o = false -> stored_of st' v = stored_of st v) /\
  (forall v, v <> target o -> stored_of st' v = stored_of st v).
Proof. exact astep_frame. Qed.
Print Assumptions C02_accounts_frame.

(* SET, THEN USE — for ALL histories. [pre]: any operations; [o]: a Register or ChangePasswd that gives account u the
   password p and is accepted; [mid]: any operations that are not a Register / ChangePasswd of u (everything other
   accounts do, u's own logins and checks, right or wrong). Then
   - the stored hash of u is GenPasswd(p) with the salt drawn: p's own bytes, whatever they are;
   - every entry point answers CheckPasswd(that hash, q) on the bytes q it is given; q is accepted exactly if re-hashing
     q with the stored hash as salt reproduces it (the reject side: C02_reject_partial);
   - if p is not the empty password: p, and every q with p's key block (bytes after the 8th, after a NUL, bit 7), is
     accepted by Login, by CheckPasswd and as the old password of the next ChangePasswd;
   - if the salt is two characters of the crypt alphabet, the stored hash is textbook crypt(3) of p plus NUL. *)
Theorem C02_accounts_set_then_verify : forall st pre o u p salt mid st1 st2,
  wf_accounts st -> Forall op_ok pre -> Forall op_ok mid -> salt7 salt ->
  sets_password o u p salt ->
  after st pre = Ok st1 -> astep st1 o = Ok (st2, true) ->
  Forall (fun x => sets u x = false) mid ->
  exists h st3,
    gen_passwd p salt = Ok h /\ after st (pre ++ o :: mid) = Ok st3 /\ stored_of st3 u = Some h /\
    (forall q, accepts st3 u q = check_passwd h q) /\
    (forall q, accepts st3 u q = Ok true <-> fcrypt q h = Ok h) /\
    (real_password p -> forall q, keyblock q = keyblock p ->
       accepts st3 u q = Ok true /\
       astep st3 (ALogin u q) = Ok (st3, true) /\ astep st3 (ACheck u q) = Ok (st3, true) /\
       forall new s, salt7 s -> exists st4, astep st3 (AChange u q new s) = Ok (st4, true)) /\
    (real_password p -> forall c, crypt p salt = Some c -> h = c ++ [0]).
Proof. exact set_then_verify. Qed.
Print Assumptions C02_accounts_set_then_verify.

(* The same read off the answers of the whole history, as the harness sees them (op 7): after any [pre], an accepted
   set of p on u and any [mid] that does not set u's password again, a Login / CheckPasswd of u with p (or any q with
   p's key block) is answered "accepted". *)
Theorem C02_accounts_set_then_login : forall st pre o u p salt mid q vop,
  wf_accounts st -> Forall op_ok pre -> Forall op_ok mid -> salt7 salt -> real_password p ->
  sets_password o u p salt ->
  (exists st1 st2, after st pre = Ok st1 /\ astep st1 o = Ok (st2, true)) ->
  Forall (fun x => sets u x = false) mid ->
  keyblock q = keyblock p ->
  (vop = ALogin u q \/ vop = ACheck u q) ->
  exists l st3, arun st (pre ++ o :: mid ++ [vop]) = Ok (l ++ [(true, st3)]) /\ length l = S (length pre + length mid).
Proof. exact set_then_login_history. Qed.
Print Assumptions C02_accounts_set_then_login.
