(* C04 — The user-ID index is always a faithful, cycle-free map of the user table.
   Only statements here; every proof is `exact <lemma of Proofs/C04*.v>`.
   Vocabulary: Model/C04.v mirrors cache/cache_user.go and cache/uhash_loader.go (st = HashHead, NextInHash,
   Userid, Number, Loaded as total maps; add_to_uhash, remove_from_uhash, set_user_id, search_user_raw,
   do_search_user_raw, load_uhash = LoadUHash with both branches, unload = Number, Loaded := 0).
   hd s h = HashHead[h], nx s x = NextInHash[x], idf s x = Userid[x]; chain nx p l = following nx from p visits
   exactly the nodes l and then reaches the -1 terminator; on_chain s x = x is a node of the chain of some bucket;
   id_eq_ci = equality of ids up to letter case (Cstrcasecmp == 0); uhash = StringHashWithHashBits. *)
From Verif Require Import Base.Common Base.TMap Gen.Consts_default Model.C04 Proofs.C04_chain Proofs.C04.

(* the invariant, spelled out: every bucket's chain is finite, ends in -1, has no duplicate node, stays inside
   0..MAX_USERS-1, and every node's id hashes to that bucket *)
Theorem C04_WF_meaning : forall s, WF s <->
  (forall h, 0 <= h < HASHN -> exists l, chain (nx s) (hd s h) l /\ NoDup l /\
     (forall x, In x l -> in_range x = true /\ uhash (idf s x) = h)).
Proof. exact WF_unfold. Qed.
Print Assumptions C04_WF_meaning.

(* ... hence a slot is on at most one chain, the one its id's hash selects, once, and chains have at most MAX_USERS nodes *)
Theorem C04_one_chain : forall s x h l, WF s -> 0 <= h < HASHN -> chain (nx s) (hd s h) l -> In x l ->
  uhash (idf s x) = h /\ NoDup l /\ (length l <= Z.to_nat MAXU)%nat /\ in_range x = true.
Proof. exact one_chain. Qed.
Print Assumptions C04_one_chain.

(* the hash does not see letter case (so a lookup in any case walks the bucket the id was filed under) *)
Theorem C04_hash_ignores_case : forall a b, id_eq_ci a b = true -> uhash a = uhash b.
Proof. exact id_eq_ci_hash. Qed.
Print Assumptions C04_hash_ignores_case.

(* AddToUHash on a slot that is on no chain: succeeds, keeps the invariant, files the slot (and only it) *)
Theorem C04_wf_add : forall s slot id, WF s -> in_range slot = true -> ~ on_chain s slot ->
  exists s', add_to_uhash s slot id = Ok (s', 0) /\ WF s' /\ idf s' slot = id /\ (forall x, x <> slot -> idf s' x = idf s x) /\
    (forall x, on_chain s' x <-> on_chain s x \/ x = slot) /\ number s' = number s /\ loaded s' = loaded s.
Proof. exact add_wf. Qed.
Print Assumptions C04_wf_add.

(* RemoveFromUHash: succeeds, keeps the invariant, takes exactly that slot off its chain (head, middle or tail), touches no id *)
Theorem C04_wf_remove : forall s slot, WF s -> in_range slot = true ->
  exists s', remove_from_uhash s slot = Ok (s', 0) /\ WF s' /\ (forall x, idf s' x = idf s x) /\
    (forall x, on_chain s' x <-> on_chain s x /\ x <> slot) /\ number s' = number s /\ loaded s' = loaded s.
Proof. exact remove_wf. Qed.
Print Assumptions C04_wf_remove.

(* SetUserID on a valid uid = rename / assign: the slot holds the new id and is indexed under it; everything else is as before *)
Theorem C04_wf_set : forall s uid id, WF s -> 1 <= uid <= MAXU ->
  exists s', set_user_id s uid id = Ok (s', 0) /\ WF s' /\ idf s' (uid - 1) = id /\ (forall x, x <> uid - 1 -> idf s' x = idf s x) /\
    (forall x, on_chain s' x <-> on_chain s x \/ x = uid - 1) /\ number s' = number s /\ loaded s' = loaded s.
Proof. exact set_wf. Qed.
Print Assumptions C04_wf_set.

(* ... and an invalid uid is refused with the state untouched *)
Theorem C04_set_invalid : forall s uid id, ~ (1 <= uid <= MAXU) -> set_user_id s uid id = Ok (s, ERR_INVALID_UID).
Proof. exact set_invalid. Qed.
Print Assumptions C04_set_invalid.

(* a lookup that answers a uid names an indexed slot holding the queried id up to letter case *)
Theorem C04_search_sound : forall s q v, WF s -> do_search_user_raw s q = Ok v -> v <> 0 ->
  in_range (v - 1) = true /\ on_chain s (v - 1) /\ id_eq_ci q (idf s (v - 1)) = true.
Proof. exact search_sound. Qed.
Print Assumptions C04_search_sound.

(* any letter case of an id held by an indexed slot (and by no other indexed slot in any case) returns that slot *)
Theorem C04_search_complete : forall s x q, WF s -> on_chain s x -> unique_ci s x -> id_eq_ci q (idf s x) = true ->
  do_search_user_raw s q = Ok (x + 1).
Proof. exact search_complete. Qed.
Print Assumptions C04_search_complete.

(* an id no indexed slot holds in any letter case returns 0 *)
Theorem C04_search_absent : forall s q, WF s -> (forall y, on_chain s y -> id_eq_ci q (idf s y) = false) ->
  do_search_user_raw s q = Ok 0.
Proof. exact search_absent. Qed.
Print Assumptions C04_search_absent.

(* termination: in a well-formed state no operation panics or runs out of fuel (the loops bounded by MAX_USERS never hit
   their bound, the loader's unbounded loops end), and every chain ends within MAX_USERS nodes *)
Theorem C04_no_fuel_exhaustion : forall s, WF s ->
  (forall q, exists v, search_user_raw s q = Ok v) /\
  (forall uid id, exists s' e, set_user_id s uid id = Ok (s', e)) /\
  (forall slot, in_range slot = true -> exists s', remove_from_uhash s slot = Ok (s', 0)) /\
  (forall slot id, in_range slot = true -> ~ on_chain s slot -> exists s', add_to_uhash s slot id = Ok (s', 0)) /\
  (forall recs, lenZ recs <= MAXU -> agrees s recs -> exists s', load_uhash s recs = Ok s') /\
  (forall h, hash_ok h -> exists l, chain (nx s) (hd s h) l /\ (length l <= Z.to_nat MAXU)%nat).
Proof. exact no_fuel_exhaustion. Qed.
Print Assumptions C04_no_fuel_exhaustion.

(* a cold load (Number = Loaded = 0) of any .PASSWDS of at most MAX_USERS records builds a well-formed index
   from ANY prior content of the segment, garbage and cycles included *)
Theorem C04_wf_cold_load : forall s0 recs, lenZ recs <= MAXU ->
  exists s', load_uhash (unload s0) recs = Ok s' /\ WF s' /\ number s' = lenZ recs /\ loaded s' = 1.
Proof. exact cold_load_wf. Qed.
Print Assumptions C04_wf_cold_load.

(* LoadUHash on a well-formed segment from a .PASSWDS that agrees with the live table keeps it well-formed ... *)
Theorem C04_wf_reload : forall s recs, WF s -> lenZ recs <= MAXU -> agrees s recs ->
  exists s', load_uhash s recs = Ok s' /\ WF s' /\ number s' = lenZ recs.
Proof. exact reload_wf. Qed.
Print Assumptions C04_wf_reload.

(* ... and, into a loaded segment (the on-the-fly branch: checkHash over all 2^16 buckets, then re-add), changes no id and drops no slot *)
Theorem C04_reload_keeps : forall s recs, WF s -> loaded s <> 0 -> lenZ recs <= MAXU -> agrees s recs ->
  exists s', load_uhash s recs = Ok s' /\ WF s' /\ (forall x, idf s' x = idf s x) /\ (forall x, on_chain s x -> on_chain s' x).
Proof. exact reload_keeps. Qed.
Print Assumptions C04_reload_keeps.

(* every history: cold load from anything, then any sequence of SetUserID (any uid), RemoveFromUHash, AddToUHash on a slot
   that is on no chain (the only way the code base calls it), and reloads from an agreeing file *)
Theorem C04_reachable_wf : forall s, reachable s -> WF s.
Proof. exact reachable_wf. Qed.
Print Assumptions C04_reachable_wf.

(* ... so after every history lookups are exact and terminate *)
Theorem C04_lookup_exact : forall s, reachable s ->
  (forall q v, search_user_raw s q = Ok v -> v <> 0 -> on_chain s (v - 1) /\ id_eq_ci q (idf s (v - 1)) = true) /\
  (forall x q, on_chain s x -> unique_ci s x -> id_eq_ci q (idf s x) = true -> nth 0 q 0 <> 0 -> search_user_raw s q = Ok (x + 1)) /\
  (forall q, (forall y, on_chain s y -> id_eq_ci q (idf s y) = false) -> search_user_raw s q = Ok 0) /\
  (forall q, exists v, search_user_raw s q = Ok v).
Proof. exact lookup_exact. Qed.
Print Assumptions C04_lookup_exact.

(* attach: a second process passes the handshake exactly when version and size match, and then sees the same state,
   so it answers every lookup identically *)
Theorem C04_attach : forall g v, attach g = Attached v ->
  seg_version g = cache.SHM_VERSION /\ seg_size g = cache.SHM_RAW_SZ /\ v = seg_body g /\
  (forall q, search_user_raw v q = search_user_raw (seg_body g) q).
Proof. exact attach_same. Qed.
Print Assumptions C04_attach.

Theorem C04_attach_refused : forall g, seg_version g <> cache.SHM_VERSION \/ seg_size g <> cache.SHM_RAW_SZ ->
  forall v, attach g <> Attached v.
Proof. exact attach_refused. Qed.
Print Assumptions C04_attach_refused.
