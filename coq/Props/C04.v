(* C04 — The user-ID index is always a faithful, cycle-free map of the user table.
   Only statements here; every proof is `exact <lemma of Proofs/C04*.v>`.
   Vocabulary: Model/C04.v mirrors cache/cache_user.go and cache/uhash_loader.go (st = HashHead, NextInHash,
   Userid, Number, Loaded as total maps; add_to_uhash, remove_from_uhash, set_user_id, search_user_raw,
   do_search_user_raw, load_uhash = LoadUHash with both branches, load_uhash_by p = LoadUHash called by process p (p_is_new p = that
   process created the segment), new_shm_existing / new_shm_create = NewSHM on an existing / a missing key, unload = Number, Loaded := 0).
   hd s h = HashHead[h], nx s x = NextInHash[x], idf s x = Userid[x]; chain nx p l = following nx from p visits
   exactly the nodes l and then reaches the -1 terminator; on_chain s x = x is a node of the chain of some bucket;
   id_eq_ci = equality of ids up to letter case (Cstrcasecmp == 0); uhash = StringHashWithHashBits. *)
From Verif Require Import Base.Common Base.TMap Gen.Consts_default Model.C04 Proofs.C04_chain Proofs.C04.

(* the invariant, spelled out: every bucket's chain is finite, ends in -1, has no duplicate node, stays inside
   0..MAX_USERS-1, and every node's id hashes to that bucket *)
Theorem C04_WF_meaning : forall s, WF s <->
  (forall h, 0 <= h < HASHN -> exists l, chain (nx s) (hd s h) l /\ NoDup l /\
     (forall x, In x l -> in_range x = true /\ uhash (idf s x) = h)).
Proof. exact WF_unfold. Qed.
Print Assumptions C04_WF_meaning.

(* ... hence a slot is on at most one chain, the one its id's hash selects, once, and chains have at most MAX_USERS nodes *)
Theorem C04_one_chain : forall s x h l, WF s -> 0 <= h < HASHN -> chain (nx s) (hd s h) l -> In x l ->
  uhash (idf s x) = h /\ NoDup l /\ (length l <= Z.to_nat MAXU)%nat /\ in_range x = true.
Proof. exact one_chain. Qed.
Print Assumptions C04_one_chain.

(* the hash does not see letter case (so a lookup in any case walks the bucket the id was filed under) *)
Theorem C04_hash_ignores_case : forall a b, id_eq_ci a b = true -> uhash a = uhash b.
Proof. exact id_eq_ci_hash. Qed.
Print Assumptions C04_hash_ignores_case.

(* AddToUHash on a slot that is on no chain: succeeds, keeps the invariant, files the slot (and only it) *)
Theorem C04_wf_add : forall s slot id, WF s -> in_range slot = true -> ~ on_chain s slot ->
  exists s', add_to_uhash s slot id = Ok (s', 0) /\ WF s' /\ idf s' slot = id /\ (forall x, x <> slot -> idf s' x = idf s x) /\
    (forall x, on_chain s' x <-> on_chain s x \/ x = slot) /\ number s' = number s /\ loaded s' = loaded s.
Proof. exact add_wf. Qed.
Print Assumptions C04_wf_add.

(* RemoveFromUHash: succeeds, keeps the invariant, takes exactly that slot off its chain (head, middle or tail), touches no id *)
Theorem C04_wf_remove : forall s slot, WF s -> in_range slot = true ->
  exists s', remove_from_uhash s slot = Ok (s', 0) /\ WF s' /\ (forall x, idf s' x = idf s x) /\
    (forall x, on_chain s' x <-> on_chain s x /\ x <> slot) /\ number s' = number s /\ loaded s' = loaded s.
Proof. exact remove_wf. Qed.
Print Assumptions C04_wf_remove.

(* SetUserID on a valid uid = rename / assign: the slot holds the new id and is indexed under it; everything else is as before *)
Theorem C04_wf_set : forall s uid id, WF s -> 1 <= uid <= MAXU ->
  exists s', set_user_id s uid id = Ok (s', 0) /\ WF s' /\ idf s' (uid - 1) = id /\ (forall x, x <> uid - 1 -> idf s' x = idf s x) /\
    (forall x, on_chain s' x <-> on_chain s x \/ x = uid - 1) /\ number s' = number s /\ loaded s' = loaded s.
Proof. exact set_wf. Qed.
Print Assumptions C04_wf_set.

(* ... and an invalid uid is refused with the state untouched *)
Theorem C04_set_invalid : forall s uid id, ~ (1 <= uid <= MAXU) -> set_user_id s uid id = Ok (s, ERR_INVALID_UID).
Proof. exact set_invalid. Qed.
Print Assumptions C04_set_invalid.

(* what "holds the queried id up to letter case" means below: id_eq_ci compares the WHOLE NUL-terminated ids (Cstrcasecmp == 0), so an id
   never matches a proper prefix or a proper extension of itself - "bob" is not "bobgal", and the empty id is only the empty id *)
Theorem C04_match_is_whole_id : forall a b,
  (id_eq_ci a b = true <-> map tolower (cprefix a) = map tolower (cprefix b)) /\
  (id_eq_ci a b = true -> length (cprefix a) = length (cprefix b)).
Proof. exact (fun a b => conj (match_whole_id a b) (match_same_length a b)). Qed.
Print Assumptions C04_match_is_whole_id.

(* a lookup that answers a uid names an indexed slot holding the queried id up to letter case *)
Theorem C04_search_sound : forall s q v, WF s -> do_search_user_raw s q = Ok v -> v <> 0 ->
  in_range (v - 1) = true /\ on_chain s (v - 1) /\ id_eq_ci q (idf s (v - 1)) = true.
Proof. exact search_sound. Qed.
Print Assumptions C04_search_sound.

(* any letter case of an id held by an indexed slot (and by no other indexed slot in any case) returns that slot *)
Theorem C04_search_complete : forall s x q, WF s -> on_chain s x -> unique_ci s x -> id_eq_ci q (idf s x) = true ->
  do_search_user_raw s q = Ok (x + 1).
Proof. exact search_complete. Qed.
Print Assumptions C04_search_complete.

(* an id no indexed slot holds in any letter case returns 0 *)
Theorem C04_search_absent : forall s q, WF s -> (forall y, on_chain s y -> id_eq_ci q (idf s y) = false) ->
  do_search_user_raw s q = Ok 0.
Proof. exact search_absent. Qed.
Print Assumptions C04_search_absent.

(* termination: in a well-formed state no operation panics or runs out of fuel (the loops bounded by MAX_USERS never hit
   their bound, the loader's unbounded loops end), and every chain ends within MAX_USERS nodes *)
Theorem C04_no_fuel_exhaustion : forall s, WF s ->
  (forall q, exists v, search_user_raw s q = Ok v) /\
  (forall uid id, exists s' e, set_user_id s uid id = Ok (s', e)) /\
  (forall slot, in_range slot = true -> exists s', remove_from_uhash s slot = Ok (s', 0)) /\
  (forall slot id, in_range slot = true -> ~ on_chain s slot -> exists s', add_to_uhash s slot id = Ok (s', 0)) /\
  (forall recs, lenZ recs <= MAXU -> agrees s recs -> exists s', load_uhash s recs = Ok s') /\
  (forall h, hash_ok h -> exists l, chain (nx s) (hd s h) l /\ (length l <= Z.to_nat MAXU)%nat).
Proof. exact no_fuel_exhaustion. Qed.
Print Assumptions C04_no_fuel_exhaustion.

(* a cold load (Number = Loaded = 0) of any .PASSWDS of at most MAX_USERS records builds a well-formed index
   from ANY prior content of the segment, garbage and cycles included *)
Theorem C04_wf_cold_load : forall s0 recs, lenZ recs <= MAXU ->
  exists s', load_uhash (unload s0) recs = Ok s' /\ WF s' /\ number s' = lenZ recs /\ loaded s' = 1.
Proof. exact cold_load_wf. Qed.
Print Assumptions C04_wf_cold_load.

(* ... and that index is exactly the file's: record k sits in slot k and is on a chain, no other slot is indexed, ids beyond the
   file keep their bytes (MAX_USERS <= PRE_ALLOCATED_USERS, so the cap on empty-id records never skips one) *)
Theorem C04_cold_load_exact : forall s0 recs, lenZ recs <= MAXU ->
  exists s', load_uhash (unload s0) recs = Ok s' /\ WF s' /\ number s' = lenZ recs /\ loaded s' = 1 /\
    (forall k id, nth_error recs k = Some id -> idf s' (Z.of_nat k) = id) /\
    (forall x, ~ (0 <= x < lenZ recs) -> idf s' x = idf s0 x) /\
    (forall x, on_chain s' x <-> 0 <= x < lenZ recs).
Proof. exact cold_load_exact. Qed.
Print Assumptions C04_cold_load_exact.

(* LoadUHash on a well-formed segment from a .PASSWDS that agrees with the live table keeps it well-formed ... *)
Theorem C04_wf_reload : forall s recs, WF s -> lenZ recs <= MAXU -> agrees s recs ->
  exists s', load_uhash s recs = Ok s' /\ WF s' /\ number s' = lenZ recs.
Proof. exact reload_wf. Qed.
Print Assumptions C04_wf_reload.

(* ... and, into a loaded segment (the on-the-fly branch: checkHash over all 2^16 buckets, then re-add), changes no id and drops no slot *)
Theorem C04_reload_keeps : forall s recs, WF s -> loaded s <> 0 -> lenZ recs <= MAXU -> agrees s recs ->
  exists s', load_uhash s recs = Ok s' /\ WF s' /\ (forall x, idf s' x = idf s x) /\ (forall x, on_chain s x -> on_chain s' x).
Proof. exact reload_keeps. Qed.
Print Assumptions C04_reload_keeps.

(* WHO loads does not matter: LoadUHash by any process p - the creator of the segment (IsNew) or a process that attached to a
   segment somebody else created - (1) on ANY segment whose header says Number = Loaded = 0 (fresh and zeroed, created by
   another process and never loaded, unloaded with garbage and cycles left behind) terminates with a well-formed, loaded index
   that is exactly the file's (record k in slot k, on a chain; no other slot indexed);
   (2) on a well-formed segment, from an agreeing .PASSWDS, terminates and keeps it well-formed. Afterwards every lookup terminates *)
Theorem C04_load_any_process : forall (p : proc) s recs, lenZ recs <= MAXU ->
  (number s = 0 -> loaded s = 0 ->
     exists s', load_uhash_by p s recs = Ok s' /\ WF s' /\ number s' = lenZ recs /\ loaded s' = 1 /\ (forall q, exists v, search_user_raw s' q = Ok v) /\
       (forall k id, nth_error recs k = Some id -> idf s' (Z.of_nat k) = id) /\ (forall x, on_chain s' x <-> 0 <= x < lenZ recs)) /\
  (WF s -> agrees s recs ->
     exists s', load_uhash_by p s recs = Ok s' /\ WF s' /\ number s' = lenZ recs /\ (forall q, exists v, search_user_raw s' q = Ok v)).
Proof. exact load_any_process. Qed.
Print Assumptions C04_load_any_process.

(* the start-up interleaving / crash point between NewSHM and LoadUHash: the first process created the segment (zeroed, header
   written, nothing loaded); a second process started with or without the create flag attaches to it, is NOT its creator, sees
   an index that is not well-formed (every bucket is the self-loop 0 -> 0), and its LoadUHash terminates with the well-formed
   index of .PASSWDS *)
Theorem C04_second_process_loads_created_segment : forall (is_create : bool) recs, lenZ recs <= MAXU ->
  exists p2 v, new_shm_existing is_create (snd new_shm_create) = (p2, Attached v) /\ p_is_new (fst new_shm_create) = true /\
    p_is_new p2 = false /\ v = reset_st /\ ~ WF v /\
    exists s', load_uhash_by p2 v recs = Ok s' /\ WF s' /\ number s' = lenZ recs /\ loaded s' = 1 /\
      (forall q, exists u, search_user_raw s' q = Ok u) /\
      (forall k id, nth_error recs k = Some id -> idf s' (Z.of_nat k) = id) /\ (forall x, on_chain s' x <-> 0 <= x < lenZ recs).
Proof. exact second_process_loads_created_segment. Qed.
Print Assumptions C04_second_process_loads_created_segment.

(* ... and why that decision must follow the segment (Number / Loaded) and not the caller: on the created-but-not-loaded segment the
   on-the-fly branch (checkHash) does not terminate - for every amount of fuel, not just the model's - whatever .PASSWDS holds *)
Theorem C04_onfly_on_created_segment_hangs :
  (forall fuel, check_walk fuel reset_st 0 false 0 (tget (head reset_st) 0) = Hang) /\
  (forall recs, fill_uhash reset_st recs true = Hang).
Proof. exact onfly_on_created_segment_hangs. Qed.
Print Assumptions C04_onfly_on_created_segment_hangs.

(* every history: cold load from anything, then any sequence of SetUserID (any uid), RemoveFromUHash, AddToUHash on a slot
   that is on no chain (the only way the code base calls it), and reloads from an agreeing file *)
Theorem C04_reachable_wf : forall s, reachable s -> WF s.
Proof. exact reachable_wf. Qed.
Print Assumptions C04_reachable_wf.

(* ... so after every history lookups are exact and terminate *)
Theorem C04_lookup_exact : forall s, reachable s ->
  (forall q v, search_user_raw s q = Ok v -> v <> 0 -> on_chain s (v - 1) /\ id_eq_ci q (idf s (v - 1)) = true) /\
  (forall x q, on_chain s x -> unique_ci s x -> id_eq_ci q (idf s x) = true -> nth 0 q 0 <> 0 -> search_user_raw s q = Ok (x + 1)) /\
  (forall q, (forall y, on_chain s y -> id_eq_ci q (idf s y) = false) -> search_user_raw s q = Ok 0) /\
  (forall q, exists v, search_user_raw s q = Ok v).
Proof. exact lookup_exact. Qed.
Print Assumptions C04_lookup_exact.

(* attach: a second process passes the handshake exactly when version and size match, and then sees the same state,
   so it answers every lookup identically *)
Theorem C04_attach : forall g v, attach g = Attached v ->
  seg_version g = cache.SHM_VERSION /\ seg_size g = cache.SHM_RAW_SZ /\ v = seg_body g /\
  (forall q, search_user_raw v q = search_user_raw (seg_body g) q).
Proof. exact attach_same. Qed.
Print Assumptions C04_attach.

Theorem C04_attach_refused : forall g, seg_version g <> cache.SHM_VERSION \/ seg_size g <> cache.SHM_RAW_SZ ->
  forall v, attach g <> Attached v.
Proof. exact attach_refused. Qed.
Print Assumptions C04_attach_refused.

(* every history in which each step - cold load of a segment saying Number = Loaded = 0, SetUserID, RemoveFromUHash, AddToUHash on a
   free slot, reload from an agreeing file - is executed by ANY process (the creator or one that attached with or without the
   create flag, m_attach): the index is well-formed, lookups are exact and terminate, and a further reload by any process returns *)
Theorem C04_multi_process_exact : forall s, reachable_mp s ->
  WF s /\
  (forall q v, search_user_raw s q = Ok v -> v <> 0 -> on_chain s (v - 1) /\ id_eq_ci q (idf s (v - 1)) = true) /\
  (forall x q, on_chain s x -> unique_ci s x -> id_eq_ci q (idf s x) = true -> nth 0 q 0 <> 0 -> search_user_raw s q = Ok (x + 1)) /\
  (forall q, (forall y, on_chain s y -> id_eq_ci q (idf s y) = false) -> search_user_raw s q = Ok 0) /\
  (forall q, exists v, search_user_raw s q = Ok v) /\
  (forall (p : proc) recs, lenZ recs <= MAXU -> agrees s recs -> exists s', load_uhash_by p s recs = Ok s' /\ reachable_mp s').
Proof. exact multi_process_exact. Qed.
Print Assumptions C04_multi_process_exact.
