(* C04 — The user-ID index is always a faithful, cycle-free map of the user table.
   Only statements here; every proof is `exact <lemma of Proofs/C04*.v>`.
   Vocabulary: Model/C04.v mirrors cache/cache_user.go and cache/uhash_loader.go (st = HashHead, NextInHash,
   Userid, Number, Loaded as total maps; add_to_uhash, remove_from_uhash, set_user_id, search_user_raw,
   do_search_user_raw, load_uhash = LoadUHash with both branches, load_uhash_by p = LoadUHash called by process p (p_is_new p = that
   process created the segment), new_shm_existing / new_shm_create = NewSHM on an existing / a missing key, unload = Number, Loaded := 0).
   hd s h = HashHead[h], nx s x = NextInHash[x], idf s x = Userid[x]; chain nx p l = following nx from p visits
   exactly the nodes l and then reaches the -1 terminator; on_chain s x = x is a node of the chain of some bucket;
   id_eq_ci = equality of ids up to letter case (Cstrcasecmp == 0); uhash = StringHashWithHashBits.
   Every theorem is stated for ANY constants K (MAX_USERS, HASH_BITS, PRE_ALLOCATED_USERS, SHM_VERSION, SHM_RAW_SZ) that are consts_ok: MAX_USERS >= 1, HASH_BITS >= 0,
   the empty id not hashing to bucket 0, the fuel fields being MAX_USERS and MAX_USERS + 1. Nothing relates MAX_USERS to PRE_ALLOCATED_USERS or to 2^HASH_BITS. The
   two build configurations are instances (C04_configurations): K_default from Gen/Consts_default.v (MAX_USERS 50), K_docker from Gen/Consts_docker.v (-tags docker,
   MAX_USERS 2 000 000 > PRE_ALLOCATED_USERS + 2^HASH_BITS). The extracted model the harness runs is this same model at K_default ("1|..") and at K_docker ("11|..").
   SHMVER / SHMSZ = cache.SHM_VERSION / cache.SHM_RAW_SZ of the configuration. *)
From Verif Require Import Base.Common Base.TMap Gen.Consts_default Model.C04 Proofs.C04_chain Proofs.C04.
From Verif Require Gen.Consts_docker.

(* what consts_ok asks, spelled out *)
Theorem C04_consts_ok_meaning : forall (K : consts), consts_ok K <->
  0 < MAXU /\ 0 <= HASHBITS /\ cmsys.FNV1_32_INIT mod 2 ^ HASHBITS <> 0 /\ FUEL_MAXU = Z.to_nat MAXU /\ FUEL_LOADER = S (Z.to_nat MAXU).
Proof. intros K; exact (conj (fun H => H) (fun H => H)). Qed.
Print Assumptions C04_consts_ok_meaning.

(* both configurations of the repository satisfy it; the default table is smaller than the cap on free records and than the number of buckets, the production
   table is larger than both together; id size, IDLEN, hash and cap are the same in both *)
Theorem C04_configurations :
  consts_ok K_default /\ consts_ok K_docker /\
  @MAXU K_default = Consts_default.ptttype.MAX_USERS /\ @MAXU K_docker = Gen.Consts_docker.ptttype.MAX_USERS /\
  @PREALLOC K_default = Consts_default.cache.PRE_ALLOCATED_USERS /\ @PREALLOC K_docker = Gen.Consts_docker.cache.PRE_ALLOCATED_USERS /\
  @HASHBITS K_default = Consts_default.ptttype.HASH_BITS /\ @HASHBITS K_docker = Gen.Consts_docker.ptttype.HASH_BITS /\
  (@MAXU K_default <= @PREALLOC K_default /\ @MAXU K_default < @HASHN K_default /\
   @PREALLOC K_docker + @HASHN K_docker < @MAXU K_docker /\
   @PREALLOC K_docker = @PREALLOC K_default /\ @HASHBITS K_docker = @HASHBITS K_default /\
   Gen.Consts_docker.ptttype.USER_ID_SZ = ptttype.USER_ID_SZ /\ Gen.Consts_docker.ptttype.IDLEN = ptttype.IDLEN /\
   Gen.Consts_docker.cmsys.FNV1_32_INIT = cmsys.FNV1_32_INIT /\ Gen.Consts_docker.cmsys.FNV_32_PRIME = cmsys.FNV_32_PRIME).
Proof. exact (conj K_default_ok (conj K_docker_ok (conj eq_refl (conj eq_refl (conj eq_refl (conj eq_refl (conj eq_refl (conj eq_refl consts_shared)))))))). Qed.
Print Assumptions C04_configurations.

(* the invariant, spelled out: every bucket's chain is finite, ends in -1, has no duplicate node, stays inside
   0..MAX_USERS-1, and every node's id hashes to that bucket *)
Theorem C04_WF_meaning : forall (K : consts), consts_ok K -> forall s, WF s <->
  (forall h, 0 <= h < HASHN -> exists l, chain (nx s) (hd s h) l /\ NoDup l /\
     (forall x, In x l -> in_range x = true /\ uhash (idf s x) = h)).
Proof. intros K _; exact (@WF_unfold K). Qed.
Print Assumptions C04_WF_meaning.

(* ... hence a slot is on at most one chain, the one its id's hash selects, once, and chains have at most MAX_USERS nodes *)
Theorem C04_one_chain : forall (K : consts), consts_ok K -> forall s x h l, WF s -> 0 <= h < HASHN -> chain (nx s) (hd s h) l -> In x l ->
  uhash (idf s x) = h /\ NoDup l /\ (length l <= Z.to_nat MAXU)%nat /\ in_range x = true.
Proof. intros K _; exact (@one_chain K). Qed.
Print Assumptions C04_one_chain.

(* the hash does not see letter case (so a lookup in any case walks the bucket the id was filed under) *)
Theorem C04_hash_ignores_case : forall (K : consts), consts_ok K -> forall a b, id_eq_ci a b = true -> uhash a = uhash b.
Proof. intros K _; exact (@id_eq_ci_hash K). Qed.
Print Assumptions C04_hash_ignores_case.

(* AddToUHash on a slot that is on no chain: succeeds, keeps the invariant, files the slot (and only it) *)
Theorem C04_wf_add : forall (K : consts), consts_ok K -> forall s slot id, WF s -> in_range slot = true -> ~ on_chain s slot ->
  exists s', add_to_uhash s slot id = Ok (s', 0) /\ WF s' /\ idf s' slot = id /\ (forall x, x <> slot -> idf s' x = idf s x) /\
    (forall x, on_chain s' x <-> on_chain s x \/ x = slot) /\ number s' = number s /\ loaded s' = loaded s.
Proof. exact (@add_wf). Qed.
Print Assumptions C04_wf_add.

(* RemoveFromUHash: succeeds, keeps the invariant, takes exactly that slot off its chain (head, middle or tail), touches no id *)
Theorem C04_wf_remove : forall (K : consts), consts_ok K -> forall s slot, WF s -> in_range slot = true ->
  exists s', remove_from_uhash s slot = Ok (s', 0) /\ WF s' /\ (forall x, idf s' x = idf s x) /\
    (forall x, on_chain s' x <-> on_chain s x /\ x <> slot) /\ number s' = number s /\ loaded s' = loaded s.
Proof. exact (@remove_wf). Qed.
Print Assumptions C04_wf_remove.

(* SetUserID on a valid uid = rename / assign: the slot holds the new id and is indexed under it; everything else is as before *)
Theorem C04_wf_set : forall (K : consts), consts_ok K -> forall s uid id, WF s -> 1 <= uid <= MAXU ->
  exists s', set_user_id s uid id = Ok (s', 0) /\ WF s' /\ idf s' (uid - 1) = id /\ (forall x, x <> uid - 1 -> idf s' x = idf s x) /\
    (forall x, on_chain s' x <-> on_chain s x \/ x = uid - 1) /\ number s' = number s /\ loaded s' = loaded s.
Proof. exact (@set_wf). Qed.
Print Assumptions C04_wf_set.

(* ... and an invalid uid is refused with the state untouched *)
Theorem C04_set_invalid : forall (K : consts), consts_ok K -> forall s uid id, ~ (1 <= uid <= MAXU) -> set_user_id s uid id = Ok (s, ERR_INVALID_UID).
Proof. intros K _; exact (@set_invalid K). Qed.
Print Assumptions C04_set_invalid.

(* what "holds the queried id up to letter case" means below: id_eq_ci compares the WHOLE NUL-terminated ids (Cstrcasecmp == 0), so an id
   never matches a proper prefix or a proper extension of itself - "bob" is not "bobgal", and the empty id is only the empty id *)
Theorem C04_match_is_whole_id : forall a b,
  (id_eq_ci a b = true <-> map tolower (cprefix a) = map tolower (cprefix b)) /\
  (id_eq_ci a b = true -> length (cprefix a) = length (cprefix b)).
Proof. exact (fun a b => conj (match_whole_id a b) (match_same_length a b)). Qed.
Print Assumptions C04_match_is_whole_id.

(* a lookup that answers a uid names an indexed slot holding the queried id up to letter case *)
Theorem C04_search_sound : forall (K : consts), consts_ok K -> forall s q v, WF s -> do_search_user_raw s q = Ok v -> v <> 0 ->
  in_range (v - 1) = true /\ on_chain s (v - 1) /\ id_eq_ci q (idf s (v - 1)) = true.
Proof. exact (@search_sound). Qed.
Print Assumptions C04_search_sound.

(* any letter case of an id held by an indexed slot (and by no other indexed slot in any case) returns that slot *)
Theorem C04_search_complete : forall (K : consts), consts_ok K -> forall s x q, WF s -> on_chain s x -> unique_ci s x -> id_eq_ci q (idf s x) = true ->
  do_search_user_raw s q = Ok (x + 1).
Proof. exact (@search_complete). Qed.
Print Assumptions C04_search_complete.

(* an id no indexed slot holds in any letter case returns 0 *)
Theorem C04_search_absent : forall (K : consts), consts_ok K -> forall s q, WF s -> (forall y, on_chain s y -> id_eq_ci q (idf s y) = false) ->
  do_search_user_raw s q = Ok 0.
Proof. exact (@search_absent). Qed.
Print Assumptions C04_search_absent.

(* termination: in a well-formed state no operation panics or runs out of fuel (the loops bounded by MAX_USERS never hit
   their bound, the loader's unbounded loops end), and every chain ends within MAX_USERS nodes *)
Theorem C04_no_fuel_exhaustion : forall (K : consts), consts_ok K -> forall s, WF s ->
  (forall q, exists v, search_user_raw s q = Ok v) /\
  (forall uid id, exists s' e, set_user_id s uid id = Ok (s', e)) /\
  (forall slot, in_range slot = true -> exists s', remove_from_uhash s slot = Ok (s', 0)) /\
  (forall slot id, in_range slot = true -> ~ on_chain s slot -> exists s', add_to_uhash s slot id = Ok (s', 0)) /\
  (forall recs, lenZ recs <= MAXU -> agrees s recs -> exists s', load_uhash s recs = Ok s') /\
  (forall h, hash_ok h -> exists l, chain (nx s) (hd s h) l /\ (length l <= Z.to_nat MAXU)%nat).
Proof. exact (@no_fuel_exhaustion). Qed.
Print Assumptions C04_no_fuel_exhaustion.

(* a cold load (Number = Loaded = 0) of any .PASSWDS of at most MAX_USERS records builds a well-formed index
   from ANY prior content of the segment, garbage and cycles included *)
Theorem C04_wf_cold_load : forall (K : consts), consts_ok K -> forall s0 recs, lenZ recs <= MAXU ->
  exists s', load_uhash (unload s0) recs = Ok s' /\ WF s' /\ number s' = lenZ recs /\ loaded s' = 1.
Proof. exact (@cold_load_wf). Qed.
Print Assumptions C04_wf_cold_load.

(* ... and that index is exactly the file's. In the default build (MAX_USERS <= PRE_ALLOCATED_USERS, so the cap on free records never skips one): record k sits
   in slot k and is on a chain, no other slot is indexed, ids beyond the file keep their bytes *)
Theorem C04_cold_load_exact : forall s0 recs, lenZ recs <= @MAXU K_default ->
  exists s', @load_uhash K_default (unload s0) recs = Ok s' /\ @WF K_default s' /\ number s' = lenZ recs /\ loaded s' = 1 /\
    (forall k id, nth_error recs k = Some id -> idf s' (Z.of_nat k) = id) /\
    (forall x, ~ (0 <= x < lenZ recs) -> idf s' x = idf s0 x) /\
    (forall x, @on_chain K_default s' x <-> 0 <= x < lenZ recs).
Proof. exact cold_load_exact_default. Qed.
Print Assumptions C04_cold_load_exact.

(* ... for ANY constants the same holds of a file of at most PRE_ALLOCATED_USERS records ... *)
Theorem C04_cold_load_exact_small_file : forall (K : consts), consts_ok K -> forall s0 recs, lenZ recs <= MAXU -> lenZ recs <= PREALLOC ->
  exists s', load_uhash (unload s0) recs = Ok s' /\ WF s' /\ number s' = lenZ recs /\ loaded s' = 1 /\
    (forall k id, nth_error recs k = Some id -> idf s' (Z.of_nat k) = id) /\
    (forall x, ~ (0 <= x < lenZ recs) -> idf s' x = idf s0 x) /\
    (forall x, on_chain s' x <-> 0 <= x < lenZ recs).
Proof. exact (@cold_load_exact). Qed.
Print Assumptions C04_cold_load_exact_small_file.

(* ... and of ANY file (the production build: MAX_USERS = 2 000 000 records, deleted accounts leaving thousands of free records between live ones) the cold load
   stores and indexes exactly the FILED records, where [filed 0 recs] is the loader's cap: a record without a valid id (a free slot) is filed only while at most
   PRE_ALLOCATED_USERS such records have been seen (C04_filed_meaning). Every record WITH a valid id is filed - stored in its slot and put on a chain - wherever
   it is in the file and however many free records precede it; nothing that is not a filed record of the file is on a chain; the other ids keep their bytes *)
Theorem C04_cold_load_any_file : forall (K : consts), consts_ok K -> forall s0 recs, lenZ recs <= MAXU ->
  exists s', load_uhash (unload s0) recs = Ok s' /\ WF s' /\ number s' = lenZ recs /\ loaded s' = 1 /\
    (forall k id, nth_error recs k = Some id -> nth k (filed 0 recs) false = true -> idf s' (Z.of_nat k) = id /\ on_chain s' (Z.of_nat k)) /\
    (forall k id, nth_error recs k = Some id -> is_valid_id id = true -> idf s' (Z.of_nat k) = id /\ on_chain s' (Z.of_nat k)) /\
    (forall x, on_chain s' x -> exists k, x = Z.of_nat k /\ (k < length recs)%nat /\ nth k (filed 0 recs) false = true) /\
    (forall x, (forall k, x = Z.of_nat k -> nth k (filed 0 recs) false = false) -> idf s' x = idf s0 x).
Proof. exact (@cold_load_general). Qed.
Print Assumptions C04_cold_load_any_file.

(* the cap, spelled out: a record with a valid id is filed whatever precedes it; while (records without a valid id seen so far) + (records left) cannot exceed
   PRE_ALLOCATED_USERS every record is filed; a record that is not filed has no valid id *)
Theorem C04_filed_meaning : forall (K : consts),
  (forall recs cnt k id, nth_error recs k = Some id -> is_valid_id id = true -> nth k (filed cnt recs) false = true) /\
  (forall recs cnt k, cnt + lenZ recs <= PREALLOC -> (k < length recs)%nat -> nth k (filed cnt recs) false = true) /\
  (forall recs cnt k id, nth_error recs k = Some id -> nth k (filed cnt recs) false = false -> is_valid_id id = false) /\
  (forall cnt id r, filed cnt (id :: r) = negb (negb (is_valid_id id) && (PREALLOC <? cnt + 1)) :: filed (if is_valid_id id then cnt else cnt + 1) r).
Proof. intros K; exact (conj (@filed_valid K) (conj (@filed_all_small K) (conj (@not_filed_invalid K) (fun cnt id r => eq_refl)))). Qed.
Print Assumptions C04_filed_meaning.

(* ... in terms of lookups, for ANY constants: after a cold load a user of the file - a record with a valid id that no other record carries in any letter case - is
   found in every letter case at its slot (uid = record number + 1), wherever it is in the file and however many free records precede it *)
Theorem C04_cold_load_finds_every_user : forall (K : consts), consts_ok K -> forall s0 recs, lenZ recs <= MAXU ->
  exists s', load_uhash (unload s0) recs = Ok s' /\ WF s' /\
    forall k id q, nth_error recs k = Some id -> is_valid_id id = true ->
      (forall j id', nth_error recs j = Some id' -> id_eq_ci id' id = true -> j = k) ->
      id_eq_ci q id = true -> search_user_raw s' q = Ok (Z.of_nat k + 1).
Proof. exact (@cold_load_finds_users). Qed.
Print Assumptions C04_cold_load_finds_every_user.

(* ... instantiated for the production build *)
Theorem C04_docker_cold_load_finds_every_user : forall s0 recs, lenZ recs <= Gen.Consts_docker.ptttype.MAX_USERS ->
  exists s', @load_uhash K_docker (unload s0) recs = Ok s' /\ @WF K_docker s' /\
    forall k id q, nth_error recs k = Some id -> is_valid_id id = true ->
      (forall j id', nth_error recs j = Some id' -> id_eq_ci id' id = true -> j = k) ->
      id_eq_ci q id = true -> @search_user_raw K_docker s' q = Ok (Z.of_nat k + 1).
Proof. exact (@cold_load_finds_users K_docker K_docker_ok). Qed.
Print Assumptions C04_docker_cold_load_finds_every_user.

(* LoadUHash on a well-formed segment from a .PASSWDS that agrees with the live table keeps it well-formed ... *)
Theorem C04_wf_reload : forall (K : consts), consts_ok K -> forall s recs, WF s -> lenZ recs <= MAXU -> agrees s recs ->
  exists s', load_uhash s recs = Ok s' /\ WF s' /\ number s' = lenZ recs.
Proof. exact (@reload_wf). Qed.
Print Assumptions C04_wf_reload.

(* ... and, into a loaded segment (the on-the-fly branch), puts every record with a valid id on a chain - also one that was on none before - however many
   free records precede it in the file *)
Theorem C04_reload_indexes_every_user : forall (K : consts), consts_ok K -> forall s recs, WF s -> loaded s <> 0 -> lenZ recs <= MAXU -> agrees s recs ->
  exists s', load_uhash s recs = Ok s' /\ WF s' /\ (forall x, idf s' x = idf s x) /\ (forall x, on_chain s x -> on_chain s' x) /\
    (forall k id, nth_error recs k = Some id -> is_valid_id id = true -> on_chain s' (Z.of_nat k) /\ cstr_eq id (idf s' (Z.of_nat k)) = true).
Proof. exact (@reload_indexes_users). Qed.
Print Assumptions C04_reload_indexes_every_user.

(* ... and, into a loaded segment (the on-the-fly branch: checkHash over all 2^16 buckets, then re-add), changes no id and drops no slot *)
Theorem C04_reload_keeps : forall (K : consts), consts_ok K -> forall s recs, WF s -> loaded s <> 0 -> lenZ recs <= MAXU -> agrees s recs ->
  exists s', load_uhash s recs = Ok s' /\ WF s' /\ (forall x, idf s' x = idf s x) /\ (forall x, on_chain s x -> on_chain s' x).
Proof. exact (@reload_keeps). Qed.
Print Assumptions C04_reload_keeps.

(* WHO loads does not matter: LoadUHash by any process p - the creator of the segment (IsNew) or a process that attached to a
   segment somebody else created - (1) on ANY segment whose header says Number = Loaded = 0 (fresh and zeroed, created by
   another process and never loaded, unloaded with garbage and cycles left behind) terminates with a well-formed, loaded index
   that is exactly the file's (record k in slot k, on a chain; no other slot indexed);
   (2) on a well-formed segment, from an agreeing .PASSWDS, terminates and keeps it well-formed. Afterwards every lookup terminates *)
Theorem C04_load_any_process : forall (p : proc) s recs, lenZ recs <= @MAXU K_default ->
  (number s = 0 -> loaded s = 0 ->
     exists s', @load_uhash_by K_default p s recs = Ok s' /\ @WF K_default s' /\ number s' = lenZ recs /\ loaded s' = 1 /\ (forall q, exists v, @search_user_raw K_default s' q = Ok v) /\
       (forall k id, nth_error recs k = Some id -> idf s' (Z.of_nat k) = id) /\ (forall x, @on_chain K_default s' x <-> 0 <= x < lenZ recs)) /\
  (@WF K_default s -> agrees s recs ->
     exists s', @load_uhash_by K_default p s recs = Ok s' /\ @WF K_default s' /\ number s' = lenZ recs /\ (forall q, exists v, @search_user_raw K_default s' q = Ok v)).
Proof. exact load_any_process_default. Qed.
Print Assumptions C04_load_any_process.

(* ... the same for ANY constants: every record with a valid id is stored and indexed; when the file has at most PRE_ALLOCATED_USERS records, every record is *)
Theorem C04_load_any_process_any_constants : forall (K : consts), consts_ok K -> forall (p : proc) s recs, lenZ recs <= MAXU ->
  (number s = 0 -> loaded s = 0 ->
     exists s', load_uhash_by p s recs = Ok s' /\ WF s' /\ number s' = lenZ recs /\ loaded s' = 1 /\ (forall q, exists v, search_user_raw s' q = Ok v) /\
       (forall k id, nth_error recs k = Some id -> is_valid_id id = true -> idf s' (Z.of_nat k) = id /\ on_chain s' (Z.of_nat k)) /\
       (lenZ recs <= PREALLOC ->
          (forall k id, nth_error recs k = Some id -> idf s' (Z.of_nat k) = id) /\ (forall x, on_chain s' x <-> 0 <= x < lenZ recs))) /\
  (WF s -> agrees s recs ->
     exists s', load_uhash_by p s recs = Ok s' /\ WF s' /\ number s' = lenZ recs /\ (forall q, exists v, search_user_raw s' q = Ok v)).
Proof. exact (@load_any_process). Qed.
Print Assumptions C04_load_any_process_any_constants.

(* the start-up interleaving / crash point between NewSHM and LoadUHash: the first process created the segment (zeroed, header
   written, nothing loaded); a second process started with or without the create flag attaches to it, is NOT its creator, sees
   an index that is not well-formed (every bucket is the self-loop 0 -> 0), and its LoadUHash terminates with the well-formed
   index of .PASSWDS *)
Theorem C04_second_process_loads_created_segment : forall (is_create : bool) recs, lenZ recs <= @MAXU K_default ->
  exists p2 v, @new_shm_existing K_default is_create (snd (@new_shm_create K_default)) = (p2, Attached v) /\ p_is_new (fst (@new_shm_create K_default)) = true /\
    p_is_new p2 = false /\ v = reset_st /\ ~ @WF K_default v /\
    exists s', @load_uhash_by K_default p2 v recs = Ok s' /\ @WF K_default s' /\ number s' = lenZ recs /\ loaded s' = 1 /\
      (forall q, exists u, @search_user_raw K_default s' q = Ok u) /\
      (forall k id, nth_error recs k = Some id -> idf s' (Z.of_nat k) = id) /\ (forall x, @on_chain K_default s' x <-> 0 <= x < lenZ recs).
Proof. exact second_process_loads_created_segment_default. Qed.
Print Assumptions C04_second_process_loads_created_segment.

Theorem C04_second_process_loads_created_segment_any_constants : forall (K : consts), consts_ok K -> forall (is_create : bool) recs, lenZ recs <= MAXU ->
  exists p2 v, new_shm_existing is_create (snd new_shm_create) = (p2, Attached v) /\ p_is_new (fst new_shm_create) = true /\
    p_is_new p2 = false /\ v = reset_st /\ ~ WF v /\
    exists s', load_uhash_by p2 v recs = Ok s' /\ WF s' /\ number s' = lenZ recs /\ loaded s' = 1 /\
      (forall q, exists u, search_user_raw s' q = Ok u) /\
      (forall k id, nth_error recs k = Some id -> is_valid_id id = true -> idf s' (Z.of_nat k) = id /\ on_chain s' (Z.of_nat k)) /\
      (lenZ recs <= PREALLOC ->
         (forall k id, nth_error recs k = Some id -> idf s' (Z.of_nat k) = id) /\ (forall x, on_chain s' x <-> 0 <= x < lenZ recs)).
Proof. exact (@second_process_loads_created_segment). Qed.
Print Assumptions C04_second_process_loads_created_segment_any_constants.

(* ... and why that decision must follow the segment (Number / Loaded) and not the caller: on the created-but-not-loaded segment the
   on-the-fly branch (checkHash) does not terminate - for every amount of fuel, not just the model's - whatever .PASSWDS holds *)
Theorem C04_onfly_on_created_segment_hangs : forall (K : consts), consts_ok K ->
  (forall fuel, check_walk fuel reset_st 0 false 0 (tget (head reset_st) 0) = Hang) /\
  (forall recs, fill_uhash reset_st recs true = Hang).
Proof. exact (@onfly_on_created_segment_hangs). Qed.
Print Assumptions C04_onfly_on_created_segment_hangs.

(* every history: cold load from anything, then any sequence of SetUserID (any uid), RemoveFromUHash, AddToUHash on a slot
   that is on no chain (the only way the code base calls it), and reloads from an agreeing file *)
Theorem C04_reachable_wf : forall (K : consts), consts_ok K -> forall s, reachable s -> WF s.
Proof. exact (@reachable_wf). Qed.
Print Assumptions C04_reachable_wf.

(* ... so after every history lookups are exact and terminate *)
Theorem C04_lookup_exact : forall (K : consts), consts_ok K -> forall s, reachable s ->
  (forall q v, search_user_raw s q = Ok v -> v <> 0 -> on_chain s (v - 1) /\ id_eq_ci q (idf s (v - 1)) = true) /\
  (forall x q, on_chain s x -> unique_ci s x -> id_eq_ci q (idf s x) = true -> nth 0 q 0 <> 0 -> search_user_raw s q = Ok (x + 1)) /\
  (forall q, (forall y, on_chain s y -> id_eq_ci q (idf s y) = false) -> search_user_raw s q = Ok 0) /\
  (forall q, exists v, search_user_raw s q = Ok v).
Proof. exact (@lookup_exact). Qed.
Print Assumptions C04_lookup_exact.

(* attach: a second process passes the handshake exactly when version and size match, and then sees the same state,
   so it answers every lookup identically *)
Theorem C04_attach : forall (K : consts), consts_ok K -> forall g v, attach g = Attached v ->
  seg_version g = SHMVER /\ seg_size g = SHMSZ /\ v = seg_body g /\
  (forall q, search_user_raw v q = search_user_raw (seg_body g) q).
Proof. intros K _; exact (@attach_same K). Qed.
Print Assumptions C04_attach.

Theorem C04_attach_refused : forall (K : consts), consts_ok K -> forall g, seg_version g <> SHMVER \/ seg_size g <> SHMSZ ->
  forall v, attach g <> Attached v.
Proof. intros K _; exact (@attach_refused K). Qed.
Print Assumptions C04_attach_refused.

(* every history in which each step - cold load of a segment saying Number = Loaded = 0, SetUserID, RemoveFromUHash, AddToUHash on a
   free slot, reload from an agreeing file - is executed by ANY process (the creator or one that attached with or without the
   create flag, m_attach): the index is well-formed, lookups are exact and terminate, and a further reload by any process returns *)
Theorem C04_multi_process_exact : forall (K : consts), consts_ok K -> forall s, reachable_mp s ->
  WF s /\
  (forall q v, search_user_raw s q = Ok v -> v <> 0 -> on_chain s (v - 1) /\ id_eq_ci q (idf s (v - 1)) = true) /\
  (forall x q, on_chain s x -> unique_ci s x -> id_eq_ci q (idf s x) = true -> nth 0 q 0 <> 0 -> search_user_raw s q = Ok (x + 1)) /\
  (forall q, (forall y, on_chain s y -> id_eq_ci q (idf s y) = false) -> search_user_raw s q = Ok 0) /\
  (forall q, exists v, search_user_raw s q = Ok v) /\
  (forall (p : proc) recs, lenZ recs <= MAXU -> agrees s recs -> exists s', load_uhash_by p s recs = Ok s' /\ reachable_mp s').
Proof. exact (@multi_process_exact). Qed.
Print Assumptions C04_multi_process_exact.

(* C-string semantics. An id is the bytes before its first NUL; whatever the rest of the USER_ID_SZ-byte array holds - leftovers of a longer id the buffer held before
   (a UserID_t reused through CopyFrom, a .PASSWDS userid field reused with strlcpy, a query buffer) - takes part in nothing: two queries that are the same C string
   get the same answer from DoSearchUserRaw and SearchUserRaw in every state, hash alike, and compare alike with every id on either side of the comparison.
   (The stored side: C04_search_complete / C04_lookup_exact are stated with id_eq_ci q (idf s x), which reads the stored array up to its first NUL only -
   C04_match_is_whole_id - so a slot whose array holds leftovers is found by the clean spelling in any letter case.) *)
Theorem C04_bytes_after_nul_ignored : forall (K : consts) s q q', cprefix q = cprefix q' ->
  do_search_user_raw s q = do_search_user_raw s q' /\ search_user_raw s q = search_user_raw s q' /\ uhash q = uhash q' /\
  (forall b, id_eq_ci q b = id_eq_ci q' b) /\ (forall b, id_eq_ci b q = id_eq_ci b q').
Proof. exact (@search_ignores_bytes_after_nul). Qed.
Print Assumptions C04_bytes_after_nul_ignored.

(* BBSHOME/.PASSWDS behind symbolic links (a BBSHOME file linked into a data volume; a link to a link): LoadUHash called by any process through the entry is the load of
   the records the entry RESOLVES to - plink n recs = n links in front of the table recs, passwd_entry = the four shapes the harness makes (op 33) - so every theorem above
   about load_uhash / load_uhash_by (cold load exact, finds every user, reload keeps) is a theorem about linked tables. The model resolves the entry by definition; that
   cache.LoadUHash learns the size and the records of the TABLE and not of the directory entry is validated by the harness on real links, not proved. *)
Theorem C04_load_through_links : forall (K : consts) (p : proc) s,
  (forall n recs, load_passwd_by p s (plink n recs) = load_uhash s recs) /\
  (forall mode recs, load_passwd_by p s (passwd_entry mode recs) = load_uhash s recs) /\
  (forall e e', presolve e = presolve e' -> load_passwd_by p s e = load_passwd_by p s e').
Proof. exact (@load_through_links). Qed.
Print Assumptions C04_load_through_links.

(* No process owns index state: in the model the effect and the answer of every operation of the harness are a function of the segment alone, whichever process executes
   it; the long-lived attached process of op 34 and the fresh one of op 29 are therefore the creator executing the same operation, and C04_multi_process_exact covers
   histories interleaving any number of such processes. An implementation that keeps a process-private picture of a chain (a remembered tail, a cached head) is outside
   this model: the harness looks for it by letting several long-lived processes take turns on one long chain. *)
Theorem C04_operation_is_function_of_segment : forall (K : consts) (p q : proc) x g, apply_local p x g = apply_local q x g.
Proof. exact (@op_function_of_segment). Qed.
Print Assumptions C04_operation_is_function_of_segment.

Theorem C04_long_lived_process_is_any_process : forall (K : consts) x k g, (0 <=? k) && (k <? 3) = true -> proc2_op g = true ->
  apply_op x (34 :: k :: g) = apply_local creator x g /\ apply_op x (29 :: 0 :: g) = apply_local creator x g.
Proof. exact (@peer_is_any_process). Qed.
Print Assumptions C04_long_lived_process_is_any_process.
