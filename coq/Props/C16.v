(* C16 — Only unexpired tokens of the right kind, issued by this server, authenticate.
   Statements about the decision logic of Model/C16.v. A token is described abstractly (header
   algorithm, which secret signed it, whether it was altered, its claims); [proper now k t] says it
   is HMAC-signed with secret k, unaltered, and passes the library's registered-claim checks.
   The MAC idealisation (a token verifies under k iff proper for k) is the model's [lib_accepts]. *)
From Verif Require Import Base.Common Model.C16 Proofs.C16.

(* an access token authenticates as u only if HMAC-signed with the access secret, intact, unexpired, sub = u *)
Theorem C16_access : forall now t u e c m, 0 < now -> verify_access now true (Some t) = VOk u e c m ->
  proper now KAccess t /\ claim_str (t_sub t) = Some u /\ t_exp t = CNum e /\ now < e.
Proof. exact access_sound. Qed.
Print Assumptions C16_access.

(* ... and such a token is accepted (the rule is not vacuous) *)
Theorem C16_access_complete : forall now t u n cli, proper now KAccess t -> t_sub t = CStr u -> t_exp t = CNum n -> now < n ->
  claim_str (t_cli t) = Some cli -> verify_access now true (Some t) = VOk u n cli 0.
Proof. exact access_complete. Qed.
Print Assumptions C16_access_complete.

(* altered, unsigned-algorithm, expired tokens are rejected by the access verifier *)
Theorem C16_altered_rejected : forall now chk t, t_intact t = false \/ is_hmac (t_alg t) = false -> verify_access now chk (Some t) = VInvalid.
Proof. exact access_altered. Qed.
Print Assumptions C16_altered_rejected.

Theorem C16_expired_rejected : forall now t n, t_exp t = CNum n -> n <= now -> forall chk, verify_access now chk (Some t) = VInvalid.
Proof. exact access_expired. Qed.
Print Assumptions C16_expired_rejected.

(* wrong kind: a token signed for another purpose (refresh, e-mail, foreign) is never an access token, and vice versa *)
Theorem C16_wrong_kind_access : forall now chk t, t_key t <> KAccess -> verify_access now chk (Some t) = VInvalid.
Proof. exact access_wrong_key. Qed.
Print Assumptions C16_wrong_kind_access.

Theorem C16_wrong_kind_refresh : forall now t, t_key t <> KRefresh -> verify_refresh now (Some t) = VInvalid.
Proof. exact refresh_wrong_key. Qed.
Print Assumptions C16_wrong_kind_refresh.

Theorem C16_wrong_kind_email : forall now ctx t, t_key t <> KEmail -> verify_email now ctx (Some t) = VInvalid.
Proof. exact email_wrong_key. Qed.
Print Assumptions C16_wrong_kind_email.

(* an e-mail token of another context is rejected *)
Theorem C16_email_other_context : forall now ctx t cx, claim_str (t_ctx t) = Some cx -> cx <> ctx -> verify_email now ctx (Some t) = VInvalid.
Proof. exact email_other_context. Qed.
Print Assumptions C16_email_other_context.

(* a rejected access token downgrades the request to guest; a request runs as u <> guest only with a proper access token of u *)
Theorem C16_guest_downgrade : forall now raw, verify_access now true raw = VInvalid -> login_required now raw = GUEST.
Proof. exact guest_downgrade. Qed.
Print Assumptions C16_guest_downgrade.

Theorem C16_request_user : forall now raw u, 0 < now -> login_required now raw = u -> u <> GUEST ->
  exists t e, raw = Some t /\ proper now KAccess t /\ claim_str (t_sub t) = Some u /\ t_exp t = CNum e /\ now < e.
Proof. exact login_required_sound. Qed.
Print Assumptions C16_request_user.

(* a refresh succeeds only for a matching access/refresh pair of the same user, and issues tokens for that user *)
Theorem C16_refresh : forall now a r pcli u, REFRESH_TS - ACCESS_TS + EPSILON < now -> refresh now a r pcli = Some u ->
  exists ta tr ea er, a = Some ta /\ r = Some tr /\
    proper now KAccess ta /\ proper now KRefresh tr /\
    claim_str (t_sub ta) = Some u /\ claim_str (t_sub tr) = Some u /\
    t_exp tr = CNum er /\ now < er /\ claim_int (t_exp ta) = Some ea /\
    claim_str (t_typ tr) = Some TYP_REFRESH /\
    - EPSILON <= (er - ea) - (REFRESH_TS - ACCESS_TS) <= EPSILON.
Proof. exact refresh_sound. Qed.
Print Assumptions C16_refresh.

(* token info is returned only for the caller's own valid access token *)
Theorem C16_token_info : forall now a b u, 0 < now -> get_token_info now a b = Some u ->
  login_required now a = u /\
  ((exists t e, b = Some t /\ proper now KAccess t /\ claim_str (t_sub t) = Some u /\ t_exp t = CNum e /\ now < e)
   \/ (b = None /\ u = GUEST)).
Proof. exact token_info_sound. Qed.
Print Assumptions C16_token_info.

(* an e-mail change / id-e-mail set is applied only with an unexpired e-mail token of exactly that
   context whose sub is the path user and whose eml is the applied address, presented by that user
   (or by an administrator where the route allows it) *)
Theorem C16_email_use : forall now caller path_user etok ctx adm allow e, 0 < now ->
  email_use now caller path_user etok ctx adm allow = Some e ->
  path_user <> GUEST /\
  (login_required now caller = path_user \/ (allow = true /\ adm = true)) /\
  exists t x, etok = Some t /\ proper now KEmail t /\ claim_str (t_sub t) = Some path_user /\
              claim_str (t_ctx t) = Some ctx /\ claim_str (t_eml t) = Some e /\ t_exp t = CNum x /\ now < x.
Proof. exact email_use_sound. Qed.
Print Assumptions C16_email_use.

(* ---------------------------------------------------------------- the secrets in force *)
(* The wrong-kind theorems above speak of the PURPOSE a token was signed for. The code compares secrets,
   and which secret each purpose uses is fixed at start-up (defaults of api/00-config.go, overridden by
   api/config.go from the ini file). [verify_*_c cfg] is the same decision logic over a configuration
   cfg : purpose -> secret; [secrets_distinct cfg] = no purpose (a foreign key included) shares the key of
   one of the server's three purposes. The harness observes that premise after every way of configuring
   the server (checks/C16.py, "secrets in force"). *)

(* under ANY configuration: accepted as u => properly made for SOME purpose whose secret is the access secret *)
Theorem C16_access_any_config : forall cfg now t u e c m, 0 < now -> verify_access_c cfg now true (Some t) = VOk u e c m ->
  proper now (t_key t) t /\ cfg (t_key t) = cfg KAccess /\ claim_str (t_sub t) = Some u /\ t_exp t = CNum e /\ now < e.
Proof. exact access_sound_c. Qed.
Print Assumptions C16_access_any_config.

(* with distinct secrets the configured server is the model of all theorems above (they hold verbatim for verify_*_c cfg) *)
Theorem C16_distinct_config_is_model : forall cfg, secrets_distinct cfg ->
  (forall now chk raw, verify_access_c cfg now chk raw = verify_access now chk raw) /\
  (forall now raw, verify_refresh_c cfg now raw = verify_refresh now raw) /\
  (forall now ctx raw, verify_email_c cfg now ctx raw = verify_email now ctx raw) /\
  (forall now raw, login_required_c cfg now raw = login_required now raw) /\
  (forall now a r pcli, refresh_c cfg now a r pcli = refresh now a r pcli) /\
  (forall now a b, get_token_info_c cfg now a b = get_token_info now a b) /\
  (forall now caller pu etok ctx adm allow, email_use_c cfg now caller pu etok ctx adm allow = email_use now caller pu etok ctx adm allow).
Proof. exact distinct_config_is_model. Qed.
Print Assumptions C16_distinct_config_is_model.

(* the wrong-kind clause with its premise explicit *)
Theorem C16_wrong_kind_access_cfg : forall cfg now chk t, secrets_distinct cfg -> t_key t <> KAccess -> verify_access_c cfg now chk (Some t) = VInvalid.
Proof. exact access_wrong_key_c. Qed.
Print Assumptions C16_wrong_kind_access_cfg.

Theorem C16_wrong_kind_refresh_cfg : forall cfg now t, secrets_distinct cfg -> t_key t <> KRefresh -> verify_refresh_c cfg now (Some t) = VInvalid.
Proof. exact refresh_wrong_key_c. Qed.
Print Assumptions C16_wrong_kind_refresh_cfg.

Theorem C16_wrong_kind_email_cfg : forall cfg now ctx t, secrets_distinct cfg -> t_key t <> KEmail -> verify_email_c cfg now ctx (Some t) = VInvalid.
Proof. exact email_wrong_key_c. Qed.
Print Assumptions C16_wrong_kind_email_cfg.

(* the premise is exactly what is needed: wrong-kind tokens are rejected by all three verifiers for all tokens iff the secrets are distinct *)
Theorem C16_wrong_kind_iff_distinct_secrets : forall cfg, wrong_kind_rejected cfg <-> secrets_distinct cfg.
Proof. exact wrong_kind_iff_distinct. Qed.
Print Assumptions C16_wrong_kind_iff_distinct_secrets.

(* whenever a purpose k shares the access secret, EVERY unexpired token properly made for k authenticates as its subject *)
Theorem C16_shared_secret_accepted : forall cfg now k t u n cli, proper now k t -> cfg k = cfg KAccess ->
  t_sub t = CStr u -> t_exp t = CNum n -> now < n -> claim_str (t_cli t) = Some cli ->
  verify_access_c cfg now true (Some t) = VOk u n cli 0.
Proof. exact shared_secret_accepted. Qed.
Print Assumptions C16_shared_secret_accepted.

(* without the premise the wrong-kind theorem fails in the model: with the refresh (and e-mail) secret defaulting to the
   access secret, a genuine refresh token is an access token of its subject for the verifier, the login-required
   wrappers and token-info *)
Theorem C16_distinct_secrets_needed_refuted :
  exists cfg now t u e c, t_key t = KRefresh /\ verify_refresh_c cfg now (Some t) = VOk u e c 0 /\
    verify_access_c cfg now true (Some t) = VOk u e c 0 /\ login_required_c cfg now (Some t) = u /\ u <> GUEST /\
    get_token_info_c cfg now (Some t) (Some t) = Some u.
Proof. exact distinct_secrets_needed. Qed.
Print Assumptions C16_distinct_secrets_needed_refuted.

(* all cross-uses of the tokens the server itself issues (CreateToken / CreateRefreshToken / CreateEmailToken), for every
   configuration with distinct secrets, user, client info, address and contexts: accepted exactly by the verifier of its kind
   (and, for e-mail tokens, of its context) *)
Theorem C16_issued_cross_use : forall cfg now k u cli eml ctx vctx, secrets_distinct cfg ->
  (verify_access_c cfg now true (Some (issue now k u cli eml ctx)) <> VInvalid <-> k = KAccess) /\
  (verify_refresh_c cfg now (Some (issue now k u cli eml ctx)) <> VInvalid <-> k = KRefresh) /\
  (verify_email_c cfg now vctx (Some (issue now k u cli eml ctx)) <> VInvalid <-> k = KEmail /\ ctx = vctx).
Proof. exact issued_cross_use. Qed.
Print Assumptions C16_issued_cross_use.

(* ------------------------------------------------------------------ histories: one process, many presentations *)
(* In every history (any tokens, any verifiers and wrappers, any clock readings, any length), a step
   that authenticates a user other than guest is justified by the token presented in that step at the
   clock reading of that step: HMAC-signed with the access secret, intact, its own exp still in the
   future, sub = that user. Nothing seen earlier in the history can stand in for it. *)
Theorem C16_history_sound : forall toks steps, history_sound toks steps.
Proof. exact history_sound_all. Qed.
Print Assumptions C16_history_sound.

(* the answers after any prefix of whole steps are the answers without the prefix: the verifiers keep no state *)
Theorem C16_history_prefix_irrelevant : forall toks n pre post, length pre = (3 * n)%nat ->
  history toks (pre ++ post) = history toks pre ++ history toks post.
Proof. exact history_prefix. Qed.
Print Assumptions C16_history_prefix_irrelevant.

(* time (and use) never adds validity: what is accepted at a later clock reading was accepted, with the same
   claims, at every earlier one; a token rejected once stays rejected, a request that ran as guest keeps running as guest *)
Theorem C16_accepted_later_accepted_earlier : forall now now' raw u e c m, now <= now' ->
  verify_access now' true raw = VOk u e c m -> verify_access now true raw = VOk u e c m.
Proof. exact access_accepted_earlier. Qed.
Print Assumptions C16_accepted_later_accepted_earlier.

Theorem C16_rejected_stays_rejected : forall now now' raw, now <= now' ->
  verify_access now true raw = VInvalid -> verify_access now' true raw = VInvalid.
Proof. exact access_rejected_later. Qed.
Print Assumptions C16_rejected_stays_rejected.

Theorem C16_guest_stays_guest : forall now now' raw, now <= now' ->
  login_required now raw = GUEST -> login_required now' raw = GUEST.
Proof. exact guest_stays_guest. Qed.
Print Assumptions C16_guest_stays_guest.
