(* C09 — A published article is stored once, completely, and is immediately retrievable.
   Only statements here; every proof is `exact <lemma of Proofs/C09.v>`.
   Model: Model/C09.v — post_on (one post by user u on board b: the success path of ptt.DoPostArticle),
   post / post_seq (on the state of all users and boards), fetch (bbs.GetArticle). A post either returns
   Ok or Hang; Hang only means "the observed stream of math/rand draws ended before Stampfile found a free
   name" (the code would keep drawing). [in_range q]: the observed clock readings are 10-digit times
   below 2^31 and the draws are below 4096 — the domain on which C13 proves the name <-> id codec. *)
From Verif Require Import Base.Common Base.Dec Gen.Consts_default Gen.PostTab Model.C13 Model.C09 Proofs.C09.

(* the index grows by exactly one 128-byte entry: every complete earlier entry keeps its bytes (all earlier bytes,
   when the index was a whole number of entries), the new entry is what AppendRecord's returned index names *)
Theorem C09_index_grows_by_one : forall role u b q u' b' o, post_on role u b q = Ok (u', b', o) ->
  length (o_entry o) = 128%nat /\
  b_dir b' = firstn (Z.to_nat (lenZ (b_dir b) / 128 * 128)) (b_dir b) ++ o_entry o /\
  o_idx o = lenZ (b_dir b) / 128 + 1 /\
  (lenZ (b_dir b) mod 128 = 0 -> b_dir b' = b_dir b ++ o_entry o /\ lenZ (b_dir b') = lenZ (b_dir b) + 128).
Proof. exact index_grows. Qed.
Print Assumptions C09_index_grows_by_one.

(* the entry names a file that did not exist before; afterwards that file holds header ++ processed lines ++
   signature ++ URL line, and no other file of the board directory appears, disappears or changes *)
Theorem C09_file_content : forall role u b q u' b' o, in_range q -> post_on role u b q = Ok (u', b', o) ->
  let name := cprefix (o_fn o) in
  fexists (b_files b) name = false /\
  lookup name (b_files b') =
    Some (header u b (tn_safe_strip role (full_title (q_class q) (q_title q))) (q_nowH q)
          ++ process_lines (q_lines q) ++ signature (q_ip q) ++ url_line b (o_fn o)) /\
  (forall n, n <> name -> lookup n (b_files b') = lookup n (b_files b)).
Proof. exact file_content. Qed.
Print Assumptions C09_file_content.

(* "processed lines": every submitted line except an empty last one ... *)
Theorem C09_lines_all_but_empty_last : forall ls l,
  process_lines (ls ++ [[]]) = flat_map process_line ls /\
  (l <> [] -> process_lines (ls ++ [l]) = flat_map process_line (ls ++ [l])) /\
  process_lines [] = [].
Proof. intros ls l. exact (conj (process_lines_last_empty ls) (conj (process_lines_last_nonempty ls l) eq_refl)). Qed.
Print Assumptions C09_lines_all_but_empty_last.

(* ... for EVERY number of submitted lines (there is no line limit on the way from bbs.CreateArticle to the file;
   ptttype.MAX_EDIT_LINE bounds the terminal editor only): the file of a successful post holds one processed line
   for each line of kept_lines (q_lines q), which is the submitted list itself, or the submitted list without its
   last element when that element is the empty line; so the number of stored body lines is the number of submitted
   lines minus the skipped empty last one, the i-th stored line comes from the i-th submitted line, and (when no
   submitted line contains a line feed itself) that number is the number of line feeds between header and signature *)
Theorem C09_all_lines_stored : forall role u b q u' b' o, in_range q -> post_on role u b q = Ok (u', b', o) ->
  let ls := q_lines q in
  lookup (cprefix (o_fn o)) (b_files b') =
    Some (header u b (tn_safe_strip role (full_title (q_class q) (q_title q))) (q_nowH q)
          ++ flat_map process_line (kept_lines ls) ++ signature (q_ip q) ++ url_line b (o_fn o)) /\
  (if ends_empty ls then ls = kept_lines ls ++ [[]] else kept_lines ls = ls) /\
  (ends_empty ls = true <-> exists ls', ls = ls' ++ [[]]) /\
  length (kept_lines ls) = (length ls - (if ends_empty ls then 1 else 0))%nat /\
  (forall i, (i < length (kept_lines ls))%nat -> nth i (kept_lines ls) [] = nth i ls []) /\
  (Forall (fun l => ~ In 10 l) ls -> count_nl (flat_map process_line (kept_lines ls)) = length (kept_lines ls)).
Proof. exact all_lines_stored. Qed.
Print Assumptions C09_all_lines_stored.

(* ... each cut at its first NUL with the trailing blanks (and only those) removed ... *)
Theorem C09_line_trimmed : forall l, exists k,
  cprefix l = trim l ++ repeat 32 k /\ (trim l = [] \/ last (trim l) 0 <> 32) /\ Forall (fun c => c <> 0) (trim l).
Proof. exact trim_spec. Qed.
Print Assumptions C09_line_trimmed.

(* ... and defused: same length, only command bytes of cursor-movement sequences change (to 's'), and nothing
   is left to defuse (the result is a fixed point of the stripper) *)
Theorem C09_line_defused : forall l s,
  length (defuse s l) = length l /\
  Forall2 (fun a b => b = a \/ (memb a PATTERN_ANSI_MOVECMD = true /\ b = 115)) l (defuse s l) /\
  defuse s (defuse s l) = defuse s l.
Proof. intros l s. exact (conj (defuse_length l s) (conj (defuse_pointwise l s) (defuse_idem l s))). Qed.
Print Assumptions C09_line_defused.

(* owner, title and date are recorded: the entry is name(28) mtime(4) 0 0 owner(14) date(6) title(65) zeros(9);
   the name is M.<time of the second stamp>.A.<draw>, the date is that time's month/day *)
Theorem C09_header_fields : forall role u b q u' b' o, in_range q -> post_on role u b q = Ok (u', b', o) ->
  exists t2 r2, 1000000000 <= t2 < 2147483648 /\ 0 <= r2 < 4096 /\
    o_fn o = mk_name 77 t2 r2 /\
    let e := o_entry o in
    firstn 28 e = mk_name 77 t2 r2 /\
    firstn 4 (skipn 28 e) = le32 (q_mtime q) /\
    firstn 14 (skipn 34 e) = fixlen 14 (u_id u) /\
    firstn 6 (skipn 48 e) = fixlen 6 (cdatemd t2) /\
    firstn 65 (skipn 54 e) = fixlen 65 (tn_safe_strip role (full_title (q_class q) (q_title q))) /\
    skipn 119 e = repeat 0 9.
Proof. exact header_fields. Qed.
Print Assumptions C09_header_fields.

(* the title field holds the leading bytes of "[class] title" that fit its 65 bytes; the only rewriting is that
   the announcement tag is dropped for an author whose role does not allow it *)
Theorem C09_stored_title : forall role cls title,
  firstn 65 (fixlen 65 (tn_safe_strip role (full_title cls title))) = fixlen 65 (tn_safe_strip role (full_title cls title)) /\
  firstn (Nat.min 65 (length (tn_safe_strip role (full_title cls title)))) (fixlen 65 (tn_safe_strip role (full_title cls title)))
    = firstn 65 (tn_safe_strip role (full_title cls title)) /\
  (tn_safe_strip role (full_title cls title) = full_title cls title \/
   (role = false /\ full_title cls title = TN_ANNOUNCE_BIG5 ++ tn_safe_strip role (full_title cls title))).
Proof. exact stored_title_prefix. Qed.
Print Assumptions C09_stored_title.

(* the cached article count equals the index length *)
Theorem C09_total : forall role u b q u' b' o, lenZ (b_dir b) < 2147483648 * 128 - 128 -> post_on role u b q = Ok (u', b', o) ->
  b_total b' = lenZ (b_dir b') / 128 /\ b_total b' = lenZ (b_dir b) / 128 + 1.
Proof. exact total_after. Qed.
Print Assumptions C09_total.

(* ... whatever condition the shared memory around the board cache is in when the post is made. post_shm is the post
   with that memory explicit (Model/C09.v: set_btotal mirrors cache.SetBTotal): sh carries Shm.BBusyState (the
   "board cache is being loaded" flag, which a loader that went away leaves set for good), the per-board busy
   stamps Shm.BusyStateB and Shm.LastPostTime; the old Shm.Total is b_total of the board in st. For EVERY value
   of all of them: SetBTotal returns no error, the post is exactly the post of [post] (index, files, counters,
   outcome: the theorems above apply), the cached count equals the index length (old count + 1 entry), the busy
   flags are not written, LastPostTime of the board becomes the time in the new entry's name and that of every other
   board stays *)
Theorem C09_total_any_shared_state : forall sh st q sh' st' o err, in_range q -> req_ok st q = true ->
  lenZ (b_dir (brd st (Z.to_nat (q_board q)))) < 2147483648 * 128 - 128 ->
  post_shm sh st q = Ok (sh', st', o, err) ->
  let bi := Z.to_nat (q_board q) in
  err = false /\ post st q = Ok (st', o) /\
  b_total (brd st' bi) = lenZ (b_dir (brd st' bi)) / 128 /\
  b_total (brd st' bi) = lenZ (b_dir (brd st bi)) / 128 + 1 /\
  sh_bbusy sh' = sh_bbusy sh /\ sh_busyb sh' = sh_busyb sh /\
  length (sh_lastpost sh') = length (sh_lastpost sh) /\
  (forall j, j <> bi -> nth j (sh_lastpost sh') 0 = nth j (sh_lastpost sh) 0) /\
  exists t2 r2, o_fn o = mk_name 77 t2 r2 /\ 1000000000 <= t2 < 2147483648 /\
    ((bi < length (sh_lastpost sh))%nat -> nth bi (sh_lastpost sh') 0 = t2).
Proof. exact post_shm_spec. Qed.
Print Assumptions C09_total_any_shared_state.

(* histories under any such condition: over every sequence of posts SetBTotal never returns its error, the states
   are those of post_seq (C09_sequence applies), the busy flags keep their values, and at the end every board that
   was posted to — and every board whose count was in sync before — has its cached count equal to its index length *)
Theorem C09_sequence_any_shared_state : forall qs sh st sh' st' os err,
  Forall in_range qs -> forallb (req_ok st) qs = true ->
  (forall i, lenZ (b_dir (brd st i)) + 128 * lenZ qs < 2147483648 * 128) ->
  post_seq_shm sh st qs = Ok (sh', st', os, err) ->
  err = false /\ post_seq st qs = Ok (st', os) /\
  sh_bbusy sh' = sh_bbusy sh /\ sh_busyb sh' = sh_busyb sh /\
  (forall i, b_total (brd st i) = lenZ (b_dir (brd st i)) / 128 \/ In i (map (fun q => Z.to_nat (q_board q)) qs) ->
             b_total (brd st' i) = lenZ (b_dir (brd st' i)) / 128).
Proof. exact sequence_shm. Qed.
Print Assumptions C09_sequence_any_shared_state.

(* the author's post counter rises by one (a uint32), nothing else of the record changes *)
Theorem C09_numposts : forall role u b q u' b' o, post_on role u b q = Ok (u', b', o) ->
  u_numposts u' = (u_numposts u + 1) mod 4294967296 /\
  (0 <= u_numposts u < 4294967295 -> u_numposts u' = u_numposts u + 1) /\
  u_id u' = u_id u /\ u_nick u' = u_nick u /\ u_priv u' = u_priv u.
Proof. exact numposts_after. Qed.
Print Assumptions C09_numposts.

(* the returned article id decodes (C13) to exactly the new file's name, and reading by it returns exactly the file *)
Theorem C09_fetch : forall role u b q u' b' o, in_range q -> post_on role u b q = Ok (u', b', o) ->
  fetch b' (o_aid o) =
    Ok (Some (header u b (tn_safe_strip role (full_title (q_class q) (q_title q))) (q_nowH q)
              ++ process_lines (q_lines q) ++ signature (q_ip q) ++ url_line b (o_fn o))).
Proof. exact fetch_after. Qed.
Print Assumptions C09_fetch.

(* histories: after any sequence of posts to the same and to different boards, every board's index is the old
   index plus the entries of the posts addressed to it, in order; every user's counter rose by the number of his
   posts; no file that existed (or was published) earlier is lost or altered *)
Theorem C09_sequence : forall qs st st' os,
  forallb (req_ok st) qs = true -> post_seq st qs = Ok (st', os) ->
  length os = length qs /\
  length (s_users st') = length (s_users st) /\ length (s_boards st') = length (s_boards st) /\
  (forall i, dir_ok (brd st i) -> b_dir (brd st' i) = b_dir (brd st i) ++ entries_for i qs os /\ dir_ok (brd st' i)) /\
  (forall j, u_numposts (usr st' j) = u_numposts (usr st j) /\ posts_by j qs = 0
             \/ u_numposts (usr st' j) = (u_numposts (usr st j) + posts_by j qs) mod 4294967296) /\
  (forall i n c, lookup n (b_files (brd st i)) = Some c -> lookup n (b_files (brd st' i)) = Some c).
Proof. exact sequence. Qed.
Print Assumptions C09_sequence.

(* ... in particular an article stays retrievable by its id, with the same bytes, whatever is posted afterwards *)
Theorem C09_sequence_retrievable : forall st q st1 o qs st2 os, in_range q ->
  req_ok st q = true -> post st q = Ok (st1, o) ->
  forallb (req_ok st1) qs = true -> post_seq st1 qs = Ok (st2, os) ->
  exists content,
    fetch (brd st1 (Z.to_nat (q_board q))) (o_aid o) = Ok (Some content) /\
    fetch (brd st2 (Z.to_nat (q_board q))) (o_aid o) = Ok (Some content).
Proof. exact sequence_retrievable. Qed.
Print Assumptions C09_sequence_retrievable.

(* no request makes the post path panic — for every role, class, title (also one shorter than the announcement
   tag) and body; single posts and sequences *)
Theorem C09_no_crash : forall role u b q st qs,
  post_on role u b q <> Crash /\ post st q <> Crash /\ post_seq st qs <> Crash.
Proof. intros role u b q st qs. exact (conj (post_on_no_crash role u b q) (conj (post_no_crash st q) (post_seq_no_crash qs st))). Qed.
Print Assumptions C09_no_crash.

(* ... and the model's only other outcome, Hang, is not a property of the code: two fresh names among the observed
   draws are enough for the post to succeed *)
Theorem C09_succeeds : forall role u b q r1 r2 rest,
  q_rnds q = r1 :: r2 :: rest ->
  let n1 := stamp_name (wrap32 (q_nowA q + 1)) r1 in
  let n2 := stamp_name (wrap32 (q_nowB q + 1)) r2 in
  fexists (b_files b) n1 = false -> fexists (b_files b) n2 = false -> n1 <> n2 ->
  exists r, post_on role u b q = Ok r.
Proof. exact post_on_succeeds. Qed.
Print Assumptions C09_succeeds.

(* the (year, month, day) behind the recorded date and the header's time line is a valid calendar date of the local
   day (t + 8 h) / 86400, for every time of the range (sweep over all 13 290 days against the inverse formula) *)
Theorem C09_calendar : forall t, 1000000000 <= t < 2147483648 ->
  let '(y, m, d) := civil ((t + TZ_OFFSET) / 86400) in
  1 <= m <= 12 /\ 1 <= d <= month_len y m /\ 2001 <= y <= 2038 /\ days_from_civil y m d = (t + TZ_OFFSET) / 86400.
Proof. exact civil_correct. Qed.
Print Assumptions C09_calendar.

(* the recorded date over the life of one process. The date of a stamp time is the month/day of its local day
   (t + 8 h) / 86400 and of nothing else: two times of one local day (whatever their UTC days) give the same string, two
   times of consecutive local days never do — in particular the second that begins a local day (16:00:00 UTC) changes
   it —, it is always 5 characters and the 6-byte field is that string and a NUL *)
Theorem C09_date_is_local_day : forall t t', 1000000000 <= t < 2147483648 -> 1000000000 <= t' < 2147483648 ->
  ((t + TZ_OFFSET) / 86400 = (t' + TZ_OFFSET) / 86400 -> cdatemd t = cdatemd t') /\
  ((t' + TZ_OFFSET) / 86400 = (t + TZ_OFFSET) / 86400 + 1 -> cdatemd t' <> cdatemd t) /\
  ((t + 1 + TZ_OFFSET) mod 86400 = 0 -> t' = t + 1 -> cdatemd t' <> cdatemd t) /\
  length (cdatemd t) = 5%nat /\ date_field_of t = cdatemd t ++ [0].
Proof. exact date_is_local_day. Qed.
Print Assumptions C09_date_is_local_day.

(* ... and over EVERY history of posts of one process — whatever the clock readings of the successive posts are: the same
   day, across local or UTC midnights, month ends, new year, years apart, or stepped back — the date field of every
   entry is date_field_of the time in that entry's own name: nothing is carried from one stamp to the next. (The
   clock readings are observed inputs, each post has its own: q_nowA / q_nowH / q_nowB.) stamp_dates is the same
   statement for Cdatemd asked directly (driver op 5 / model op 4): the k-th answer is a function of the k-th time *)
Theorem C09_sequence_dates : forall qs st st' os, Forall in_range qs -> post_seq st qs = Ok (st', os) ->
  Forall (fun o => exists t2 r2, 1000000000 <= t2 < 2147483648 /\ 0 <= r2 < 4096 /\ o_fn o = mk_name 77 t2 r2 /\
    firstn 6 (skipn 48 (o_entry o)) = date_field_of t2) os.
Proof. exact sequence_dates. Qed.
Print Assumptions C09_sequence_dates.

Theorem C09_dates_history_free : forall pre t post_,
  length (stamp_dates (pre ++ t :: post_)) = length (pre ++ t :: post_) /\
    nth (length pre) (stamp_dates (pre ++ t :: post_)) [] = date_field_of t.
Proof. exact stamp_dates_history_free. Qed.
Print Assumptions C09_dates_history_free.

(* the date functions of the model assume UTC+8: the configured time zone is still Asia/Taipei *)
Theorem C09_time_zone : TIME_LOCATION = [65; 115; 105; 97; 47; 84; 97; 105; 112; 101; 105].
Proof. exact tz_is_taipei. Qed.
Print Assumptions C09_time_zone.
