From Verif Require Import Base.Common Base.Dec Gen.PostTab Model.C13 Model.C09 Proofs.C09.

Theorem C09_tz : TIME_LOCATION = [65; 115; 105; 97; 47; 84; 97; 105; 112; 101; 105].
Proof. exact tz_is_taipei. Qed.
Print Assumptions C09_tz.
