(* C01 — Persisted record formats are fixed, padding-free and match pttbbs.
   Only statements here; every proof is `exact <lemma of Proofs/C01*.v>`.
   env c            : the record types of configuration c (Default | Docker), resolved from the field lists
                      gosync regenerates from /repo on every run (Gen/Layout_<c>.v)
   go_*             : the gc layout rule (unsafe.Offsetof / unsafe.Sizeof); packed_* : what encoding/binary writes
   frozen_layout_of : the pttbbs reference (Model/C01_Frozen.v, never regenerated). *)
From Coq Require Import String.
From Verif Require Import Base.Common Base.RecFile Model.C01_Frozen Model.C01 Proofs.C01.
From Verif Require Gen.Consts_default Gen.Consts_docker.
Local Open Scope string_scope.
Local Open Scope list_scope.
Local Open Scope Z_scope.

(* every record type written to disk as a whole (.PASSWDS, .PASSWD2, .BRD, .DIR, .post), in both build
   configurations: each field's aligned offset is its packed offset, Sizeof is the packed size, and the same
   holds inside every nested array/struct *)
Theorem C01_padding_free : forall c name, In name strict_disk_records ->
  exists t, lookup name (env c) = Some t /\
            go_offsets (fields_of t) = packed_offsets (fields_of t) /\ go_size t = packed_size t /\
            padding_free t = true.
Proof. exact padding_free_disk. Qed.
Print Assumptions C01_padding_free.

(* the .fav board entry: 9 packed bytes at their aligned offsets; types.BinWrite pads the image to Sizeof = 12 *)
Theorem C01_padding_free_favboard : forall c,
  exists t, lookup "FavBoard" (env c) = Some t /\
            go_offsets (fields_of t) = packed_offsets (fields_of t) /\
            packed_size t = 9 /\ go_size t = 12 /\ binwrite_len (packed_size t) (go_size t) = 12.
Proof. exact padding_free_favboard. Qed.
Print Assumptions C01_padding_free_favboard.

(* names, offsets and sizes equal the frozen pttbbs layout: the disk records and the message structure in
   both configurations (PostLog up to pttbbs' title[66] = Title[65] + one pad byte), the user-info structure
   (3484 B) and every field of the shared-memory segment under the docker/production constants; and the
   serialised (packed) table of every disk record is that same table *)
Theorem C01_matches_frozen :
  (forall c name, In name ["UserecRaw"; "Userec2Raw"; "BoardHeaderRaw"; "FileHeaderRaw"; "FavBoard"; "MsgQueueRaw"] ->
     go_layout_of c name = frozen_layout_of name /\ go_layout_of c name <> None) /\
  (forall c, option_map (fun l => (fst l, absorb_pads (snd l))) (go_layout_of c "PostLog") = frozen_layout_of "PostLog"
             /\ go_layout_of c "PostLog" <> None) /\
  (forall name, In name ["UserInfoRaw"; "SHMRaw"] ->
     go_layout_of Docker name = frozen_layout_of name /\ go_layout_of Docker name <> None) /\
  (forall c name, In name strict_disk_records -> packed_layout_of c name = go_layout_of c name).
Proof. exact matches_frozen. Qed.
Print Assumptions C01_matches_frozen.

(* the layout rule of this model gives the sizes go/types computed for the record-stride constants *)
Theorem C01_sizes_match_compiler_constants :
  (forall c t, lookup "UserecRaw" (env c) = Some t ->
     go_size t = match c with Default => Gen.Consts_default.ptttype.USEREC_RAW_SZ | Docker => Gen.Consts_docker.ptttype.USEREC_RAW_SZ end) /\
  (forall c t, lookup "Userec2Raw" (env c) = Some t ->
     go_size t = match c with Default => Gen.Consts_default.ptttype.USEREC2_RAW_SZ | Docker => Gen.Consts_docker.ptttype.USEREC2_RAW_SZ end) /\
  (forall c t, lookup "BoardHeaderRaw" (env c) = Some t ->
     go_size t = match c with Default => Gen.Consts_default.ptttype.BOARD_HEADER_RAW_SZ | Docker => Gen.Consts_docker.ptttype.BOARD_HEADER_RAW_SZ end) /\
  (forall c t, lookup "FileHeaderRaw" (env c) = Some t ->
     go_size t = match c with Default => Gen.Consts_default.ptttype.FILE_HEADER_RAW_SZ | Docker => Gen.Consts_docker.ptttype.FILE_HEADER_RAW_SZ end) /\
  (forall c t, lookup "PostLog" (env c) = Some t ->
     go_size t = match c with Default => Gen.Consts_default.ptt.POSTLOG_SZ | Docker => Gen.Consts_docker.ptt.POSTLOG_SZ end) /\
  (forall c t, lookup "FavBoard" (env c) = Some t ->
     go_size t = match c with Default => Gen.Consts_default.ptt_fav.SIZE_OF_FAV_BOARD | Docker => Gen.Consts_docker.ptt_fav.SIZE_OF_FAV_BOARD end) /\
  (forall c t, lookup "UserInfoRaw" (env c) = Some t ->
     go_size t = match c with Default => Gen.Consts_default.ptttype.USER_INFO_RAW_SZ | Docker => Gen.Consts_docker.ptttype.USER_INFO_RAW_SZ end) /\
  (forall c t, lookup "MsgQueueRaw" (env c) = Some t ->
     go_size t = match c with Default => Gen.Consts_default.ptttype.MSG_QUEUE_RAW_SZ | Docker => Gen.Consts_docker.ptttype.MSG_QUEUE_RAW_SZ end) /\
  (forall c t, lookup "SHMRaw" (env c) = Some t ->
     go_size t = match c with Default => Gen.Consts_default.cache.SHM_RAW_SZ | Docker => Gen.Consts_docker.cache.SHM_RAW_SZ end).
Proof. exact sizes_match_compiler_constants. Qed.
Print Assumptions C01_sizes_match_compiler_constants.

(* for EVERY type description and every well-typed value: reading back what was written gives the value,
   and the image has exactly the packed size (induction on the description; arrays of any length, any nesting) *)
Theorem C01_codec_roundtrip : forall t v, wt t v = true ->
  decode t (encode t v) = Some (v, []) /\ (rty_wf t = true -> lenZ (encode t v) = packed_size t).
Proof. exact codec_roundtrip. Qed.
Print Assumptions C01_codec_roundtrip.

(* a single-field update of .PASSWDS as coded (seek Sizeof*(uid-1)+Offsetof(field), binary.Write of the value),
   for every configuration, every field of the user record (password hash, e-mail, money, user level, ...),
   every accepted uid, every value of the field's type and every file that holds record uid:
   the length is unchanged, the written range lies inside record uid, all bytes before and after it are
   unchanged, the range holds the value's image, every other record is byte-identical, and decoding record uid
   gives the old record with exactly that field replaced *)
Theorem C01_partial_update_frame : forall c fname i uid v file file',
  field_index (userec c) fname = Some i ->
  wt (field_ty (userec c) i) v = true ->
  passwd_update_field c fname uid v file = UOk file' ->
  go_size (userec c) * uid <= lenZ file ->
  let t := userec c in
  let sz := Z.to_nat (go_size t) in
  let off := Z.to_nat (go_size t * (uid - 1) + field_off t i) in
  let n := psz (field_ty t i) in
  1 <= uid <= max_users c /\
  length file' = length file /\
  (sz * Z.to_nat (uid - 1) <= off /\ off + n <= sz * Z.to_nat uid)%nat /\
  firstn off file' = firstn off file /\
  skipn (off + n) file' = skipn (off + n) file /\
  read_at off n file' = encode (field_ty t i) v /\
  (forall k, k <> Z.to_nat (uid - 1) -> record sz k file' = record sz k file) /\
  exists old, decode t (record sz (Z.to_nat (uid - 1)) file) = Some (VList old, []) /\
              decode t (record sz (Z.to_nat (uid - 1)) file') = Some (VList (set_nth i v old), []).
Proof. exact partial_update_frame. Qed.
Print Assumptions C01_partial_update_frame.

(* a uid outside 1..MAX_USERS is refused: no file is produced at all *)
Theorem C01_partial_update_refuses : forall c fname uid v file,
  (uid < 1 \/ max_users c < uid) -> exists e, passwd_update_field c fname uid v file = UErr e.
Proof. exact partial_update_refuses. Qed.
Print Assumptions C01_partial_update_refuses.

(* the level-2 update of a 128-byte .PASSWD2 rewrites bytes 4..7 (UserLevel2, old value or-ed / and-not-ed with
   the permission) and 8..11 (UpdateTS) and nothing else *)
Theorem C01_passwd2_update_frame : forall c perm isSet now bs file',
  lenZ bs = go_size (userec2 c) ->
  passwd2_update_level2 c perm isSet now (Some bs) = UOk file' ->
  let old := le_val (read_at 4 4 bs) in
  let new := if isSet then Z.lor old perm else Z.land old (Z.lxor perm 4294967295) in
  length file' = 128%nat /\ firstn 4 file' = firstn 4 bs /\ skipn 12 file' = skipn 12 bs /\
  read_at 4 4 file' = le_bytes 4 new /\ read_at 8 4 file' = le_bytes 4 now.
Proof. exact passwd2_frame. Qed.
Print Assumptions C01_passwd2_update_frame.

(* what the source hands to encoding/binary (call sites regenerated from the type-checked syntax each run):
   raw BinaryRead/BinaryWrite and AppendRecord/SubstituteRecord see only the padding-free disk records; no
   mapped structure (user-info, message, segment) is ever serialised; only the four wrappers forward an
   interface value; nothing else (no int/uint/pointer/struct literal) is passed.
   PARTIAL: the full statement would read `n = "FavBoard" \/ n = "FavLine"` for BinRead/BinWrite. It is false
   today: the legacy v4 favourites reader passes *FavFolder (a struct holding a pointer, not a record type:
   lookup "FavFolder" (env c) = None) to BinRead, which encoding/binary refuses — known finding
   C01/binread-nonrecord:FavFolder. *)
Theorem C01_only_records_serialised_partial : forall c,
  (forall n, In n (bin_raw_structs c) -> In n strict_disk_records) /\
  (forall n, In n (bin_padded_structs c) -> (n = "FavBoard" \/ n = "FavLine") /\ lookup n (env c) <> None \/ n = "FavFolder") /\
  (forall n, In n (bin_raw_structs c ++ bin_padded_structs c) -> ~ In n ["UserInfoRaw"; "MsgQueueRaw"; "SHMRaw"; "shmGV2"]) /\
  (forall f, In f (bin_passthrough c) -> In f ["AppendRecord"; "BinRead"; "BinWrite"; "SubstituteRecord"]) /\
  bin_other c = [].
Proof. exact only_records_serialised_partial. Qed.
Print Assumptions C01_only_records_serialised_partial.

(* FavFolder holds a pointer: it has no fixed serialised form, encoding/binary refuses it *)
Theorem C01_favfolder_is_not_a_record : forall c, lookup "FavFolder" (env c) = None.
Proof. exact favfolder_not_record. Qed.
Print Assumptions C01_favfolder_is_not_a_record.

(* ---- histories: several writes in ONE process, some refused by the operating system (ENOSPC on a full device,
   EFBIG, EBADF on a read-only or closed handle: DevRefuse). run_history folds hstep over the two files
   (.PASSWDS, one user's .PASSWD2); steps: SField (PasswdUpdatePasswd / PasswdUpdateEmail / SetUMoney),
   SRecord (PasswdUpdate, whole record), SLevel2 (PasswdUpdateUserLevel2). *)

(* refused writes leave no trace: after ANY history the files are those its accepted steps alone produce; a
   refused step reports an error and returns both files as they were; a history of refused steps changes nothing *)
Theorem C01_history_refused_writes_leave_no_trace :
  (forall c h st, snd (run_history c h st) = snd (run_history c (filter step_accepted h) st)) /\
  (forall c s st, step_accepted s = false -> snd (hstep c s st) = st /\ fst (fst (hstep c s st)) = ST_ERR) /\
  (forall c h st, forallb (fun s => negb (step_accepted s)) h = true -> snd (run_history c h st) = st).
Proof. exact history_refused_all. Qed.
Print Assumptions C01_history_refused_writes_leave_no_trace.

(* the second use is a first use: after ANY history h (accepted and refused steps in any order, from any files
   st0), for every configuration, field of the user record, accepted uid and value: the refused update reports
   the I/O error and leaves both files alone; the accepted update satisfies the whole single-field frame of
   C01_partial_update_frame with respect to the file the history left, and does not touch .PASSWD2 *)
Theorem C01_history_step_frame : forall c h st0 fname i uid v,
  let st := snd (run_history c h st0) in
  field_index (userec c) fname = Some i ->
  wt (field_ty (userec c) i) v = true ->
  1 <= uid <= max_users c ->
  go_size (userec c) * uid <= lenZ (st_pw st) ->
  let t := userec c in
  let sz := Z.to_nat (go_size t) in
  let off := Z.to_nat (go_size t * (uid - 1) + field_off t i) in
  let n := psz (field_ty t i) in
  hstep c (SField fname DevRefuse uid v) st = ((ST_ERR, ERR_IO), st) /\
  exists file', hstep c (SField fname DevOk uid v) st = ((ST_OK, 0), {| st_pw := file'; st_pw2 := st_pw2 st |}) /\
    length file' = length (st_pw st) /\
    (sz * Z.to_nat (uid - 1) <= off /\ off + n <= sz * Z.to_nat uid)%nat /\
    firstn off file' = firstn off (st_pw st) /\
    skipn (off + n) file' = skipn (off + n) (st_pw st) /\
    read_at off n file' = encode (field_ty t i) v /\
    (forall k, k <> Z.to_nat (uid - 1) -> record sz k file' = record sz k (st_pw st)) /\
    exists old, decode t (record sz (Z.to_nat (uid - 1)) (st_pw st)) = Some (VList old, []) /\
                decode t (record sz (Z.to_nat (uid - 1)) file') = Some (VList (set_nth i v old), []).
Proof. exact history_step_frame. Qed.
Print Assumptions C01_history_step_frame.

(* over a whole history: every byte of .PASSWDS that lies outside the ranges [offset, offset + image length) of
   the ACCEPTED steps with a valid uid keeps its value (bytes beyond the end read as 0); refused steps and
   level-2 steps contribute no range; and the two files are separate (without a level-2 step .PASSWD2 is
   unchanged, level-2 steps alone leave .PASSWDS unchanged) *)
Theorem C01_history_untouched_bytes :
  (forall c h st p, outside p (touched c h) -> nth p (st_pw (snd (run_history c h st))) 0 = nth p (st_pw st) 0) /\
  (forall c h st,
     (forallb (fun s => negb (is_level2 s)) h = true -> st_pw2 (snd (run_history c h st)) = st_pw2 st) /\
     (forallb is_level2 h = true -> st_pw (snd (run_history c h st)) = st_pw st)).
Proof. exact history_untouched_all. Qed.
Print Assumptions C01_history_untouched_bytes.

(* types.BinaryWrite(writer, value) for every type description, well-typed value and writer (unlimited, or taking
   k bytes and refusing the rest): what reaches the writer is the value's image - whole, and then it has the
   packed size and reads back as the value, or, with the I/O error, its first k bytes; nothing of any earlier call *)
Theorem C01_binary_write_delivers_image : forall t v room, wt t v = true -> rty_wf t = true ->
  let o := fst (binary_write_to t v room) in
  let got := snd (binary_write_to t v room) in
  (o = (ST_OK, 0) /\ got = encode t v /\ decode t got = Some (v, []) /\ lenZ got = packed_size t) \/
  (o = (ST_ERR, ERR_IO) /\ exists k, room = Some k /\ (k < length (encode t v))%nat /\ got = firstn k (encode t v)).
Proof. exact binary_write_delivers. Qed.
Print Assumptions C01_binary_write_delivers_image.

(* RESTART on a left-over shared-memory segment. A run of the server calls cache.NewSHM(key, hugetlb, isCreate); what
   it finds under the key is nothing or the segment (allocation, Version and Size stamps, Number, Loaded) a previous
   run left - of this or of the other build configuration, or of a C pttbbs with other constants.
   (1) a segment that already exists is never written by NewSHM, whatever isCreate and the stamps are: Number, Loaded
       and the stamps other attached processes rely on keep their values;
   (2) it is accepted exactly when its stamps are this configuration's Version and SHM_RAW_SZ (and it is large
       enough), with the codes shmget-refused / ErrShmVersion / ErrShmSize in this order otherwise;
   (3) SHM_RAW_SZ differs between the two configurations, so the segment of the other configuration is refused:
       this binary never maps its SHMRaw over fields that live at the other configuration's offsets;
   (4) a first start creates and stamps the segment and is accepted; attaching without a segment is refused. *)
Theorem C01_restart_verifies_never_stamps :
  (forall c al isCreate g, snd (newshm c al isCreate (Some g)) = Some g) /\
  (forall c al isCreate g,
     (fst (newshm c al isCreate (Some g)) = (ST_OK, 0) <->
        sg_ver g = shm_version c /\ sg_size g = shm_raw_sz c /\ shm_size c al <= sg_alloc g) /\
     fst (newshm c al isCreate (Some g)) =
       if sg_alloc g <? shm_size c al then (ST_ERR, ERR_SHMGET)
       else if negb (sg_ver g =? shm_version c) then (ST_ERR, ERR_SHM_VERSION)
       else if negb (sg_size g =? shm_raw_sz c) then (ST_ERR, ERR_SHM_SIZE) else (ST_OK, 0)) /\
  (shm_raw_sz Default <> shm_raw_sz Docker /\
   forall c c' al isCreate g, c <> c' -> sg_size g = shm_raw_sz c' -> fst (newshm c al isCreate (Some g)) <> (ST_OK, 0)) /\
  (forall c al, newshm c al true None = ((ST_OK, 0), Some (fresh_seg c al)) /\
                newshm c al false None = ((ST_ERR, ERR_SHMGET), None)).
Proof. exact restart_verifies_never_stamps. Qed.
Print Assumptions C01_restart_verifies_never_stamps.

(* over ANY history of runs (restarts with isCreate, attaches, each accepted run working on Number/Loaded before it
   exits): the allocation and the Version/Size stamps of an existing segment never change; and a segment that is not
   this configuration's (other Version, other Size stamp, or too small) is refused by every run and is, after the
   whole history, exactly the segment it was - what each run observes right after NewSHM included *)
Theorem C01_restart_history_stamps_fixed :
  (forall c al rs g, exists g', snd (shm_history c al rs (Some g)) = Some g' /\
     sg_alloc g' = sg_alloc g /\ sg_ver g' = sg_ver g /\ sg_size g' = sg_size g) /\
  (forall c al rs g,
     sg_ver g <> shm_version c \/ sg_size g <> shm_raw_sz c \/ sg_alloc g < shm_size c al ->
     snd (shm_history c al rs (Some g)) = Some g /\
     Forall (fun o => shm_accepted (fst o) = false /\ snd o = Some g) (fst (shm_history c al rs (Some g)))).
Proof. exact restart_history_stamps_fixed. Qed.
Print Assumptions C01_restart_history_stamps_fixed.
