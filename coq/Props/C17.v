(* C17 — Big5 <-> UTF-8 conversion. Only statements here (interim: the tree as found). *)
From Verif Require Import Base.Common Model.C17 Proofs.C17.

(* "both conversions terminate for every byte string" is false of the faithful model of Utf8ToBig5:
   a 4-byte lead, a lone continuation byte or a truncated sequence leaves the cursor where it is *)
Theorem C17_u2b_total_refuted : exists s, bytes_ok s = true /\ utf8_to_big5 s = Hang.
Proof. exact u2b_total_refuted. Qed.
Print Assumptions C17_u2b_total_refuted.
