(* C17 — Big5 <-> UTF-8 conversion is total, table-exact and ASCII-transparent.
   Only statements here; every proof is `exact <lemma of Proofs/C17*.v>`.
   big5_to_utf8 / utf8_to_big5 are the models of types.Big5ToUtf8 / types.Utf8ToBig5 the harness runs
   (Model/C17.v); b2u_rows / u2b_rows are the (Big5 code, UCS-2 code) rows of the two UAO files as
   gosync re-reads them on every run (Gen/Big5Tab.v); utf8_std is the RFC 3629 bit layout and
   utf8_valid the strict well-formedness test of Unicode table 3-7 (Proofs/C17_spec.v).
   The last section is about the server as it starts: the two maps are package state, empty in a new process and
   filled by initBig5() (Model/C17.v: init_big5 over the explicit state `tabs`; `after h` is the state of a process
   after the history h of start-up attempts, each attempt given as (BIG5_TO_UTF8 readable, UTF8_TO_BIG5 readable));
   big5_to_utf8_of / utf8_to_big5_of are the converters on whatever the maps hold, and bbs_init_config is
   ptttype.InitConfig()'s handling of BBSNAME / BBSNAME_BIG5.
   Non-vacuity examples: model_examples, mutual_str_nonempty (Proofs/C17_main.v), b2u_rows_nonempty, mutual_nonempty
   (Proofs/C17_sweep_*.v), init_examples, init_examples_loaded, half_loaded_example, bbs_examples (Proofs/C17_init.v). *)
From Coq Require Import FMapPositive.
From Verif Require Import Base.Common Gen.Big5Tab Model.C17 Proofs.C17.

(* Big5ToUtf8 returns for every input (no Hang, no exhausted fuel, no Crash); at most 3 output bytes per 2 input bytes *)
Theorem C17_b2u_total : forall s, exists out, big5_to_utf8 s = Ok out /\ (2 * length out <= 3 * length s)%nat.
Proof. exact b2u_total. Qed.
Print Assumptions C17_b2u_total.

(* Utf8ToBig5 returns for every input — malformed sequences, lone continuation bytes, 4-byte leads,
   truncated tails included; at most 2 output bytes per input byte *)
Theorem C17_u2b_total : forall s, exists out, utf8_to_big5 s = Ok out /\ (length out <= 2 * length s)%nat.
Proof. exact u2b_total. Qed.
Print Assumptions C17_u2b_total.

(* bytes in, bytes out *)
Theorem C17_b2u_bytes : forall s o, bytes_ok s = true -> big5_to_utf8 s = Ok o -> bytes_ok o = true.
Proof. exact b2u_out_bytes. Qed.
Print Assumptions C17_b2u_bytes.

(* ASCII maps to itself, both directions, any length *)
Theorem C17_ascii_transparent_b2u : forall s, all_ascii s -> big5_to_utf8 s = Ok s.
Proof. exact b2u_ascii. Qed.
Print Assumptions C17_ascii_transparent_b2u.

Theorem C17_ascii_transparent_u2b : forall s, all_ascii s -> utf8_to_big5 s = Ok s.
Proof. exact u2b_ascii. Qed.
Print Assumptions C17_ascii_transparent_u2b.

(* ... and an ASCII prefix in front of arbitrary bytes is copied while the rest converts as if it stood alone *)
Theorem C17_ascii_prefix :
  (forall a s, all_ascii a -> big5_to_utf8 (a ++ s) = res_map (app a) (big5_to_utf8 s)) /\
  (forall a s, all_ascii a -> utf8_to_big5 (a ++ s) = res_map (app a) (utf8_to_big5 s)).
Proof. exact (conj b2u_ascii_prefix u2b_ascii_prefix). Qed.
Print Assumptions C17_ascii_prefix.

(* every row of the Big5 -> UCS table: the two bytes of the code convert to exactly the UTF-8 encoding of
   the entry; every other two-byte code with a lead byte >= 0x80 is dropped. All 32 768 such codes are covered. *)
Theorem C17_b2u_table_exact :
  (forall c u, In (c, u) b2u_rows -> 32768 <= c < 65536 /\ big5_to_utf8 (big5_bytes c) = Ok (utf8_std u)) /\
  (forall hi lo, 128 <= hi < 256 -> 0 <= lo < 256 -> (forall u, ~ In (hi * 256 + lo, u) b2u_rows) -> big5_to_utf8 [hi; lo] = Ok []).
Proof. exact b2u_table_exact. Qed.
Print Assumptions C17_b2u_table_exact.

(* "its entry" is well defined: no code has two different entries *)
Theorem C17_b2u_rows_functional : forall c u u', In (c, u) b2u_rows -> In (c, u') b2u_rows -> u = u'.
Proof. exact b2u_rows_functional. Qed.
Print Assumptions C17_b2u_rows_functional.

(* every row of the UCS -> Big5 table above ASCII: the UTF-8 text of the code point converts back to the
   two bytes of its Big5 code; every other code point of the BMP above ASCII becomes the replacement FF FD *)
Theorem C17_u2b_table_exact :
  (forall c u, In (c, u) u2b_rows -> 128 <= u -> utf8_to_big5 (utf8_std u) = Ok (big5_bytes c)) /\
  (forall u, 128 <= u < 65536 -> (forall c, ~ In (c, u) u2b_rows) -> utf8_to_big5 (utf8_std u) = Ok replacement).
Proof. exact u2b_table_exact. Qed.
Print Assumptions C17_u2b_table_exact.

(* the output of Big5ToUtf8 is well-formed UTF-8 — for every byte string, not only for mapped input
   (ASCII is copied, mapped codes give one well-formed sequence of a non-surrogate scalar value, the rest is dropped) *)
Theorem C17_b2u_valid_utf8 : forall s o, bytes_ok s = true -> big5_to_utf8 s = Ok o -> utf8_valid o = true.
Proof. exact b2u_valid_utf8. Qed.
Print Assumptions C17_b2u_valid_utf8.

(* codes the two tables map to each other round-trip unchanged, in both directions *)
Theorem C17_mutual_roundtrip : forall c u, In (c, u) b2u_rows -> In (c, u) u2b_rows ->
  big5_to_utf8 (big5_bytes c) = Ok (utf8_std u) /\ utf8_to_big5 (utf8_std u) = Ok (big5_bytes c).
Proof. exact mutual_roundtrip. Qed.
Print Assumptions C17_mutual_roundtrip.

(* ... and so does every string made of ASCII bytes and such codes: mutual_str s t (Proofs/C17.v) says that s is
   a concatenation of bytes below 0x80 and of two-byte codes (c,u) present in both tables, and t the same
   sequence with each code replaced by the UTF-8 encoding of u; the conversions are exact inverses on them *)
Theorem C17_mutual_roundtrip_strings : forall s t, mutual_str s t -> big5_to_utf8 s = Ok t /\ utf8_to_big5 t = Ok s.
Proof. exact mutual_str_roundtrip. Qed.
Print Assumptions C17_mutual_roundtrip_strings.

(* ------------------------------------------------------------------ initialisation paths *)

(* at every moment of every history of start-up attempts (failed ones included) each map is either as a new
   process has it or exactly the regenerated table: there is no half-filled or stale table *)
Theorem C17_init_tables_invariant : forall h,
  (tb (after h) = PositiveMap.empty (list Z) \/ tb (after h) = b2u_map) /\
  (tu (after h) = PositiveMap.empty (list Z) \/ tu (after h) = u2b_map).
Proof. exact after_tables. Qed.
Print Assumptions C17_init_tables_invariant.

(* a start-up that returns nil has loaded BOTH tables, whatever went wrong in the attempts before it
   (a first attempt that loaded one table and failed on the other, a retry, a second start-up, ...) *)
Theorem C17_init_success_loads_both : forall h a,
  fst (init_big5 a (after h)) = true -> snd (init_big5 a (after h)) = all_tabs.
Proof. exact init_success_loads_both. Qed.
Print Assumptions C17_init_success_loads_both.

(* ... an attempt with both files readable does return nil in every state, and after a nil start-up every later
   attempt returns nil and leaves the tables alone *)
Theorem C17_init_retry_and_stability :
  (forall h, fst (init_big5 (true, true) (after h)) = true) /\
  (forall h1 a h2, fst (init_big5 a (after h1)) = true -> after (h1 ++ a :: h2) = all_tabs) /\
  (forall a, init_big5 a all_tabs = (true, all_tabs)).
Proof. exact (conj init_retry_succeeds (conj loaded_is_stable all_tabs_stable)). Qed.
Print Assumptions C17_init_retry_and_stability.

(* so after any start-up that returned nil the server's converters are big5_to_utf8 / utf8_to_big5, the functions
   every theorem above is about ... *)
Theorem C17_post_init_converters : forall h a, fst (init_big5 a (after h)) = true ->
  forall s, big5_to_utf8_of (tb (snd (init_big5 a (after h)))) s = big5_to_utf8 s /\
            utf8_to_big5_of (tu (snd (init_big5 a (after h)))) s = utf8_to_big5 s.
Proof. exact post_init_converters. Qed.
Print Assumptions C17_post_init_converters.

(* ... in particular: table-exact in both directions and exact inverses on strings of mutually mapped codes *)
Theorem C17_post_init_table_exact : forall h a, fst (init_big5 a (after h)) = true ->
  let t := snd (init_big5 a (after h)) in
  (forall c u, In (c, u) b2u_rows -> big5_to_utf8_of (tb t) (big5_bytes c) = Ok (utf8_std u)) /\
  (forall c u, In (c, u) u2b_rows -> 128 <= u -> utf8_to_big5_of (tu t) (utf8_std u) = Ok (big5_bytes c)) /\
  (forall s s', mutual_str s s' -> big5_to_utf8_of (tb t) s = Ok s' /\ utf8_to_big5_of (tu t) s' = Ok s).
Proof. exact post_init_table_exact. Qed.
Print Assumptions C17_post_init_table_exact.

(* both conversions return, with the same output bounds, in every state a process can be in
   (nothing loaded, one table loaded after a failed attempt, both) *)
Theorem C17_any_state_total : forall h s,
  (exists o, big5_to_utf8_of (tb (after h)) s = Ok o /\ (2 * length o <= 3 * length s)%nat) /\
  (exists o, utf8_to_big5_of (tu (after h)) s = Ok o /\ (length o <= 2 * length s)%nat).
Proof. exact any_state_total. Qed.
Print Assumptions C17_any_state_total.

(* the site name: after every ptttype.InitConfig() of every sequence of them — the first of a new process, with a
   configured name, without one, with the name it already has, with the empty name — and from any values the two
   variables had before, BBSNAME is the configured name (or the old one) and BBSNAME_BIG5 is its conversion:
   on the loaded tables the table-exact Utf8ToBig5 of the theorems above; the steps always return *)
Theorem C17_bbsname_big5_follows_name :
  (forall t cfg st st', bbs_init_config t cfg st = Ok st' ->
     utf8_to_big5_of (tu t) (bbs_name st') = Ok (bbs_big5 st') /\ bbs_name st' = match cfg with Some n => n | None => bbs_name st end) /\
  (forall cfgs st sts, bbs_steps all_tabs cfgs st = Ok sts -> Forall (fun s => utf8_to_big5 (bbs_name s) = Ok (bbs_big5 s)) sts) /\
  (forall h cfgs st, exists sts, bbs_steps (after h) cfgs st = Ok sts /\ length sts = length cfgs).
Proof. exact (conj bbs_init_config_spec (conj bbs_steps_loaded bbs_steps_total)). Qed.
Print Assumptions C17_bbsname_big5_follows_name.

(* ------------------------------------------------------------------ the whole start-up: types.InitConfig()
   An attempt (Model/C17.v: attempt, post_config) says whether the configured TIME_LOCATION loads and what the two
   configured table paths are in the file system: the table file, nothing, a directory, the empty name, or a
   symbolic link (NLink) to any of these, to any depth. after_starts h: the tables after the history h. *)

(* a start-up whose time zone does not load returns an error and leaves the tables as they were; a start-up that
   returns nil had its time zone AND has both tables loaded, whatever the attempts before it were (refused for the
   time zone, failed on a missing file or a dangling link, ...): types.InitConfig() never reports success on empty
   or partial tables *)
Theorem C17_start_success_loads_both :
  (forall a t, at_tz a = false -> post_config a t = (false, t)) /\
  (forall h a, fst (post_config a (after_starts h)) = true ->
     at_tz a = true /\ snd (post_config a (after_starts h)) = all_tabs).
Proof. exact (conj start_refused_without_time_zone start_success_loads_both). Qed.
Print Assumptions C17_start_success_loads_both.

(* a table path that is a symbolic link (to a link, ...) behaves exactly as what it finally points to; with a
   loadable time zone and both paths leading to the table files the start-up returns nil in every reachable state *)
Theorem C17_start_links_transparent :
  (forall tz k1 k2 n1 n2 t,
     post_config (mk_attempt tz (links k1 n1) (links k2 n2)) t = post_config (mk_attempt tz n1 n2) t) /\
  (forall h k1 k2, fst (post_config (mk_attempt true (links k1 NFile) (links k2 NFile)) (after_starts h)) = true).
Proof. exact (conj start_links_transparent start_with_links_succeeds). Qed.
Print Assumptions C17_start_links_transparent.

(* after any start-up that returned nil the server's converters are big5_to_utf8 / utf8_to_big5 (table-exact,
   round trip: the theorems above); in every state such histories reach, both conversions return *)
Theorem C17_post_start_converters :
  (forall h a, fst (post_config a (after_starts h)) = true ->
     forall s, big5_to_utf8_of (tb (snd (post_config a (after_starts h)))) s = big5_to_utf8 s /\
               utf8_to_big5_of (tu (snd (post_config a (after_starts h)))) s = utf8_to_big5 s) /\
  (forall h s,
     (exists o, big5_to_utf8_of (tb (after_starts h)) s = Ok o /\ (2 * length o <= 3 * length s)%nat) /\
     (exists o, utf8_to_big5_of (tu (after_starts h)) s = Ok o /\ (length o <= 2 * length s)%nat)).
Proof. exact (conj post_start_converters any_start_state_total). Qed.
Print Assumptions C17_post_start_converters.
