(* C13 — Article IDs are a bijective encoding of article file names.
   Only statements here; every proof is `exact <lemma of Proofs/C13.v>`. *)
From Verif Require Import Base.Common Base.Dec Model.C13 Proofs.C13.

(* the 48-bit number -> 8-character text -> number conversion is the identity on the whole range *)
Theorem C13_num_text_num : forall a, 0 <= a < 2 ^ 48 -> aidc_to_aidu (aidu_to_aidc a) = Ok a.
Proof. exact num_text_num. Qed.
Print Assumptions C13_num_text_num.

(* ... and text -> number -> text is the identity on every 8-character text over the alphabet *)
Theorem C13_text_num_text : forall s, length s = 8%nat -> forallb in_alphabet s = true ->
  exists a, aidc_to_aidu s = Ok a /\ 0 <= a < 2 ^ 48 /\ aidu_to_aidc a = s.
Proof. exact text_num_text. Qed.
Print Assumptions C13_text_num_text.

(* every name M|G.<10-digit time below 2^31>.A.<3 hex digits> survives name -> id -> name *)
Theorem C13_name_roundtrip : forall ty t sfx, ty = 77 \/ ty = 71 -> 1000000000 <= t < 2 ^ 31 -> 0 <= sfx < 4096 ->
  aidu_to_fn (fn_to_aidu (mk_name ty t sfx)) = mk_name ty t sfx.
Proof. exact name_roundtrip. Qed.
Print Assumptions C13_name_roundtrip.

(* distinct names have distinct article-id texts *)
Theorem C13_name_injective : forall ty t sfx ty' t' sfx',
  ty = 77 \/ ty = 71 -> 1000000000 <= t < 2 ^ 31 -> 0 <= sfx < 4096 ->
  ty' = 77 \/ ty' = 71 -> 1000000000 <= t' < 2 ^ 31 -> 0 <= sfx' < 4096 ->
  fn_to_articleid (mk_name ty t sfx) = fn_to_articleid (mk_name ty' t' sfx') ->
  mk_name ty t sfx = mk_name ty' t' sfx'.
Proof. exact name_injective. Qed.
Print Assumptions C13_name_injective.

(* decoding arbitrary client-supplied bytes never crashes: table decoder and the bbs-level wrapper *)
Theorem C13_decoder_total : forall s, bytes_ok s = true -> exists v, aidc_to_aidu s = Ok v.
Proof. exact decoder_total. Qed.
Print Assumptions C13_decoder_total.

Theorem C13_articleid_total : forall s, bytes_ok s = true -> exists f, articleid_to_fn s = Ok f.
Proof. exact articleid_total. Qed.
Print Assumptions C13_articleid_total.

(* The property as stated ("all creation times representable in 10 digits") is false of the faithful
   model: the time field is a signed 32-bit integer. Known finding C13/time-ge-2^31. *)
Theorem C13_name_roundtrip_refuted_2038 :
  exists t, 2 ^ 31 <= t < 10 ^ 10 /\ aidu_to_fn (fn_to_aidu (mk_name 77 t 490)) <> mk_name 77 t 490.
Proof. exact name_roundtrip_refuted_2038. Qed.
Print Assumptions C13_name_roundtrip_refuted_2038.
