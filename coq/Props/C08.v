(* C08 — Posting, commenting, editing and cross-posting obey one authorisation rule set.
   Only statements here; every proof is `exact <lemma of Proofs/C08.v>`.
   [winp] is the record of facts a write decision looks at (Model/C08.v); [postperm], [restricted], [cooling] and
   the four step sequences mirror postpermMsg, getBoardRestrictionReason, checkCooldown and the guard order of
   DoPostArticle / Recommend / EditPost / CrossPost; [may_write] is the rule set written from the property text:
   may read the board, the posting rules, the login-days / bad-post limits unless sysop or moderator, a verified
   account, no active cool-down. *)
From Verif Require Import Base.Common Gen.Consts_default Model.C07 Model.C08 Proofs.C08.

(* the coded permission test accepts exactly when the posting rules of the property text hold *)
Theorem C08_postperm_rule : forall w, postperm w = 0 <-> posting_rules w = true.
Proof. exact postperm_rule. Qed.
Print Assumptions C08_postperm_rule.

(* login-days / bad-post limits as arithmetic on the stored bytes *)
Theorem C08_restriction_rule : forall logindays badpost limlogins limbad,
  restriction_reason logindays badpost limlogins limbad = ptttype.RESTRICT_REASON_NONE <->
  limlogins <= logindays / 10 /\ badpost <= 255 - limbad.
Proof. exact restriction_none_iff. Qed.
Print Assumptions C08_restriction_rule.

(* a new post is accepted only under the whole rule set (after the repair that added the limits check) *)
Theorem C08_accept_implies_rules_new_post : forall now w st,
  fst (run (new_post_steps now w) st) = Accept -> may_write w = true.
Proof. exact accept_implies_rules_new_post. Qed.
Print Assumptions C08_accept_implies_rules_new_post.

(* a cross-post is accepted only if the whole rule set holds on the target board and the source is readable
   (after the repair that added the read guard on the target); ws / wt describe the same caller *)
Theorem C08_accept_implies_rules_cross_post : forall now ws wt a st, w_loginok wt = w_loginok ws ->
  fst (run (cross_post_steps now ws wt a) st) = Accept -> may_write wt = true /\ w_readable ws = true.
Proof. exact accept_implies_rules_cross_post. Qed.
Print Assumptions C08_accept_implies_rules_cross_post.

(* full statement for comments:
     forall now w a st, fst (run (recommend_steps now w a) st) = Accept -> may_write w = true.
   It is false of the code: Recommend never tests the verified-account bit (known finding recommend-unverified). *)
Theorem C08_accept_implies_rules_recommend_refuted : exists now w a st,
  fst (run (recommend_steps now w a) st) = Accept /\ may_write w = false /\ w_loginok w = false.
Proof. exact accept_implies_rules_recommend_refuted. Qed.
Print Assumptions C08_accept_implies_rules_recommend_refuted.

(* what does hold for comments: every rule except the verified account *)
Theorem C08_accept_implies_rules_recommend_partial : forall now w a st,
  fst (run (recommend_steps now w a) st) = Accept ->
  w_readable w = true /\ posting_rules w = true /\ limits_ok w = true /\ cooldown_active w = false.
Proof. exact accept_implies_rules_recommend_partial. Qed.
Print Assumptions C08_accept_implies_rules_recommend_partial.

(* full statement for edits:
     forall w a st, fst (run (edit_post_steps w a) st) = Accept -> may_write w = true.
   False of the code twice over: EditPost tests PERM_BASIC where the rule set asks for a verified account, and it
   has no cool-down test (known findings edit-unverified, edit-cooldown). *)
Theorem C08_accept_implies_rules_edit_post_refuted :
  (exists w a st, fst (run (edit_post_steps w a) st) = Accept /\ may_write w = false /\ w_loginok w = false) /\
  (exists w a st, fst (run (edit_post_steps w a) st) = Accept /\ may_write w = false /\ cooldown_active w = true).
Proof. exact accept_implies_rules_edit_post_refuted. Qed.
Print Assumptions C08_accept_implies_rules_edit_post_refuted.

Theorem C08_accept_implies_rules_edit_post_partial : forall w a st,
  fst (run (edit_post_steps w a) st) = Accept ->
  w_readable w = true /\ posting_rules w = true /\ limits_ok w = true /\ w_basic w = true.
Proof. exact accept_implies_rules_edit_post_partial. Qed.
Print Assumptions C08_accept_implies_rules_edit_post_partial.

(* an edit is accepted only for the article's author or a sysop *)
Theorem C08_edit_owner : forall w a st, fst (run (edit_post_steps w a) st) = Accept -> a_owner a = true \/ w_sysop w = true.
Proof. exact edit_owner. Qed.
Print Assumptions C08_edit_owner.

(* every refusal of the four operations happens before the first write to the board index, the board directory
   or the author's post counter ([frame] = those three; the only write that can precede a refusal is
   checkCooldown's normalisation of an already expired cool-down word, which is outside the frame) *)
Theorem C08_refusal_no_trace : forall now w ws a st,
  (fst (run (new_post_steps now w) st) <> Accept -> frame (snd (run (new_post_steps now w) st)) = frame st) /\
  (fst (run (recommend_steps now w a) st) <> Accept -> frame (snd (run (recommend_steps now w a) st)) = frame st) /\
  (fst (run (edit_post_steps w a) st) <> Accept -> frame (snd (run (edit_post_steps w a) st)) = frame st) /\
  (fst (run (cross_post_steps now ws w a) st) <> Accept -> frame (snd (run (cross_post_steps now ws w a) st)) = frame st).
Proof. exact refusal_no_trace. Qed.
Print Assumptions C08_refusal_no_trace.

(* no spurious refusal: when the rule set holds (and the operation's own preconditions: the article exists, is not
   locked / deleted / a vote, the board is not a vote board, the editor is verified-and-basic and owns the article,
   the cross-poster can read the source and is not a violate-law user) the operation is accepted *)
Theorem C08_rules_implies_accept : forall now w ws a st, may_write w = true ->
  fst (run (new_post_steps now w) st) = Accept /\
  (a_exists a = true -> a_norecommend a = false -> a_locked a = false -> fst (run (recommend_steps now w a) st) = Accept) /\
  (w_basic w = true -> a_owner a = true \/ w_sysop w = true -> a_voteboard a = false -> a_exists a = true -> a_filevote a = false ->
     a_deleted a = false -> fst (run (edit_post_steps w a) st) = Accept) /\
  (w_readable ws = true -> w_violatelaw ws = false -> w_loginok ws = true -> a_cplog a = false -> a_voteboard a = false ->
     a_exists a = true -> a_deleted a = false -> fst (run (cross_post_steps now ws w a) st) = Accept).
Proof. exact rules_implies_accept. Qed.
Print Assumptions C08_rules_implies_accept.
