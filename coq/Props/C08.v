(* C08 — Posting, commenting, editing and cross-posting obey one authorisation rule set.
   Only statements here; every proof is `exact <lemma of Proofs/C08.v>`.
   [winp] is the record of facts a write decision looks at (Model/C08.v); [postperm], [restricted], [cooling] and
   the four step sequences mirror postpermMsg, getBoardRestrictionReason, checkCooldown and the guard order of
   DoPostArticle / Recommend / EditPost / CrossPost; [may_write] is the rule set written from the property text:
   may read the board, the posting rules, the login-days / bad-post limits unless sysop or moderator, a verified
   account, no active cool-down. *)
From Verif Require Import Base.Common Gen.Consts_default Model.C07 Model.C08 Proofs.C08.

(* the coded permission test accepts exactly when the posting rules of the property text hold *)
Theorem C08_postperm_rule : forall w, postperm w = 0 <-> posting_rules w = true.
Proof. exact postperm_rule. Qed.
Print Assumptions C08_postperm_rule.

(* login-days / bad-post limits as arithmetic on the stored bytes *)
Theorem C08_restriction_rule : forall logindays badpost limlogins limbad,
  restriction_reason logindays badpost limlogins limbad = ptttype.RESTRICT_REASON_NONE <->
  limlogins <= logindays / 10 /\ badpost <= 255 - limbad.
Proof. exact restriction_none_iff. Qed.
Print Assumptions C08_restriction_rule.

(* the same rule on the code's own fixed-width arithmetic (uint32 login-days, uint8 bad posts and limits, with every
   conversion and every possible wrap-around written out in [restriction_reason_go], the function the decision table
   runs), stated in days and without division: for EVERY value the four fields can hold, no limit refuses exactly when
   the user has at least ten login-days per unit of the board's limit and bad posts + limit do not exceed 255. A limit
   of 26..255 units (260..2550 days) is enforced like a small one *)
Theorem C08_restriction_rule_days : forall logindays badpost limlogins limbad,
  u32_ok logindays = true -> u8_ok badpost = true -> u8_ok limlogins = true -> u8_ok limbad = true ->
  (restriction_reason_go logindays badpost limlogins limbad = ptttype.RESTRICT_REASON_NONE <->
   10 * limlogins <= logindays /\ badpost + limbad <= 255).
Proof. exact restriction_rule_days. Qed.
Print Assumptions C08_restriction_rule_days.

(* and which limit is named as the reason *)
Theorem C08_restriction_reason_cases : forall logindays badpost limlogins limbad,
  u32_ok logindays = true -> u8_ok badpost = true -> u8_ok limlogins = true -> u8_ok limbad = true ->
  (logindays < 10 * limlogins -> restriction_reason_go logindays badpost limlogins limbad = ptttype.RESTRICT_REASON_NUMLOGIN_DAYS) /\
  (10 * limlogins <= logindays -> 255 < badpost + limbad -> restriction_reason_go logindays badpost limlogins limbad = ptttype.RESTRICT_REASON_BADPOST).
Proof. exact restriction_reason_cases. Qed.
Print Assumptions C08_restriction_reason_cases.

(* a new post is accepted only under the whole rule set (after the repair that added the limits check) *)
Theorem C08_accept_implies_rules_new_post : forall now w st,
  fst (run (new_post_steps now w) st) = Accept -> may_write w = true.
Proof. exact accept_implies_rules_new_post. Qed.
Print Assumptions C08_accept_implies_rules_new_post.

(* a cross-post is accepted only if the whole rule set holds on the target board and the source is readable
   (after the repair that added the read guard on the target); ws / wt describe the same caller *)
Theorem C08_accept_implies_rules_cross_post : forall now ws wt a st, w_loginok wt = w_loginok ws ->
  fst (run (cross_post_steps now ws wt a) st) = Accept -> may_write wt = true /\ w_readable ws = true.
Proof. exact accept_implies_rules_cross_post. Qed.
Print Assumptions C08_accept_implies_rules_cross_post.

(* full statement for comments:
     forall now w a st, fst (run (recommend_steps now w a) st) = Accept -> may_write w = true.
   It is false of the code: Recommend never tests the verified-account bit (known finding recommend-unverified). *)
Theorem C08_accept_implies_rules_recommend_refuted : exists now w a st,
  fst (run (recommend_steps now w a) st) = Accept /\ may_write w = false /\ w_loginok w = false.
Proof. exact accept_implies_rules_recommend_refuted. Qed.
Print Assumptions C08_accept_implies_rules_recommend_refuted.

(* what does hold for comments: every rule except the verified account *)
Theorem C08_accept_implies_rules_recommend_partial : forall now w a st,
  fst (run (recommend_steps now w a) st) = Accept ->
  w_readable w = true /\ posting_rules w = true /\ limits_ok w = true /\ cooldown_active w = false.
Proof. exact accept_implies_rules_recommend_partial. Qed.
Print Assumptions C08_accept_implies_rules_recommend_partial.

(* full statement for edits:
     forall w a st, fst (run (edit_post_steps w a) st) = Accept -> may_write w = true.
   False of the code twice over: EditPost tests PERM_BASIC where the rule set asks for a verified account, and it
   has no cool-down test (known findings edit-unverified, edit-cooldown). *)
Theorem C08_accept_implies_rules_edit_post_refuted :
  (exists w a st, fst (run (edit_post_steps w a) st) = Accept /\ may_write w = false /\ w_loginok w = false) /\
  (exists w a st, fst (run (edit_post_steps w a) st) = Accept /\ may_write w = false /\ cooldown_active w = true).
Proof. exact accept_implies_rules_edit_post_refuted. Qed.
Print Assumptions C08_accept_implies_rules_edit_post_refuted.

Theorem C08_accept_implies_rules_edit_post_partial : forall w a st,
  fst (run (edit_post_steps w a) st) = Accept ->
  w_readable w = true /\ posting_rules w = true /\ limits_ok w = true /\ w_basic w = true.
Proof. exact accept_implies_rules_edit_post_partial. Qed.
Print Assumptions C08_accept_implies_rules_edit_post_partial.

(* an edit is accepted only for the article's author or a sysop *)
Theorem C08_edit_owner : forall w a st, fst (run (edit_post_steps w a) st) = Accept -> a_owner a = true \/ w_sysop w = true.
Proof. exact edit_owner. Qed.
Print Assumptions C08_edit_owner.

(* the author test on the stored bytes (Owner field of the index entry: 14 bytes, user id: 13 bytes, both C strings):
   it holds exactly when the two C strings are EQUAL as a whole, the file name is longer than three characters and the
   article is not older than the account *)
Theorem C08_is_file_owner_rule : forall owner uid fname firstlogin,
  is_file_owner owner uid fname firstlogin = true <->
  cprefix (fixlen OWNER_SZ owner) = cprefix (fixlen USERID_SZ uid) /\ 3 < cstrlen (fixlen FN_SZ fname) /\ firstlogin <= create_time fname.
Proof. exact is_file_owner_iff. Qed.
Print Assumptions C08_is_file_owner_rule.

(* for ids as they occur (no NUL inside, fitting their field): only the very same id is the author ... *)
Theorem C08_owner_same_id : forall owner uid fname firstlogin, id_ok OWNER_SZ owner -> id_ok USERID_SZ uid ->
  is_file_owner owner uid fname firstlogin = true -> owner = uid.
Proof. exact owner_exact. Qed.
Print Assumptions C08_owner_same_id.

(* ... in particular never a user whose id is a proper prefix of the author's (A1 / A10, SYSOP / SYSOP3, "A1." of an
   external post) *)
Theorem C08_owner_not_prefix : forall uid rest fname firstlogin, id_ok OWNER_SZ (uid ++ rest) -> id_ok USERID_SZ uid -> rest <> [] ->
  is_file_owner (uid ++ rest) uid fname firstlogin = false.
Proof. exact owner_not_prefix. Qed.
Print Assumptions C08_owner_not_prefix.

(* an accepted edit, the author test being the one above: the entry's owner field is exactly the editor's id, or the
   editor is a sysop *)
Theorem C08_edit_owner_id : forall w a st owner uid fname firstlogin,
  a_owner a = is_file_owner owner uid fname firstlogin -> id_ok OWNER_SZ owner -> id_ok USERID_SZ uid ->
  fst (run (edit_post_steps w a) st) = Accept -> owner = uid \/ w_sysop w = true.
Proof. exact edit_owner_id. Qed.
Print Assumptions C08_edit_owner_id.

(* a cross-post out of a board that logs forwards (BRD_CPLOG) also writes a line into the SOURCE article: it is
   accepted only if the caller may read the source board and passes its posting rules and limits *)
Theorem C08_accept_implies_source_rules_cross_post : forall now ws wt a st,
  fst (run (cross_post_steps now ws wt a) st) = Accept -> a_cplog a = true ->
  w_readable ws = true /\ posting_rules ws = true /\ limits_ok ws = true.
Proof. exact accept_implies_source_rules_cross_post. Qed.
Print Assumptions C08_accept_implies_source_rules_cross_post.

(* every refusal of the four operations — whatever its reason, including a cross-post refused by the rules of its
   SOURCE board — happens before the first write to the target's index, the target's directory, the author's post
   counter and ANY OTHER board ([frame] = those four: the fourth counts the writes to the ALLPOST / ALLHIDPOST /
   NEWIDPOST / UNANONYMOUS log boards and to the source article and index of a cross-post; the only write that can
   precede a refusal is checkCooldown's normalisation of an already expired cool-down word, outside the frame) *)
Theorem C08_refusal_no_trace : forall now w ws a st,
  (fst (run (new_post_steps now w) st) <> Accept -> frame (snd (run (new_post_steps now w) st)) = frame st) /\
  (fst (run (recommend_steps now w a) st) <> Accept -> frame (snd (run (recommend_steps now w a) st)) = frame st) /\
  (fst (run (edit_post_steps w a) st) <> Accept -> frame (snd (run (edit_post_steps w a) st)) = frame st) /\
  (fst (run (cross_post_steps now ws w a) st) <> Accept -> frame (snd (run (cross_post_steps now ws w a) st)) = frame st).
Proof. exact refusal_no_trace. Qed.
Print Assumptions C08_refusal_no_trace.

(* no spurious refusal: when the rule set holds (and the operation's own preconditions: the article exists, is not
   locked / deleted / a vote, the board is not a vote board, the editor is verified-and-basic and owns the article,
   the cross-poster can read the source and is not a violate-law user) the operation is accepted *)
Theorem C08_rules_implies_accept : forall now w ws a st, may_write w = true ->
  fst (run (new_post_steps now w) st) = Accept /\
  (a_exists a = true -> a_norecommend a = false -> a_locked a = false -> fst (run (recommend_steps now w a) st) = Accept) /\
  (w_basic w = true -> a_owner a = true \/ w_sysop w = true -> a_voteboard a = false -> a_exists a = true -> a_filevote a = false ->
     a_deleted a = false -> fst (run (edit_post_steps w a) st) = Accept) /\
  (w_readable ws = true -> w_violatelaw ws = false -> w_loginok ws = true -> a_cplog a = false -> a_voteboard a = false ->
     a_exists a = true -> a_deleted a = false -> fst (run (cross_post_steps now ws w a) st) = Accept).
Proof. exact rules_implies_accept. Qed.
Print Assumptions C08_rules_implies_accept.

(* ---- the read-only system boards are CONFIGURATION values (ptttype.BN_SECURITY / BN_ALLPOST, set from the site's ini
   file by ptttype.InitConfig after the packages were initialised). [is_readonly_board sec allpost name] mirrors
   isReadonlyBoard with the two configured names as inputs: for EVERY pair of configured names, a board is read-only
   exactly when its name equals one of them as a C string in the 13-byte id field, up to the case of A..Z *)
Theorem C08_readonly_board_rule : forall sec allpost name,
  is_readonly_board sec allpost name = true <-> same_board_name name sec \/ same_board_name name allpost.
Proof. exact is_readonly_board_iff. Qed.
Print Assumptions C08_readonly_board_rule.

(* whatever the site calls its read-only system boards: on a board the configuration in force names, each of the four
   operations refuses — for every user (sysop included), every board attribute, every article — and leaves no trace *)
Theorem C08_readonly_configured_refuses : forall sec allpost name now w ws a st,
  w_readonly w = is_readonly_board sec allpost name -> same_board_name name sec \/ same_board_name name allpost ->
  (fst (run (new_post_steps now w) st) <> Accept /\ frame (snd (run (new_post_steps now w) st)) = frame st) /\
  (fst (run (recommend_steps now w a) st) <> Accept /\ frame (snd (run (recommend_steps now w a) st)) = frame st) /\
  (fst (run (edit_post_steps w a) st) <> Accept /\ frame (snd (run (edit_post_steps w a) st)) = frame st) /\
  (fst (run (cross_post_steps now ws w a) st) <> Accept /\ frame (snd (run (cross_post_steps now ws w a) st)) = frame st).
Proof. exact readonly_configured_refuses. Qed.
Print Assumptions C08_readonly_configured_refuses.

(* and a board the configuration in force does not name is not read-only (a compiled-in name that the site replaced
   has no effect) *)
Theorem C08_not_configured_not_readonly : forall sec allpost name,
  ~ same_board_name name sec -> ~ same_board_name name allpost -> is_readonly_board sec allpost name = false.
Proof. exact not_configured_not_readonly. Qed.
Print Assumptions C08_not_configured_not_readonly.

(* ---- the writer's uid. The cool-down word is SHM->cooldowntime[uid-1]; [cd_of_uid] reads the store of plantings at
   that slot. For EVERY uid (no bound: 50 users or 2 000 000) the writer's decision reads the word planted at his own
   uid, and a word planted at any other uid never reaches it *)
Theorem C08_cooldown_word_own_slot : forall s uid other v,
  cd_of_uid (cd_set s (uid_slot uid) v) uid = v /\
  (other <> uid -> cd_of_uid (cd_set s (uid_slot other) v) uid = cd_of_uid s uid).
Proof. exact cooldown_word_own_slot. Qed.
Print Assumptions C08_cooldown_word_own_slot.

(* any number of other users' words, planted in any order *)
Theorem C08_cooldown_others_irrelevant : forall fuel l s uid maxusers, others_ok uid maxusers l fuel = true ->
  cd_of_uid (plant_others s l fuel) uid = cd_of_uid s uid.
Proof. exact cd_of_uid_others. Qed.
Print Assumptions C08_cooldown_others_irrelevant.

(* "no active cool-down": while the writer's word says so (not expired, and the board cools down / the post counter is
   saturated / over the population threshold; sysop exempt), a new post, a comment and a cross-post are refused — the
   verdict depends on the facts alone, so on the uid only through the word read above *)
Theorem C08_active_cooldown_refuses : forall now w ws a st, cooldown_active w = true ->
  fst (run (new_post_steps now w) st) <> Accept /\
  fst (run (recommend_steps now w a) st) <> Accept /\
  fst (run (cross_post_steps now ws w a) st) <> Accept.
Proof. exact active_cooldown_refuses. Qed.
Print Assumptions C08_active_cooldown_refuses.

(* ---- the default board is known by its NAME. [is_default_board dflt name] mirrors postpermMsg's test
   types.Cstrcmp(board.Brdname[:], ptttype.DEFAULT_BOARD) == 0 with the name of the default board as an input: for names as
   they occur (no NUL, at most 12 bytes) a board is the default board exactly when it carries the very same name *)
Theorem C08_default_board_rule : forall dflt name, id_ok 12 name -> id_ok 12 dflt ->
  (is_default_board dflt name = true <-> name = dflt).
Proof. exact default_board_exact. Qed.
Print Assumptions C08_default_board_rule.

(* a second board whose name merely STARTS with the default board's name (SYSOPnote next to SYSOP) is not the default
   board, and neither is one whose name is a proper prefix of it *)
Theorem C08_default_board_not_extension : forall dflt rest, id_ok 12 (dflt ++ rest) -> id_ok 12 dflt -> rest <> [] ->
  is_default_board dflt (dflt ++ rest) = false.
Proof. exact default_board_not_extension. Qed.
Print Assumptions C08_default_board_not_extension.
Theorem C08_default_board_not_prefix : forall name rest, id_ok 12 name -> id_ok 12 (name ++ rest) -> rest <> [] ->
  is_default_board (name ++ rest) name = false.
Proof. exact default_board_not_prefix. Qed.
Print Assumptions C08_default_board_not_prefix.

(* on a board with any other name the coded permission test is the rule set WITHOUT the default-board exception
   ([posting_rules_ordinary]: post permission unless guest-post, friends only where restricted, violate-law users only
   where admitted, the extra level bits) ... *)
Theorem C08_other_name_ordinary_rules : forall dflt name w, w_default w = is_default_board dflt name ->
  id_ok 12 name -> id_ok 12 dflt -> name <> dflt -> (postperm w = 0 <-> posting_rules_ordinary w = true).
Proof. exact other_name_ordinary_rules. Qed.
Print Assumptions C08_other_name_ordinary_rules.

(* ... and whoever that rule refuses is refused by each of the four operations, without a trace *)
Theorem C08_other_name_refused : forall dflt name now w ws a st, w_default w = is_default_board dflt name ->
  id_ok 12 name -> id_ok 12 dflt -> name <> dflt -> posting_rules_ordinary w = false ->
  (fst (run (new_post_steps now w) st) <> Accept /\ frame (snd (run (new_post_steps now w) st)) = frame st) /\
  (fst (run (recommend_steps now w a) st) <> Accept /\ frame (snd (run (recommend_steps now w a) st)) = frame st) /\
  (fst (run (edit_post_steps w a) st) <> Accept /\ frame (snd (run (edit_post_steps w a) st)) = frame st) /\
  (fst (run (cross_post_steps now ws w a) st) <> Accept /\ frame (snd (run (cross_post_steps now ws w a) st)) = frame st).
Proof. exact other_name_refused. Qed.
Print Assumptions C08_other_name_refused.
