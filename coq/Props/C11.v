(* C11 — Board lookup and board listings equal a scan of the board table.
   Only statements here; every proof is `exact <lemma of Proofs/C11*.v or Base/OddSearch.v>`.
   Vocabulary: a table is given in the order of its sorted index; [cmp_name names q i] / [cmp_class .. i] is the
   comparison the code makes between the key and entry i (types.Cstrcasecmp on BoardID_t / cmpBoardByClass);
   [less_name] / [less_class] are the two Less functions sort.Sort is called with; [sorted_by less l] says no adjacent
   pair of l is out of order; [sorted_permutation less table l] = l is a permutation of table and sorted (what sort.Sort
   is assumed to return; the check verifies it on every table); [sorted_for_name names q] ([mono]) says the sign of the
   comparison with the key q never increases along the index; [scan c n asc] is the linear scan (first entry not below /
   last entry not above the key, 1-based, -1 = none, see C11_scan_meaning); [core]/[search]/[find] (Base/OddSearch.v)
   are getBidBy*Core and FindBoardIdxBy*; [bytes_ok] = every element is a byte; [distinct_names names] = two different
   slots compare equal ignoring case only when both are vacated (empty name); [visible names i] = slot i is not vacated. *)
From Coq Require Import Sorted.
From Verif Require Import Base.Common Base.OddSearch Model.C11 Proofs.C11.

(* ------------------------------------------------------------------------------------------------ the sort orders *)
(* both Less functions (by name: Cstrcasecmp < 0 on the BoardID_t; by class: Cstrcmp on Title[:4], then the name) are
   strict weak orders on byte strings: irreflexive, transitive, incomparability transitive. Hence any correct
   comparison sort yields a sorted permutation. An entry of the by-class table is (Title[:5], name). *)
Theorem C11_less_is_strict_weak_order :
  ((forall a, less_name a a = false) /\
   (forall a b c, bytes_ok a = true -> bytes_ok b = true -> bytes_ok c = true ->
      less_name a b = true -> less_name b c = true -> less_name a c = true) /\
   (forall a b c, bytes_ok a = true -> bytes_ok b = true -> bytes_ok c = true ->
      less_name a b = false -> less_name b a = false -> less_name b c = false -> less_name c b = false ->
      less_name a c = false /\ less_name c a = false)) /\
  ((forall a, less_class a a = false) /\
   (forall a b c : list Z * list Z,
      bytes_ok (fst a) = true /\ bytes_ok (snd a) = true -> bytes_ok (fst b) = true /\ bytes_ok (snd b) = true ->
      bytes_ok (fst c) = true /\ bytes_ok (snd c) = true ->
      less_class a b = true -> less_class b c = true -> less_class a c = true) /\
   (forall a b c : list Z * list Z,
      bytes_ok (fst a) = true /\ bytes_ok (snd a) = true -> bytes_ok (fst b) = true /\ bytes_ok (snd b) = true ->
      bytes_ok (fst c) = true /\ bytes_ok (snd c) = true ->
      less_class a b = false -> less_class b a = false -> less_class b c = false -> less_class c b = false ->
      less_class a c = false /\ less_class c a = false)).
Proof. exact (conj less_name_swo less_class_swo). Qed.
Print Assumptions C11_less_is_strict_weak_order.

(* an index sorted with that Less is monotone for EVERY key the searches compare with it. By class this needs the
   fifth title byte to be a blank (what NewBoard writes) or a NUL (a vacated slot): [title_ok t] is
   nth 4 t 0 = 32 \/ nth 4 t 0 = 0; without it the statement is false (C11_find_by_class_refuted_nonblank_title_byte) *)
Theorem C11_sorted_implies_monotone :
  (forall names q, forallb bytes_ok names = true -> bytes_ok q = true ->
     sorted_by less_name names = true -> sorted_for_name names q) /\
  (forall titles names cls q, length titles = length names ->
     Forall (fun t => nth 4 t 0 = 32 \/ nth 4 t 0 = 0) titles ->
     forallb bytes_ok titles = true -> forallb bytes_ok names = true -> bytes_ok cls = true -> bytes_ok q = true ->
     sorted_by less_class (combine titles names) = true -> sorted_for_class titles names cls q).
Proof. exact (conj sorted_implies_monotone_name sorted_implies_monotone_class). Qed.
Print Assumptions C11_sorted_implies_monotone.

(* ------------------------------------------------------------------------------------------------ the search *)
(* the odd binary search, for ANY comparison that is monotone along the array: it returns within its fuel, an
   exact answer is an entry equal to the key, and "not found" is given exactly when no entry equals the key *)
Theorem C11_search_exact : forall (c : Z -> Z) n, mono c n -> 0 <= n ->
  exists idx found, search c n = Ok (idx, found) /\
    (found = true -> 0 <= idx < n /\ c idx = 0) /\ (found = false -> forall i, 0 <= i < n -> c i <> 0).
Proof. exact search_exact. Qed.
Print Assumptions C11_search_exact.

(* what the linear scan returns, for any comparison: ascending the first entry not below the key, descending the
   last entry not above it, -1 when there is none; it always returns *)
Theorem C11_scan_meaning : forall (c : Z -> Z) n, 0 <= n ->
  (exists r, scan c n true = Ok r /\
     ((r = -1 /\ forall i, 0 <= i < n -> 0 < c i) \/
      (1 <= r <= n /\ c (r - 1) <= 0 /\ forall i, 0 <= i < r - 1 -> 0 < c i))) /\
  (exists r, scan c n false = Ok r /\
     ((r = -1 /\ forall i, 0 <= i < n -> c i < 0) \/
      (1 <= r <= n /\ 0 <= c (r - 1) /\ forall i, r - 1 < i < n -> c i < 0))).
Proof. intros c n Hn. exact (conj (scan_asc_spec c n Hn) (scan_desc_spec c n Hn)). Qed.
Print Assumptions C11_scan_meaning.

(* GetBid: a name in any letter case yields the bid of a board whose name equals it ignoring case, or 0 iff none *)
Theorem C11_getbid : forall names bids q, sorted_for_name names q ->
  exists b, get_bid names bids q = Ok b /\
    ((exists idx, 0 <= idx < lenZ names /\ cmp_name names q idx = 0 /\ b = nth (Z.to_nat idx) bids 0) \/
     (b = 0 /\ forall i, 0 <= i < lenZ names -> cmp_name names q i <> 0)).
Proof. exact getbid. Qed.
Print Assumptions C11_getbid.

(* ... on the board table itself: [table] lists the names in bid order, [bids] (BSorted[by name] + 1) is a permutation
   of 1..n that puts them in sorted order. GetBid(q) is the bid of a board named q ignoring case, or 0 iff no board is *)
Theorem C11_getbid_sorted : forall table bids q,
  Permutation.Permutation bids (map (fun i => Z.of_nat i + 1) (seq 0 (length table))) ->
  forallb bytes_ok table = true -> bytes_ok q = true ->
  sorted_by less_name (map (fun b => nth (Z.to_nat (b - 1)) table []) bids) = true ->
  exists b, get_bid (map (fun b => nth (Z.to_nat (b - 1)) table []) bids) bids q = Ok b /\
    ((1 <= b <= lenZ table /\ cstrcasecmp (boardid q) (boardid (nth (Z.to_nat (b - 1)) table [])) = 0) \/
     (b = 0 /\ forall j, 0 <= j < lenZ table -> cstrcasecmp (boardid q) (boardid (nth (Z.to_nat j) table [])) <> 0)).
Proof. exact getbid_table. Qed.
Print Assumptions C11_getbid_sorted.

(* FindBoardIdxByName: an entry equal to the key if there is one, else exactly what the linear scan gives in the
   requested direction (-1 = none); in particular ascending below the first board is 1 (repaired, finding row 10) *)
Theorem C11_find_by_name : forall names q asc, sorted_for_name names q ->
  exists r, find_by_name names q asc = Ok r /\
    ((1 <= r <= lenZ names /\ cmp_name names q (r - 1) = 0) \/ scan (cmp_name names q) (lenZ names) asc = Ok r).
Proof. exact find_by_name_spec. Qed.
Print Assumptions C11_find_by_name.

(* ... for every sorted permutation of a table of byte strings and every key *)
Theorem C11_find_by_name_sorted : forall table names q asc,
  sorted_permutation less_name table names -> forallb bytes_ok table = true -> bytes_ok q = true ->
  exists r, find_by_name names q asc = Ok r /\
    ((1 <= r <= lenZ names /\ cmp_name names q (r - 1) = 0) \/ scan (cmp_name names q) (lenZ names) asc = Ok r).
Proof. exact find_by_name_sorted. Qed.
Print Assumptions C11_find_by_name_sorted.

(* FindBoardIdxByClass likewise, PROVIDED the by-class index is sorted for the comparison the search makes *)
Theorem C11_find_by_class : forall titles names cls q asc, sorted_for_class titles names cls q ->
  exists r, find_by_class titles names cls q asc = Ok r /\
    ((1 <= r <= lenZ names /\ cmp_class titles names cls q (r - 1) = 0) \/
     scan (cmp_class titles names cls q) (lenZ names) asc = Ok r).
Proof. exact find_by_class_spec. Qed.
Print Assumptions C11_find_by_class.

(* ... for every sorted permutation (titles, names) of a table of (Title[:5], name) entries whose fifth title byte is
   a blank or a NUL, and every key (class, name) *)
Theorem C11_find_by_class_sorted : forall table titles names cls q asc,
  length titles = length names -> sorted_permutation less_class table (combine titles names) ->
  Forall (fun e => bytes_ok (fst e) = true /\ bytes_ok (snd e) = true /\ (nth 4 (fst e) 0 = 32 \/ nth 4 (fst e) 0 = 0)) table ->
  bytes_ok cls = true -> bytes_ok q = true ->
  exists r, find_by_class titles names cls q asc = Ok r /\
    ((1 <= r <= lenZ names /\ cmp_class titles names cls q (r - 1) = 0) \/
     scan (cmp_class titles names cls q) (lenZ names) asc = Ok r).
Proof. exact find_by_class_sorted. Qed.
Print Assumptions C11_find_by_class_sorted.

(* search_order_agrees, by name: the search compares exactly as the index was sorted (same function) *)
Theorem C11_search_order_agrees_name : forall names q i, 0 <= i ->
  (cmp_name names q i <? 0) = less_name q (nth (Z.to_nat i) names []).
Proof. exact search_order_agrees_name. Qed.
Print Assumptions C11_search_order_agrees_name.

(* ... by class it does NOT in general: sorted on Title[:4], searched on BoardClass() (Title[:5] when the fifth byte is
   not a blank). Known finding C11/find-by-class-nonblank-fifth-title-byte. *)
Theorem C11_find_by_class_refuted_nonblank_title_byte :
  exists titles names cls q,
    sorted_by less_class (combine titles names) = true /\
    find_by_class titles names cls q false = Ok (-1) /\
    scan (cmp_class titles names cls q) (lenZ names) false = Ok 2.
Proof. exact find_by_class_refuted_nonblank_title_byte. Qed.
Print Assumptions C11_find_by_class_refuted_nonblank_title_byte.

(* ------------------------------------------------------------------------------------------------ auto-completion *)
(* total: every prefix (empty, longer than a board name: repaired, finding row 20) gets an answer on every sorted table *)
Theorem C11_autocomplete_total : forall (names : list (list Z)) (kw : list Z) (asc : bool),
  forallb bytes_ok names = true -> bytes_ok kw = true -> sorted_by less_name names = true ->
  exists r, autocomplete names kw asc = Ok r.
Proof. exact autocomplete_total_sorted. Qed.
Print Assumptions C11_autocomplete_total.

(* functional half. Board i carries the prefix when [cmp_prefix names kw i = 0] (the comparison the code makes: see
   C11_autocomplete_carries_meaning). On a sorted table whose boards have names distinct up to case, for a prefix of
   1..12 non-NUL bytes, the start index is the first (ascending) / last (descending) board carrying the prefix, and -1
   exactly when no board carries it. EXCLUDED, descending only: a prefix whose last byte is '@' (64), 'Z' (90) or 0xFF
   (255). The code searches for the prefix with its last byte incremented, which is the successor of the prefix in the
   case-folded order only if tolower (b + 1) = tolower b + 1 without wrapping: '@' + 1 = 'A' folds to 'a' (skipping
   '[' .. '`'), 'Z' + 1 = '[' sorts below 'z', 0xFF + 1 wraps to NUL and ends the key. Each exclusion is necessary:
   C11_autocomplete_refuted_desc_at_sign, _desc_upper_Z, _desc_0xff; so is distinctness: _refuted_case_twins. *)
Theorem C11_autocomplete : forall names kw asc,
  forallb bytes_ok names = true -> sorted_by less_name names = true -> distinct_names names = true ->
  (1 <= length kw <= 12)%nat -> Forall (fun b => 0 < b < 256) kw ->
  (asc = false -> last kw 0 <> 64 /\ last kw 0 <> 90 /\ last kw 0 <> 255) ->
  exists r, autocomplete names kw asc = Ok r /\
    if asc
    then (r = -1 /\ forall i, 0 <= i < lenZ names -> ~ cmp_prefix names kw i = 0) \/
         (1 <= r <= lenZ names /\ cmp_prefix names kw (r - 1) = 0 /\ forall i, 0 <= i < r - 1 -> ~ cmp_prefix names kw i = 0)
    else (r = -1 /\ forall i, 0 <= i < lenZ names -> ~ cmp_prefix names kw i = 0) \/
         (1 <= r <= lenZ names /\ cmp_prefix names kw (r - 1) = 0 /\ forall i, r - 1 < i < lenZ names -> ~ cmp_prefix names kw i = 0).
Proof. intros names kw asc Hb Hs Hd H1 H2 H3. exact (autocomplete_spec names kw asc Hb Hs Hd (conj H1 (conj H2 H3))). Qed.
Print Assumptions C11_autocomplete.

(* "carries the prefix" = the first len(kw) bytes of the board name (as a C string) equal the prefix up to case *)
Theorem C11_autocomplete_carries_meaning : forall names kw i,
  forallb bytes_ok names = true -> Forall (fun b => 0 < b < 256) kw ->
  (cmp_prefix names kw i = 0 <->
   map tolower (firstn (length kw) (cprefix (boardid (nth (Z.to_nat i) names [])))) = map tolower kw).
Proof. exact carries_meaning. Qed.
Print Assumptions C11_autocomplete_carries_meaning.

(* descending with a prefix ending in 'Z': 'Z'+1 = '[' sorts below every letter. Known finding C11/autocomplete-desc-upper-Z *)
Theorem C11_autocomplete_refuted_desc_upper_Z :
  exists names kw, sorted_by less_name names = true /\ cmp_prefix names kw 2 = 0 /\ autocomplete names kw false = Ok (-1).
Proof. exact autocomplete_refuted_desc_upper_Z. Qed.
Print Assumptions C11_autocomplete_refuted_desc_upper_Z.

(* descending with a prefix ending in '@': sorted ["a@"; "a_a"; "a_b"; "aa"], prefix "a@": board 1 carries it, the answer
   is "none" (the probe for "aa" lands three boards above). Known finding C11/autocomplete-desc-at-sign *)
Theorem C11_autocomplete_refuted_desc_at_sign :
  exists names kw, forallb bytes_ok names = true /\ sorted_by less_name names = true /\ distinct_names names = true /\
    last kw 0 = 64 /\ cmp_prefix names kw 0 = 0 /\ autocomplete names kw false = Ok (-1).
Proof. exact autocomplete_refuted_desc_at_sign. Qed.
Print Assumptions C11_autocomplete_refuted_desc_at_sign.

(* descending with a prefix ending in 0xFF: sorted ["a"; "ab"; "a\xff"], prefix "a\xff": board 3 carries it, the answer
   is "none" (the key wraps to "a"). Known finding C11/autocomplete-desc-0xff *)
Theorem C11_autocomplete_refuted_desc_0xff :
  exists names kw, forallb bytes_ok names = true /\ sorted_by less_name names = true /\ distinct_names names = true /\
    last kw 0 = 255 /\ cmp_prefix names kw 2 = 0 /\ autocomplete names kw false = Ok (-1).
Proof. exact autocomplete_refuted_desc_0xff. Qed.
Print Assumptions C11_autocomplete_refuted_desc_0xff.

(* names equal up to case: the core stops on any twin. Known finding C11/autocomplete-case-twins *)
Theorem C11_autocomplete_refuted_case_twins :
  exists names kw, sorted_by less_name names = true /\ cmp_prefix names kw 0 = 0 /\ autocomplete names kw true = Ok 2.
Proof. exact autocomplete_refuted_case_twins. Qed.
Print Assumptions C11_autocomplete_refuted_case_twins.

(* ------------------------------------------------------------------------------------------------ the listing walk *)
(* paging the by-name listing through its next-cursor ("collect k+1 visible boards, the (k+1)-th is the next cursor,
   look it up by name, continue there"): for every sorted table whose boards have names distinct up to case, every
   page size k >= 1 and both directions, the walk terminates and its pages concatenate to the (1-based) positions of the
   visible boards, each once, in order (ascending: increasing; descending: the reverse), in ceil(V/k) pages (1 if V = 0) *)
Theorem C11_page_walk : forall names k asc,
  forallb bytes_ok names = true -> sorted_by less_name names = true -> distinct_names names = true -> (1 <= k)%nat ->
  page_walk names k asc =
  let V := filter (visible names) (if asc then zseq 0 (length names) else rev (zseq 0 (length names))) in
  Ok (pages_of (length V) k, map (fun i => i + 1) V).
Proof. exact page_walk_spec. Qed.
Print Assumptions C11_page_walk.

(* ... and for ANY visibility predicate that never shows a vacated slot ([page_walk_g vis] is the same walk with the
   predicate as a parameter; the model's [page_walk] is the instance vis = visible names: C11_page_walk_instance) *)
Theorem C11_page_walk_any_visibility : forall names (vis : Z -> bool) k asc,
  forallb bytes_ok names = true -> sorted_by less_name names = true -> distinct_names names = true ->
  (forall i, vis i = true -> visible names i = true) -> (1 <= k)%nat ->
  page_walk_g vis names k asc =
  let V := filter vis (if asc then zseq 0 (length names) else rev (zseq 0 (length names))) in
  Ok (pages_of (length V) k, map (fun i => i + 1) V).
Proof. exact page_walk_any_visibility. Qed.
Print Assumptions C11_page_walk_any_visibility.

Theorem C11_page_walk_instance : forall names k asc, page_walk names k asc = page_walk_g (visible names) names k asc.
Proof. exact page_walk_is_g. Qed.
Print Assumptions C11_page_walk_instance.

(* reading the result: [filter vis (zseq 0 m)] holds exactly the visible positions 0..m-1, each once, increasing; the
   descending list is its reverse; [pages_of V k] is max 1 (ceil (V / k)) *)
Theorem C11_page_walk_meaning : forall (vis : Z -> bool) m,
  (forall x, In x (filter vis (zseq 0 m)) <-> 0 <= x < Z.of_nat m /\ vis x = true) /\
  NoDup (filter vis (zseq 0 m)) /\ StronglySorted Z.lt (filter vis (zseq 0 m)) /\
  filter vis (rev (zseq 0 m)) = rev (filter vis (zseq 0 m)) /\
  (forall V k, (1 <= k)%nat -> pages_of V k = Z.max 1 ((Z.of_nat V + Z.of_nat k - 1) / Z.of_nat k)).
Proof.
  intros vis m.
  exact (conj (visible_positions vis m) (conj (proj1 (visible_positions_once vis m)) (conj (visible_positions_sorted vis m 0)
        (conj (filter_rev' vis (zseq 0 m)) pages_of_ceil)))).
Qed.
Print Assumptions C11_page_walk_meaning.

(* with two boards whose names differ only in case the next-cursor (a name) resolves to the other twin and the by-name
   listing with page size 1 never ends: distinctness is necessary. Known finding C11/listing-case-twins *)
Theorem C11_page_walk_refuted_case_twins :
  exists names k asc, sorted_by less_name names = true /\ (0 < k)%nat /\ page_walk names k asc = Hang.
Proof. exact page_walk_refuted_case_twins. Qed.
Print Assumptions C11_page_walk_refuted_case_twins.

(* ------------------------------------------------------------------------------------------------ the by-class listing walk *)
(* Vocabulary: [titles]/[names] list Title[:5] and the board name in the order of BSorted[by class];
   [cursor_class t] = the bytes of Title[:4] before the first NUL (bbs.BoardSummary.BoardClass, the class half of the
   next-cursor base64(class)@name) — blanks that pad a class shorter than 4 columns ("NB  ") are part of it;
   [resolve_class titles names asc i] = FindBoardIdxByClass on the cursor made from entry i;
   [distinct_class (combine titles names)] = two different slots have the same class and names equal up to case only
   when both are vacated; [page_walk_class] (Model/C11.v) pages bbs.LoadGeneralBoards(.., BSORT_BY_CLASS) through its
   own next-cursor. *)

(* the next-cursor made from any visible board resolves to exactly that board, in both directions: for every table
   sorted by class whose fifth title bytes are blanks (NULs in vacated slots) and whose (class, name) keys are distinct.
   Classes of any length 0..4, blank- or NUL-padded, sharing prefixes or not. *)
Theorem C11_cursor_resolves_by_class : forall titles names asc,
  length titles = length names -> Forall (fun t => nth 4 t 0 = 32 \/ nth 4 t 0 = 0) titles ->
  forallb bytes_ok titles = true -> forallb bytes_ok names = true ->
  sorted_by less_class (combine titles names) = true -> distinct_class (combine titles names) = true ->
  forall i, 0 <= i < lenZ names -> visible names i = true ->
    find_by_class titles names (cursor_class (nth (Z.to_nat i) titles [])) (nth (Z.to_nat i) names []) asc = Ok (i + 1).
Proof. exact cursor_resolves_class. Qed.
Print Assumptions C11_cursor_resolves_by_class.

(* paging the by-class listing through its next-cursor: under the same hypotheses, for every page size k >= 1 and both
   directions, the walk terminates and its pages concatenate to the (1-based) positions in BSorted[by class] of the
   visible boards, each once, in order, in ceil(V/k) pages (reading of the result: C11_page_walk_meaning) *)
Theorem C11_page_walk_by_class : forall titles names k asc,
  length titles = length names -> Forall (fun t => nth 4 t 0 = 32 \/ nth 4 t 0 = 0) titles ->
  forallb bytes_ok titles = true -> forallb bytes_ok names = true ->
  sorted_by less_class (combine titles names) = true -> distinct_class (combine titles names) = true -> (1 <= k)%nat ->
  page_walk_class titles names k asc =
  let V := filter (visible names) (if asc then zseq 0 (length names) else rev (zseq 0 (length names))) in
  Ok (pages_of (length V) k, map (fun i => i + 1) V).
Proof. exact page_walk_class_spec. Qed.
Print Assumptions C11_page_walk_by_class.

(* ... and for ANY visibility predicate that never shows a vacated slot ([page_walk_class_g vis] is the same walk with
   the predicate as a parameter; the model's walk is the instance vis = visible names) *)
Theorem C11_page_walk_by_class_any_visibility : forall titles names (vis : Z -> bool) k asc,
  length titles = length names -> Forall (fun t => nth 4 t 0 = 32 \/ nth 4 t 0 = 0) titles ->
  forallb bytes_ok titles = true -> forallb bytes_ok names = true ->
  sorted_by less_class (combine titles names) = true -> distinct_class (combine titles names) = true ->
  (forall i, vis i = true -> visible names i = true) -> (1 <= k)%nat ->
  page_walk_class_g vis titles names k asc =
  let V := filter vis (if asc then zseq 0 (length names) else rev (zseq 0 (length names))) in
  Ok (pages_of (length V) k, map (fun i => i + 1) V).
Proof. exact page_walk_class_any_visibility. Qed.
Print Assumptions C11_page_walk_by_class_any_visibility.

Theorem C11_page_walk_by_class_instance : forall titles names k asc,
  page_walk_class titles names k asc = page_walk_class_g (visible names) titles names k asc.
Proof. exact page_walk_class_is_g. Qed.
Print Assumptions C11_page_walk_by_class_instance.

(* two boards of one class whose names differ only in case: the cursor resolves to the other twin, the by-class listing
   with page size 1 never ends. Known finding C11/listing-case-twins *)
Theorem C11_page_walk_by_class_refuted_case_twins :
  exists titles names k asc, sorted_by less_class (combine titles names) = true /\
    Forall (fun t => nth 4 t 0 = 32 \/ nth 4 t 0 = 0) titles /\ (0 < k)%nat /\
    page_walk_class titles names k asc = Hang.
Proof. exact page_walk_class_refuted_case_twins. Qed.
Print Assumptions C11_page_walk_by_class_refuted_case_twins.

(* a non-blank fifth title byte: the cursor class is Title[:4], the search compares it with Title[:5], the cursor does
   not resolve to its own board and boards are skipped. Known finding C11/find-by-class-nonblank-fifth-title-byte *)
Theorem C11_page_walk_by_class_refuted_nonblank_title_byte :
  exists titles names k asc, sorted_by less_class (combine titles names) = true /\
    distinct_class (combine titles names) = true /\ (0 < k)%nat /\
    page_walk_class titles names k asc <>
    Ok (pages_of (length (filter (visible names) (if asc then zseq 0 (length names) else rev (zseq 0 (length names))))) k,
        map (fun i => i + 1) (filter (visible names) (if asc then zseq 0 (length names) else rev (zseq 0 (length names))))).
Proof. exact page_walk_class_refuted_nonblank_title_byte. Qed.
Print Assumptions C11_page_walk_by_class_refuted_nonblank_title_byte.

(* ------------------------------------------------------------------------------------------------ filtered listings *)
(* Vocabulary: [ftitles]/[names] list the WHOLE title (class, blank, text; Big5 bytes >= 0x80 included) and the name of
   every board in the order of the index walked; [tf]/[kw] are the title filter and the keyword filter of
   ptt.LoadGeneralBoards (keywordsNotInBoard: a non-empty title filter decides alone, else a non-empty keyword must be in
   the title or in the name, no filter lists everything); [vis_filter ftitles names tf kw i] = board i is not vacated and
   not filtered out; [cstrcasestr] = types.Cstrcasestr (byte-wise, only 'A'..'Z' folded; reading: C11_filter_meaning).
   Paging a filtered by-name listing through its next-cursor: for every sorted table of byte strings whose names are
   distinct up to case, EVERY title, EVERY filter (any bytes), every page size k >= 1 and both directions, the walk
   terminates and its pages concatenate to the positions of exactly the boards the filter keeps, each once, in order,
   in ceil(V/k) pages. In particular the state of anything else (the boards' article indexes, cached article counts)
   is not an input of the listing: no board is dropped and no page loses its cursor because of it. *)
Theorem C11_page_walk_filtered : forall ftitles names tf kw k asc,
  forallb bytes_ok names = true -> sorted_by less_name names = true -> distinct_names names = true -> (1 <= k)%nat ->
  page_walk_filtered ftitles names tf kw k asc =
  let V := filter (vis_filter ftitles names tf kw) (if asc then zseq 0 (length names) else rev (zseq 0 (length names))) in
  Ok (pages_of (length V) k, map (fun i => i + 1) V).
Proof. exact page_walk_filtered_spec. Qed.
Print Assumptions C11_page_walk_filtered.

(* ... and by class ([title5 t] = Title[:5] of the whole title t), under the hypotheses of C11_page_walk_by_class *)
Theorem C11_page_walk_by_class_filtered : forall ftitles names tf kw k asc,
  length ftitles = length names -> Forall (fun t => nth 4 t 0 = 32 \/ nth 4 t 0 = 0) (map title5 ftitles) ->
  forallb bytes_ok (map title5 ftitles) = true -> forallb bytes_ok names = true ->
  sorted_by less_class (combine (map title5 ftitles) names) = true ->
  distinct_class (combine (map title5 ftitles) names) = true -> (1 <= k)%nat ->
  page_walk_class_filtered ftitles names tf kw k asc =
  let V := filter (vis_filter ftitles names tf kw) (if asc then zseq 0 (length names) else rev (zseq 0 (length names))) in
  Ok (pages_of (length V) k, map (fun i => i + 1) V).
Proof. exact page_walk_class_filtered_spec. Qed.
Print Assumptions C11_page_walk_by_class_filtered.

(* reading of the filter: for a non-empty filter without NUL, types.Cstrcasestr finds it (>= 0) exactly when the filter,
   with 'A'..'Z' folded byte by byte, occurs in the C string, folded the same way; a byte >= 0x80 is never folded *)
Theorem C11_filter_meaning :
  (forall s p, p <> [] -> Forall (fun b => b <> 0) p ->
     (0 <= cstrcasestr s p <-> exists pre post, cprefix (map tolower s) = pre ++ map tolower p ++ post)) /\
  (forall b, 91 <= b -> tolower b = b).
Proof. exact (conj filter_meaning tolower_high). Qed.
Print Assumptions C11_filter_meaning.

(* ------------------------------------------------------------------------------------------------ field width of the cursor *)
(* the by-name next-cursor made from any visible board resolves to exactly that board, in both directions: for every
   sorted table of byte strings whose names are distinct up to case — names of every length up to the full width of the
   BoardID_t field (12 characters, 13 bytes without a NUL) included, sharing prefixes of any length or not *)
Theorem C11_cursor_resolves_by_name : forall names asc,
  forallb bytes_ok names = true -> sorted_by less_name names = true -> distinct_names names = true ->
  forall i, 0 <= i < lenZ names -> visible names i = true ->
    find_by_name names (nth (Z.to_nat i) names []) asc = Ok (i + 1).
Proof. exact cursor_resolves. Qed.
Print Assumptions C11_cursor_resolves_by_name.

(* the cursor is CstrToString(Brdname) copied back into a BoardID_t ([boardid] = copy into the 13-byte field, [cprefix] =
   the C string in it): for EVERY name the C string in the field is unchanged by the round trip, so the search key of
   the cursor is the key the board was sorted with; a copy clipped at 11 bytes is not (ex_clip11, Proofs/C11.v) *)
Theorem C11_cursor_field_roundtrip : forall nm, cprefix (boardid (cprefix (boardid nm))) = cprefix (boardid nm).
Proof. exact cursor_field_roundtrip. Qed.
Print Assumptions C11_cursor_field_roundtrip.

(* ------------------------------------------------------------------------------------------------ histories of the board cache *)
(* Vocabulary (Model/C11.v): a state [s] has the board file [bfile s] (absent, or its complete records: [records b] of a
   byte string b drops an incomplete tail; [file_recs s] = [] when absent), the table [btbl s] = BCache[0..BNumber), the
   flag [bbusy s] = BBusyState and the two indexes [bsn s], [bsc s] (BSorted + 1). [fresh] = start-up, no file.
   A history is a list of [OInstall b] (a board file with bytes b is put in place, ReloadBCache), [OReload]
   (ReloadBCache on whatever file there is — none in the fresh state: the read fails, the early return releases the
   flag), [OCreate r] (cmsys.AppendRecord of the record r + cache.AddbrdTouchCache = BNumber++, ResetBoard, SortBCache;
   ResetBoard refuses and SortBCache does nothing while the flag is set). [run_hist srt ops fresh = Some s]: no creation
   of the history was refused. [srt] stands for the two sort.Sort calls; [sorter_ok srt] = each returns a permutation of
   the bids that puts the table in order (the assumption made on sort.Sort everywhere in this file).
   [tnames s] = the names of the table in bid order, [snames s] = in the order of the by-name index.

   After ANY history from the fresh state — the absent file, the empty file, files with an incomplete last record, any
   number of reloads and creations in any order — the flag is released, the table is the board file (every created
   board is in it), the by-name index is a sorted permutation of the table, GetBid of a name in any letter case is the
   bid of a board with that name (0 iff none) and FindBoardIdxByName is the exact entry or the scan. *)
Theorem C11_lookups_after_any_history : forall srt ops s,
  sorter_ok srt -> Forall op_ok ops -> run_hist srt ops fresh = Some s ->
  bbusy s = 0 /\ btbl s = firstn (Z.to_nat MAXB) (file_recs s) /\
  (forall q, bytes_ok q = true -> exists b, get_bid (snames s) (bsn s) q = Ok b /\
     ((1 <= b <= lenZ (tnames s) /\ cstrcasecmp (boardid q) (boardid (nth (Z.to_nat (b - 1)) (tnames s) [])) = 0) \/
      (b = 0 /\ forall j, 0 <= j < lenZ (tnames s) -> cstrcasecmp (boardid q) (boardid (nth (Z.to_nat j) (tnames s) [])) <> 0))) /\
  (forall q asc, bytes_ok q = true -> exists r, find_by_name (snames s) q asc = Ok r /\
     ((1 <= r <= lenZ (snames s) /\ cmp_name (snames s) q (r - 1) = 0) \/ scan (cmp_name (snames s) q) (lenZ (snames s)) asc = Ok r)) /\
  Permutation.Permutation (tnames s) (snames s) /\ sorted_by less_name (snames s) = true.
Proof. exact history_lookups. Qed.
Print Assumptions C11_lookups_after_any_history.

(* ... and by class, when the fifth title byte of every board is a blank (what mNewbrd writes) or a NUL (vacated slot):
   [ctitles s] / [cnames s] = Title[:5] / name in the order of the by-class index *)
Theorem C11_lookups_by_class_after_any_history : forall srt ops s,
  sorter_ok srt -> Forall op_ok ops -> run_hist srt ops fresh = Some s ->
  Forall (fun r => nth 4 (rec_title5 r) 0 = 32 \/ nth 4 (rec_title5 r) 0 = 0) (btbl s) ->
  forall cls q asc, bytes_ok cls = true -> bytes_ok q = true ->
  exists r, find_by_class (ctitles s) (cnames s) cls q asc = Ok r /\
    ((1 <= r <= lenZ (cnames s) /\ cmp_class (ctitles s) (cnames s) cls q (r - 1) = 0) \/
     scan (cmp_class (ctitles s) (cnames s) cls q) (lenZ (cnames s)) asc = Ok r).
Proof. exact history_lookups_class. Qed.
Print Assumptions C11_lookups_by_class_after_any_history.

(* no creation is refused after any such history while there is room for a board (MAXB = MAX_BOARD): in particular
   the first creation after ReloadBCache found no board file *)
Theorem C11_creation_not_refused_after_any_history : forall srt ops s r,
  sorter_ok srt -> Forall op_ok ops -> run_hist srt ops fresh = Some s ->
  Z.of_nat (length (btbl s)) < MAXB -> exists s', create srt r s = Some s'.
Proof. exact history_creation_not_refused. Qed.
Print Assumptions C11_creation_not_refused_after_any_history.

(* the hypothesis on the sorter is not empty: the insertion sort the executable model runs ([isorter], the one the
   harness compares with sort.Sort on twin-free tables) is such a sorter *)
Theorem C11_insertion_sort_is_a_sorter : sorter_ok isorter.
Proof. exact isorter_ok. Qed.
Print Assumptions C11_insertion_sort_is_a_sorter.

(* ---- Lookups while a writer is stopped inside its critical section (fourth seed round) ----
   cache.ReloadBCache / SortBCache set BBusyState around their work; a reader that finds the flag set waits one second and
   then searches. [stall v s] = the state s with the flag at v: a writer of another process stopped right after setting it
   (slower than the reader's wait, or killed there: the flag then stays behind in the shared memory for the next server
   run), the table and both indexes whole. [st_get_bid after s q] etc. = the lookups as the code does them on a state:
   [waited (bbusy s) after search] - when the flag is set on entry, one second of waiting (no time in the model; [after] is
   whatever the flag reads when the second is over), then the search in either case.

   The answers do not depend on the flag, neither on entry nor after the wait: every lookup and both listing walks on
   [stall v s] are the lookups on the table of s. *)
Theorem C11_lookups_do_not_depend_on_the_busy_flag : forall v after s,
  (forall q, st_get_bid after (stall v s) q = get_bid (snames s) (bsn s) q) /\
  (forall q asc, st_find_by_name after (stall v s) q asc = find_by_name (snames s) q asc) /\
  (forall q asc, st_autocomplete after (stall v s) q asc = autocomplete (snames s) q asc) /\
  (forall cls q asc, st_find_by_class after (stall v s) cls q asc = find_by_class (ctitles s) (cnames s) cls q asc) /\
  (forall k asc, st_page_walk after (stall v s) k asc = page_walk (snames s) k asc) /\
  (forall k asc, st_page_walk_class after (stall v s) k asc = page_walk_class (ctitles s) (cnames s) k asc).
Proof. exact stalled_flag_independence. Qed.
Print Assumptions C11_lookups_do_not_depend_on_the_busy_flag.

(* ... hence after ANY history from the fresh state followed by a writer stopped inside its critical section with the
   flag at any value v, whatever the flag reads after the reader's wait: the table is still the board file, the by-name
   index a sorted permutation of it, GetBid of a name in any letter case is the bid of a board with that name (0 iff
   none), FindBoardIdxByName the exact entry or the scan. (What a writer stopped in the MIDDLE of its work leaves - a
   half-written table - is outside this statement and outside the property: there is no board table to scan then.) *)
Theorem C11_lookups_under_a_stalled_writer : forall srt ops s v after,
  sorter_ok srt -> Forall op_ok ops -> run_hist srt ops fresh = Some s ->
  let s' := stall v s in
  bbusy s' = v /\ btbl s' = firstn (Z.to_nat MAXB) (file_recs s') /\
  (forall q, bytes_ok q = true -> exists b, st_get_bid after s' q = Ok b /\
     ((1 <= b <= lenZ (tnames s') /\ cstrcasecmp (boardid q) (boardid (nth (Z.to_nat (b - 1)) (tnames s') [])) = 0) \/
      (b = 0 /\ forall j, 0 <= j < lenZ (tnames s') -> cstrcasecmp (boardid q) (boardid (nth (Z.to_nat j) (tnames s') [])) <> 0))) /\
  (forall q asc, bytes_ok q = true -> exists r, st_find_by_name after s' q asc = Ok r /\
     ((1 <= r <= lenZ (snames s') /\ cmp_name (snames s') q (r - 1) = 0) \/ scan (cmp_name (snames s') q) (lenZ (snames s')) asc = Ok r)) /\
  Permutation.Permutation (tnames s') (snames s') /\ sorted_by less_name (snames s') = true.
Proof. exact stalled_lookups. Qed.
Print Assumptions C11_lookups_under_a_stalled_writer.

(* ... and by class, under the blank fifth title byte *)
Theorem C11_lookups_by_class_under_a_stalled_writer : forall srt ops s v after,
  sorter_ok srt -> Forall op_ok ops -> run_hist srt ops fresh = Some s ->
  Forall (fun r => nth 4 (rec_title5 r) 0 = 32 \/ nth 4 (rec_title5 r) 0 = 0) (btbl s) ->
  let s' := stall v s in
  forall cls q asc, bytes_ok cls = true -> bytes_ok q = true ->
  exists r, st_find_by_class after s' cls q asc = Ok r /\
    ((1 <= r <= lenZ (cnames s') /\ cmp_class (ctitles s') (cnames s') cls q (r - 1) = 0) \/
     scan (cmp_class (ctitles s') (cnames s') cls q) (lenZ (cnames s')) asc = Ok r).
Proof. exact stalled_lookups_class. Qed.
Print Assumptions C11_lookups_by_class_under_a_stalled_writer.
