(* C11 — Board lookup and board listings equal a scan of the board table.
   Only statements here; every proof is `exact <lemma of Proofs/C11.v or Base/OddSearch.v>`.
   Vocabulary: a table is given in the order of its sorted index; [cmp_name names q i] / [cmp_class .. i] is the
   comparison the code makes between the key and entry i (types.Cstrcasecmp on BoardID_t / cmpBoardByClass);
   [sorted_for_name names q] ([mono]) says the sign of that comparison never increases along the index, i.e. the
   index is sorted for this key; [scan c n asc] is the linear scan (first entry not below / last entry not above
   the key, 1-based, -1 = none); [core]/[search]/[find] (Base/OddSearch.v) are getBidBy*Core and FindBoardIdxBy*. *)
From Verif Require Import Base.Common Base.OddSearch Model.C11 Proofs.C11.

(* the odd binary search, for ANY comparison that is monotone along the array: it returns within its fuel, an
   exact answer is an entry equal to the key, and "not found" is given exactly when no entry equals the key *)
Theorem C11_search_exact : forall (c : Z -> Z) n, mono c n -> 0 <= n ->
  exists idx found, search c n = Ok (idx, found) /\
    (found = true -> 0 <= idx < n /\ c idx = 0) /\ (found = false -> forall i, 0 <= i < n -> c i <> 0).
Proof. exact search_exact. Qed.
Print Assumptions C11_search_exact.

(* GetBid: a name in any letter case yields the bid of a board whose name equals it ignoring case, or 0 iff none *)
Theorem C11_getbid : forall names bids q, sorted_for_name names q ->
  exists b, get_bid names bids q = Ok b /\
    ((exists idx, 0 <= idx < lenZ names /\ cmp_name names q idx = 0 /\ b = nth (Z.to_nat idx) bids 0) \/
     (b = 0 /\ forall i, 0 <= i < lenZ names -> cmp_name names q i <> 0)).
Proof. exact getbid. Qed.
Print Assumptions C11_getbid.

(* FindBoardIdxByName: an entry equal to the key if there is one, else exactly what the linear scan gives in the
   requested direction (-1 = none); in particular ascending below the first board is 1 (repaired, finding row 10) *)
Theorem C11_find_by_name : forall names q asc, sorted_for_name names q ->
  exists r, find_by_name names q asc = Ok r /\
    ((1 <= r <= lenZ names /\ cmp_name names q (r - 1) = 0) \/ scan (cmp_name names q) (lenZ names) asc = Ok r).
Proof. exact find_by_name_spec. Qed.
Print Assumptions C11_find_by_name.

(* FindBoardIdxByClass likewise, PROVIDED the by-class index is sorted for the comparison the search makes *)
Theorem C11_find_by_class : forall titles names cls q asc, sorted_for_class titles names cls q ->
  exists r, find_by_class titles names cls q asc = Ok r /\
    ((1 <= r <= lenZ names /\ cmp_class titles names cls q (r - 1) = 0) \/
     scan (cmp_class titles names cls q) (lenZ names) asc = Ok r).
Proof. exact find_by_class_spec. Qed.
Print Assumptions C11_find_by_class.

(* search_order_agrees, by name: the search compares exactly as the index was sorted (same function) *)
Theorem C11_search_order_agrees_name : forall names q i, 0 <= i ->
  (cmp_name names q i <? 0) = less_name q (nth (Z.to_nat i) names []).
Proof. exact search_order_agrees_name. Qed.
Print Assumptions C11_search_order_agrees_name.

(* ... by class it does NOT in general: sorted on Title[:4], searched on BoardClass() (Title[:5] when the fifth byte is
   not a blank). Known finding C11/find-by-class-nonblank-fifth-title-byte. *)
Theorem C11_find_by_class_refuted_nonblank_title_byte :
  exists titles names cls q,
    sorted_by less_class (combine titles names) = true /\
    find_by_class titles names cls q false = Ok (-1) /\
    scan (cmp_class titles names cls q) (lenZ names) false = Ok 2.
Proof. exact find_by_class_refuted_nonblank_title_byte. Qed.
Print Assumptions C11_find_by_class_refuted_nonblank_title_byte.

(* auto-completion is total: every prefix (empty, longer than a board name: repaired, finding row 20) gets an answer.
   PARTIAL: the functional half ("the first / last board carrying the prefix") is proved false in two classes below
   and otherwise only validated by the check (every pool prefix on every enumerated table). *)
Theorem C11_autocomplete_total_partial : forall (names : list (list Z)) (kw : list Z) (asc : bool),
  sorted_for_name names (if asc then kw else bump_last kw) -> exists r, autocomplete names kw asc = Ok r.
Proof. exact autocomplete_total. Qed.
Print Assumptions C11_autocomplete_total_partial.

(* descending with a prefix ending in 'Z': 'Z'+1 = '[' sorts below every letter. Known finding C11/autocomplete-desc-upper-Z *)
Theorem C11_autocomplete_refuted_desc_upper_Z :
  exists names kw, sorted_by less_name names = true /\ cmp_prefix names kw 2 = 0 /\ autocomplete names kw false = Ok (-1).
Proof. exact autocomplete_refuted_desc_upper_Z. Qed.
Print Assumptions C11_autocomplete_refuted_desc_upper_Z.

(* names equal up to case: the core stops on any twin. Known finding C11/autocomplete-case-twins *)
Theorem C11_autocomplete_refuted_case_twins :
  exists names kw, sorted_by less_name names = true /\ cmp_prefix names kw 0 = 0 /\ autocomplete names kw true = Ok 2.
Proof. exact autocomplete_refuted_case_twins. Qed.
Print Assumptions C11_autocomplete_refuted_case_twins.

(* page walk: with two boards whose names differ only in case the next-cursor (a name) resolves to the other twin and
   the by-name listing with page size 1 never ends. Known finding C11/listing-case-twins. The positive statement
   (names distinct up to case => pages concatenate to the visible boards in order) is validated, not proved. *)
Theorem C11_page_walk_refuted_case_twins :
  exists names k asc, sorted_by less_name names = true /\ (0 < k)%nat /\ page_walk names k asc = Hang.
Proof. exact page_walk_refuted_case_twins. Qed.
Print Assumptions C11_page_walk_refuted_case_twins.
