(* C12 — Creating boards keeps .BRD, the shared cache and the indexes coherent.
   Only statements here; every proof is `exact <lemma of Proofs/C12*.v>`.
   Vocabulary (Model/C12.v): a state [st] is (.BRD as 256-byte slots, shared-memory copy, moderator cache, both
   sorted indexes, board count, directory set); [create_board u s r os] is bbs.CreateBoard -> ptt.NewBoard -> mNewbrd
   -> addBoardRecord on state [s] for request [r]; [os] are the arrays sort.Sort produces (accepted only if they are
   sorted permutations); [wf] is the invariant every state reached from a reloaded table satisfies (C12_reload_wf,
   C12_history); [req_rec u r] is the 256-byte record the creation rules prescribe for [r]. *)
From Verif Require Import Base.Common Gen.Consts_default Model.C12 Proofs.C12.
Import ptttype.

(* an accepted request: the chosen slot's .BRD record is exactly the prescribed record; the shared-memory copy is that
   record too (for a hidden board seen by a non-sysop creator it differs in BRD_POSTMASK: see the refuted statement
   below); the moderator cache holds the existing moderators; the name resolves through GetBid to this slot and the
   slot is in the by-name index; the board count equals the number of slots of the file; the slot was a vacated one, or
   the next free one when no slot was vacated; every other slot is unchanged in file, cache and moderator cache *)
Theorem C12_accept : forall u s r os bid s' os', wf s -> create_board u s r os = Done 0 bid s' os' ->
  wf s' /\ 1 <= bid <= s_bnum s' /\ s_bnum s' = lenZ (s_file s') /\
  gets (s_file s') (bid - 1) = req_rec u r /\
  (gets (s_cache s') (bid - 1) = req_rec u r
   \/ (has (attr_of (req_rec u r)) BRD_HIDE = true /\ has (r_ulevel r) PERM_SYSOP = false /\
       gets (s_cache s') (bid - 1) = set_attr (req_rec u r) (Z.lor (attr_of (req_rec u r)) BRD_POSTMASK))) /\
  getn [0; 0; 0; 0] (s_bm s') (bid - 1) = parse_bm_list u (bm_of (req_rec u r)) /\
  get_bid s' (req_name r) = Ok bid /\
  In (bid - 1) (s_sn s') /\
  s_dirs s' = cprefix (req_name r) :: s_dirs s /\
  ((s_bnum s' = s_bnum s /\ casecmp zero13 (name_of (gets (s_cache s) (bid - 1))) = 0)
   \/ (s_bnum s' = s_bnum s + 1 /\ bid = s_bnum s + 1 /\ no_vacated s)) /\
  forall i, i <> bid - 1 ->
    gets (s_file s') i = gets (s_file s) i /\ gets (s_cache s') i = gets (s_cache s) i /\
    getn [0; 0; 0; 0] (s_bm s') i = getn [0; 0; 0; 0] (s_bm s) i.
Proof. exact accept. Qed.
Print Assumptions C12_accept.

(* the prescribed record carries the requested name, class + symbol + title, the existing requested moderators, the
   normalised attributes and level, and the parent *)
Theorem C12_record_fields : forall u r,
  0 <= norm_attr r < 4294967296 -> 0 <= norm_level r < 4294967296 -> 0 <= r_cls r < 4294967296 ->
  name_of (req_rec u r) = req_name r /\
  title_of (req_rec u r) = fixlen 4 (r_class r) ++ [32] ++ (if r_group r then [163; 85] else [161; 183]) ++ fixlen 42 (r_title r) /\
  bm_of (req_rec u r) = sanitize_bms u (new_bm (map (fixlen 13) (r_bms r))) /\
  attr_of (req_rec u r) = norm_attr r /\ level_of (req_rec u r) = norm_level r /\ gid_of (req_rec u r) = r_cls r.
Proof. exact rec_fields. Qed.
Print Assumptions C12_record_fields.

(* every other slot of .BRD is byte-identical, every other cache entry and moderator-cache entry unchanged *)
Theorem C12_frame : forall u s r os bid s' os', wf s -> create_board u s r os = Done 0 bid s' os' ->
  forall i, i <> bid - 1 ->
    gets (s_file s') i = gets (s_file s) i /\ gets (s_cache s') i = gets (s_cache s) i /\
    getn [0; 0; 0; 0] (s_bm s') i = getn [0; 0; 0; 0] (s_bm s) i.
Proof. exact frame. Qed.
Print Assumptions C12_frame.

(* invalid parent / no rights / malformed name / a name that exists in any letter case / no capacity: the request is
   refused and file, cache, indexes, count, moderator cache and directory set are all unchanged (the state is equal) *)
Theorem C12_refuse : forall u s r os, wf s ->
  bid_valid (r_cls r) = false \/ no_rights s r \/ is_valid_name (req_name r) = false \/ duplicate s r \/ no_capacity s ->
  exists code, code <> 0 /\ create_board u s r os = Done code 0 s os.
Proof. exact create_refuse. Qed.
Print Assumptions C12_refuse.

(* ... and whatever the reason of a refusal, nothing changes *)
Theorem C12_refusal_has_no_side_effect : forall u s r os code bid s' os', wf s ->
  create_board u s r os = Done code bid s' os' -> code <> 0 -> bid = 0 /\ s' = s /\ os' = os.
Proof. exact refuse_unchanged. Qed.
Print Assumptions C12_refusal_has_no_side_effect.

(* BoardID_t.IsValid on the 13-byte array is the rule of the property text (2..12 bytes of [A-Za-z0-9_.-] starting
   with a letter) applied to the C string in it; on NUL-free client bytes it is the rule applied to those bytes *)
Theorem C12_name_rule : forall raw, forallb (fun c => negb (c =? 0)) raw = true -> is_valid_name (fixlen 13 raw) = name_rule raw.
Proof. exact name_rule_raw. Qed.
Print Assumptions C12_name_rule.
Theorem C12_name_rule_array : forall n, is_valid_name n = name_rule (cprefix n).
Proof. exact name_rule_cprefix. Qed.
Print Assumptions C12_name_rule_array.

(* the by-name lookup on an invariant state is a scan of the table: it returns a slot whose name matches
   case-insensitively, or 0 exactly when there is none *)
Theorem C12_lookup_is_scan : forall s key, wf s ->
  (get_bid s key = Ok 0 /\ forall b, 0 <= b < s_bnum s -> casecmp key (name_of (gets (s_cache s) b)) <> 0)
  \/ (exists b, 0 <= b < s_bnum s /\ get_bid s key = Ok (b + 1) /\ casecmp key (name_of (gets (s_cache s) b)) = 0).
Proof. exact get_bid_spec. Qed.
Print Assumptions C12_lookup_is_scan.

(* the same for tables of ANY size: the hypotheses are only that the by-name index is a sorted permutation of the s_bnum
   slots - no bound by MAX_BOARD (100 in the default build, 20000 in the production build -tags docker, whose tables the
   check drives with 2000 .. 20000 boards). A lookup that gives up after a fixed number of probes contradicts this on
   every table deep enough (Proofs/C12_big.v: Example big_table_lookup, 2100 boards, the 14th probe finds the board). *)
Theorem C12_lookup_is_scan_any_size : forall s key,
  perm_ok (s_bnum s) (s_sn s) = true -> sorted_by (less_name (s_cache s)) (s_sn s) = true ->
  (get_bid s key = Ok 0 /\ forall b, 0 <= b < s_bnum s -> casecmp key (name_of (gets (s_cache s) b)) <> 0)
  \/ (exists b, 0 <= b < s_bnum s /\ get_bid s key = Ok (b + 1) /\ casecmp key (name_of (gets (s_cache s) b)) = 0).
Proof. exact get_bid_spec_any. Qed.
Print Assumptions C12_lookup_is_scan_any_size.

(* ... in the form the harness exercises (op 7 of the model: the names of a big table and the by-name index the
   implementation built, accepted by [lookup_ok] only if it is a sorted permutation): every answer is the scan's *)
Theorem C12_big_table_lookup_is_scan : forall names sn key, lookup_ok names sn = true ->
  let s := lookup_state names sn in
  (get_bid s key = Ok 0 /\ forall b, 0 <= b < lenZ names -> casecmp key (name_of (gets (s_cache s) b)) <> 0)
  \/ (exists b, 0 <= b < lenZ names /\ get_bid s key = Ok (b + 1) /\ casecmp key (name_of (gets (s_cache s) b)) = 0).
Proof. exact lookup_all_is_scan. Qed.
Print Assumptions C12_big_table_lookup_is_scan.

(* a request never crashes and never hangs (the search terminates within its fuel) *)
Theorem C12_no_crash_no_hang : forall u s r os, wf s -> create_board u s r os <> Crashed /\ create_board u s r os <> Hung.
Proof. exact create_total. Qed.
Print Assumptions C12_no_crash_no_hang.

(* any list of requests: the invariant and "board count = slots of the file" hold at the end, the count never shrinks,
   and every slot that no accepted request was placed in has its .BRD bytes and cache entry unchanged *)
Theorem C12_history : forall u rs s os c b s' os', wf s -> run_reqs u s rs os = Done c b s' os' ->
  wf s' /\ lenZ (s_file s') = s_bnum s' /\ s_bnum s <= s_bnum s' /\
  forall i, ~ In (i + 1) (accepted_bids u s rs os) ->
    gets (s_file s') i = gets (s_file s) i /\ gets (s_cache s') i = gets (s_cache s) i.
Proof. exact history. Qed.
Print Assumptions C12_history.

(* the states the harness starts from: ReloadBCache of any .BRD of at most MAX_BOARD whole slots *)
Theorem C12_reload_wf : forall slots dirs o s0, Forall (fun x => length x = 256%nat) slots -> lenZ slots <= MAXB ->
  reload slots dirs o = Some s0 -> wf s0 /\ s_file s0 = slots /\ s_cache s0 = map clear_fc slots /\ s_dirs s0 = dirs.
Proof. exact reload_wf. Qed.
Print Assumptions C12_reload_wf.

(* both index arrays are sorted permutations after every SortBCache the model accepts *)
Theorem C12_indexes_sorted_permutations : forall s o s', sort_bcache s o = Some s' ->
  perm_ok (s_bnum s') (s_sn s') = true /\ sorted_by (less_name (s_cache s)) (s_sn s') = true /\
  perm_ok (s_bnum s') (s_sc s') = true /\ sorted_by (less_class (s_cache s)) (s_sc s') = true.
Proof. exact sort_gives_sorted_permutations. Qed.
Print Assumptions C12_indexes_sorted_permutations.

(* "the shared-memory copy carries the attributes as normalised by the creation rules" is false of the faithful model:
   a hidden board created by a non-sysop gets BRD_POSTMASK set in the cache by LoadBoardSummary (newBoardStat) right
   after the creation rules cleared it; the .BRD record keeps it cleared. Known finding C12/accept:cache-postmask-on-hidden-board. *)
Theorem C12_cache_copy_equals_record_refuted :
  exists u s r os bid s' os', wf s /\ create_board u s r os = Done 0 bid s' os' /\
    attr_of (gets (s_cache s') (bid - 1)) <> attr_of (gets (s_file s') (bid - 1)).
Proof. exact cache_copy_equals_record_refuted. Qed.
Print Assumptions C12_cache_copy_equals_record_refuted.
