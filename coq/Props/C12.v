From Verif Require Import Base.Common Model.C12 Proofs.C12.
Theorem C12_placeholder : True. Proof. exact placeholder. Qed.
Print Assumptions C12_placeholder.
