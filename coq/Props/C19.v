(* C19 — Favourites survive save/load unchanged; a crash never leaves a torn file.
   Only statements here; every proof is `exact <lemma of Proofs/C19.v>`. *)
From Verif Require Import Base.Common Base.Fs Model.C19 Proofs.C19.

(* the process may die after any number n of the system calls of a save (create the temporary file, one write
   per chunk, rename): .fav then holds exactly what it held before, or exactly the complete new image *)
Theorem C19_crash_atomic : forall (f : fav) (cs : list chunk) (old : fs) (n : nat),
  file_chunks f = Ok cs ->
  let s' := exec old (firstn n (save_ops FN_TMP FN_FAV (map snd cs))) in
  lookup FN_FAV s' = lookup FN_FAV old \/ (file_image f = Ok (bytes_of cs) /\ lookup FN_FAV s' = Some (bytes_of cs)).
Proof. exact crash_atomic. Qed.
Print Assumptions C19_crash_atomic.
