(* C19 — Favourites survive save/load unchanged; a crash never leaves a torn file.
   Only statements here; every proof is `exact <lemma of Proofs/C19*.v>`.
   Model/C19.v: fav = (hdr * list item), item = IBoard | ILine | IFolder ... (hdr, list item);
   file_image = what Save writes (version word ++ WriteFavrec), load = fav.Load on a file content,
   renumber = what ReadFavrec does to line ids, folder ids, LineID, FolderID and FavNum.
   wf_fav (Proofs/C19_rt.v): every field within its Go type (int8/int16/int32), titles 49 bytes, and on every
   level 0 <= NBoards, NLines, NFolders and NBoards+NLines+NFolders = number of entries < 2^15.
   Consistent trees (Proofs/C19_api.v): level_ok h its = on one level NBoards/NLines/NFolders are the numbers of boards,
   lines and folders of its, LineID = NLines, FolderID = NFolders, the k-th line has Lid k, the k-th folder Fid k, fewer
   than 128 lines, 128 folders, 2^15 entries. sok_item z = payloads within their Go types and level_ok in every nested
   folder (z = true: and the FavNum cache of every nested folder is 0, which is what the API leaves there - only
   ReadFavrec fills it). lvl z f = level_ok at the root and sok_item z on every entry; sok_fav z f = lvl z f and fewer
   than 2^15 entries in the whole tree (total_items). fill_cache f = f with FavNum of the root and of every nested
   folder set to the number of entries below it; zero_item = an entry with the FavNum of every nested folder reset to 0. *)
From Verif Require Import Base.Common Base.Fs Gen.Consts_default Model.C19 Proofs.C19.

(* for EVERY well-formed tree (any nesting depth, any number of entries within the counter ranges): the save does not
   crash and loading the written file returns the tree with ids and derived counters renumbered ... *)
Theorem C19_roundtrip : forall f : fav, wf_fav f ->
  exists img, file_image f = Ok img /\ load img = ROk (renumber f).
Proof. exact roundtrip. Qed.
Print Assumptions C19_roundtrip.

(* ... and renumbering keeps every entry, the order, all payloads (attr, bid, LastVisit, board attr, titles) and
   the three counts of every level; only line ids, folder ids, LineID, FolderID, FavNum are recomputed *)
Theorem C19_roundtrip_same_entries : forall f : fav, shape (renumber f) = shape f.
Proof. exact renumber_shape. Qed.
Print Assumptions C19_roundtrip_same_entries.

(* EVERY tree reachable from NewFavRaw by a script of API calls - AddBoard / AddLine / AddFolder on the folder at any
   path (any depth), assignments to Attr / LastVisit / board Attr, in any order and number, the calls refused at the
   limits (ErrTooManyLines at 64 lines, ErrTooManyFolders at 64 folders of a level, ErrTooManyFavs at 1024 entries,
   ErrInvalidBid) included; run_script is the function the harness runs against ptt/fav - is well-formed, has
   consistent counters and sequential ids on every level, Root.FavNum = number of entries <= MAX_FAV, and the reader's
   renumbering changes nothing in it except that it fills the FavNum cache of the nested folders:
   fst (renumber t) = fst t (all six root counters) and resetting those caches gives back exactly the entries of t. *)
Theorem C19_api_trees_wellformed : forall (ops : list (list Z)) (t : fav) (n : Z),
  run_script ops empty_fav 0 = Some (t, n) ->
  wf_fav t /\ sok_fav true t /\ h_favnum (fst t) = total_items (snd t) /\ total_items (snd t) <= ptt_fav.MAX_FAV /\
  renumber t = fill_cache t /\ fst (fill_cache t) = fst t /\ map zero_item (snd (fill_cache t)) = snd t.
Proof. exact api_trees_wellformed. Qed.
Print Assumptions C19_api_trees_wellformed.

(* hence: writing such a tree and loading the file SUCCEEDS and returns the same entries in the same order with the same
   payloads, Lid/Fid, and the same NBoards/NLines/NFolders/LineID/FolderID on every level and the same Root.FavNum
   (t' equals t once the nested FavNum caches, 0 in t, are reset); and t' written and loaded again is t' exactly.
   (The literal "renumber t = t" is false for an API-built tree with a non-empty nested folder, because of that cache:
   C19_api_subfolder_cache_differs below.) *)
Theorem C19_api_roundtrip_identity : forall (ops : list (list Z)) (t : fav) (n : Z),
  run_script ops empty_fav 0 = Some (t, n) ->
  exists img t', file_image t = Ok img /\ load img = ROk t' /\
    fst t' = fst t /\ map zero_item (snd t') = snd t /\
    exists img', file_image t' = Ok img' /\ load img' = ROk t'.
Proof. exact api_roundtrip_identity. Qed.
Print Assumptions C19_api_roundtrip_identity.

Theorem C19_api_subfolder_cache_differs : exists ops t n,
  run_script ops empty_fav 0 = Some (t, n) /\ renumber t <> t /\ renumber (renumber t) = renumber t.
Proof. exact api_renumber_not_identity. Qed.
Print Assumptions C19_api_subfolder_cache_differs.

(* the same for every tree with consistent counters, however it was made (e.g. one that has been loaded): the round
   trip only fills the FavNum caches, and a tree whose caches are filled is an exact fixed point of save/load *)
Theorem C19_consistent_roundtrip : forall (z : bool) (f : fav), sok_fav z f ->
  wf_fav f /\ renumber f = fill_cache f /\ wf_fav (fill_cache f) /\ renumber (fill_cache f) = fill_cache f.
Proof. exact consistent_roundtrip. Qed.
Print Assumptions C19_consistent_roundtrip.

(* the bytes follow the pttbbs .fav format: version word, counts (int16, int8, int8), the entries of the level
   (type, attr, then 12-byte board = 9 packed + 3 zero | 1-byte line | fid + 49-byte title), then each folder's
   sub-tree depth first (spec_file / spec_fav / entry_bytes in Model/C19.v spell this out) *)
Theorem C19_format : forall f : fav, wf_fav f -> file_image f = Ok (spec_file f).
Proof. exact format. Qed.
Print Assumptions C19_format.

Theorem C19_format_entry_sizes : forall i : item, wf_item i ->
  length (entry_bytes i) = match i with IBoard _ _ _ _ => 14%nat | ILine _ _ => 3%nat | IFolder _ _ _ _ _ => 52%nat end.
Proof. exact entry_sizes. Qed.
Print Assumptions C19_format_entry_sizes.

(* loading ANY list of numbers as file content returns a tree or an error: no panic (RCrash), no non-termination
   (RFuel: the fuel Load gives the reader, the file length + 1, always suffices) *)
Theorem C19_read_total : forall bs : list Z, (exists f, load bs = ROk f) \/ (exists e, load bs = RErr e).
Proof. exact read_total. Qed.
Print Assumptions C19_read_total.

(* the process may die after any number n of the system calls of a save (create the temporary file, one write per
   chunk, rename): .fav then holds exactly what it held before, or exactly the complete new image.
   Assumption (Base/Fs.v): each system call is atomic w.r.t. the process dying; rename replaces the target in one step. *)
Theorem C19_crash_atomic : forall (f : fav) (cs : list chunk) (old : fs) (n : nat),
  file_chunks f = Ok cs ->
  let s' := exec old (firstn n (save_ops FN_TMP FN_FAV (map snd cs))) in
  lookup FN_FAV s' = lookup FN_FAV old \/ (file_image f = Ok (bytes_of cs) /\ lookup FN_FAV s' = Some (bytes_of cs)).
Proof. exact crash_atomic. Qed.
Print Assumptions C19_crash_atomic.

(* cleanup (rebuildFav when some entry lost FAVH_FAV) on EVERY tree with consistent counters - in particular every tree
   the API scripts above produce, where Attr assignments drop FAVH_FAV anywhere: it does not panic, and in the result
   - the entries are exactly the entries of f that have FAVH_FAV, recursively (an invalid folder goes with everything
     below it), in the same order, with the same payloads (skel_items f = the valid entries of f with ids and counters
     forgotten; skel_item = the same of one entry) and no invalid entry is left (need_rebuild = false);
   - on every level NBoards/NLines/NFolders = the numbers of boards/lines/folders, LineID = NLines, FolderID = NFolders,
     line and folder ids count 1, 2, ... in order (lvl z f'), so the result is well-formed (wf_fav f');
   - FavNum is not touched (the code does not recompute it; the reload after the save does). *)
Theorem C19_cleanup : forall (z : bool) (f : fav), lvl z f ->
  exists f', cleanup f = Ok f' /\
    map skel_item (snd f') = skel_items (snd f) /\ need_rebuild f' = false /\
    lvl z f' /\ wf_fav f' /\ h_favnum (fst f') = h_favnum (fst f).
Proof. exact cleanup_spec. Qed.
Print Assumptions C19_cleanup.

(* the hypothesis is needed: on a level whose real number of lines does not fit NLines (int8) the rebuild panics
   (200 valid lines: slice bounds out of range) or silently drops every entry (256 valid lines). Such levels cannot be
   built through the API (C19_api_trees_wellformed) but can be read from a crafted .fav. *)
Theorem C19_cleanup_needs_consistent_counters :
  rebuild (Hdr 200 0 0 0 0 0, ILine 0 0 :: repeat (ILine 1 0) 200) = Crash /\
  exists f', rebuild (Hdr 256 0 0 0 0 0, ILine 0 0 :: repeat (ILine 1 0) 256) = Ok f' /\ snd f' = [].
Proof. exact rebuild_needs_bounds. Qed.
Print Assumptions C19_cleanup_needs_consistent_counters.

(* The whole Save of Model/C19.v (cleanup -> mtime decision -> temporary file -> rename -> reload), for EVERY tree f with
   consistent counters in memory, over an existing .fav that is the image of some well-formed tree fo, for every
   outcome rel of the mtime comparison. save_syscalls rel old f (Proofs/C19_save.v) is the list of system calls that
   save hands to the file-system model: Create tmp, one Write per chunk of the cleaned tree, Rename tmp .fav when the
   gate lets it write (no .fav yet, or rel > 0), and no call at all otherwise.
   - cleanup succeeds (f1), and for EVERY number n of system calls executed before the process dies, Load of what is
     then in .fav SUCCEEDS and returns either the old tree (renumber fo: fo as a reader sees it) or the new tree
     (renumber f1) - never an error, never a mixture; the new one only if the gate let the save write;
   - a save that runs to its end returns the reloaded new tree / the cleaned tree in memory (equal mtime) / the tree
     reloaded from the untouched file (older), and what it reports as the content of .fav is what the complete
     system-call list leaves.
   Assumption as for C19_crash_atomic (Base/Fs.v): system calls are atomic w.r.t. the process dying, rename replaces
   the target in one step, written data survives the death of the process. *)
Theorem C19_save_sequence : forall (z : bool) (f : fav) (rel : Z) (fo : fav) (c : list Z),
  lvl z f -> wf_fav fo -> file_image fo = Ok c ->
  exists f1, cleanup f = Ok f1 /\ wf_fav f1 /\
    (forall n, let disk := exec [(FN_FAV, c)] (firstn n (save_syscalls rel (Some c) f)) in
       (lookup FN_FAV disk = Some c /\ load c = ROk (renumber fo)) \/
       (0 < rel /\ lookup FN_FAV disk = Some (spec_file f1) /\ load (spec_file f1) = ROk (renumber f1))) /\
    save rel (Some c) f = (if 0 <? rel then SOk (Some (spec_file f1)) (renumber f1)
                           else if rel =? 0 then SOk (Some c) f1 else SOk (Some c) (renumber fo)) /\
    image_of (save rel (Some c) f) = lookup FN_FAV (exec [(FN_FAV, c)] (save_syscalls rel (Some c) f)).
Proof. exact save_sequence. Qed.
Print Assumptions C19_save_sequence.

(* the first save (no .fav yet): after any prefix there is still no .fav, or the complete new image that loads *)
Theorem C19_save_sequence_fresh : forall (z : bool) (f : fav) (rel : Z), lvl z f ->
  exists f1, cleanup f = Ok f1 /\ wf_fav f1 /\
    (forall n, let disk := exec [] (firstn n (save_syscalls rel None f)) in
       lookup FN_FAV disk = None \/
       (lookup FN_FAV disk = Some (spec_file f1) /\ load (spec_file f1) = ROk (renumber f1))) /\
    save rel None f = SOk (Some (spec_file f1)) (renumber f1) /\
    image_of (save rel None f) = lookup FN_FAV (exec [] (save_syscalls rel None f)).
Proof. exact save_sequence_fresh. Qed.
Print Assumptions C19_save_sequence_fresh.

(* The save over ANY initial content of the user's home directory - every initial disk state of a save: no .fav
   (new account), no .fav but a .fav4 waiting for its conversion, an existing .fav (older / newer / same mtime, same
   or different content, well-formed or not), a temporary file left behind by an earlier crash (under another name,
   or under the very name this save takes: Create truncates it), any other files. save_syscalls rel old f
   (Model/C19.v) is the system-call list derived the way FavRaw.Save derives it (the temporary name is taken whether or
   not .fav exists) and is the list run_case op 7 replays prefix by prefix against the directory that the child
   processes of the harness leave behind. For EVERY tree f with consistent counters and EVERY number n of system calls
   executed before the process dies:
   - .fav is exactly as before (absent if it was absent), or - only if the gate lets the save write - exactly the
     complete new image, which Load accepts and reads as the new tree; never a torn file;
   - no file other than .fav and the temporary file is touched (.fav4, stale temporary files, anything else);
   and the complete list leaves the new image (or, gate closed, the old state). Assumption: Base/Fs.v as above. *)
Theorem C19_save_any_disk : forall (z : bool) (f : fav) (rel : Z) (disk : fs), lvl z f ->
  exists f1, cleanup f = Ok f1 /\ wf_fav f1 /\
    (forall n, let disk' := exec disk (firstn n (save_syscalls rel (lookup FN_FAV disk) f)) in
       (lookup FN_FAV disk' = lookup FN_FAV disk \/
        (writes rel (lookup FN_FAV disk) = true /\ lookup FN_FAV disk' = Some (spec_file f1) /\
         load (spec_file f1) = ROk (renumber f1))) /\
       (forall m, m <> FN_FAV -> m <> FN_TMP -> lookup m disk' = lookup m disk)) /\
    lookup FN_FAV (exec disk (save_syscalls rel (lookup FN_FAV disk) f)) =
      (if writes rel (lookup FN_FAV disk) then Some (spec_file f1) else lookup FN_FAV disk).
Proof. exact save_any_disk. Qed.
Print Assumptions C19_save_any_disk.

(* hence Load succeeds after a death at any point of such a save whenever it succeeded before it: if .fav was absent or
   the image of a well-formed tree, then afterwards .fav is absent only if it was absent before, and otherwise loads *)
Theorem C19_save_any_disk_loads : forall (z : bool) (f : fav) (rel : Z) (disk : fs), lvl z f ->
  (forall c, lookup FN_FAV disk = Some c -> exists fo, wf_fav fo /\ file_image fo = Ok c) ->
  forall n, match lookup FN_FAV (exec disk (firstn n (save_syscalls rel (lookup FN_FAV disk) f))) with
            | None => lookup FN_FAV disk = None
            | Some c => exists t, load c = ROk t
            end.
Proof. exact save_any_disk_loads. Qed.
Print Assumptions C19_save_any_disk_loads.

(* the temporary file is needed on the FIRST save too ("there is nothing to protect" is wrong): for EVERY tree, writing
   .fav in place (Create .fav, the same writes, no rename) passes through a directory in which .fav holds only the
   version word - neither absent nor the complete image - and Load fails on it. A statement about the alternative
   system-call list, showing that C19_save_any_disk distinguishes the two. *)
Theorem C19_first_save_needs_tempfile : forall (f : fav) (cs : list chunk), file_chunks f = Ok cs ->
  let torn := le16 ptt_fav.FAV_VERSION in
  lookup FN_FAV (exec [] (firstn 2 (inplace_ops (map snd cs)))) = Some torn /\
  Some torn <> @None (list Z) /\ file_image f <> Ok torn /\ exists e, load torn = RErr e.
Proof. exact first_save_needs_tempfile. Qed.
Print Assumptions C19_first_save_needs_tempfile.

(* exactly what the harness runs against ptt/fav (run_case op 1: a script of API calls, then Save into an empty home):
   Save returns the cleaned tree t1 with the FavNum caches filled, t1 = the valid entries of t in order with counters =
   counts on every level; and when no entry lost FAVH_FAV the returned tree is t itself up to the nested FavNum caches *)
Theorem C19_api_save_load : forall (ops : list (list Z)) (t : fav) (n : Z),
  run_script ops empty_fav 0 = Some (t, n) ->
  exists t1, cleanup t = Ok t1 /\
    save 1 None t = SOk (Some (spec_file t1)) (fill_cache t1) /\
    map skel_item (snd t1) = skel_items (snd t) /\ lvl true t1 /\
    (need_rebuild t = false -> t1 = t /\ fst (fill_cache t) = fst t /\ map zero_item (snd (fill_cache t)) = snd t).
Proof. exact api_save_load. Qed.
Print Assumptions C19_api_save_load.

(* Several Saves of several users in ONE process (Model/C19.v: hstep, step_syscalls, run_hist; run_case op 8 is what the
   harness replays against ptt/fav). The homes share one file system, file n of user u's home has the name uname u n.
   A history is any list of steps: HSave u f (an ordinary Save of user u), HRefused u f k (a Save that is refused or fails
   after k bytes of the image went into its temporary file - an entry whose payload does not match its type, a failing
   write -: the temporary file holds those k bytes, there is no rename), HNoHome u f (the temporary file cannot be
   created). last_saved u h (Proofs/C19_hist.v) = the tree of the last HSave of user u in h.
   For EVERY history of trees with consistent counters, over ANY initial file system, and every user u: .fav of u is
   exactly the image of the cleaned tree of u's last ordinary Save - nothing of any refused or failed Save, of u or of
   anybody else, before or after it, is in it - and Load reads it as that tree; a user without an ordinary Save has the
   .fav it had before. (Applied to every prefix of h this holds at every moment of the history.) *)
Theorem C19_save_history : forall (z : bool) (h : list hstep),
  Forall (fun st => lvl z (step_tree st)) h ->
  forall (disk : fs) (u : Z),
  match last_saved u h with
  | None => lookup (uname u FN_FAV) (run_hist h disk) = lookup (uname u FN_FAV) disk
  | Some f => exists f1, cleanup f = Ok f1 /\ wf_fav f1 /\
                lookup (uname u FN_FAV) (run_hist h disk) = Some (spec_file f1) /\
                load (spec_file f1) = ROk (renumber f1)
  end.
Proof. exact save_history. Qed.
Print Assumptions C19_save_history.

(* one step of such a history, over ANY file system (whatever the earlier Saves left there): an ordinary Save returns the
   reloaded cleaned tree, leaves exactly its image in the user's .fav and touches no file but that .fav and its own
   temporary file; a refused Save touches nothing but its own temporary file *)
Theorem C19_save_step : forall (z : bool) (u : Z) (f : fav) (disk : fs), lvl z f ->
  exists f1, cleanup f = Ok f1 /\ wf_fav f1 /\
    save 1 (lookup (uname u FN_FAV) disk) f = SOk (Some (spec_file f1)) (renumber f1) /\
    lookup (uname u FN_FAV) (exec disk (step_syscalls (HSave u f))) = Some (spec_file f1) /\
    load (spec_file f1) = ROk (renumber f1) /\
    (forall m, m <> uname u FN_FAV -> m <> uname u FN_TMP ->
       lookup m (exec disk (step_syscalls (HSave u f))) = lookup m disk).
Proof. exact save_step. Qed.
Print Assumptions C19_save_step.

Theorem C19_refused_save_frame : forall (u : Z) (f : fav) (k : nat) (disk : fs) (m : Z), m <> uname u FN_TMP ->
  lookup m (exec disk (step_syscalls (HRefused u f k))) = lookup m disk.
Proof. exact refused_step_frame. Qed.
Print Assumptions C19_refused_save_frame.

(* How large a legal .fav is. EVERY tree built through the API (<= MAX_FAV = 1024 entries, any mix of boards, lines and
   folders at any depth) is written as a file of at most 6 + 56 * MAX_FAV = 57350 bytes - an entry costs at most 56 bytes:
   a folder is 52 bytes plus the 4 bytes of counts of its own record, a board 14, a line 3 - and Load reads that file
   back as the tree ... *)
Theorem C19_api_image_size : forall (ops : list (list Z)) (t : fav) (n : Z),
  run_script ops empty_fav 0 = Some (t, n) ->
  file_image t = Ok (spec_file t) /\ lenZ (spec_file t) <= 6 + 56 * ptt_fav.MAX_FAV /\
  load (spec_file t) = ROk (renumber t).
Proof. exact api_image_size. Qed.
Print Assumptions C19_api_image_size.

(* ... the bound is reached (64 folders of 15 folders each: 1024 entries, 57350 bytes), so no reader may refuse files below
   it; in particular the size of 1024 boards (6 + 1024 * 14 = 14342 bytes) is NOT an upper bound: 16 folders of 62 boards
   are 1008 entries and 14790 bytes. grid_script (Proofs/C19_size.v) builds these shapes; the harness saves and loads the same
   shapes (other titles) and further trees near the limits through ptt/fav on every run. *)
Theorem C19_largest_image : exists t,
  run_script (grid_script 64 15 0) empty_fav 0 = Some (t, 0) /\ total_items (snd t) = ptt_fav.MAX_FAV /\
  lenZ (spec_file t) = 6 + 56 * ptt_fav.MAX_FAV /\ load (spec_file t) = ROk (renumber t).
Proof. exact largest_image. Qed.
Print Assumptions C19_largest_image.

Theorem C19_folders_beat_boards : exists t,
  run_script (grid_script 16 0 62) empty_fav 0 = Some (t, 0) /\ total_items (snd t) = 1008 /\
  lenZ (spec_file t) = 14790 /\ 6 + ptt_fav.MAX_FAV * 14 < 14790 /\ load (spec_file t) = ROk (renumber t).
Proof. exact folders_beat_boards. Qed.
Print Assumptions C19_folders_beat_boards.

(* Kill points at SYSTEM-CALL granularity. The harness runs the saving child under ptrace(2), records every file-system
   call of the save as the kernel sees it (open for writing, write, rename, unlink, ...) and kills the child at the
   entry of the k-th call, for every k (run_case op 9). A call list is a list of Model/C19.v `call` (the operations of
   Base/Fs.v plus unlink), executed by cexec; save_calls is the list of FavRaw.Save as coded - compared call by call
   with what ptrace recorded. For EVERY consistent tree, EVERY initial directory and EVERY number n of calls executed
   before the kill: .fav is exactly as before or exactly the complete new image, which Load reads as the new tree, and
   no other file but the temporary one changes ... *)
Theorem C19_save_calls_any_disk : forall (z : bool) (f : fav) (rel : Z) (disk : fs), lvl z f ->
  exists f1, cleanup f = Ok f1 /\ wf_fav f1 /\
    (forall n, let disk' := cexec disk (firstn n (save_calls rel (lookup FN_FAV disk) f)) in
       (lookup FN_FAV disk' = lookup FN_FAV disk \/
        (writes rel (lookup FN_FAV disk) = true /\ lookup FN_FAV disk' = Some (spec_file f1) /\
         load (spec_file f1) = ROk (renumber f1))) /\
       (forall m, m <> FN_FAV -> m <> FN_TMP -> lookup m disk' = lookup m disk)).
Proof. exact save_calls_any_disk. Qed.
Print Assumptions C19_save_calls_any_disk.

(* ... in particular an existing .fav is there at the entry of every call of the save. *)
Theorem C19_save_calls_keep_fav : forall (z : bool) (f : fav) (rel : Z) (disk : fs) (c : list Z),
  lvl z f -> lookup FN_FAV disk = Some c ->
  forall n, lookup FN_FAV (cexec disk (firstn n (save_calls rel (lookup FN_FAV disk) f))) <> None.
Proof. exact save_calls_keep_fav. Qed.
Print Assumptions C19_save_calls_keep_fav.

(* Why the kill points must be the system calls and not the steps of the source: a save whose last STEP is a "force
   rename" (unlink the target if it exists, then rename(2) - one call in the source, two calls for the kernel) has, for
   EVERY tree and EVERY existing .fav that the gate lets it replace, a kill point (the entry of the final rename) at
   which the directory holds no .fav at all - neither the complete old nor the complete new version - although the
   completed list leaves a .fav. A statement about the alternative call list, showing that the sweep of op 9
   distinguishes the two (the same list differs from save_calls by the one unlink that ptrace shows). *)
Theorem C19_force_rename_torn : forall (z : bool) (f : fav) (rel : Z) (disk : fs) (c : list Z),
  lvl z f -> lookup FN_FAV disk = Some c -> 0 < rel ->
  let cs := force_rename_calls rel (Some c) f in
  exists n, (n < length cs)%nat /\ lookup FN_FAV (cexec disk (firstn n cs)) = None /\
            lookup FN_FAV (cexec disk cs) <> None.
Proof. exact force_rename_torn. Qed.
Print Assumptions C19_force_rename_torn.
