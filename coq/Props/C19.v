(* C19 — Favourites survive save/load unchanged; a crash never leaves a torn file.
   Only statements here; every proof is `exact <lemma of Proofs/C19*.v>`.
   Model/C19.v: fav = (hdr * list item), item = IBoard | ILine | IFolder ... (hdr, list item);
   file_image = what Save writes (version word ++ WriteFavrec), load = fav.Load on a file content,
   renumber = what ReadFavrec does to line ids, folder ids, LineID, FolderID and FavNum.
   wf_fav (Proofs/C19_rt.v): every field within its Go type (int8/int16/int32), titles 49 bytes, and on every
   level 0 <= NBoards, NLines, NFolders and NBoards+NLines+NFolders = number of entries < 2^15. *)
From Verif Require Import Base.Common Base.Fs Model.C19 Proofs.C19.

(* for EVERY well-formed tree (any nesting depth, any number of entries within the counter ranges): the save does not
   crash and loading the written file returns the tree with ids and derived counters renumbered ... *)
Theorem C19_roundtrip : forall f : fav, wf_fav f ->
  exists img, file_image f = Ok img /\ load img = ROk (renumber f).
Proof. exact roundtrip. Qed.
Print Assumptions C19_roundtrip.

(* ... and renumbering keeps every entry, the order, all payloads (attr, bid, LastVisit, board attr, titles) and
   the three counts of every level; only line ids, folder ids, LineID, FolderID, FavNum are recomputed *)
Theorem C19_roundtrip_same_entries : forall f : fav, shape (renumber f) = shape f.
Proof. exact renumber_shape. Qed.
Print Assumptions C19_roundtrip_same_entries.

(* NOT proved here, validated by the check on every run (predicate "api-ids" and the correspondence of the Add* model):
   trees built by NewFavRaw/AddBoard/AddLine/AddFolder are well-formed and renumber leaves their ids, LineID, FolderID
   and the root FavNum unchanged (sub-folder FavNum is a cache that only the reader fills):
     forall script, run_script script empty_fav 0 = Some (t, n) -> wf_fav t /\ strip_sub_favnum (renumber t) = strip_sub_favnum t. *)

(* the bytes follow the pttbbs .fav format: version word, counts (int16, int8, int8), the entries of the level
   (type, attr, then 12-byte board = 9 packed + 3 zero | 1-byte line | fid + 49-byte title), then each folder's
   sub-tree depth first (spec_file / spec_fav / entry_bytes in Model/C19.v spell this out) *)
Theorem C19_format : forall f : fav, wf_fav f -> file_image f = Ok (spec_file f).
Proof. exact format. Qed.
Print Assumptions C19_format.

Theorem C19_format_entry_sizes : forall i : item, wf_item i ->
  length (entry_bytes i) = match i with IBoard _ _ _ _ => 14%nat | ILine _ _ => 3%nat | IFolder _ _ _ _ _ => 52%nat end.
Proof. exact entry_sizes. Qed.
Print Assumptions C19_format_entry_sizes.

(* loading ANY list of numbers as file content returns a tree or an error: no panic (RCrash), no non-termination
   (RFuel: the fuel Load gives the reader, the file length + 1, always suffices) *)
Theorem C19_read_total : forall bs : list Z, (exists f, load bs = ROk f) \/ (exists e, load bs = RErr e).
Proof. exact read_total. Qed.
Print Assumptions C19_read_total.

(* the process may die after any number n of the system calls of a save (create the temporary file, one write per
   chunk, rename): .fav then holds exactly what it held before, or exactly the complete new image.
   Assumption (Base/Fs.v): each system call is atomic w.r.t. the process dying; rename replaces the target in one step. *)
Theorem C19_crash_atomic : forall (f : fav) (cs : list chunk) (old : fs) (n : nat),
  file_chunks f = Ok cs ->
  let s' := exec old (firstn n (save_ops FN_TMP FN_FAV (map snd cs))) in
  lookup FN_FAV s' = lookup FN_FAV old \/ (file_image f = Ok (bytes_of cs) /\ lookup FN_FAV s' = Some (bytes_of cs)).
Proof. exact crash_atomic. Qed.
Print Assumptions C19_crash_atomic.

(* NOT proved (kept as the full statement; validated by the check through trees with FAVH_FAV dropped on random
   entries, predicate "roundtrip" = the returned tree is exactly the valid entries in order with counters = counts):
   C19_cleanup : forall f f', cleanup f = Ok f' ->
     entries f' = the entries of f whose attr has FAVH_FAV, recursively, in the same order /\
     on every level NBoards/NLines/NFolders = number of boards/lines/folders, LineID = NLines, FolderID = NFolders. *)
