(* C12 — creating boards. Executable model of
     bbs/create_board.go   CreateBoard (name / moderator-list marshalling)
     ptt/board.go          NewBoard, groupOp, LoadBoardSummary's post-mask side effect (newBoardStat)
     ptt/admin.go          mNewbrd, addBoardRecord
     ptt/stuff.go          is_uBM
     ptttype/types.go      BoardID_t.IsValid, NewBM
     cache/cache_board.go  GetBid (getBidByNameCore), ResetBoard, buildBMCache/ParseBMList, SanitizeBMs,
                           AddbrdTouchCache, SortBCache, ReloadBCache
     cmsys/record.go       AppendRecord, SubstituteRecord (0-based slot argument as written)
     types/cstr.go         Cstrcmp, Cstrcasecmp
   State: .BRD as a list of 256-byte slots, the shared-memory copy, the moderator cache, both sorted
   indexes, the board count and the set of board directories. sort.Sort is library code: the sorted
   arrays are oracle inputs (what the implementation produced) that the model accepts only if they are
   sorted permutations. *)
From Verif Require Import Base.Common Gen.Consts_default.
Import ptttype.

Definition slot := list Z.
Definition SLOT_SZ : nat := 256.
Definition zero_slot : slot := repeat 0 SLOT_SZ.
Definition MAXB : Z := MAX_BOARD.

(* ------------------------------------------------------------------ bytes, C strings *)
Definition le32 (v : Z) : list Z := [v mod 256; (v / 256) mod 256; (v / 65536) mod 256; (v / 16777216) mod 256].
Definition rd32 (l : list Z) : Z := nth 0 l 0 + 256 * nth 1 l 0 + 65536 * nth 2 l 0 + 16777216 * nth 3 l 0.
Definition sub (off n : nat) (s : list Z) : list Z := firstn n (skipn off s).

Definition tolower (c : Z) : Z := if (65 <=? c) && (c <=? 90) then c + 32 else c.
Definition isalpha (c : Z) : bool := ((65 <=? c) && (c <=? 90)) || ((97 <=? c) && (c <=? 122)).
Definition isdigit (c : Z) : bool := (48 <=? c) && (c <=? 57).
Definition isalnum (c : Z) : bool := isalpha c || isdigit c.

(* types.Cstrcmp on two slices (either may lack the NUL) *)
Fixpoint cstrcmp (a b : list Z) : Z :=
  match a, b with
  | [], [] => 0
  | [], y :: _ => - y
  | x :: _, [] => x
  | x :: xs, y :: ys => if x =? 0 then - y else if x =? y then cstrcmp xs ys else x - y
  end.
Definition casecmp (a b : list Z) : Z := cstrcmp (map tolower a) (map tolower b).
Definition cstrlen (a : list Z) : nat := length (cprefix a).

(* ------------------------------------------------------------------ record layout (BoardHeaderRaw, 256 bytes) *)
Definition O_NAME := 0%nat.   Definition L_NAME := 13%nat.
Definition O_TITLE := 13%nat. Definition L_TITLE := 49%nat.
Definition O_BM := 62%nat.    Definition L_BM := 39%nat.
Definition O_ATTR := 104%nat.
Definition O_CHESS := 108%nat.
Definition O_LEVEL := 124%nat.
Definition O_GID := 132%nat.
Definition O_FC := 144%nat.   (* FirstChild [2]int32 *)

Definition name_of (s : slot) : list Z := sub O_NAME L_NAME s.
Definition title_of (s : slot) : list Z := sub O_TITLE L_TITLE s.
Definition bm_of (s : slot) : list Z := sub O_BM L_BM s.
Definition attr_of (s : slot) : Z := rd32 (sub O_ATTR 4 s).
Definition chess_of (s : slot) : Z := nth O_CHESS s 0.
Definition level_of (s : slot) : Z := rd32 (sub O_LEVEL 4 s).
Definition gid_of (s : slot) : Z := rd32 (sub O_GID 4 s).

(* the record mNewbrd serialises: every field it does not set is zero *)
Definition mk_rec (name title bm : list Z) (attr chess level gid : Z) : slot :=
  fixlen 13 name ++ fixlen 49 title ++ fixlen 39 bm ++ [0; 0; 0] ++ le32 attr ++ [chess mod 256] ++ repeat 0 15
  ++ le32 level ++ [0; 0; 0; 0] ++ le32 gid ++ repeat 0 120.

(* a slot of an initial table as the harness writes it: the fields above, every other byte = fill *)
Definition mk_init (name title bm : list Z) (attr chess level gid fill : Z) : slot :=
  fixlen 13 name ++ fixlen 49 title ++ fixlen 39 bm ++ [fill; fill; fill] ++ le32 attr ++ [chess mod 256] ++ repeat fill 15
  ++ le32 level ++ repeat fill 4 ++ le32 gid ++ repeat fill 120.

Definition splice (s : slot) (off : nat) (v : list Z) : slot :=
  firstn off s ++ v ++ skipn (off + length v) s.
(* SortBCache: FirstChild[0..1] = 0 *)
Definition clear_fc (s : slot) : slot := splice s O_FC (repeat 0 8).
Definition set_attr (s : slot) (a : Z) : slot := splice s O_ATTR (le32 a).

(* ------------------------------------------------------------------ lists of slots *)
Definition getn {A} (d : A) (l : list A) (i : Z) : A := if i <? 0 then d else nth (Z.to_nat i) l d.
Definition gets (l : list slot) (i : Z) : slot := getn zero_slot l i.

(* write element i (0-based); a position beyond the end leaves a hole of d (sparse file / untouched zero memory) *)
Fixpoint setn {A} (d : A) (l : list A) (i : nat) (v : A) : list A :=
  match i, l with
  | O, [] => [v]
  | O, _ :: r => v :: r
  | S i', [] => d :: setn d [] i' v
  | S i', x :: r => x :: setn d r i' v
  end.

Fixpoint map_firstn {A} (f : A -> A) (n : nat) (l : list A) : list A :=
  match n, l with
  | S n', x :: r => f x :: map_firstn f n' r
  | _, _ => l
  end.

(* ------------------------------------------------------------------ state *)
Record st := mkSt {
  s_file : list slot;        (* .BRD, whole slots *)
  s_cache : list slot;       (* Shm.BCache (entries beyond the list are zero) *)
  s_bm : list (list Z);      (* Shm.BMCache, 4 uids per entry *)
  s_sn : list Z;             (* BSorted[BSORT_BY_NAME][:bnumber] *)
  s_sc : list Z;             (* BSorted[BSORT_BY_CLASS][:bnumber] *)
  s_bnum : Z;                (* Shm.BNumber *)
  s_dirs : list (list Z)     (* names of the directories under boards/<c>/ *)
}.

Definition users := list (Z * list Z).     (* (uid, 13-byte id) — the user index restricted to the ids a case mentions *)

(* ------------------------------------------------------------------ sorting (oracle) *)
Definition less_name (c : list slot) (a b : Z) : bool := casecmp (name_of (gets c a)) (name_of (gets c b)) <? 0.
Definition less_class (c : list slot) (a b : Z) : bool :=
  let k := cstrcmp (firstn 4 (title_of (gets c a))) (firstn 4 (title_of (gets c b))) in
  if k =? 0 then casecmp (name_of (gets c a)) (name_of (gets c b)) <? 0 else k <? 0.

(* what a comparison sort guarantees: no later element is less than an earlier one *)
Fixpoint sorted_by (less : Z -> Z -> bool) (p : list Z) : bool :=
  match p with
  | [] => true
  | x :: r => forallb (fun y => negb (less y x)) r && sorted_by less r
  end.
Definition covers (n : nat) (p : list Z) : bool :=
  forallb (fun k => existsb (Z.eqb (Z.of_nat k)) p) (seq 0 n).
Definition in_range (n : Z) (p : list Z) : bool := forallb (fun x => (0 <=? x) && (x <? n)) p.
Definition perm_ok (n : Z) (p : list Z) : bool :=
  (lenZ p =? n) && in_range n p && covers (Z.to_nat n) p.

Definition oracle := (list Z * list Z)%type.
Definition oracle_ok (c : list slot) (n : Z) (o : oracle) : bool :=
  perm_ok n (fst o) && sorted_by (less_name c) (fst o) && perm_ok n (snd o) && sorted_by (less_class c) (snd o).

(* SortBCache with the arrays sort.Sort produced; None: the arrays are not sorted permutations *)
Definition sort_bcache (s : st) (o : oracle) : option st :=
  if (0 <=? s_bnum s) && oracle_ok (s_cache s) (s_bnum s) o
  then Some (mkSt (s_file s) (map_firstn clear_fc (Z.to_nat (s_bnum s)) (s_cache s)) (s_bm s) (fst o) (snd o) (s_bnum s) (s_dirs s))
  else None.

(* ------------------------------------------------------------------ GetBid *)
Fixpoint search_loop (fuel : nat) (c : list slot) (sn : list Z) (key : list Z) (start end_ : Z) : res Z :=
  match fuel with
  | O => Hang
  | S f =>
      let idx := (start + end_) / 2 in
      let b := getn 0 sn idx in
      let j := casecmp key (name_of (gets c b)) in
      if j =? 0 then Ok (b + 1)
      else if end_ =? start then Ok 0
      else if idx =? start then search_loop f c sn key end_ end_
      else if 0 <? j then search_loop f c sn key idx end_
      else search_loop f c sn key start idx
  end.
Definition get_bid (s : st) (key : list Z) : res Z :=
  if s_bnum s - 1 <? 0 then Ok 0
  else search_loop (S (S (Z.to_nat (s_bnum s)))) (s_cache s) (s_sn s) key 0 (s_bnum s - 1).

(* ------------------------------------------------------------------ names *)
Definition okchar (c : Z) : bool := isalnum c || (c =? 95) || (c =? 45) || (c =? 46).
(* BoardID_t.IsValid on the 13-byte array *)
Definition is_valid_name (n : list Z) : bool :=
  let len := cstrlen n in
  if (len <? 2)%nat || (Z.to_nat IDLEN <? len)%nat then false
  else isalpha (nth 0 n 0) && forallb okchar (sub 1 (len - 1) n).
(* the rule of the property text, on the bytes the client sent *)
Definition name_rule (raw : list Z) : bool :=
  (2 <=? length raw)%nat && (length raw <=? 12)%nat && forallb okchar raw
  && match raw with c :: _ => isalpha c | [] => false end.

(* ------------------------------------------------------------------ users and moderator lists *)
Fixpoint search_user (u : users) (id : list Z) : Z :=
  match u with
  | [] => 0
  | (uid, uname) :: r => if casecmp id uname =? 0 then uid else search_user r id
  end.
Definition search_user_raw (u : users) (id : list Z) : Z := if nth 0 id 0 =? 0 then 0 else search_user u id.

Fixpoint split_on (sep : Z) (l : list Z) (cur : list Z) : list (list Z) :=
  match l with
  | [] => [rev cur]
  | c :: r => if c =? sep then rev cur :: split_on sep r [] else split_on sep r (c :: cur)
  end.

(* ptttype.NewBM: ids joined by '/' into a 39-byte array; an id that does not fit (with its separator) ends the list *)
Fixpoint new_bm_loop (first : bool) (ids : list (list Z)) (acc : list Z) (room : nat) : list Z :=
  match ids with
  | [] => acc ++ repeat 0 room
  | id :: r =>
      let ub := cprefix id in
      let sep := if first then [] else [47] in
      if (length sep + length ub <=? room)%nat
      then new_bm_loop false r (acc ++ sep ++ ub) (room - (length sep + length ub))
      else acc ++ repeat 0 room
  end.
Definition new_bm (ids : list (list Z)) : list Z := new_bm_loop true ids [] 39.

Definition bm_pieces (bm : list Z) : list (list Z) := map (fixlen 13) (split_on 47 (cprefix bm) []).
(* cache.SanitizeBMs *)
Definition sanitize_bms (u : users) (bm : list Z) : list Z :=
  new_bm (filter (fun id => negb (search_user_raw u id =? 0)) (bm_pieces bm)).
(* cache.ParseBMList: at most MAX_BMs uids, the rest -1 *)
Definition uid_valid (x : Z) : bool := (1 <=? x) && (x <=? MAX_USERS).
Definition parse_bm_list (u : users) (bm : list Z) : list Z :=
  let v := filter uid_valid (map (search_user_raw u) (bm_pieces bm)) in
  firstn 4 (v ++ repeat (-1) 4).

(* ptt.is_uBM *)
Fixpoint prefix_eq (p l : list Z) : bool :=
  match p, l with
  | [], _ => true
  | x :: p', y :: l' => (x =? y) && prefix_eq p' l'
  | _ :: _, [] => false
  end.
Fixpoint index_of (p l : list Z) (i : nat) : option nat :=
  if prefix_eq p l then Some i else match l with [] => None | _ :: r => index_of p r (S i) end.
Definition is_ubm (uid13 bm : list Z) : bool :=
  let ub := cprefix uid13 in
  let bb := cprefix bm in
  match index_of ub bb 0 with
  | None => false
  | Some i =>
      if (length bb <=? i)%nat then false
      else
        let head := match i with O => true | S i' => negb (isalnum (nth i' bb 0)) end in
        let tail := if (i + length ub <? length bb)%nat then negb (isalnum (nth (i + length ub) bb 0)) else true in
        head && tail
  end.

(* ------------------------------------------------------------------ requests *)
Record req := mkReq {
  r_uid : Z; r_uname : list Z; r_ulevel : Z;          (* the caller, as InitCurrentUser loads it *)
  r_cls : Z;                                           (* parent (class) bid *)
  r_name : list Z;                                     (* requested name, raw bytes *)
  r_class : list Z; r_title : list Z;
  r_bms : list (list Z);                               (* requested moderators, raw ids *)
  r_attr : Z; r_level : Z; r_chess : Z; r_group : bool
}.
Definition has (level perm : Z) : bool := negb (Z.land level perm =? 0).

(* error enum on the wire *)
Definition E_OK := 0.
Definition E_BID := 1.        (* ptttype.ErrInvalidBid *)
Definition E_PERM := 2.       (* ptt.ErrNotPermitted *)
Definition E_NAME := 3.       (* ptttype.ErrInvalidBoardID *)
Definition E_EXISTS := 4.     (* ptttype.ErrBoardIDAlreadyExists *)
Definition E_MKDIR := 5.      (* os.Mkdir: file exists *)
Definition E_FULL := 6.       (* ptt.ErrTooManyBoards *)
Definition E_OTHER := 7.

Inductive outcome :=
| Done (code bid : Z) (s : st) (rest : list oracle)
| BadOracle
| Crashed
| Hung.

Definition bid_valid (b : Z) : bool := (1 <=? b) && (b <=? MAXB).

Definition build_title (r : req) : list Z :=
  fixlen 4 (r_class r) ++ [32] ++ (if r_group r then [163; 85] else [161; 183]) ++ fixlen 42 (r_title r).
Definition norm_attr0 (r : req) : Z :=
  let a := Z.lor (r_attr r) BRD_CPLOG in                      (* DEFAULT_AUTOCPLOG *)
  if r_group r then Z.ldiff (Z.lor a BRD_GROUPBOARD) BRD_CPLOG else Z.ldiff a BRD_GROUPBOARD.
Definition demote (r : req) : bool := negb (has (r_ulevel r) PERM_BOARD) || has (norm_attr0 r) BRD_HIDE.
Definition norm_attr (r : req) : Z := if demote r then Z.ldiff (norm_attr0 r) BRD_POSTMASK else norm_attr0 r.
Definition norm_level (r : req) : Z := if demote r then 0 else r_level r.

Definition in_dirs (d : list (list Z)) (n : list Z) : bool := existsb (fun x => if list_eq_dec Z.eq_dec x n then true else false) d.

(* cache.ResetBoard(bid): re-read slot bid-1 of the file into the cache, rebuild its moderator cache *)
Definition reset_board (u : users) (s : st) (bid : Z) : st * bool :=
  if negb (bid_valid bid) then (s, false)
  else if lenZ (s_file s) <=? bid - 1 then (s, false)                       (* short read: cache untouched *)
  else
    let rec := gets (s_file s) (bid - 1) in
    let i := Z.to_nat (bid - 1) in
    (mkSt (s_file s) (setn zero_slot (s_cache s) i rec) (setn [0; 0; 0; 0] (s_bm s) i (parse_bm_list u (bm_of rec)))
          (s_sn s) (s_sc s) (s_bnum s) (s_dirs s), true).

Definition with_file (s : st) (f : list slot) : st := mkSt f (s_cache s) (s_bm s) (s_sn s) (s_sc s) (s_bnum s) (s_dirs s).
Definition with_bnum (s : st) (n : Z) : st := mkSt (s_file s) (s_cache s) (s_bm s) (s_sn s) (s_sc s) n (s_dirs s).
Definition with_dirs (s : st) (d : list (list Z)) : st := mkSt (s_file s) (s_cache s) (s_bm s) (s_sn s) (s_sc s) (s_bnum s) d.
Definition with_cache (s : st) (c : list slot) : st := mkSt (s_file s) c (s_bm s) (s_sn s) (s_sc s) (s_bnum s) (s_dirs s).

Definition remove_dir (d : list (list Z)) (n : list Z) : list (list Z) :=
  filter (fun x => if list_eq_dec Z.eq_dec x n then false else true) d.

(* LoadBoardSummary -> newBoardStat: a hidden board without BRD_POSTMASK that the caller sees as an
   ordinary board gets BRD_POSTMASK set in the shared-memory copy only *)
Definition is_bm_cache (r : req) (s : st) (bid : Z) : bool :=
  has (r_ulevel r) PERM_BASIC && negb (r_uid r =? 0) && negb (r_uid r =? -1) && has (r_ulevel r) PERM_LOGINOK
  && existsb (Z.eqb (r_uid r)) (firstn 4 (getn [0; 0; 0; 0] (s_bm s) (bid - 1))).
Definition postmask_hack (r : req) (s : st) (bid : Z) : st :=
  let b := gets (s_cache s) (bid - 1) in
  let a := attr_of b in
  let police := has (r_ulevel r) PERM_POLICE || has (r_ulevel r) PERM_POLICE_MAN in
  if has a BRD_HIDE && negb (has a BRD_POSTMASK)
     && negb (has (r_ulevel r) PERM_SYSOP) && negb (has (level_of b) PERM_BM && police) && negb (is_bm_cache r s bid)
  then with_cache s (setn zero_slot (s_cache s) (Z.to_nat (bid - 1)) (set_attr b (Z.lor a BRD_POSTMASK)))
  else s.

(* ptt.addBoardRecord *)
Definition add_board_record (u : users) (s : st) (rec : slot) (os : list oracle) : outcome :=
  match get_bid s (repeat 0 13) with
  | Crash => Crashed | Hang => Hung
  | Ok vb =>
      if bid_valid vb then
        (* vacated slot: SubstituteRecord(.BRD, rec, 256, bid.ToBidInStore()) *)
        let s1 := with_file s (setn zero_slot (s_file s) (Z.to_nat (vb - 1)) rec) in
        let s2 := fst (reset_board u s1 vb) in
        match os with
        | [] => BadOracle
        | o :: os' => match sort_bcache s2 o with None => BadOracle | Some s3 => Done E_OK vb s3 os' end
        end
      else if MAXB <=? s_bnum s then Done E_FULL 0 s os
      else
        let s1 := with_file s (s_file s ++ [rec]) in                          (* AppendRecord *)
        let s2 := with_bnum s1 (s_bnum s + 1) in                              (* AddbrdTouchCache *)
        let bid := s_bnum s + 1 in
        match reset_board u s2 bid with
        | (s3, false) => Done E_OTHER 0 s3 os
        | (s3, true) =>
            match os with
            | [] => BadOracle
            | o :: os' => match sort_bcache s3 o with None => BadOracle | Some s4 => Done E_OK bid s4 os' end
            end
        end
  end.

(* bbs.CreateBoard -> ptt.NewBoard -> mNewbrd *)
Definition create_board (u : users) (s : st) (r : req) (os : list oracle) : outcome :=
  let name := fixlen 13 (r_name r) in
  let bms := new_bm (map (fixlen 13) (r_bms r)) in                             (* bbs.CreateBoard: ptttype.NewBM *)
      if negb (bid_valid (r_cls r)) then Done E_BID 0 s os                     (* cache.GetBCache(clsBid) *)
      else
        let parent := gets (s_cache s) (r_cls r - 1) in
        if negb (has (r_ulevel r) PERM_BOARD) && negb (is_ubm (r_uname r) (bm_of parent)) then Done E_PERM 0 s os
        else if negb (is_valid_name name) then Done E_NAME 0 s os
        else match get_bid s name with
        | Crash => Crashed | Hang => Hung
        | Ok dup =>
            if 0 <? dup then Done E_EXISTS 0 s os
            else
              let dname := cprefix name in
              if in_dirs (s_dirs s) dname then Done E_MKDIR 0 s os
              else
                let s1 := with_dirs s (dname :: s_dirs s) in
                let pbm := sanitize_bms u bms in
                    let rec := mk_rec name (build_title r) pbm (norm_attr r) (r_chess r) (norm_level r) (r_cls r) in
                    match add_board_record u s1 rec os with
                    | Done code bid s2 os' =>
                        if code =? E_OK then Done E_OK bid (postmask_hack r s2 bid) os'
                        else Done code 0 (with_dirs s2 (remove_dir (s_dirs s2) dname)) os'   (* the directory just made is removed again *)
                    | x => x
                    end
        end.

(* cache.ReloadBCache on a .BRD of whole slots *)
Definition reload (file : list slot) (dirs : list (list Z)) (o : oracle) : option st :=
  let c := firstn (Z.to_nat MAXB) file in
  sort_bcache (mkSt file c (map (fun _ => [0; 0; 0; 0]) c) [] [] (lenZ c) dirs) o.

Fixpoint run_reqs (u : users) (s : st) (rs : list req) (os : list oracle) : outcome :=
  match rs with
  | [] => Done E_OK 0 s os
  | r :: rs' =>
      match create_board u s r os with
      | Done _ _ s' os' => run_reqs u s' rs' os'
      | x => x
      end
  end.

(* ------------------------------------------------------------------ observation (what both drivers print) *)
Fixpoint fletcher (l : list Z) (s1 s2 : Z) : list Z :=
  match l with [] => [s1; s2] | b :: r => fletcher r (s1 + b + 1) (s2 + s1 + b + 1) end.
Definition cks (s : slot) : list Z := fletcher s 0 0.

Definition obs_k (s : st) : Z := Z.min MAXB (Z.max (lenZ (s_file s)) (s_bnum s) + 1).
Definition all_zero (l : list slot) : bool := forallb (forallb (Z.eqb 0)) l.

Definition observe (s : st) (pool : list (list Z)) (code bid : Z) : res (list Z) :=
  let k := Z.to_nat (obs_k s) in
  let idxs := map Z.of_nat (seq 0 k) in
  let gb := map (fun n => get_bid s (fixlen 13 n)) pool in
  if forallb is_ok gb then
    Ok ([code; bid; s_bnum s; lenZ (s_file s)]
        ++ flat_map cks (s_file s)
        ++ [Z.of_nat k] ++ flat_map (fun i => cks (gets (s_cache s) i)) idxs
        ++ [if all_zero (skipn k (s_cache s)) then 1 else 0]
        ++ flat_map (fun i => firstn 4 (getn [0; 0; 0; 0] (s_bm s) i)) idxs
        ++ s_sn s ++ s_sc s
        ++ map (fun g => match g with Ok v => v | _ => 0 end) gb
        ++ map (fun n => if in_dirs (s_dirs s) n then 1 else 0) pool
        ++ [lenZ (s_dirs s)]
        ++ (if (code =? E_OK) && bid_valid bid then gets (s_file s) (bid - 1) ++ gets (s_cache s) (bid - 1) else []))
  else if existsb (fun g => match g with Crash => true | _ => false end) gb then Crash else Hang.

Fixpoint run_obs (u : users) (s : st) (pool : list (list Z)) (rs : list req) (os : list oracle) (acc : list Z) : list Z :=
  match rs with
  | [] => ST_OK :: acc
  | r :: rs' =>
      match create_board u s r os with
      | Done code bid s' os' =>
          match observe s' pool code bid with
          | Ok o => run_obs u s' pool rs' os' (acc ++ [-555] ++ o)
          | Crash => [ST_CRASH] | Hang => [ST_HANG]
          end
      | BadOracle => [8]
      | Crashed => [ST_CRASH]
      | Hung => [ST_HANG]
      end
  end.

(* ------------------------------------------------------------------ wire *)
Fixpoint chunks (fuel n : nat) (l : list Z) : list (list Z) :=
  match fuel with
  | O => []
  | S f => match l with [] => [] | _ => firstn n l :: chunks f n (skipn n l) end
  end.
Definition names_of_group (g : list Z) : list (list Z) := map cprefix (chunks (length g) 13 g).

Definition parse_slot (g : list Z) : slot :=
  let name := sub 0 13 g in let title := sub 13 49 g in let bm := sub 62 39 g in
  let t := skipn 101 g in
  mk_init name title bm (nth 0 t 0) (nth 1 t 0) (nth 2 t 0) (nth 3 t 0) (nth 4 t 0).

(* length-prefixed byte strings inside a group *)
Definition take_str (l : list Z) : list Z * list Z :=
  match l with [] => ([], []) | n :: r => (firstn (Z.to_nat n) r, skipn (Z.to_nat n) r) end.
Fixpoint take_strs (k : nat) (l : list Z) : list (list Z) :=
  match k with O => [] | S k' => let (a, r) := take_str l in a :: take_strs k' r end.

Definition parse_req (g : list Z) : req :=
  let uid := nth 0 g 0 in let ulevel := nth 1 g 0 in let cls := nth 2 g 0 in
  let attr := nth 3 g 0 in let level := nth 4 g 0 in let chess := nth 5 g 0 in let grp := nth 6 g 0 in
  let r0 := skipn 7 g in
  let (uname, r1) := take_str r0 in
  let (name, r2) := take_str r1 in
  let (cls_b, r3) := take_str r2 in
  let (title, r4) := take_str r3 in
  match r4 with
  | [] => mkReq uid uname ulevel cls name cls_b title [] attr level chess (negb (grp =? 0))
  | nb :: r5 => mkReq uid uname ulevel cls name cls_b title (take_strs (Z.to_nat nb) r5) attr level chess (negb (grp =? 0))
  end.

Fixpoint parse_users (fuel : nat) (g : list Z) : users :=
  match fuel with
  | O => []
  | S f => match g with [] => [] | uid :: r => (uid, firstn 13 r) :: parse_users f (skipn 13 r) end
  end.

Fixpoint pair_up (l : list (list Z)) : list oracle :=
  match l with a :: b :: r => (a, b) :: pair_up r | _ => [] end.

(* ------------------------------------------------------------------ the by-name lookup on tables of any size
   (the production build has MAX_BOARD = 20000; GetBid itself does not mention MAX_BOARD). A table is given by the
   13-byte names of its slots and the by-name index the implementation built; the index is accepted only if it is
   a sorted permutation. [sorted_lnames] on the lower-cased names listed in index order is [sorted_by (less_name _)]
   (Proofs/C12_big.v: sorted_by_names), without the linear [gets] and the case folding per comparison. *)
Fixpoint sorted_lnames (l : list (list Z)) : bool :=
  match l with
  | [] => true
  | x :: r => forallb (fun y => negb (cstrcmp y x <? 0)) r && sorted_lnames r
  end.
Definition name_slot (n : list Z) : slot := fixlen 13 n ++ repeat 0 243.
Definition lookup_state (names : list (list Z)) (sn : list Z) : st :=
  mkSt [] (map name_slot names) [] sn [] (lenZ names) [].
Definition lookup_ok (names : list (list Z)) (sn : list Z) : bool :=
  let c := map name_slot names in
  perm_ok (lenZ names) sn && sorted_lnames (map (fun b => map tolower (name_of (gets c b))) sn).
Definition lookup_all (names : list (list Z)) (sn : list Z) (keys : list (list Z)) : list Z :=
  let s := lookup_state names sn in
  if lookup_ok names sn
  then ST_OK :: map (fun k => match get_bid s k with Ok v => v | Crash => -1 | Hang => -2 end) keys
  else [8].

(* op 1: [1; nslots; nreq; via] | pool | dirs | users | slot*nslots | req*nreq | oracle pairs (name, class)*
   op 3: IsValid of a raw name    op 4: NewBM of raw ids     op 5: name_rule of a raw name (the specification)
   op 7: [7] | names (13 bytes each) | by-name index | keys (13 bytes each): GetBid of every key on a table of any size *)
Definition run_case (args : list (list Z)) : list Z :=
  match args with
  | [1; ns; nr; _] :: pool :: dirs :: us :: rest =>
      let ns' := Z.to_nat ns in let nr' := Z.to_nat nr in
      let slots := map parse_slot (firstn ns' rest) in
      let reqs := map parse_req (firstn nr' (skipn ns' rest)) in
      let os := pair_up (skipn (ns' + nr') rest) in
      let pool' := names_of_group pool in
      match os with
      | [] => [8]
      | o :: os' =>
          match reload slots (names_of_group dirs) o with
          | None => [8]
          | Some s0 =>
              match observe s0 pool' 0 0 with
              | Ok ob => run_obs (parse_users (length us) us) s0 pool' reqs os' ob
              | Crash => [ST_CRASH] | Hang => [ST_HANG]
              end
          end
      end
  | [[3]; raw] => [ST_OK; if is_valid_name (fixlen 13 raw) then 1 else 0]
  | [4] :: ids => ST_OK :: new_bm (map (fixlen 13) ids)
  | [[5]; raw] => [ST_OK; if name_rule raw then 1 else 0]
  | [[7]; names; sn; keys] => lookup_all (chunks (length names) 13 names) sn (chunks (length keys) 13 keys)
  | _ => [ST_BADCASE]
  end.
