(* C03 — registration, login, password check/change, e-mail change and lookups as operations on the account
   table. Executable model of bbs.Register / Login / CheckPasswd / ChangePasswd / ChangeEmail / CheckExistsUser /
   GetUser (bbs/*.go) over ptt.NewRegister / SetupNewUser / tryCleanUser / killUser (ptt/register.go, ptt/user.go),
   ptt.LoginQuery (ptt/mbbsd.go), ptt.CheckPasswd / ChangePasswd / ChangeEmail (ptt/user.go), cmbbs.GenPasswd /
   CheckPasswd (cmbbs/passwd.go) and the thin gin handlers of api/.

   State: MAX_USERS slots (slot k = uid k+1 = record k of .PASSWDS = SHM.Userid[k]); a slot whose id is [] is free.
   The user-id index is abstracted as "first slot whose id equals the key case-insensitively" (its hash chains are
   C04's subject, the agreement of index and file under concurrency C15's). A password hash is abstracted as the DES
   key block of the password (first 8 bytes up to NUL, each shifted left by one, i.e. its low 7 bits): crypt(3)
   itself is C02's subject — C02 proves that a generated hash verifies every password with the same key block;
   that no other key block verifies is the cryptographic assumption named there. [None] is the all-zero hash, which
   nothing verifies. The clock enters through [a_old] (last login long enough ago for tryCleanUser to remove the
   account) and [throttle] (.fresh younger than an hour: tryCleanUser does nothing). *)
From Verif Require Import Base.Common Gen.Consts_default.
From Verif Require Model.C15.

Definition key := C15.key.
Definition eqbl := C15.eqbl.
Definition ci_eqb := C15.ci_eqb.
Definition is_empty := C15.is_empty.

Definition isalpha (ch : Z) : bool := ((65 <=? ch) && (ch <=? 90)) || ((97 <=? ch) && (ch <=? 122)).
Definition isdigit (ch : Z) : bool := (48 <=? ch) && (ch <=? 57).
Definition isalnum (ch : Z) : bool := isalpha ch || isdigit ch.

(* copy(array[:], []byte(s)) into a zeroed n-byte array, read back as a C string *)
Definition cstr_field (n : nat) (s : list Z) : list Z := cprefix (firstn n s).
Definition USER_ID_SZ : nat := S (Z.to_nat ptttype.IDLEN).
Definition cid (name : list Z) : list Z := cstr_field USER_ID_SZ name.

(* UserID_t.IsValid on the array made from [name] (Cstrlen is USER_ID_SZ when there is no NUL) *)
Definition id_valid (name : list Z) : bool :=
  let id := cid name in
  (2 <=? length id)%nat && (length id <=? Z.to_nat ptttype.IDLEN)%nat && isalpha (hd 0 id) && forallb isalnum id.

(* ------------------------------------------------------------------ passwords *)
Definition kb (pw : list Z) : list Z := fixlen 8 (map (fun ch => (2 * ch) mod 256) (cprefix (firstn 8 pw))).
(* cmbbs.GenPasswd: len(passwd) == 0 || passwd[0] == 0 gives the all-zero hash, and no error (Model/C02.v
   gen_passwd). NewRegister and ptt.ChangePasswd store whatever it returns, and nothing above them (bbs.Register,
   bbs.ChangePasswd, the gin handlers) looks at the password: an account can be registered with, or changed to, the
   empty password, and from then on nothing verifies against its hash. *)
Definition gen (pw : list Z) : option (list Z) :=
  match pw with
  | [] => None
  | ch :: _ => if ch =? 0 then None else Some (kb pw)
  end.
(* cmbbs.CheckPasswd(stored, input) *)
Definition verify (h : option (list Z)) (pw : list Z) : bool :=
  match h with None => false | Some k => eqbl k (kb pw) end.

(* ------------------------------------------------------------------ state *)
Record acct : Type := mkAcct {
  a_id : list Z;
  a_pw : option (list Z);
  a_email : list Z;
  a_old : bool;       (* last login older than the keep period plus CLEAN_USER_EXPIRE_RANGE_MIN *)
  a_xempt : bool      (* PERM_XEMPT *)
}.
Definition no_acct : acct := mkAcct [] None [] false false.

Record cst : Type := mkC {
  slots : list acct;
  reserved : list (list Z);     (* etc/reserved.id *)
  throttle : bool
}.

Fixpoint find_idx {A} (f : A -> bool) (l : list A) : option nat :=
  match l with
  | [] => None
  | a :: r => if f a then Some O else option_map S (find_idx f r)
  end.
Fixpoint set_nth {A} (k : nat) (v : A) (l : list A) : list A :=
  match l, k with
  | [], _ => []
  | _ :: r, O => v :: r
  | a :: r, S k' => a :: set_nth k' v r
  end.

(* cache.SearchUserRaw *)
Definition lookup (sl : list acct) (id : list Z) : option nat :=
  if is_empty id then None else find_idx (fun a => ci_eqb (a_id a) id) sl.
(* cache.DoSearchUserRaw(""): the free slots are chained in ascending order (see Model/C15.v; tryCleanUser only
   runs when the chain is empty and releases slots in ascending order) *)
Definition find_empty (sl : list acct) : option nat := find_idx (fun a => is_empty (a_id a)) sl.

(* computeUserExpireValue < -CLEAN_USER_EXPIRE_RANGE_MIN *)
Definition cleanable (a : acct) : bool :=
  negb (is_empty (a_id a)) && negb (a_xempt a) && negb (eqbl (a_id a) ptttype.STR_GUEST) && a_old a.
(* tryCleanUser: uids 2..MAX_USERS; killUser empties the record and releases the slot *)
Definition clean (sl : list acct) : list acct :=
  match sl with
  | [] => []
  | s0 :: r => s0 :: map (fun a => if cleanable a then no_acct else a) r
  end.

Definition E_USERID : Z := 1.      (* ptttype.ErrInvalidUserID *)
Definition E_EXISTS : Z := 2.      (* ptttype.ErrUserIDAlreadyExists *)
Definition E_NOSLOT : Z := 3.      (* cache.ErrInvalidUID *)
Definition E_UUSERID : Z := 4.     (* bbs.ErrInvalidUUserID *)
Definition E_PARAMS : Z := 5.      (* bbs.ErrInvalidParams *)
Definition E_API : Z := 99.        (* any non-200 answer of a gin handler *)

Inductive result : Type :=
| ROk (payload : list Z)
| RErr (code : Z).

Inductive op : Type :=
| ORegister (name pw email : list Z)
| OLogin (name pw : list Z)
| OCheckPw (name pw : list Z)
| OChangePw (name old new : list Z)
| OChangeEmail (name email : list Z)
| OExists (name : list Z)
| OGetUser (name : list Z)
| OHour.                            (* an hour passes: .fresh no longer throttles tryCleanUser *)

Definition with_slots (c : cst) (sl : list acct) : cst := mkC sl (reserved c) (throttle c).
Definition enc_str (s : list Z) : list Z := lenZ s :: s.

(* the state SetupNewUser searches for a free slot in: tryCleanUser runs first when none is visible *)
Definition after_clean (c : cst) : cst :=
  match find_empty (slots c) with
  | Some _ => c
  | None => if throttle c then c else mkC (clean (slots c)) (reserved c) true
  end.

Definition register (c : cst) (name pw email : list Z) : result * cst :=
  let id := cid name in
  if negb (id_valid name) || ci_eqb id ptttype.STR_REGNEW || ci_eqb id ptttype.STR_GUEST then (RErr E_USERID, c)
  else if existsb (fun r => ci_eqb id r) (reserved c) then (RErr E_USERID, c)
  else match lookup (slots c) id with
       | Some _ => (RErr E_EXISTS, c)
       | None =>
           let c1 := after_clean c in
           match find_empty (slots c1) with
           | None => (RErr E_NOSLOT, c1)
           | Some k => (ROk id, with_slots c1 (set_nth k (mkAcct id (gen pw) (cstr_field (Z.to_nat ptttype.EMAILSZ) email) false false) (slots c1)))
           end
       end.

Definition shown_id (a : acct) : list Z := if id_valid (a_id a) then a_id a else [].   (* bbs.ToUUserID *)

Definition login (c : cst) (name pw : list Z) : result * cst :=
  if negb (id_valid name) then (RErr E_USERID, c)
  else match lookup (slots c) (cid name) with
       | None => (RErr E_USERID, c)
       | Some k =>
           let a := nth k (slots c) no_acct in
           if eqbl (a_id a) ptttype.STR_GUEST || verify (a_pw a) pw
           then (ROk (shown_id a), with_slots c (set_nth k (mkAcct (a_id a) (a_pw a) (a_email a) false (a_xempt a)) (slots c)))
           else (RErr E_USERID, c)
       end.

Definition check_pw (c : cst) (name pw : list Z) : result * cst :=
  if negb (id_valid name) then (RErr E_PARAMS, c)
  else match lookup (slots c) (cid name) with
       | None => (RErr E_USERID, c)
       | Some k => if verify (a_pw (nth k (slots c) no_acct)) pw then (ROk [], c) else (RErr E_USERID, c)
       end.

Definition change_pw (c : cst) (name old new : list Z) : result * cst :=
  if negb (id_valid name) then (RErr E_UUSERID, c)
  else match lookup (slots c) (cid name) with
       | None => (RErr E_USERID, c)
       | Some k =>
           let a := nth k (slots c) no_acct in
           if verify (a_pw a) old
           then (ROk [], with_slots c (set_nth k (mkAcct (a_id a) (gen new) (a_email a) (a_old a) (a_xempt a)) (slots c)))
           else (RErr E_USERID, c)
       end.

Definition change_email (c : cst) (name email : list Z) : result * cst :=
  if negb (id_valid name) then (RErr E_UUSERID, c)
  else match lookup (slots c) (cid name) with
       | None => (RErr E_NOSLOT, c)
       | Some k =>
           let a := nth k (slots c) no_acct in
           (ROk [], with_slots c (set_nth k (mkAcct (a_id a) (a_pw a) (cstr_field (Z.to_nat ptttype.EMAILSZ) email) (a_old a) (a_xempt a)) (slots c)))
       end.

Definition exists_user (c : cst) (name : list Z) : result * cst :=
  if negb (id_valid name) then (RErr E_PARAMS, c)
  else match lookup (slots c) (cid name) with
       | None => (ROk [], c)
       | Some _ => (ROk name, c)            (* the spelling that was asked for *)
       end.

Definition get_user (c : cst) (name : list Z) : result * cst :=
  if negb (id_valid name) then (RErr E_PARAMS, c)
  else match lookup (slots c) (cid name) with
       | None => (RErr E_USERID, c)
       | Some k => let a := nth k (slots c) no_acct in (ROk (enc_str (shown_id a) ++ enc_str (a_email a)), c)
       end.

Definition step (c : cst) (o : op) : result * cst :=
  match o with
  | ORegister n p e => register c n p e
  | OLogin n p => login c n p
  | OCheckPw n p => check_pw c n p
  | OChangePw n o' p => change_pw c n o' p
  | OChangeEmail n e => change_email c n e
  | OExists n => exists_user c n
  | OGetUser n => get_user c n
  | OHour => (ROk [], mkC (slots c) (reserved c) false)
  end.

(* the gin handlers: one status for every refusal; changing the password or e-mail of the literal id "guest" is
   refused before bbs is asked (api/user_utils.go) *)
Definition api_step (c : cst) (o : op) : result * cst :=
  let guarded := match o with
                 | OChangePw n _ _ | OChangeEmail n _ => eqbl n ptttype.STR_GUEST
                 | _ => false
                 end in
  if guarded then (RErr E_API, c)
  else match step c o with
       | (RErr _, c') => (RErr E_API, c')
       | r => r
       end.

Fixpoint run (c : cst) (ops : list op) : list result * cst :=
  match ops with
  | [] => ([], c)
  | o :: r => let (x, c1) := step c o in let (xs, c2) := run c1 r in (x :: xs, c2)
  end.

(* ------------------------------------------------------------------ the clock
   ptt.computeUserExpireValue / checkAndExpireAccount for an account that is not exempt (PERM_XEMPT, guest, empty id
   are [cleanable]'s business). [age] = NowTS() - LastLogin in seconds: NEGATIVE when the stored stamp is later than
   the clock reads (the clock was stepped back after the login, or the stamp came from a host whose clock is ahead).
   Go's int division truncates toward zero (Z.quot). [keep] = keep period in minutes: KEEP_DAYS_UNREGGED*24*60 for
   the accounts of the harness (PERM_DEFAULT has neither PERM_LOGINOK nor PERM_VIOLATELAW). *)
Definition KEEP_MIN_UNREGGED : Z := 15 * 24 * 60.
Definition since_login_min (age : Z) : Z := Z.quot age 60.
Definition expire_value (keep age : Z) : Z := keep - since_login_min age.
(* checkAndExpireAccount kills the account: expireValue < 0 and -expireValue > CLEAN_USER_EXPIRE_RANGE_MIN *)
Definition expired (keep age : Z) : bool :=
  let v := expire_value keep age in (v <? 0) && (ptttype.CLEAN_USER_EXPIRE_RANGE_MIN <? - v).
Definition EXPIRE_LIMIT_SEC : Z := (KEEP_MIN_UNREGGED + ptttype.CLEAN_USER_EXPIRE_RANGE_MIN) * 60.
(* the last-login ages (seconds) the harness gives to initial accounts, by the code in their flags
   (go/impl/cmd/implrun/c03.go c03Age is the same table) *)
Definition age_of (code : Z) : Z :=
  match code with
  | 1 => 5 * 365 * 86400
  | 2 => -5
  | 3 => -3600
  | 4 => -400 * 86400
  | 5 => 14 * 86400
  | 6 => EXPIRE_LIMIT_SEC - 2 * 86400
  | 7 => EXPIRE_LIMIT_SEC + 2 * 86400
  | _ => 0
  end.
(* the largest total the harness steps the clock back by within one history (operation 12) *)
Definition MAX_CLOCK_BACK : Z := 86400.

(* ------------------------------------------------------------------ the on-line table
   ptt.getNewUtmpEnt: one entry per pid (the pid of a session is derived from the uid, so: per account); a login of an
   account that has an entry re-uses it, another one takes a free entry, and when none of the USHM_SIZE entries is
   free the login fails with ErrNewUtmp. Entries are not released by the account operations. The client address is
   not an argument: where a login comes from does not matter. (The probing order of the real table does not matter
   either: an entry is found iff it is there, a free one iff one is free.) *)
Definition USHM : nat := Z.to_nat ptttype.USHM_SIZE.
Definition utmp_take (size : nat) (ut : list Z) (pid : Z) : option (list Z) :=
  if existsb (Z.eqb pid) ut then Some ut
  else if (length ut <? size)%nat then Some (pid :: ut) else None.
Fixpoint utmp_run (size : nat) (ut : list Z) (pids : list Z) : option (list Z) :=
  match pids with
  | [] => Some ut
  | p :: r => match utmp_take size ut p with Some ut' => utmp_run size ut' r | None => None end
  end.
Definition E_UTMP : Z := 7.        (* ptt.ErrNewUtmp *)
(* userLogin at the end of Login and of Register: Login fails before anything was written (the last-login stamp is
   saved after the entry was taken), Register fails after the account was written *)
Definition with_utmp (layer : Z) (c : cst) (ut : list Z) (o : op) (x : result) (c1 : cst) : result * cst * list Z :=
  let go (n : list Z) (back : cst) :=
    match lookup (slots c1) (cid n) with
    | Some k => match utmp_take USHM ut (Z.of_nat (S k)) with
                | Some ut' => (x, c1, ut')
                | None => (RErr (if layer =? 0 then E_UTMP else E_API), back, ut)
                end
    | None => (x, c1, ut)
    end in
  match o, x with
  | ORegister n _ _, ROk _ => go n c1
  | OLogin n _, ROk _ => go n c
  | _, _ => (x, c1, ut)
  end.

(* ------------------------------------------------------------------ wire *)
Fixpoint dec_strs (fuel : nat) (l : list Z) : list (list Z) :=
  match fuel with
  | O => []
  | S f => match l with
           | [] => []
           | n :: r => firstn (Z.to_nat n) r :: dec_strs f (skipn (Z.to_nat n) r)
           end
  end.
Definition strs (l : list Z) : list (list Z) := dec_strs (length l) l.

(* initial accounts: four strings per slot — id, password (empty = no usable hash), e-mail, flags [age code; xempt] *)
Fixpoint mk_slots (fuel : nat) (l : list (list Z)) : list acct :=
  match fuel with
  | O => []
  | S f => match l with
           | id :: pw :: em :: fl :: r =>
               mkAcct id (gen pw) em
                      (expired KEEP_MIN_UNREGGED (age_of (nth 0 fl 0))) (negb (nth 1 fl 0 =? 0)) :: mk_slots f r
           | _ => []
           end
  end.

Definition parse_op (g : list Z) : option op :=
  match g with
  | code :: r =>
      match code, strs r with
      | 1, [n; p; e] => Some (ORegister n p e)
      | 2, [n; p] => Some (OLogin n p)
      | 3, [n; p] => Some (OCheckPw n p)
      | 4, [n; o; p] => Some (OChangePw n o p)
      | 5, [n; e] => Some (OChangeEmail n e)
      | 6, [n] => Some (OExists n)
      | 7, [n] => Some (OGetUser n)
      | 8, [] => Some OHour
      | 10, [n; p; _] => Some (OLogin n p)              (* login from a client address: the address decides nothing *)
      | 11, [n; p; e; _] => Some (ORegister n p e)      (* registration from a client address *)
      | _, _ => None
      end
  | [] => None
  end.

Definition enc_result (r : result) : list Z :=
  match r with
  | ROk p => ST_OK :: enc_str p
  | RErr e => [ST_ERR; e]
  end.

Fixpoint mask (pool : list (list Z)) (h : option (list Z)) : Z :=
  match pool with
  | [] => 0
  | p :: r => (if verify h p then 1 else 0) + 2 * mask r h
  end.

(* what the harness reads back after every operation: per slot the id, which passwords of the pool the stored hash
   verifies, the e-mail; then the uid the index answers for every name of the id pool *)
Definition observe (pwpool idpool : list (list Z)) (c : cst) : list Z :=
  flat_map (fun a => enc_str (a_id a) ++ [mask pwpool (a_pw a)] ++ enc_str (a_email a)) (slots c)
  ++ map (fun n => match lookup (slots c) (cid n) with Some k => Z.of_nat (S k) | None => 0 end) idpool.

(* [12; d]: the host clock is stepped back by d seconds (0 <= d, at most MAX_CLOCK_BACK in total per history). Every
   age shrinks by d. The table does not change: an account that is not expired stays so (Props: C03_clock_back_keeps_unexpired),
   the ages the harness uses are further than MAX_CLOCK_BACK from the limit, and .fresh only gets younger. *)
Fixpoint run_wire (layer : Z) (pwpool idpool : list (list Z)) (c : cst) (ut : list Z) (gs : list (list Z)) : list Z :=
  match gs with
  | [] => []
  | [12; d] :: r => [-1] ++ enc_result (ROk []) ++ observe pwpool idpool c ++ run_wire layer pwpool idpool c ut r
  | g :: r =>
      match parse_op g with
      | None => [-9]
      | Some o =>
          let (x0, c0) := if layer =? 0 then step c o else api_step c o in
          let '(x, c1, ut1) := with_utmp layer c ut o x0 c0 in
          [-1] ++ enc_result x ++ observe pwpool idpool c1 ++ run_wire layer pwpool idpool c1 ut1 r
      end
  end.

(* ------------------------------------------------------------------ the loader and tables of any size
   cache.fillUHash / userecRawAddToUHash (cache/uhash_loader.go): which records of .PASSWDS enter the user-id index
   when it is built from the file. A record whose id IsValid always does; of the others (free slots, kept on the
   chain of the empty id for new registrations) only the first PRE_ALLOCATED_USERS do. [inv] = the loader's counter
   uHashLoaderInvalidUserID before the record. With the default constants (MAX_USERS = 50) the limit is never
   reached; the production build (-tags docker, MAX_USERS = 2 000 000) reaches it, and the harness runs that build
   on files of a few thousand records (fillUHash reads to the end of the file, whatever MAX_USERS is). *)
Definition PREALLOC : nat := Z.to_nat cache.PRE_ALLOCATED_USERS.
Fixpoint indexed (pre inv : nat) (recs : list acct) : list bool :=
  match recs with
  | [] => []
  | a :: r => if id_valid (a_id a) then true :: indexed pre inv r
              else (S inv <=? pre)%nat :: indexed pre (S inv) r
  end.
(* SearchUserRaw / DoSearchUserRaw("") as they can answer with that index: only records that are in it *)
Definition lookup_ix (ix : list bool) (sl : list acct) (id : list Z) : option nat :=
  if is_empty id then None else find_idx (fun p : bool * acct => fst p && ci_eqb (a_id (snd p)) id) (combine ix sl).
Definition find_empty_ix (ix : list bool) (sl : list acct) : option nat :=
  find_idx (fun p : bool * acct => fst p && is_empty (a_id (snd p))) (combine ix sl).

(* a table given sparsely: account i of [accts] sits in record [nth i pos] (0-based) of an otherwise empty file *)
Fixpoint place (pos : list Z) (accts : list acct) (sl : list acct) : list acct :=
  match pos, accts with
  | p :: pr, a :: ar => place pr ar (set_nth (Z.to_nat p) a sl)
  | _, _ => sl
  end.

Definition numbered {A} (l : list A) : list (nat * A) := combine (seq 0 (length l)) l.
(* the records (numbered from 1) that an index leaves out *)
Definition missing (ix : list bool) : list Z :=
  flat_map (fun p : nat * bool => if snd p then [] else [Z.of_nat (S (fst p))]) (numbered ix).
(* the index a server start builds from the table *)
Definition load (sl : list acct) : list bool := indexed PREALLOC 0 sl.

(* what the harness reads back on a big table: the non-empty records (number, id, verifying pool passwords, e-mail),
   the uid the index answers for every name of the id pool - [ix] is the index as last built: a record is found only
   if it was put in then (registrations since went to records that were) -, and after -5 the records of the file
   that are not in the index *)
Definition observe_big (pwpool idpool : list (list Z)) (c : cst) (ix : list bool) (ms : list Z) : list Z :=
  let live := filter (fun p : nat * acct => negb (is_empty (a_id (snd p)))) (numbered (slots c)) in
  lenZ live ::
  flat_map (fun p : nat * acct => Z.of_nat (S (fst p)) :: enc_str (a_id (snd p)) ++ [mask pwpool (a_pw (snd p))] ++ enc_str (a_email (snd p))) live
  ++ map (fun n => match lookup_ix ix (slots c) (cid n) with Some k => Z.of_nat (S k) | None => 0 end) idpool
  ++ [-5] ++ ms.        (* ms = missing ix, computed once per load *)

(* operations as in [run_wire]; [9] = cache.LoadUHash on the running server (the index is brought up to date from
   the file: nothing leaves it, and the loader's rule is applied to the table as it is now) *)
Fixpoint run_wire_big (layer : Z) (pwpool idpool : list (list Z)) (c : cst) (ix : list bool) (gs : list (list Z)) : list Z :=
  match gs with
  | [] => []
  | [9] :: r => let ix' := load (slots c) in
                [-1] ++ enc_result (ROk []) ++ observe_big pwpool idpool c ix' (missing ix') ++ run_wire_big layer pwpool idpool c ix' r
  | g :: r =>
      match parse_op g with
      | None => [-9]
      | Some o =>
          let (x, c1) := if layer =? 0 then step c o else api_step c o in
          [-1] ++ enc_result x ++ observe_big pwpool idpool c1 ix (missing ix) ++ run_wire_big layer pwpool idpool c1 ix r
      end
  end.

(* case: [[1]; [layer; throttle]; password pool; id pool; reserved ids; initial slots] ++ operations
   result: 0 :: per operation (-1 :: result ++ observation)
   case: [[2]; [layer; throttle]; password pool; id pool; reserved ids; n :: positions; initial accounts] ++ operations
   - a file of n records, built as above; result: 0 :: observation after the load :: per operation as above *)
Definition run_case (args : list (list Z)) : list Z :=
  match args with
  | [1] :: [layer; thr] :: pwpool :: idpool :: resv :: init :: gs =>
      let n := Z.to_nat ptttype.MAX_USERS in
      let sl := firstn n (mk_slots n (strs init) ++ repeat no_acct n) in
      ST_OK :: run_wire layer (strs pwpool) (strs idpool) (mkC sl (strs resv) (negb (thr =? 0))) [] gs
  | [2] :: [layer; thr] :: pwpool :: idpool :: resv :: (n :: pos) :: init :: gs =>
      let sl := place pos (mk_slots (length pos) (strs init)) (repeat no_acct (Z.to_nat n)) in
      let c := mkC sl (strs resv) (negb (thr =? 0)) in
      let ix := load sl in
      ST_OK :: observe_big (strs pwpool) (strs idpool) c ix (missing ix) ++ run_wire_big layer (strs pwpool) (strs idpool) c ix gs
  | _ => [ST_BADCASE]
  end.
