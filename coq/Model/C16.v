(* C16 — token verification. Decision logic of api/auth_utils.go, api/refresh.go,
   api/api_login_required*.go, api/get_token_info.go and userInfoIsValidEmailUser (api/user_utils.go)
   over an ABSTRACT description of how a token was made. The MAC idealisation is built into
   [lib_accepts]: golang-jwt accepts a token under secret k iff its header names an HMAC method, it
   was signed with k and not altered since, and the registered claims validate. Strings are indices
   into pools chosen by the harness (0 is always the empty string); times are absolute seconds. *)
From Verif Require Import Base.Common.

Inductive alg := HS256 | HS384 | HS512 | AlgNone | AlgOther.      (* header "alg" *)
Inductive key := KAccess | KRefresh | KEmail | KForeign.          (* secret the signature was computed with *)
Inductive cv := CAbsent | CStr (i : Z) | CNum (n : Z) | CZero | COther.   (* a claim: absent, string, non-zero number, the number 0, any other JSON type *)

Record token := mkTok {
  t_alg : alg; t_key : key; t_intact : bool;
  t_sub : cv; t_exp : cv; t_cli : cv; t_typ : cv; t_eml : cv; t_ctx : cv;
  t_nbf_future : bool; t_iat_future : bool
}.

Definition key_eqb (a b : key) : bool :=
  match a, b with KAccess, KAccess | KRefresh, KRefresh | KEmail, KEmail | KForeign, KForeign => true | _, _ => false end.
Definition is_hmac (a : alg) : bool := match a with HS256 | HS384 | HS512 => true | _ => false end.

(* MapClaims.Valid(): exp, if present, must be a number and (unless 0) strictly in the future *)
Definition lib_exp_ok (now : Z) (e : cv) : bool :=
  match e with CAbsent => true | CZero => true | CNum n => now <? n | _ => false end.
Definition lib_accepts (now : Z) (secret : key) (t : token) : bool :=
  is_hmac (t_alg t) && t_intact t && key_eqb (t_key t) secret &&
  lib_exp_ok now (t_exp t) && negb (t_nbf_future t) && negb (t_iat_future t).

(* ParseClaimString / ParseClaimInt: absent = zero value, wrong JSON type = error *)
Definition claim_str (c : cv) : option Z := match c with CAbsent => Some 0 | CStr i => Some i | _ => None end.
Definition claim_int (c : cv) : option Z := match c with CAbsent => Some 0 | CZero => Some 0 | CNum n => Some n | _ => None end.

Definition GUEST : Z := 1.            (* pool index of "guest" *)
Definition TYP_REFRESH : Z := 1.      (* pool index of "refresh" in the typ pool *)

(* outcome of a verifier: user, expiry, client info (, e-mail) *)
Inductive vres := VInvalid | VOk (user exp cli eml : Z).

(* VerifyJwt(raw, isCheckExpire); None = empty string *)
Definition verify_access (now : Z) (check_expire : bool) (raw : option token) : vres :=
  match raw with
  | None => VOk GUEST 0 0 0
  | Some t =>
      if negb (lib_accepts now KAccess t) then VInvalid else
      match claim_str (t_cli t), claim_str (t_sub t), claim_int (t_exp t) with
      | Some cli, Some sub, Some exp =>
          if check_expire && (exp <? now) then VInvalid else VOk sub exp cli 0
      | _, _, _ => VInvalid
      end
  end.

(* VerifyRefreshJwt *)
Definition verify_refresh (now : Z) (raw : option token) : vres :=
  match raw with
  | None => VOk GUEST 0 0 0
  | Some t =>
      if negb (lib_accepts now KRefresh t) then VInvalid else
      match claim_str (t_cli t), claim_str (t_sub t), claim_int (t_exp t), claim_str (t_typ t) with
      | Some cli, Some sub, Some exp, Some typ =>
          if exp <? now then VInvalid else if negb (typ =? TYP_REFRESH) then VInvalid else VOk sub exp cli 0
      | _, _, _, _ => VInvalid
      end
  end.

(* VerifyEmailJwt(raw, context) *)
Definition verify_email (now : Z) (ctx : Z) (raw : option token) : vres :=
  match raw with
  | None => VInvalid
  | Some t =>
      if negb (lib_accepts now KEmail t) then VInvalid else
      match claim_str (t_cli t), claim_str (t_sub t), claim_str (t_eml t), claim_int (t_exp t), claim_str (t_ctx t) with
      | Some cli, Some sub, Some eml, Some exp, Some c =>
          if exp <? now then VInvalid else if negb (c =? ctx) then VInvalid else VOk sub exp cli eml
      | _, _, _, _, _ => VInvalid
      end
  end.

(* loginRequiredProcess / loginRequiredPathProcess: an invalid token runs the request as guest *)
Definition login_required (now : Z) (raw : option token) : Z :=
  match verify_access now true raw with VOk u _ _ _ => u | VInvalid => GUEST end.

(* Refresh: Some user = new tokens are issued for that user *)
Definition REFRESH_TS : Z := 604800.
Definition ACCESS_TS : Z := 86400.
Definition EPSILON : Z := 2.
Definition refresh (now : Z) (access rfr : option token) (param_cli : Z) : option Z :=
  match verify_access now false access with
  | VInvalid => None
  | VOk ju jexp jcli _ =>
      match verify_refresh now rfr with
      | VInvalid => None
      | VOk u rexp cli _ =>
          let dd := (rexp - jexp) - (REFRESH_TS - ACCESS_TS) in
          if (EPSILON <? dd) || (dd <? - EPSILON) then None
          else if negb (cli =? param_cli) && negb (cli =? jcli) then None
          else if negb (u =? ju) then None
          else Some u
      end
  end.

(* GetTokenInfo: the token in the body must be a valid access token of the caller *)
Definition get_token_info (now : Z) (caller_tok body_tok : option token) : option Z :=
  let caller := login_required now caller_tok in
  match verify_access now true body_tok with
  | VInvalid => None
  | VOk u _ _ _ => if u =? caller then Some u else None
  end.

(* userInfoIsValidEmailUser as used by ChangeEmail (allow_sysop = false) and SetIDEmail (true):
   Some e = the e-mail e is applied to the path user *)
Definition email_use (now : Z) (caller_tok : option token) (path_user : Z) (email_tok : option token)
                     (ctx : Z) (caller_is_admin allow_sysop : bool) : option Z :=
  let caller := login_required now caller_tok in
  if path_user =? GUEST then None
  else if negb (allow_sysop && caller_is_admin) && negb (caller =? path_user) then None
  else match verify_email now ctx email_tok with
       | VInvalid => None
       | VOk eu _ _ eml => if negb (path_user =? eu) then None else Some eml
       end.

(* ------------------------------------------------------------------ the secrets in force *)
(* The verifiers above are written for a server whose three secrets are different keys: there
   [lib_accepts] compares the PURPOSE a token was signed for ([key_eqb]). What ParseJwt really
   compares is the secret itself, and which secret each purpose uses is decided at start-up
   (api/00-config.go defaults, overridden by api/config.go from the ini file). A configuration
   assigns a secret (an index into a pool of keys: equal index = same HMAC key) to each purpose;
   KForeign is a key the server does not use. The same decision logic over a configuration: *)
Definition config := key -> Z.
Definition lib_accepts_c (cfg : config) (now : Z) (secret : key) (t : token) : bool :=
  is_hmac (t_alg t) && t_intact t && (cfg (t_key t) =? cfg secret) &&
  lib_exp_ok now (t_exp t) && negb (t_nbf_future t) && negb (t_iat_future t).

Definition verify_access_c (cfg : config) (now : Z) (check_expire : bool) (raw : option token) : vres :=
  match raw with
  | None => VOk GUEST 0 0 0
  | Some t =>
      if negb (lib_accepts_c cfg now KAccess t) then VInvalid else
      match claim_str (t_cli t), claim_str (t_sub t), claim_int (t_exp t) with
      | Some cli, Some sub, Some exp =>
          if check_expire && (exp <? now) then VInvalid else VOk sub exp cli 0
      | _, _, _ => VInvalid
      end
  end.

Definition verify_refresh_c (cfg : config) (now : Z) (raw : option token) : vres :=
  match raw with
  | None => VOk GUEST 0 0 0
  | Some t =>
      if negb (lib_accepts_c cfg now KRefresh t) then VInvalid else
      match claim_str (t_cli t), claim_str (t_sub t), claim_int (t_exp t), claim_str (t_typ t) with
      | Some cli, Some sub, Some exp, Some typ =>
          if exp <? now then VInvalid else if negb (typ =? TYP_REFRESH) then VInvalid else VOk sub exp cli 0
      | _, _, _, _ => VInvalid
      end
  end.

Definition verify_email_c (cfg : config) (now : Z) (ctx : Z) (raw : option token) : vres :=
  match raw with
  | None => VInvalid
  | Some t =>
      if negb (lib_accepts_c cfg now KEmail t) then VInvalid else
      match claim_str (t_cli t), claim_str (t_sub t), claim_str (t_eml t), claim_int (t_exp t), claim_str (t_ctx t) with
      | Some cli, Some sub, Some eml, Some exp, Some c =>
          if exp <? now then VInvalid else if negb (c =? ctx) then VInvalid else VOk sub exp cli eml
      | _, _, _, _, _ => VInvalid
      end
  end.

Definition login_required_c (cfg : config) (now : Z) (raw : option token) : Z :=
  match verify_access_c cfg now true raw with VOk u _ _ _ => u | VInvalid => GUEST end.

Definition refresh_c (cfg : config) (now : Z) (access rfr : option token) (param_cli : Z) : option Z :=
  match verify_access_c cfg now false access with
  | VInvalid => None
  | VOk ju jexp jcli _ =>
      match verify_refresh_c cfg now rfr with
      | VInvalid => None
      | VOk u rexp cli _ =>
          let dd := (rexp - jexp) - (REFRESH_TS - ACCESS_TS) in
          if (EPSILON <? dd) || (dd <? - EPSILON) then None
          else if negb (cli =? param_cli) && negb (cli =? jcli) then None
          else if negb (u =? ju) then None
          else Some u
      end
  end.

Definition get_token_info_c (cfg : config) (now : Z) (caller_tok body_tok : option token) : option Z :=
  let caller := login_required_c cfg now caller_tok in
  match verify_access_c cfg now true body_tok with
  | VInvalid => None
  | VOk u _ _ _ => if u =? caller then Some u else None
  end.

Definition email_use_c (cfg : config) (now : Z) (caller_tok : option token) (path_user : Z) (email_tok : option token)
                       (ctx : Z) (caller_is_admin allow_sysop : bool) : option Z :=
  let caller := login_required_c cfg now caller_tok in
  if path_user =? GUEST then None
  else if negb (allow_sysop && caller_is_admin) && negb (caller =? path_user) then None
  else match verify_email_c cfg now ctx email_tok with
       | VInvalid => None
       | VOk eu _ _ eml => if negb (path_user =? eu) then None else Some eml
       end.

(* what the server itself issues: CreateToken / CreateRefreshToken / CreateEmailToken (HS256, its own
   secret of that purpose; the e-mail token's lifetime is JWT_TOKEN_EXPIRE_TS in the code) *)
Definition issue (now : Z) (k : key) (user cli eml ctx : Z) : token :=
  match k with
  | KRefresh => mkTok HS256 KRefresh true (CStr user) (CNum (now + REFRESH_TS)) (CStr cli) (CStr TYP_REFRESH) CAbsent CAbsent false false
  | KEmail => mkTok HS256 KEmail true (CStr user) (CNum (now + ACCESS_TS)) (CStr cli) CAbsent (CStr eml) (CStr ctx) false false
  | _ => mkTok HS256 k true (CStr user) (CNum (now + ACCESS_TS)) (CStr cli) CAbsent CAbsent CAbsent false false
  end.

(* an issued token presented somewhere; the expiry is not part of the answer (the issuer reads its own clock) *)
Definition strip_exp (r : vres) : list Z := match r with VInvalid => [0] | VOk u _ c m => [1; u; c; m] end.
Definition present_issued (cfg : config) (now : Z) (k : key) (user cli eml ctx : Z) (verifier vctx : Z) : list Z :=
  let t := Some (issue now k user cli eml ctx) in
  if verifier =? 1 then strip_exp (verify_access_c cfg now true t)
  else if verifier =? 2 then strip_exp (verify_refresh_c cfg now t)
  else if verifier =? 3 then strip_exp (verify_email_c cfg now vctx t)
  else if verifier =? 4 then [login_required_c cfg now t]
  else if verifier =? 6 then
    match get_token_info_c cfg now (Some (issue now KAccess user cli 0 0)) t with None => [0] | Some u => [1; u] end
  else if verifier =? 51 then
    match refresh_c cfg now (Some (issue now KAccess user cli 0 0)) t cli with None => [0] | Some u => [1; u] end
  else if verifier =? 52 then
    match refresh_c cfg now t (Some (issue now KRefresh user cli 0 0)) cli with None => [0] | Some u => [1; u] end
  else [ST_BADCASE].

(* ------------------------------------------------------------------ wire *)
Definition dec_alg (z : Z) : alg := if z =? 0 then HS256 else if z =? 1 then HS384 else if z =? 2 then HS512 else if z =? 3 then AlgNone else AlgOther.
Definition dec_key (z : Z) : key := if z =? 0 then KAccess else if z =? 1 then KRefresh else if z =? 2 then KEmail else KForeign.
Definition dec_cv (k v : Z) : cv := if k =? 0 then CAbsent else if k =? 1 then CStr v else if k =? 2 then (if v =? 0 then CZero else CNum v) else if k =? 3 then CZero else COther.
(* a token on the wire: [present; alg; key; intact; (kind,value) x6 for sub exp cli typ eml ctx; nbf_future; iat_future] *)
Definition dec_tok (l : list Z) : option token :=
  match l with
  | [p; a; k; i; sk; sv; ek; ev; ck; cvv; tk; tv; mk; mv; xk; xv; nf; iff] =>
      if p =? 0 then None else
      Some (mkTok (dec_alg a) (dec_key k) (i =? 1) (dec_cv sk sv) (dec_cv ek ev) (dec_cv ck cvv)
                  (dec_cv tk tv) (dec_cv mk mv) (dec_cv xk xv) (negb (nf =? 0)) (negb (iff =? 0)))
  | _ => None
  end.
Definition dec_cfg (sa sr se sf : Z) : config :=
  fun k => match k with KAccess => sa | KRefresh => sr | KEmail => se | KForeign => sf end.
Definition enc_vres (r : vres) : list Z := match r with VInvalid => [0] | VOk u e c m => [1; u; e; c; m] end.
Definition enc_opt (o : option Z) : list Z := match o with None => [0] | Some u => [1; u] end.

(* ------------------------------------------------------------------ histories *)
(* One process answers a whole HISTORY of presentations: the same tokens again and again, at any
   verifier or wrapper, at clock readings that may pass a token's own expiry between two
   presentations, with any number of other tokens verified in between. The code keeps nothing
   between two requests (VerifyJwt parses and checks the token every time), so the answer to a
   presentation is a function of (clock reading, verifier, token) alone. Verifiers: 1 VerifyJwt(raw, true),
   41/43 loginRequiredProcess (LoginRequiredJSON / LoginRequiredQuery), 42/44 loginRequiredPathProcess
   (LoginRequiredPathJSON / LoginRequiredPathQuery), 6 GetTokenInfo with the token as caller and body. *)
Definition present (now v : Z) (raw : option token) : list Z :=
  if v =? 1 then enc_vres (verify_access now true raw)
  else if (v =? 41) || (v =? 43) then [login_required now raw]
  else if (v =? 42) || (v =? 44) then [login_required now raw]
  else if v =? 6 then enc_opt (get_token_info now raw raw)
  else [ST_BADCASE].
Definition tok_at (toks : list (list Z)) (i : Z) : option token := dec_tok (nth (Z.to_nat i) toks []).
(* steps: flat triples verifier, token index, clock reading *)
Fixpoint history (toks : list (list Z)) (steps : list Z) : list (list Z) :=
  match steps with
  | v :: i :: now :: rest => present now v (tok_at toks i) :: history toks rest
  | _ => []
  end.

Definition run_case (args : list (list Z)) : list Z :=
  match args with
  | [[1]; [now; chk]; t] => ST_OK :: enc_vres (verify_access now (negb (chk =? 0)) (dec_tok t))
  | [[2]; [now]; t] => ST_OK :: enc_vres (verify_refresh now (dec_tok t))
  | [[3]; [now; ctx]; t] => ST_OK :: enc_vres (verify_email now ctx (dec_tok t))
  | [[4]; [now]; t] => [ST_OK; login_required now (dec_tok t)]
  | [[5]; [now; pcli]; a; r] => ST_OK :: enc_opt (refresh now (dec_tok a) (dec_tok r) pcli)
  | [[6]; [now]; a; b] => ST_OK :: enc_opt (get_token_info now (dec_tok a) (dec_tok b))
  | [[7]; [now; path_user; ctx; adm; allow]; a; e] =>
      ST_OK :: enc_opt (email_use now (dec_tok a) path_user (dec_tok e) ctx (negb (adm =? 0)) (negb (allow =? 0)))
  (* the same operations under the secrets in force [sa; sr; se; sf] *)
  | [[11]; [now; chk]; [sa; sr; se; sf]; t] => ST_OK :: enc_vres (verify_access_c (dec_cfg sa sr se sf) now (negb (chk =? 0)) (dec_tok t))
  | [[12]; [now]; [sa; sr; se; sf]; t] => ST_OK :: enc_vres (verify_refresh_c (dec_cfg sa sr se sf) now (dec_tok t))
  | [[13]; [now; ctx]; [sa; sr; se; sf]; t] => ST_OK :: enc_vres (verify_email_c (dec_cfg sa sr se sf) now ctx (dec_tok t))
  | [[14]; [now]; [sa; sr; se; sf]; t] => [ST_OK; login_required_c (dec_cfg sa sr se sf) now (dec_tok t)]
  | [[15]; [now; pcli]; [sa; sr; se; sf]; a; r] => ST_OK :: enc_opt (refresh_c (dec_cfg sa sr se sf) now (dec_tok a) (dec_tok r) pcli)
  | [[16]; [now]; [sa; sr; se; sf]; a; b] => ST_OK :: enc_opt (get_token_info_c (dec_cfg sa sr se sf) now (dec_tok a) (dec_tok b))
  | [[17]; [now; path_user; ctx; adm; allow]; [sa; sr; se; sf]; a; e] =>
      ST_OK :: enc_opt (email_use_c (dec_cfg sa sr se sf) now (dec_tok a) path_user (dec_tok e) ctx (negb (adm =? 0)) (negb (allow =? 0)))
  | [[19]; [now; k; user; cli; eml; ctx]; [verifier; vctx]; [sa; sr; se; sf]] =>
      ST_OK :: present_issued (dec_cfg sa sr se sf) now (dec_key k) user cli eml ctx verifier vctx
  | [21] :: steps :: toks => ST_OK :: concat (history toks steps)
  | _ => [ST_BADCASE]
  end.
