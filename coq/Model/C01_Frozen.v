(* C01 — the frozen reference layout: pttbbs' on-disk and shared-memory structures (pttstruct.h of the
   commit named in the sources), transcribed from DESIGN.md Appendix C. (name, (size, [(field, offset, size)])).
   PostLog is frozen as pttbbs' 100-byte postlog_t (title[66]); UserInfoRaw and SHMRaw are given for the
   docker/production constants. This file is reference DATA and is never regenerated from /repo. *)
From Coq Require Import ZArith List String.
Import ListNotations.
Local Open Scope string_scope.
Local Open Scope Z_scope.

Definition frozen_UserecRaw : Z * list (string * Z * Z) := (512, [
  ("Version", 0, 4); ("UserID", 4, 13); ("RealName", 17, 20); ("Nickname", 37, 24);
  ("PasswdHash", 61, 14); ("Pad1", 75, 1); ("UFlag", 76, 4); ("Unused1", 80, 4);
  ("UserLevel", 84, 4); ("NumLoginDays", 88, 4); ("NumPosts", 92, 4); ("FirstLogin", 96, 4);
  ("LastLogin", 100, 4); ("LastHost", 104, 16); ("Money", 120, 4); ("Unused2", 124, 4);
  ("Email", 128, 50); ("Address", 178, 50); ("Justify", 228, 39); ("UnusedBirth", 267, 3);
  ("Over18", 270, 1); ("PagerUIType", 271, 1); ("Pager", 272, 1); ("Invisible", 273, 1);
  ("Unused4", 274, 2); ("Exmailbox", 276, 4); ("Unused5", 280, 4); ("Career", 284, 40);
  ("UnusedPhone", 324, 20); ("Unused6", 344, 4); ("Chkpad1", 348, 44); ("Role", 392, 4);
  ("LastSeen", 396, 4); ("TimeSetAngel", 400, 4); ("TimePlayAngel", 404, 4); ("LastSong", 408, 4);
  ("LoginView", 412, 4); ("Unused8", 416, 1); ("Pad2", 417, 1); ("VlCount", 418, 2);
  ("FiveWin", 420, 2); ("FiveLose", 422, 2); ("FiveTie", 424, 2); ("ChcWin", 426, 2);
  ("ChcLose", 428, 2); ("ChcTie", 430, 2); ("Conn6Win", 432, 2); ("Conn6Lose", 434, 2);
  ("Conn6Tie", 436, 2); ("UnusedMind", 438, 2); ("GoWin", 440, 2); ("GoLose", 442, 2);
  ("GoTie", 444, 2); ("DarkWin", 446, 2); ("DarkLose", 448, 2); ("UaVersion", 450, 1);
  ("Signature", 451, 1); ("Unused10", 452, 1); ("BadPost", 453, 1); ("DarkTie", 454, 2);
  ("MyAngel", 456, 13); ("Pad3", 469, 1); ("ChessEloRating", 470, 2); ("WithMe", 472, 4);
  ("TimeRemoveBadPost", 476, 4); ("TimeViolateLaw", 480, 4); ("PadTail", 484, 28)
]).

Definition frozen_Userec2Raw : Z * list (string * Z * Z) := (128, [
  ("Version", 0, 4); ("UserLevel2", 4, 4); ("UpdateTS", 8, 4); ("PadTail", 12, 116)
]).

Definition frozen_BoardHeaderRaw : Z * list (string * Z * Z) := (256, [
  ("Brdname", 0, 13); ("Title", 13, 49); ("BM", 62, 39); ("Pad1", 101, 3);
  ("BrdAttr", 104, 4); ("ChessCountry", 108, 1); ("VoteLimitPosts_", 109, 1); ("VoteLimitLogins", 110, 1);
  ("Pad2_1", 111, 1); ("BUpdate", 112, 4); ("PostLimitPosts_", 116, 1); ("PostLimitLogins", 117, 1);
  ("Pad2_2", 118, 1); ("BVote", 119, 1); ("VTime", 120, 4); ("Level", 124, 4);
  ("PermReload", 128, 4); ("Gid", 132, 4); ("Next", 136, 8); ("FirstChild", 144, 8);
  ("Parent", 152, 4); ("ChildCount", 156, 4); ("NUser", 160, 4); ("PostExpire", 164, 4);
  ("EndGamble", 168, 4); ("PostType", 172, 33); ("PostTypeF", 205, 1); ("FastRecommendPause", 206, 1);
  ("VoteLimitBadpost", 207, 1); ("PostLimitBadpost", 208, 1); ("Pad3", 209, 3); ("SRexpire", 212, 4);
  ("Pad4", 216, 40)
]).

Definition frozen_FileHeaderRaw : Z * list (string * Z * Z) := (128, [
  ("Filename", 0, 28); ("Modified", 28, 4); ("Pad", 32, 1); ("Recommend", 33, 1);
  ("Owner", 34, 14); ("Date", 48, 6); ("Title", 54, 65); ("Pad2", 119, 1);
  ("Multi", 120, 4); ("Filemode", 124, 1); ("Pad3", 125, 3)
]).

Definition frozen_PostLog : Z * list (string * Z * Z) := (100, [
  ("Author", 0, 13); ("Board", 13, 13); ("Title", 26, 66); ("TheDate", 92, 4);
  ("Number", 96, 4)
]).

Definition frozen_FavBoard : Z * list (string * Z * Z) := (12, [
  ("Bid", 0, 4); ("LastVisit", 4, 4); ("Attr", 8, 1)
]).

Definition frozen_MsgQueueRaw : Z * list (string * Z * Z) := (100, [
  ("Pid", 0, 4); ("UserID", 4, 13); ("LastCallIn", 17, 76); ("MsgMode", 96, 4)
]).

Definition frozen_UserInfoRaw : Z * list (string * Z * Z) := (3484, [
  ("UID", 0, 4); ("Pid", 4, 4); ("SockAddr", 8, 4); ("UserLevel", 12, 4);
  ("UserID", 16, 13); ("Nickname", 29, 24); ("From", 53, 27); ("FromIP", 80, 4);
  ("DarkWin", 84, 2); ("DarkLose", 86, 2); ("Gap0", 88, 1); ("AngelPause", 89, 1);
  ("DarkTie", 90, 2); ("FriendTotal", 92, 4); ("NFriends", 96, 2); ("Unused3_", 98, 2);
  ("MyFriend", 100, 1024); ("Gap1", 1124, 4); ("FriendOnline", 1128, 1024); ("Gap2", 2152, 4);
  ("Reject", 2156, 128); ("Gap3", 2284, 4); ("MsgCount", 2288, 1); ("Unused4_", 2289, 3);
  ("Msgs", 2292, 1000); ("Gap4", 3292, 100); ("Birth", 3392, 1); ("Active", 3393, 1);
  ("Invisible", 3394, 1); ("Mode", 3395, 1); ("Pager", 3396, 1); ("Unused5_", 3397, 1);
  ("Conn6Win", 3398, 2); ("LastAct", 3400, 4); ("Alerts", 3404, 1); ("UnusedMind_", 3405, 1);
  ("Conn6Lose", 3406, 2); ("UnusedMind2_", 3408, 1); ("Sig", 3409, 1); ("Conn6Tie", 3410, 2);
  ("DestUID", 3412, 4); ("DestUip", 3416, 4); ("SockActive", 3420, 1); ("InChat", 3421, 1);
  ("Chatid", 3422, 11); ("LockMode", 3433, 1); ("Turn", 3434, 1); ("Mateid", 3435, 13);
  ("Color", 3448, 1); ("FiveWin", 3450, 2); ("FiveLose", 3452, 2); ("FiveTie", 3454, 2);
  ("ChcWin", 3456, 2); ("ChcLose", 3458, 2); ("ChcTie", 3460, 2); ("ChessEloRating", 3462, 2);
  ("GoWin", 3464, 2); ("GoLose", 3466, 2); ("GoTie", 3468, 2); ("WithMe", 3472, 4);
  ("BrcID", 3476, 4); ("WBTime", 3480, 4)
]).

Definition frozen_SHMRaw : Z * list (string * Z * Z) := (79973968, [
  ("Version", 0, 4); ("Size", 4, 4); ("Userid", 8, 26000000); ("Gap1", 26000008, 13);
  ("NextInHash", 26000024, 8000000); ("Gap2", 34000024, 4); ("Money", 34000028, 8000000); ("Gap3", 42000028, 4);
  ("CooldownTime", 42000032, 8000000); ("Gap4", 50000032, 4); ("HashHead", 50000036, 262144); ("Gap5", 50262180, 4);
  ("Number", 50262184, 4); ("Loaded", 50262188, 4); ("UInfo", 50262192, 1825616); ("Gap6", 52087808, 3484);
  ("Sorted", 52091292, 37728); ("Gap7", 52129020, 4); ("CurrSorted", 52129024, 4); ("UTMPUptime", 52129028, 4);
  ("UTMPNumber", 52129032, 4); ("UTMPNeedSort", 52129036, 1); ("UTMPBusyState", 52129037, 1); ("Gap8", 52129038, 4);
  ("BMCache", 52129044, 320000); ("Gap9", 52449044, 4); ("BCache", 52449048, 5120000); ("Gap10", 57569048, 4);
  ("BSorted", 57569052, 160000); ("Gap11", 57729052, 4); ("NHOTs", 57729056, 1); ("HBcache", 57729060, 512);
  ("Gap12", 57729572, 4); ("BusyStateB", 57729576, 80000); ("Gap13", 57809576, 4); ("Total", 57809580, 80000);
  ("Gap14", 57889580, 4); ("NBottom", 57889584, 20000); ("Gap15", 57909584, 4); ("Hbfl", 57909588, 20560000);
  ("Gap16", 78469588, 4); ("LastPostTime", 78469592, 80000); ("Gap17", 78549592, 4); ("BUptime", 78549596, 4);
  ("BTouchTime", 78549600, 4); ("BNumber", 78549604, 4); ("BBusyState", 78549608, 4); ("CloseVoteTime", 78549612, 4);
  ("Notes", 78549616, 1408000); ("Gap18", 79957616, 4); ("TodayIs", 79957620, 20); ("NeverUsedNNotes_", 79957640, 40);
  ("Gap19", 79957680, 4); ("NeverUsedNextRefresh_", 79957684, 40); ("Gap20", 79957724, 4); ("LoginMsg", 79957728, 100);
  ("LastFilm", 79957828, 4); ("LastUsong", 79957832, 4); ("PUptime", 79957836, 4); ("PTouchTime", 79957840, 4);
  ("PBusyState", 79957844, 4); ("GV2", 79957848, 2048); ("Statistic", 79959896, 2048); ("DeprecatedHomeIp_", 79961944, 1200);
  ("DeprecatedHomeMask_", 79963144, 1200); ("DeprecatedHomeDesc_", 79964344, 9600); ("DeprecatedHomeNum_", 79973944, 4); ("MaxUser", 79973948, 4);
  ("MaxTime", 79973952, 4); ("FUptime", 79973956, 4); ("FTouchTime", 79973960, 4); ("FBusyState", 79973964, 4)
]).

Definition frozen : list (string * (Z * list (string * Z * Z))) := [
  ("UserecRaw", frozen_UserecRaw);
  ("Userec2Raw", frozen_Userec2Raw);
  ("BoardHeaderRaw", frozen_BoardHeaderRaw);
  ("FileHeaderRaw", frozen_FileHeaderRaw);
  ("PostLog", frozen_PostLog);
  ("FavBoard", frozen_FavBoard);
  ("MsgQueueRaw", frozen_MsgQueueRaw);
  ("UserInfoRaw", frozen_UserInfoRaw);
  ("SHMRaw", frozen_SHMRaw)
].
