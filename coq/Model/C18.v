(* C18 — byte-string primitives. Executable model of
     types/cstr.go, types/ctype.go, types/utils.go (ReadLine), types/big5.go (TrimDBCS),
     cmsys/string.go, cmsys/fnv_hash.go, cmbbs/string.go (SubjectEx), ptt/kaede.go (StripANSIMoveCmd).
   One Gallina function per Go function; a Go loop over a slice is structural recursion over the list,
   an inner scanning loop is a state of the recursion; a panic the code can raise is [Crash].
   Tables and constants come from Gen/ (regenerated from the source on every run). *)
From Verif Require Import Base.Common Gen.Consts_default Gen.AnsiTab Gen.StrTab.

Definition ESC : Z := types_ansi.ESC_CHR.

(* ------------------------------------------------------------------ types/ctype.go, CcharTolower/Toupper *)
Definition is_upper (c : Z) : bool := (65 <=? c) && (c <=? 90).
Definition is_lower (c : Z) : bool := (97 <=? c) && (c <=? 122).
Definition to_lower (c : Z) : Z := if is_upper c then c + 97 - 65 else c.
Definition to_upper (c : Z) : Z := if is_lower c then c - 32 else c.
Definition is_alpha (c : Z) : bool := is_upper c || is_lower c.
Definition is_number (c : Z) : bool := (48 <=? c) && (c <=? 57).
Definition is_alnum (c : Z) : bool := is_alpha c || is_number c.
Definition is_ascii (c : Z) : bool := c <? 128.
Definition b2z (b : bool) : Z := if b then 1 else 0.

(* ------------------------------------------------------------------ types/cstr.go *)
Definition cstrlen (a : list Z) : Z := lenZ (cprefix a).          (* IndexByte(cstr, 0), or len *)
Definition cstr_to_bytes (a : list Z) : list Z := cprefix a.
Definition cstr_tolower (a : list Z) : list Z := map to_lower a.
Definition cstr_toupper (a : list Z) : list Z := map to_upper a.

(* Cstrcmp: [b] is cstr2[idx:] while [a] is cstr1[idx:] *)
Fixpoint cstrcmp (a b : list Z) : Z :=
  match a with
  | [] => match b with [] => 0 | y :: _ => - y end                  (* len1 < len2: -int(cstr2[len1]) *)
  | x :: a' =>
      if x =? 0 then match b with [] => 0 | y :: _ => if y =? 0 then 0 else - y end
      else match b with
           | [] => x                                                 (* idx >= len2 *)
           | y :: b' => if x =? y then cstrcmp a' b' else x - y
           end
  end.
Definition cstrcasecmp (a b : list Z) : Z := cstrcmp (cstr_tolower a) (cstr_tolower b).

(* bytes.HasPrefix, bytes.Index, bytes.IndexByte *)
Fixpoint has_prefix (s p : list Z) {struct p} : bool :=
  match p with
  | [] => true
  | y :: p' => match s with [] => false | x :: s' => (x =? y) && has_prefix s' p' end
  end.
Fixpoint bytes_index_from (s p : list Z) (i : Z) : Z :=
  if has_prefix s p then i else match s with [] => -1 | _ :: r => bytes_index_from r p (i + 1) end.
Definition bytes_index (s p : list Z) : Z := bytes_index_from s p 0.
Fixpoint index_byte_from (s : list Z) (c : Z) (i : Z) : Z :=
  match s with [] => -1 | x :: r => if x =? c then i else index_byte_from r c (i + 1) end.
Definition index_byte (s : list Z) (c : Z) : Z := index_byte_from s c 0.

Definition cstrstr (a sub : list Z) : Z :=
  let i := bytes_index a sub in if (i <? 0) || (i >=? cstrlen a) then -1 else i.
Definition cstrcasestr (a sub : list Z) : Z := cstrstr (cstr_tolower a) (cstr_tolower sub).
Definition cstr_case_has_prefix (a sub : list Z) : bool := has_prefix (cstr_tolower a) (cstr_tolower sub).

(* CstrTokenR: minIdx over the NUL and every separator byte; (cstr[:minIdx], cstr[minIdx+1:]) *)
Definition token_min_idx (a sep : list Z) : Z :=
  fold_left (fun m c => let i := index_byte a c in if i =? -1 then m else if i <? m then i else m) sep
            (let i := index_byte a 0 in if i =? -1 then lenZ a else i).
Definition cstr_token_r (a sep : list Z) : list Z * list Z :=
  let m := token_min_idx a sep in
  (firstn (Z.to_nat m) a, if m >=? lenZ a - 1 then [] else skipn (Z.to_nat (m + 1)) a).

(* ------------------------------------------------------------------ types/utils.go ReadLine *)
(* bufio.Reader.ReadBytes('\n') on an in-memory stream: up to and including the next LF, or the rest *)
Fixpoint read_bytes_lf (s : list Z) : list Z * list Z :=
  match s with
  | [] => ([], [])
  | c :: r => if c =? 10 then ([c], r) else let (l, rest) := read_bytes_lf r in (c :: l, rest)
  end.
(* line[len(line)-1] == c *)
Definition last_is (l : list Z) (c : Z) : res bool :=                 (* rev_append l [] = rev l, in linear time *)
  match rev_append l [] with [] => Crash | x :: _ => Ok (x =? c) end.
(* one call: None = (nil, io.EOF); Some (line, remaining stream) *)
Definition read_line (s : list Z) : res (option (list Z * list Z)) :=
  let (line, rest) := read_bytes_lf s in
  match line with
  | [] => Ok None
  | _ =>
      res_bind (last_is line 10) (fun b =>
      let line := if b then removelast line else line in
      res_bind (match line with [] => Ok false | _ => last_is line 13 end) (fun b =>    (* len(line) > 0 && ... *)
      let line := if b then removelast line else line in
      Ok (Some (line, rest))))
  end.
(* the caller's loop: ReadLine until EOF *)
Fixpoint read_all (fuel : nat) (s : list Z) : res (list (list Z)) :=
  match fuel with
  | O => Hang
  | S f => res_bind (read_line s) (fun o =>
           match o with None => Ok [] | Some (l, rest) => res_map (cons l) (read_all f rest) end)
  end.
Definition read_lines (s : list Z) : res (list (list Z)) := read_all (S (length s)) s.

(* ------------------------------------------------------------------ ReadLine over a reader that can fail *)
(* The stream under the bufio.Reader is a list of EVENTS: a byte (< 256) or a read error (256 + code, code 0 = io.EOF)
   which the underlying Read hands out once; after the last event it answers io.EOF for ever. How the bytes are cut
   into Read calls, how large bufio's buffer is and whether an error arrives with the last data or alone do not
   appear (the harness varies all three): bufio.Reader.ReadBytes('\n') returns the bytes up to and including the
   next LF with a nil error, or the bytes up to the next error event together with that error (the event is used
   up: bufio.Reader.readErr), or the rest with io.EOF. Result: (bytes, error, remaining events). *)
Definition EV_EOF : Z := 256.
Definition is_err_ev (c : Z) : bool := 256 <=? c.
Fixpoint read_bytes_ev (s : list Z) : list Z * option Z * list Z :=
  match s with
  | [] => ([], Some EV_EOF, [])
  | c :: r =>
      if is_err_ev c then ([], Some c, r)
      else if c =? 10 then ([c], None, r)
      else match read_bytes_ev r with (l, e, rest) => (c :: l, e, rest) end
  end.
(* what one call of ReadLine hands to its caller: (line, nil) or (nil, err) *)
Inductive rl_out : Type := RlLine (l : list Z) | RlErr (code : Z).
(* the part of ReadLine after the error test: len(line) == 0 -> io.EOF; strip one LF, then one CR *)
Definition rl_finish (line rest : list Z) : res (rl_out * list Z) :=
  match line with
  | [] => Ok (RlErr EV_EOF, rest)
  | _ =>
      res_bind (last_is line 10) (fun b =>
      let line := if b then removelast line else line in
      res_bind (match line with [] => Ok false | _ => last_is line 13 end) (fun b =>
      let line := if b then removelast line else line in
      Ok (RlLine line, rest)))
  end.
Definition read_line_ev (s : list Z) : res (rl_out * list Z) :=
  match read_bytes_ev s with
  | (line, Some e, rest) => if e =? EV_EOF then rl_finish line rest else Ok (RlErr e, rest)   (* err != nil && err != io.EOF *)
  | (line, None, rest) => rl_finish line rest
  end.
(* n calls in a row, whatever they return *)
Fixpoint read_calls (n : nat) (s : list Z) : res (list rl_out) :=
  match n with
  | O => Ok []
  | S n' => res_bind (read_line_ev s) (fun p => res_map (cons (fst p)) (read_calls n' (snd p)))
  end.
(* what a caller that loops on err == nil sees: the lines before the first error, and that error *)
Fixpoint until_err (o : list rl_out) : list (list Z) * option Z :=
  match o with
  | [] => ([], None)
  | RlLine l :: r => let (ls, e) := until_err r in (l :: ls, e)
  | RlErr c :: _ => ([], Some c)
  end.

(* ------------------------------------------------------------------ cmsys/file.go FileFindRecord, FileExistsRecord *)
(* tokenize: endIdx = index of the LAST byte of the line that is in sep (the inner break leaves only the inner loop),
   len(line) if there is none; first = line[:endIdx] *)
Fixpoint tok_end (line sep : list Z) (idx endIdx : Z) : Z :=
  match line with
  | [] => endIdx
  | c :: r => tok_end r sep (idx + 1) (if existsb (Z.eqb c) sep then idx else endIdx)
  end.
Definition tokenize_first (line sep : list Z) : list Z := firstn (Z.to_nat (tok_end line sep 0 (lenZ line))) line.
Definition line_matches (key line : list Z) : bool := cstrcasecmp key (tokenize_first line BYTES_SPACE) =? 0.
(* the loop over the lines of the file; idx counts from 1 *)
Fixpoint find_record (key : list Z) (lines : list (list Z)) (idx : Z) : Z :=
  match lines with
  | [] => 0
  | l :: r => if line_matches key l then idx + 1 else find_record key r (idx + 1)
  end.
Definition file_find_record (content key : list Z) : res Z :=
  res_map (fun ls => find_record key ls 0) (read_lines content).
Definition file_exists_record (content key : list Z) : res bool :=
  res_map (fun i => 0 <? i) (file_find_record content key).

(* ------------------------------------------------------------------ types/big5.go TrimDBCS *)
(* returns (result, the caller's array afterwards) *)
Fixpoint dangling_lead (l : list Z) (lead : bool) : bool :=          (* isLead = !isLead && each >= 0x80 *)
  match l with [] => lead | c :: r => dangling_lead r (negb lead && (128 <=? c)) end.
Definition trim_dbcs (a : list Z) : res (list Z * list Z) :=
  let p := cprefix a in
  match p with
  | [] => Ok ([], a)
  | _ =>
      if dangling_lead p false
      then Ok (removelast p, firstn (length p - 1) a ++ 0 :: skipn (length p) a)
      else Ok (p, a)
  end.

(* ------------------------------------------------------------------ cmsys/fnv_hash.go *)
Definition P32 : Z := cmsys.FNV_32_PRIME.
Definition P64 : Z := cmsys.FNV_64_PRIME.
Fixpoint fnv32_bytes (l : list Z) (h : Z) : Z :=
  match l with [] => h | c :: r => fnv32_bytes r (Z.lxor (wrapu32 (h * P32)) c) end.
Fixpoint fnv1a32_gen (f : Z -> Z) (l : list Z) (h : Z) : Z :=
  match l with [] => h | c :: r => if c =? 0 then h else fnv1a32_gen f r (wrapu32 (Z.lxor h (f c) * P32)) end.
Definition fnv1a32_bytes := fnv1a32_gen (fun c => c).
Definition fnv1a32_strcase := fnv1a32_gen to_upper.
Fixpoint fnv1a32_dbcscase (l : list Z) (dbcs : bool) (h : Z) : Z :=
  match l with
  | [] => h
  | c :: r =>
      if c =? 0 then h
      else if dbcs then fnv1a32_dbcscase r false (wrapu32 (Z.lxor h c * P32))
      else if c <? 128 then fnv1a32_dbcscase r false (wrapu32 (Z.lxor h (to_upper c) * P32))
      else fnv1a32_dbcscase r true (wrapu32 (Z.lxor h c * P32))
  end.
Fixpoint fnv64_bytes (l : list Z) (h : Z) : Z :=
  match l with [] => h | c :: r => fnv64_bytes r (Z.lxor (wrapu64 (h * P64)) c) end.
Fixpoint fnv1a64_gen (f : Z -> Z) (l : list Z) (h : Z) : Z :=
  match l with [] => h | c :: r => if c =? 0 then h else fnv1a64_gen f r (wrapu64 (Z.lxor h (f c) * P64)) end.
Definition fnv1a64_bytes := fnv1a64_gen (fun c => c).
Definition fnv1a64_strcase := fnv1a64_gen to_upper.
Fixpoint fnv1a64_dbcscase (l : list Z) (dbcs : bool) (h : Z) : Z :=
  match l with
  | [] => h
  | c :: r =>
      if c =? 0 then h
      else if dbcs then fnv1a64_dbcscase r false (wrapu64 (Z.lxor h c * P64))
      else if c <? 128 then fnv1a64_dbcscase r false (wrapu64 (Z.lxor h (to_upper c) * P64))
      else fnv1a64_dbcscase r true (wrapu64 (Z.lxor h c * P64))
  end.
(* Fnv64Buf(buf, theLen, hval): theLen is decremented and tested for zero after each byte *)
Fixpoint fnv64_buf (l : list Z) (n : Z) (h : Z) : Z :=
  match l with
  | [] => h
  | c :: r => let h' := Z.lxor (wrapu64 (h * P64)) c in if n - 1 =? 0 then h' else fnv64_buf r (n - 1) h'
  end.
Definition fnv1a_byte (c h : Z) : Z := wrapu32 (Z.lxor h c * P32).

Definition string_hash (a : list Z) : Z := fnv1a32_strcase a cmsys.FNV1_32_INIT.
Definition string_hash_bits (a : list Z) : Z := string_hash a mod (2 ^ ptttype.HASH_BITS).

(* ------------------------------------------------------------------ cmsys/string.go *)
Fixpoint strip_blank (s : list Z) : list Z :=
  match s with [] => [] | c :: r => if c =? 32 then [] else c :: strip_blank r end.

Definition big5_trail (c : Z) : bool := ((64 <=? c) && (c <=? 126)) || ((161 <=? c) && (c <=? 254)).
Fixpoint strip_none_big5 (s : list Z) : list Z :=
  match s with
  | [] => []
  | c :: r =>
      if c =? 0 then []
      else if (32 <=? c) && (c <? 128) then c :: strip_none_big5 r
      else if 128 <=? c then
        match r with
        | [] => []                                                   (* idx+1 < len fails; the loop ends *)
        | t :: r' => if big5_trail t then c :: t :: strip_none_big5 r' else strip_none_big5 r
        end
      else strip_none_big5 r
  end.
(* the caller's array afterwards: out, then a NUL if there is room, then the untouched tail *)
Definition write_back (s out : list Z) : list Z :=
  out ++ match skipn (length out) s with [] => [] | _ :: t => 0 :: t end.

(* ESCAPE_FLAG has one entry per byte value (Props: C18_escape_flag_spec), so the default is never used *)
Definition esc_flag (c : Z) : Z := nth (Z.to_nat c) ESCAPE_FLAG 0.
Definition is_escape_param (c : Z) : bool := negb (Z.land (esc_flag c) 1 =? 0).
Definition is_escape_command (c : Z) : bool := negb (Z.land (esc_flag c) 2 =? 0).
Definition keep_csi (flag cmd : Z) : bool :=
  ((flag =? cmsys.STRIP_ANSI_NO_RELOAD) && is_escape_command cmd) || ((flag =? cmsys.STRIP_ANSI_ONLY_COLOR) && (cmd =? 109)).

(* StripAnsi. States: in text; just after ESC; inside ESC '[' with the parameter bytes seen so far (reversed) *)
Inductive sa_state := SText | SEsc | SCsi (params_rev : list Z).
Fixpoint strip_ansi_st (flag : Z) (st : sa_state) (s : list Z) : res (list Z) :=
  match st, s with
  | SText, [] => Ok []
  | SText, c :: r =>
      if c =? 0 then Ok []
      else if c =? ESC then strip_ansi_st flag SEsc r
      else res_map (cons c) (strip_ansi_st flag SText r)
  | SEsc, [] => Ok []                                                (* ESC is the last byte *)
  | SEsc, p :: r =>
      if p =? 91 then strip_ansi_st flag (SCsi []) r
      else if p =? 0 then Ok []
      else strip_ansi_st flag SText r                                (* ESC and the byte after it are dropped *)
  | SCsi acc, [] => Ok []                                            (* idxP == len(src): cut-off sequence, break *)
  | SCsi acc, c :: r =>
      if is_escape_param c then strip_ansi_st flag (SCsi (c :: acc)) r
      else
        let kept := if keep_csi flag c then ESC :: 91 :: rev acc ++ [c] else [] in
        if c =? 0 then Ok kept else res_map (app kept) (strip_ansi_st flag SText r)
  end.
Definition strip_ansi (s : list Z) (flag : Z) : res (list Z) := strip_ansi_st flag SText s.

(* bytes.TrimRight(s, " ") *)
Fixpoint trim_right_sp (l : list Z) : list Z :=
  match l with
  | [] => []
  | c :: r => match trim_right_sp r with [] => if c =? 32 then [] else [c] | t => c :: t end
  end.
Definition trim (s : list Z) : list Z := trim_right_sp (cprefix s).

Definition dbcs_next (c prev : Z) : Z :=
  if prev =? cmsys.DBCS_LEADING then cmsys.DBCS_TRAILING
  else if 128 <=? c then cmsys.DBCS_LEADING else cmsys.DBCS_ASCII.
Fixpoint dbcs_status_loop (str : list Z) (pos : Z) (st : Z) : res Z :=
  if pos <? 0 then Ok st
  else match str with
       | [] => Ok st                                                 (* pos >= 0 && len(str) > 0 *)
       | c :: r => let st' := dbcs_next c st in
                   match r with [] => Ok st' | _ => dbcs_status_loop r (pos - 1) st' end
       end.
Definition dbcs_status (str : list Z) (pos : Z) : res Z := dbcs_status_loop str pos cmsys.DBCS_ASCII.
Definition dbcs_safe_trim (str : list Z) : res (list Z) :=
  if lenZ str <? 1 then Ok str
  else res_map (fun st => if st =? cmsys.DBCS_LEADING then removelast str else str) (dbcs_status str (lenZ str - 1)).

(* ------------------------------------------------------------------ ptt/kaede.go StripANSIMoveCmd (in place) *)
Definition in_bytes (c : Z) (l : list Z) : bool := existsb (Z.eqb c) l.
(* esc = true: the bytes after an ESC are being skipped while they are in PATTERN_ANSI_CODE *)
Fixpoint strip_movecmd_st (esc : bool) (s : list Z) : list Z :=
  match s with
  | [] => []
  | c :: r =>
      if esc then
        if in_bytes c PATTERN_ANSI_CODE then c :: strip_movecmd_st true r
        else let c' := if in_bytes c PATTERN_ANSI_MOVECMD then 115 else c in
             c' :: strip_movecmd_st (c' =? ESC) r
      else c :: strip_movecmd_st (c =? ESC) r
  end.
Definition strip_movecmd (s : list Z) : list Z := strip_movecmd_st false s.

(* ------------------------------------------------------------------ cmbbs/string.go SubjectEx *)
(* cmsys.StrcaseStartsWith: bytes.HasPrefix(CstrTolower(str), CstrTolower(prefix)) *)
Definition strcase_starts_with (s p : list Z) : bool := has_prefix (cstr_tolower s) (cstr_tolower p).
(* pTitle[len(prefix):] *)
Definition drop_prefix (p t : list Z) : res (list Z) :=
  if lenZ t <? lenZ p then Crash else Ok (skipn (length p) t).
Fixpoint subject_loop (fuel : nat) (ty : Z) (t : list Z) : res (Z * list Z) :=
  match fuel with
  | O => Hang
  | S f =>
      match t with
      | [] => Ok (ty, t)
      | _ =>
          let hit := if strcase_starts_with t STR_REPLY then Some (STR_REPLY, ptttype.SUBJECT_REPLY)
                     else if strcase_starts_with t STR_FORWARD then Some (STR_FORWARD, ptttype.SUBJECT_FORWARD)
                     else if strcase_starts_with t STR_LEGACY_FORWARD then Some (STR_LEGACY_FORWARD, ptttype.SUBJECT_FORWARD)
                     else None in
          match hit with
          | None => Ok (ty, t)
          | Some (p, ty') =>
              match drop_prefix p t with
              | Ok [] => Ok (ty', [])
              | Ok (c :: r) => subject_loop f ty' (if c =? 32 then r else c :: r)
              | Crash => Crash
              | Hang => Hang
              end
          end
      end
  end.
Definition TITLE_SZ : nat := Z.to_nat (ptttype.TTLEN + 1).
Definition subject_ex (title : list Z) : res (Z * list Z) :=
  subject_loop (S (length title)) ptttype.SUBJECT_NORMAL (cprefix title).

(* ------------------------------------------------------------------ wire *)
Fixpoint wire_lines (ls : list (list Z)) : list Z :=
  match ls with [] => [] | l :: r => lenZ l :: l ++ wire_lines r end.
Definition wire2 (p : list Z * list Z) : list Z := lenZ (fst p) :: fst p ++ snd p.
Fixpoint wire_outs (o : list rl_out) : list Z :=
  match o with
  | [] => []
  | RlLine l :: r => 0 :: lenZ l :: l ++ wire_outs r
  | RlErr c :: r => 1 :: (c - 256) :: wire_outs r
  end.

Definition fnv_op (kind : Z) (s : list Z) (h n : Z) : list Z :=
  if kind =? 1 then [ST_OK; fnv32_bytes s h]
  else if kind =? 2 then [ST_OK; fnv1a32_bytes s h]
  else if kind =? 3 then [ST_OK; fnv1a32_strcase s h]
  else if kind =? 4 then [ST_OK; fnv1a32_dbcscase s false h]
  else if kind =? 5 then [ST_OK; fnv64_bytes s h]
  else if kind =? 6 then [ST_OK; fnv1a64_bytes s h]
  else if kind =? 7 then [ST_OK; fnv1a64_strcase s h]
  else if kind =? 8 then [ST_OK; fnv1a64_dbcscase s false h]
  else if kind =? 9 then [ST_OK; fnv64_buf s n h]
  else if kind =? 10 then match s with [c] => [ST_OK; fnv1a_byte c h] | _ => [ST_BADCASE] end
  else [ST_BADCASE].

(* one branch per helper; [rest] are the argument groups after the [op] group *)
Definition run_op_base (op : Z) (rest : list (list Z)) : list Z :=
  if op =? 1 then match rest with [a] => [ST_OK; cstrlen a] | _ => [ST_BADCASE] end
  else if op =? 2 then match rest with [a] => ST_OK :: cstr_to_bytes a | _ => [ST_BADCASE] end
  else if op =? 3 then match rest with [a] => ST_OK :: cstr_tolower a | _ => [ST_BADCASE] end
  else if op =? 4 then match rest with [a] => ST_OK :: cstr_toupper a | _ => [ST_BADCASE] end
  else if op =? 5 then match rest with
       | [[c]] => [ST_OK; b2z (is_alpha c); b2z (is_number c); b2z (is_alnum c); b2z (is_ascii c); to_lower c; to_upper c]
       | _ => [ST_BADCASE] end
  else if op =? 6 then match rest with [s] => wire (fun ls => lenZ ls :: wire_lines ls) (read_lines s) | _ => [ST_BADCASE] end
  else if op =? 7 then match rest with [a] => wire wire2 (trim_dbcs a) | _ => [ST_BADCASE] end
  else if op =? 8 then match rest with [a] => [ST_OK; string_hash a] | _ => [ST_BADCASE] end
  else if op =? 9 then match rest with [a] => [ST_OK; string_hash_bits a] | _ => [ST_BADCASE] end
  else if op =? 10 then match rest with [[k]; s; [h]; [n]] => fnv_op k s h n | _ => [ST_BADCASE] end
  else if op =? 11 then match rest with [s] => ST_OK :: strip_blank s | _ => [ST_BADCASE] end
  else if op =? 12 then match rest with [s] => ST_OK :: wire2 (strip_none_big5 s, write_back s (strip_none_big5 s)) | _ => [ST_BADCASE] end
  else if op =? 13 then match rest with [s; [flag]] => wire (fun o => o) (strip_ansi s flag) | _ => [ST_BADCASE] end
  else if op =? 14 then match rest with [s] => ST_OK :: trim s | _ => [ST_BADCASE] end
  else if op =? 15 then match rest with [s] => wire (fun o => o) (dbcs_safe_trim s) | _ => [ST_BADCASE] end
  else if op =? 16 then match rest with [s; [pos]] => wire (fun st => [st]) (dbcs_status s pos) | _ => [ST_BADCASE] end
  else if op =? 17 then match rest with [[c]; [prev]] => [ST_OK; dbcs_next c prev] | _ => [ST_BADCASE] end
  else if op =? 18 then match rest with [s] => wire (fun r => fst r :: snd r) (subject_ex (fixlen TITLE_SZ s)) | _ => [ST_BADCASE] end
  else if op =? 19 then match rest with [s] => ST_OK :: strip_movecmd s | _ => [ST_BADCASE] end
  else if op =? 20 then match rest with [a; b] => [ST_OK; cstrcmp a b] | _ => [ST_BADCASE] end
  else if op =? 21 then match rest with [a; b] => [ST_OK; cstrcasecmp a b] | _ => [ST_BADCASE] end
  else if op =? 22 then match rest with [a; b] => [ST_OK; cstrstr a b] | _ => [ST_BADCASE] end
  else if op =? 23 then match rest with [a; b] => [ST_OK; cstrcasestr a b] | _ => [ST_BADCASE] end
  else if op =? 24 then match rest with [a; b] => [ST_OK; b2z (cstr_case_has_prefix a b)] | _ => [ST_BADCASE] end
  else if op =? 25 then match rest with [a; sep] => ST_OK :: wire2 (cstr_token_r a sep) | _ => [ST_BADCASE] end
  else if op =? 26 then match rest with       (* events, calls; the chunking and the buffer size / reader kind are not looked at *)
       | [s; [n]; _; [_; _]] => wire (fun o => lenZ o :: wire_outs o) (read_calls (Z.to_nat n) s)
       | _ => [ST_BADCASE] end
  else if op =? 27 then match rest with
       | [content; key] => wire (fun i => [i; b2z (0 <? i)]) (file_find_record content key)
       | _ => [ST_BADCASE] end
  else [ST_BADCASE].

(* ------------------------------------------------------------------ the surroundings of a call *)
(* op 28: a helper called on buf[:n] of a LARGER buffer (len < cap, any bytes behind the input). Group k holds the
   whole buffer; with n_k >= 0 the helper sees its first n_k bytes, with n_k < 0 (or no n_k) the group as it is.
   A Go slice is (pointer, len, cap): the helpers are specified on the len bytes, so the call answers what it answers
   on the inputs alone, and the bytes behind every input are afterwards what they were. *)
Definition win_cut (n : Z) (g : list Z) : list Z := if n <? 0 then g else firstn (Z.to_nat n) g.
Definition win_tail (n : Z) (g : list Z) : list Z := if n <? 0 then [] else skipn (Z.to_nat n) g.
Fixpoint win_ok (ns : list Z) (gs : list (list Z)) : bool :=
  match ns, gs with
  | [], _ => true
  | n :: ns', g :: gs' => (n <=? lenZ g) && win_ok ns' gs'
  | _ :: _, [] => false
  end.
Fixpoint win_args (ns : list Z) (gs : list (list Z)) : list (list Z) :=
  match ns, gs with
  | n :: ns', g :: gs' => win_cut n g :: win_args ns' gs'
  | _, _ => gs
  end.
Fixpoint win_tails (ns : list Z) (gs : list (list Z)) : list Z :=
  match ns, gs with
  | n :: ns', g :: gs' => win_tail n g ++ win_tails ns' gs'
  | _, _ => []
  end.
Definition run_window (rest : list (list Z)) : list Z :=
  match rest with
  | [iop] :: ns :: gs =>
      if win_ok ns gs then
        let out := run_op_base iop (win_args ns gs) in
        if hd 9 out =? ST_OK then ST_OK :: lenZ out :: out ++ win_tails ns gs else out
      else [ST_BADCASE]
  | _ => [ST_BADCASE]
  end.

(* op 29: helpers called by several goroutines of one process at the same time. The helpers have no state of their
   own: whatever the number of goroutines, the number of rounds and the interleaving, every call answers what it
   answers alone - ONE distinct answer per case. The cases come as  [k; iop] :: k argument groups  one after another. *)
Fixpoint conc_outs (fuel : nat) (gs : list (list Z)) : option (list (list Z)) :=
  match fuel with
  | O => None
  | S f =>
      match gs with
      | [] => Some []
      | [k; iop] :: r =>
          if (k <? 0) || (lenZ r <? k) then None
          else match conc_outs f (skipn (Z.to_nat k) r) with
               | Some t => Some (run_op_base iop (firstn (Z.to_nat k) r) :: t)
               | None => None
               end
      | _ => None
      end
  end.
Fixpoint wire_conc (outs : list (list Z)) : list Z :=
  match outs with [] => [] | o :: r => 1 :: lenZ o :: o ++ wire_conc r end.
Definition run_conc (rest : list (list Z)) : list Z :=
  match rest with
  | [g; rounds] :: gs =>
      if (g <? 1) || (64 <? g) || (rounds <? 1) then [ST_BADCASE]
      else match conc_outs (S (length gs)) gs with
           | Some outs => ST_OK :: lenZ outs :: wire_conc outs
           | None => [ST_BADCASE]
           end
  | _ => [ST_BADCASE]
  end.

Definition run_op (op : Z) (rest : list (list Z)) : list Z :=
  if op =? 28 then run_window rest
  else if op =? 29 then run_conc rest
  else run_op_base op rest.

Definition run_case (args : list (list Z)) : list Z :=
  match args with
  | [op] :: rest => run_op op rest
  | _ => [ST_BADCASE]
  end.
