(* C02 — the specification side: textbook DES (FIPS 46-3) and traditional crypt(3) on top of it, written
   on lists of bits numbered 1..64 from the most significant bit of the first byte, exactly as the standard
   prints them. Transcribed from DESIGN.md Appendix B (tables typed from the standard and validated there
   against libcrypt). Nothing here refers to the Go code or to its tables; the check runs this definition
   next to the model of the Go code, the Go code itself and libcrypt on every case. *)
From Verif Require Import Base.Common.

Definition IP : list nat :=
  [58; 50; 42; 34; 26; 18; 10; 2; 60; 52; 44; 36; 28; 20; 12; 4;
   62; 54; 46; 38; 30; 22; 14; 6; 64; 56; 48; 40; 32; 24; 16; 8;
   57; 49; 41; 33; 25; 17; 9; 1; 59; 51; 43; 35; 27; 19; 11; 3;
   61; 53; 45; 37; 29; 21; 13; 5; 63; 55; 47; 39; 31; 23; 15; 7]%nat.
Definition FP : list nat :=
  [40; 8; 48; 16; 56; 24; 64; 32; 39; 7; 47; 15; 55; 23; 63; 31;
   38; 6; 46; 14; 54; 22; 62; 30; 37; 5; 45; 13; 53; 21; 61; 29;
   36; 4; 44; 12; 52; 20; 60; 28; 35; 3; 43; 11; 51; 19; 59; 27;
   34; 2; 42; 10; 50; 18; 58; 26; 33; 1; 41; 9; 49; 17; 57; 25]%nat.
Definition E : list nat :=
  [32; 1; 2; 3; 4; 5; 4; 5; 6; 7; 8; 9; 8; 9; 10; 11;
   12; 13; 12; 13; 14; 15; 16; 17; 16; 17; 18; 19; 20; 21; 20; 21;
   22; 23; 24; 25; 24; 25; 26; 27; 28; 29; 28; 29; 30; 31; 32; 1]%nat.
Definition P : list nat :=
  [16; 7; 20; 21; 29; 12; 28; 17; 1; 15; 23; 26; 5; 18; 31; 10;
   2; 8; 24; 14; 32; 27; 3; 9; 19; 13; 30; 6; 22; 11; 4; 25]%nat.
Definition PC1 : list nat :=
  [57; 49; 41; 33; 25; 17; 9; 1; 58; 50; 42; 34; 26; 18; 10; 2;
   59; 51; 43; 35; 27; 19; 11; 3; 60; 52; 44; 36; 63; 55; 47; 39;
   31; 23; 15; 7; 62; 54; 46; 38; 30; 22; 14; 6; 61; 53; 45; 37;
   29; 21; 13; 5; 28; 20; 12; 4]%nat.
Definition PC2 : list nat :=
  [14; 17; 11; 24; 1; 5; 3; 28; 15; 6; 21; 10; 23; 19; 12; 4;
   26; 8; 16; 7; 27; 20; 13; 2; 41; 52; 31; 37; 47; 55; 30; 40;
   51; 45; 33; 48; 44; 49; 39; 56; 34; 53; 46; 42; 50; 36; 29; 32]%nat.
Definition SHIFTS : list nat :=
  [1; 1; 2; 2; 2; 2; 2; 2; 1; 2; 2; 2; 2; 2; 2; 1]%nat.
Definition S1 : list nat :=
  [14; 4; 13; 1; 2; 15; 11; 8; 3; 10; 6; 12; 5; 9; 0; 7;
   0; 15; 7; 4; 14; 2; 13; 1; 10; 6; 12; 11; 9; 5; 3; 8;
   4; 1; 14; 8; 13; 6; 2; 11; 15; 12; 9; 7; 3; 10; 5; 0;
   15; 12; 8; 2; 4; 9; 1; 7; 5; 11; 3; 14; 10; 0; 6; 13]%nat.
Definition S2 : list nat :=
  [15; 1; 8; 14; 6; 11; 3; 4; 9; 7; 2; 13; 12; 0; 5; 10;
   3; 13; 4; 7; 15; 2; 8; 14; 12; 0; 1; 10; 6; 9; 11; 5;
   0; 14; 7; 11; 10; 4; 13; 1; 5; 8; 12; 6; 9; 3; 2; 15;
   13; 8; 10; 1; 3; 15; 4; 2; 11; 6; 7; 12; 0; 5; 14; 9]%nat.
Definition S3 : list nat :=
  [10; 0; 9; 14; 6; 3; 15; 5; 1; 13; 12; 7; 11; 4; 2; 8;
   13; 7; 0; 9; 3; 4; 6; 10; 2; 8; 5; 14; 12; 11; 15; 1;
   13; 6; 4; 9; 8; 15; 3; 0; 11; 1; 2; 12; 5; 10; 14; 7;
   1; 10; 13; 0; 6; 9; 8; 7; 4; 15; 14; 3; 11; 5; 2; 12]%nat.
Definition S4 : list nat :=
  [7; 13; 14; 3; 0; 6; 9; 10; 1; 2; 8; 5; 11; 12; 4; 15;
   13; 8; 11; 5; 6; 15; 0; 3; 4; 7; 2; 12; 1; 10; 14; 9;
   10; 6; 9; 0; 12; 11; 7; 13; 15; 1; 3; 14; 5; 2; 8; 4;
   3; 15; 0; 6; 10; 1; 13; 8; 9; 4; 5; 11; 12; 7; 2; 14]%nat.
Definition S5 : list nat :=
  [2; 12; 4; 1; 7; 10; 11; 6; 8; 5; 3; 15; 13; 0; 14; 9;
   14; 11; 2; 12; 4; 7; 13; 1; 5; 0; 15; 10; 3; 9; 8; 6;
   4; 2; 1; 11; 10; 13; 7; 8; 15; 9; 12; 5; 6; 3; 0; 14;
   11; 8; 12; 7; 1; 14; 2; 13; 6; 15; 0; 9; 10; 4; 5; 3]%nat.
Definition S6 : list nat :=
  [12; 1; 10; 15; 9; 2; 6; 8; 0; 13; 3; 4; 14; 7; 5; 11;
   10; 15; 4; 2; 7; 12; 9; 5; 6; 1; 13; 14; 0; 11; 3; 8;
   9; 14; 15; 5; 2; 8; 12; 3; 7; 0; 4; 10; 1; 13; 11; 6;
   4; 3; 2; 12; 9; 5; 15; 10; 11; 14; 1; 7; 6; 0; 8; 13]%nat.
Definition S7 : list nat :=
  [4; 11; 2; 14; 15; 0; 8; 13; 3; 12; 9; 7; 5; 10; 6; 1;
   13; 0; 11; 7; 4; 9; 1; 10; 14; 3; 5; 12; 2; 15; 8; 6;
   1; 4; 11; 13; 12; 3; 7; 14; 10; 15; 6; 8; 0; 5; 9; 2;
   6; 11; 13; 8; 1; 4; 10; 7; 9; 5; 0; 15; 14; 2; 3; 12]%nat.
Definition S8 : list nat :=
  [13; 2; 8; 4; 6; 15; 11; 1; 10; 9; 3; 14; 5; 0; 12; 7;
   1; 15; 13; 8; 10; 3; 7; 4; 12; 5; 6; 11; 0; 14; 9; 2;
   7; 11; 4; 1; 9; 12; 14; 2; 0; 6; 10; 13; 15; 3; 5; 8;
   2; 1; 14; 7; 4; 10; 8; 13; 15; 12; 9; 0; 3; 5; 6; 11]%nat.

Definition SBOXES : list (list nat) := [S1; S2; S3; S4; S5; S6; S7; S8].

(* the crypt(3) alphabet ./0-9A-Za-z *)
Definition ALPHABET : list Z :=
  [46; 47; 48; 49; 50; 51; 52; 53; 54; 55; 56; 57; 65; 66; 67; 68;
   69; 70; 71; 72; 73; 74; 75; 76; 77; 78; 79; 80; 81; 82; 83; 84;
   85; 86; 87; 88; 89; 90; 97; 98; 99; 100; 101; 102; 103; 104; 105; 106;
   107; 108; 109; 110; 111; 112; 113; 114; 115; 116; 117; 118; 119; 120; 121; 122].

(* output bit k of a selection table is input bit t[k] (1-based) *)
Definition perm (t : list nat) (b : list bool) : list bool := map (fun i => nth (i - 1) b false) t.
Definition xorl (a b : list bool) : list bool := map (fun p => xorb (fst p) (snd p)) (combine a b).
Definition rotl (n : nat) (l : list bool) : list bool := skipn n l ++ firstn n l.
Definition bitn (b : bool) : nat := if b then 1 else 0.
Definition nibble (v : nat) : list bool := [Nat.testbit v 3; Nat.testbit v 2; Nat.testbit v 1; Nat.testbit v 0].
Definition byte_bits (c : Z) : list bool := map (Z.testbit c) [7; 6; 5; 4; 3; 2; 1; 0].

(* key schedule: CD = PC1(key); 16 rounds: rotate C and D left by SHIFTS[r]; K_r = PC2(C ++ D) *)
Fixpoint schedule_from (sh : list nat) (C D : list bool) : list (list bool) :=
  match sh with
  | [] => []
  | n :: sh' => let C' := rotl n C in let D' := rotl n D in perm PC2 (C' ++ D') :: schedule_from sh' C' D'
  end.
Definition key_schedule (key : list bool) : list (list bool) :=
  let cd := perm PC1 key in schedule_from SHIFTS (firstn 28 cd) (skipn 28 cd).

(* box j takes b1..b6: row = b1 b6, column = b2 b3 b4 b5 *)
Fixpoint sbox_layer (boxes : list (list nat)) (x : list bool) : list bool :=
  match boxes, x with
  | box :: boxes', b1 :: b2 :: b3 :: b4 :: b5 :: b6 :: x' =>
      let row := (2 * bitn b1 + bitn b6)%nat in
      let col := (8 * bitn b2 + 4 * bitn b3 + 2 * bitn b4 + bitn b5)%nat in
      nibble (nth (16 * row + col) box O) ++ sbox_layer boxes' x'
  | _, _ => []
  end.

(* crypt(3)'s perturbation of E: for i in 0..11, salt bit i swaps e[i] and e[i+24] (0-based) *)
Definition salt_swap (sb e : list bool) : list bool :=
  map (fun i =>
         if (i <? 12)%nat then (if nth i sb false then nth (i + 24) e false else nth i e false)
         else if ((24 <=? i) && (i <? 36))%nat then (if nth (i - 24) sb false then nth (i - 24) e false else nth i e false)
         else nth i e false) (seq 0 48).

Definition feistel (sb R K : list bool) : list bool :=
  perm P (sbox_layer SBOXES (xorl (salt_swap sb (perm E R)) K)).

Fixpoint des_rounds (sb : list bool) (ks : list (list bool)) (L R : list bool) : list bool * list bool :=
  match ks with
  | [] => (L, R)
  | K :: ks' => des_rounds sb ks' R (xorl L (feistel sb R K))
  end.
Definition des_block (sb : list bool) (ks : list (list bool)) (block : list bool) : list bool :=
  let b := perm IP block in
  let '(L16, R16) := des_rounds sb ks (firstn 32 b) (skipn 32 b) in
  perm FP (R16 ++ L16).

(* key: password bytes up to the first NUL, at most 8, each (c << 1) & 0xFF, zero padded *)
Definition crypt_key (pw : list Z) : list Z :=
  let p := firstn 8 (cprefix pw) in map (fun c => (2 * c) mod 256) p ++ repeat 0 (8 - length p).

Fixpoint index_of (c : Z) (l : list Z) (i : nat) : option nat :=
  match l with [] => None | a :: r => if a =? c then Some i else index_of c r (S i) end.
Definition salt_bits (i0 i1 : nat) : list bool := map (Nat.testbit (i0 + 64 * i1)) (seq 0 12).

Definition bits_val (l : list bool) : nat := fold_left (fun a b => (2 * a + bitn b)%nat) l O.
Fixpoint groups6 (n : nat) (l : list bool) : list nat :=
  match n with O => [] | S n' => bits_val (firstn 6 l) :: groups6 n' (skipn 6 l) end.

(* crypt(3): iterate DES 25 times from the zero block under the salted E; append two zero bits;
   output = salt ++ eleven 6-bit groups through the alphabet. None: a salt character outside the alphabet. *)
Definition crypt (pw salt : list Z) : option (list Z) :=
  match salt with
  | s0 :: s1 :: _ =>
      match index_of s0 ALPHABET O, index_of s1 ALPHABET O with
      | Some i0, Some i1 =>
          let ks := key_schedule (flat_map byte_bits (crypt_key pw)) in
          let blk := Nat.iter 25 (des_block (salt_bits i0 i1) ks) (repeat false 64) in
          Some (s0 :: s1 :: map (fun v => nth v ALPHABET 0) (groups6 11 (blk ++ [false; false])))
      | _, _ => None
      end
  | _ => None
  end.
