(* C02 — password hashes. Executable model of crypt/crypt.go (cFcrypt, desSetKey, dEncrypt, body),
   crypt/utils.go (c2l, l2c, PermOp, HPermOp), crypt/bbscrypt.go (Fcrypt) and cmbbs/passwd.go (GenPasswd,
   CheckPasswd). Words are Z; every place where Go's uint32 / uint8 arithmetic can wrap goes through
   [u32] / [u8] (Proofs/C02.v: u32 x = x mod 2^32, u8 x = x mod 2^8). The five tables come from
   Gen/CryptTab.v, regenerated from crypt/const.go on every run. *)
From Verif Require Import Base.Common Gen.CryptTab.
From Verif Require Model.C02_DesSpec.

Definition u32 (x : Z) : Z := Z.land x 4294967295.          (* = x mod 2^32 *)
Definition u8 (x : Z) : Z := Z.land x 255.                  (* = x mod 2^8 *)
Definition shl32 (x n : Z) : Z := u32 (Z.shiftl x n).       (* uint32 << n *)
Definition shr (x n : Z) : Z := Z.shiftr x n.               (* uint32 >> n *)

(* t[i][x]; every index expression below is [Z.land _ 63] or a disjoint union of such pieces, and the
   tables are 8 x 64 (Proofs/C02.v: tab_shape, idx_range), so the defaults are never reached *)
Definition tab (t : list (list Z)) (i : nat) (x : Z) : Z := nth (Z.to_nat x) (nth i t []) 0.

(* utils.go *)
Definition c2l (c0 c1 c2 c3 : Z) : Z :=
  Z.lor (Z.lor (Z.lor c0 (shl32 c1 8)) (shl32 c2 16)) (shl32 c3 24).
Definition l2c (l : Z) : list Z :=
  [u8 (Z.land l 255); u8 (Z.land (shr l 8) 255); u8 (Z.land (shr l 16) 255); u8 (Z.land (shr l 24) 255)].
Definition PermOp (a b n m : Z) : Z * Z :=
  let t := Z.land (Z.lxor (shr a n) b) m in
  (Z.lxor a (shl32 t n), Z.lxor b t).
Definition HPermOp (a n m : Z) : Z :=
  let t := Z.land (Z.lxor (shl32 a (16 - n)) a) m in
  Z.lxor (Z.lxor a t) (shr t (16 - n)).

(* cFcrypt: buf[:8], stop at NUL, key[idx] = c << 1 in uint8; the rest of the 8-byte block stays 0 *)
Fixpoint key_loop (n : nat) (buf : list Z) : list Z :=
  match n with
  | O => []
  | S n' => match buf with
            | [] => repeat 0 n
            | c :: r => if c =? 0 then repeat 0 n else u8 (Z.shiftl c 1) :: key_loop n' r
            end
  end.
Definition keyblock (pw : list Z) : list Z := key_loop 8 pw.

(* desSetKey: the 16 iterations walk shifts2 *)
Fixpoint ks_loop (sh : list Z) (c d : Z) : list Z :=
  match sh with
  | [] => []
  | b :: sh' =>
      let c1 := if b =? 0 then Z.lor (shr c 1) (shl32 c 27) else Z.lor (shr c 2) (shl32 c 26) in
      let d1 := if b =? 0 then Z.lor (shr d 1) (shl32 d 27) else Z.lor (shr d 2) (shl32 d 26) in
      let c2 := Z.land c1 268435455 in
      let d2 := Z.land d1 268435455 in
      let s := Z.lor (Z.lor (Z.lor
                 (tab skb 0 (Z.land c2 63))
                 (tab skb 1 (Z.lor (Z.land (shr c2 6) 3) (Z.land (shr c2 7) 60))))
                 (tab skb 2 (Z.lor (Z.land (shr c2 13) 15) (Z.land (shr c2 14) 48))))
                 (tab skb 3 (Z.lor (Z.lor (Z.land (shr c2 20) 1) (Z.land (shr c2 21) 6)) (Z.land (shr c2 22) 56))) in
      let t := Z.lor (Z.lor (Z.lor
                 (tab skb 4 (Z.land d2 63))
                 (tab skb 5 (Z.lor (Z.land (shr d2 7) 3) (Z.land (shr d2 8) 60))))
                 (tab skb 6 (Z.land (shr d2 15) 63)))
                 (tab skb 7 (Z.lor (Z.land (shr d2 21) 15) (Z.land (shr d2 22) 48))) in
      let k0 := Z.land (Z.lor (shl32 t 16) (Z.land s 65535)) 4294967295 in
      let s1 := Z.lor (shr s 16) (Z.land t 4294901760) in
      let s2 := Z.lor (shl32 s1 4) (shr s1 28) in
      let k1 := Z.land s2 4294967295 in
      k0 :: k1 :: ks_loop sh' c2 d2
  end.

(* desSetKey up to the loop: the two 28-bit halves out of the two key words *)
Definition pc1_net (c d : Z) : Z * Z :=
  let '(d, c) := PermOp d c 4 252645135 in
  let c := HPermOp c (-2) 3435921408 in
  let d := HPermOp d (-2) 3435921408 in
  let '(d, c) := PermOp d c 1 1431655765 in
  let '(c, d) := PermOp c d 8 16711935 in
  let '(d, c) := PermOp d c 1 1431655765 in
  let d := Z.lor (Z.lor (Z.lor (shl32 (Z.land d 255) 16) (Z.land d 65280)) (shr (Z.land d 16711680) 16))
                 (shr (Z.land c 4026531840) 4) in
  let c := Z.land c 268435455 in
  (c, d).
Definition pc1_words (key : list Z) : Z * Z :=
  pc1_net (c2l (nth 0 key 0) (nth 1 key 0) (nth 2 key 0) (nth 3 key 0))
          (c2l (nth 4 key 0) (nth 5 key 0) (nth 6 key 0) (nth 7 key 0)).

Definition set_key (key : list Z) : list Z :=
  let '(c, d) := pc1_words key in ks_loop shifts2 c d.

(* dEncrypt with s[S], s[S+1] passed as k0, k1; returns the new L *)
Definition d_encrypt (L R E0 E1 k0 k1 : Z) : Z :=
  let t := Z.lxor R (shr R 16) in
  let u := Z.land t E0 in
  let t := Z.land t E1 in
  let u := Z.lxor (Z.lxor (Z.lxor u (shl32 u 16)) R) k0 in
  let t := Z.lxor (Z.lxor (Z.lxor t (shl32 t 16)) R) k1 in
  let t := Z.lor (shr t 4) (shl32 t 28) in
  Z.lxor L
    (Z.lor (Z.lor (Z.lor (Z.lor (Z.lor (Z.lor (Z.lor
       (tab SPtrans 1 (Z.land t 63))
       (tab SPtrans 3 (Z.land (shr t 8) 63)))
       (tab SPtrans 5 (Z.land (shr t 16) 63)))
       (tab SPtrans 7 (Z.land (shr t 24) 63)))
       (tab SPtrans 0 (Z.land u 63)))
       (tab SPtrans 2 (Z.land (shr u 8) 63)))
       (tab SPtrans 4 (Z.land (shr u 16) 63)))
       (tab SPtrans 6 (Z.land (shr u 24) 63))).

(* the inner loop of body: i = 0, 4, ..., 28 over the 32 schedule words *)
Fixpoint rounds (ks : list Z) (E0 E1 l r : Z) : Z * Z :=
  match ks with
  | k0 :: k1 :: k2 :: k3 :: rest =>
      let l' := d_encrypt l r E0 E1 k0 k1 in
      let r' := d_encrypt r l' E0 E1 k2 k3 in
      rounds rest E0 E1 l' r'
  | _ => (l, r)
  end.

Fixpoint iterate (n : nat) (ks : list Z) (E0 E1 l r : Z) : Z * Z :=
  match n with
  | O => (l, r)
  | S n' => let '(l', r') := rounds ks E0 E1 l r in iterate n' ks E0 E1 r' l'
  end.

(* body after the 25 iterations: undo the rotation, final permutation *)
Definition final_perm (l r : Z) : Z * Z :=
  let t := r in
  let r := Z.lor (shr l 1) (shl32 l 31) in
  let l := Z.lor (shr t 1) (shl32 t 31) in
  let l := Z.land l 4294967295 in
  let r := Z.land r 4294967295 in
  let '(r, l) := PermOp r l 1 1431655765 in
  let '(l, r) := PermOp l r 8 16711935 in
  let '(r, l) := PermOp r l 2 858993459 in
  let '(l, r) := PermOp l r 16 65535 in
  let '(r, l) := PermOp r l 4 252645135 in
  (l, r).

Definition body (ks : list Z) (E0 E1 : Z) : Z * Z :=
  let '(l, r) := iterate 25 ks E0 E1 0 0 in final_perm l r.

(* the output loop of cFcrypt: 11 characters of 6 bits each out of bb[0..8], MSB first; state (y, u) *)
Fixpoint enc6 (j : nat) (bb : list Z) (y : nat) (u c : Z) : Z * nat * Z :=
  match j with
  | O => (c, y, u)
  | S j' =>
      let c := Z.shiftl c 1 in
      let c := if Z.land (nth y bb 0) u =? 0 then c else Z.lor c 1 in
      let u := shr u 1 in
      if u =? 0 then enc6 j' bb (S y) 128 c else enc6 j' bb y u c
  end.
Fixpoint enc_chars (i : nat) (bb : list Z) (y : nat) (u : Z) : res (list Z) :=
  match i with
  | O => Ok []
  | S i' =>
      let '(c, y', u') := enc6 6 bb y u 0 in
      match nthZ cov_2char c with
      | None => Crash
      | Some ch => res_map (cons ch) (enc_chars i' bb y' u')
      end
  end.
Definition encode (l r : Z) : res (list Z) := enc_chars 11 (l2c l ++ l2c r ++ [0]) 0 128.

(* x := 'A' unless the salt byte is non-zero *)
Definition norm_byte (s : Z) : Z := if s =? 0 then 65 else s.
Definition norm (salt : list Z) : list Z := [norm_byte (nth 0 salt 0); norm_byte (nth 1 salt 0)].

(* cFcrypt after the key block has been built *)
Definition fcrypt_kb (kb : list Z) (salt : list Z) : res (list Z) :=
  match salt with
  | s0 :: s1 :: _ =>
      let x0 := norm_byte s0 in
      match nthZ con_salt x0 with
      | None => Crash                                   (* con_salt[x], x >= 128 *)
      | Some e0 =>
          let x1 := norm_byte s1 in
          match nthZ con_salt x1 with
          | None => Crash
          | Some e1 =>
              let '(l, r) := body (set_key kb) (u32 e0) (shl32 e1 4) in
              res_map (fun cs => x0 :: x1 :: cs ++ [0]) (encode l r)
          end
      end
  | _ => Crash                                          (* salt[0] / salt[1] out of range *)
  end.

(* crypt.Fcrypt *)
Definition fcrypt (pw salt : list Z) : res (list Z) := fcrypt_kb (keyblock pw) salt.

(* cmbbs.GenPasswd with the two salt bytes it drew (each num & 0x7f) as an input *)
Definition gen_passwd (pw salt : list Z) : res (list Z) :=
  match pw with
  | [] => Ok (repeat 0 14)                              (* len(passwd) == 0 *)
  | c :: _ => if c =? 0 then Ok (repeat 0 14) else fcrypt pw salt
  end.

Definition list_eqb (a b : list Z) : bool :=
  (length a =? length b)%nat && forallb (fun p => fst p =? snd p) (combine a b).

(* cmbbs.CheckPasswd: re-hash with the stored hash as salt, bytes.Equal on the whole slices *)
Definition check_passwd (stored pw : list Z) : res bool :=
  res_map (fun h => list_eqb h stored) (fcrypt pw stored).

Definition wire_bool (b : bool) : list Z := [if b then 1 else 0].

(* ---------------------------------------------------------------------------------------------- sessions
   Several calls made by ONE caller who keeps what the calls returned and looks at it only afterwards (op 5), and
   the same calls made from concurrent goroutines (op 6). The Go functions are modelled as functions of their
   arguments: a call neither reads nor writes anything else, so in the model "the answer of call i depends only on
   the arguments of call i" holds by construction (Props: C02_calls_independent, C02_order_independent). What has to
   be CHECKED is that the implementation is such a function — that a returned slice is not a window onto a buffer the
   next call overwrites, that CheckPasswd(h, pw) with h a slice Fcrypt returned does not compare a buffer with itself,
   that two goroutines do not share scratch state. The harness does that (checks/C02.py, ops 5 and 6). *)
Inductive call : Type :=
| CFcrypt (pw salt : list Z)                 (* crypt.Fcrypt(pw, salt) *)
| CGen (pw salt : list Z)                    (* cmbbs.GenPasswd(pw), salt = the two bytes it drew *)
| CCheck (stored pw : list Z)                (* cmbbs.CheckPasswd(stored, pw), stored a slice of the caller's own *)
| CCheckKept (j : nat) (pw : list Z).        (* cmbbs.CheckPasswd(h, pw), h the very slice call j returned *)

Definition is_hash_call (c : call) : bool :=
  match c with CFcrypt _ _ | CGen _ _ => true | _ => false end.
(* a call that refers to nothing an earlier call returned *)
Definition closed (c : call) : bool :=
  match c with CCheckKept _ _ => false | _ => true end.

(* the answer of one call; [kept] = what the caller holds from the earlier calls, in order (None: no hash returned).
   None = a reference to something that is not there (a bad case, not a behaviour of the code). *)
Definition step (kept : list (option (list Z))) (c : call) : option (res (list Z)) :=
  match c with
  | CFcrypt pw salt => Some (fcrypt pw salt)
  | CGen pw salt => Some (gen_passwd pw salt)
  | CCheck stored pw => Some (res_map wire_bool (check_passwd stored pw))
  | CCheckKept j pw =>
      match nth_error kept j with
      | Some (Some h) => Some (res_map wire_bool (check_passwd h pw))
      | _ => None
      end
  end.
(* what the caller holds after call c answered o *)
Definition keeps (c : call) (o : option (res (list Z))) : option (list Z) :=
  match o with
  | Some (Ok h) => if is_hash_call c then Some h else None
  | _ => None
  end.

Fixpoint session_from (kept : list (option (list Z))) (calls : list call) : list (option (res (list Z))) :=
  match calls with
  | [] => []
  | c :: rest => let o := step kept c in o :: session_from (kept ++ [keeps c o]) rest
  end.
(* the answers of a whole session, as the caller reads them after the last call *)
Definition session (calls : list call) : list (option (res (list Z))) := session_from [] calls.

(* a call on its own, and what a caller would hold from it *)
Definition alone (c : call) : option (res (list Z)) := step [] c.
Definition kept_alone (c : call) : option (list Z) := keeps c (alone c).

(* wire: groups k | a | b, three per call *)
Fixpoint parse_calls (g : list (list Z)) : option (list call) :=
  match g with
  | [] => Some []
  | [k] :: a :: b :: rest =>
      match parse_calls rest with
      | None => None
      | Some cs =>
          if k =? 1 then Some (CFcrypt a b :: cs)
          else if k =? 2 then Some (CGen a b :: cs)
          else if k =? 3 then Some (CCheck a b :: cs)
          else if k =? 4 then
            match a with
            | [j] => if (0 <=? j) && (j <=? 1048576) then Some (CCheckKept (Z.to_nat j) b :: cs) else None
            | _ => None
            end
          else None
      end
  | _ => None
  end.

(* the Go driver makes the calls in order: the first panic ends the case (status 1), the first dangling reference
   makes it a bad case (status 9); otherwise per call: length, payload, 0 ("no argument slice was written to") *)
Fixpoint wire_session (outs : list (option (res (list Z)))) : option (res (list Z)) :=
  match outs with
  | [] => Some (Ok [])
  | None :: _ => None
  | Some (Ok p) :: rest =>
      match wire_session rest with
      | Some (Ok t) => Some (Ok (lenZ p :: p ++ 0 :: t))
      | x => x
      end
  | Some r :: _ => Some r
  end.

(* op 6: every call once alone (the sequential answer), then `rounds` times each from concurrent goroutines; per call:
   length, sequential answer (nothing for GenPasswd, whose salt is fresh each time), 0 answers that differed, 0 = the
   slice kept from the last call still holds its answer. The model has no shared state: nothing to interleave. *)
Fixpoint wire_concurrent (calls : list call) : option (res (list Z)) :=
  match calls with
  | [] => Some (Ok [])
  | c :: rest =>
      if closed c then
        match alone c with
        | Some (Ok p) =>
            match wire_concurrent rest with
            | Some (Ok t) =>
                Some (Ok (match c with CGen _ _ => 0 :: 0 :: 0 :: t | _ => lenZ p :: p ++ 0 :: 0 :: t end))
            | x => x
            end
        | x => x
        end
      else None
  end.
Fixpoint all_closed (calls : list call) : bool :=
  match calls with [] => true | c :: r => closed c && all_closed r end.

Definition wire_opt (o : option (res (list Z))) : list Z :=
  match o with None => [ST_BADCASE] | Some r => wire (fun x => x) r end.

(* ---------------------------------------------------------------------------------------------- accounts
   The password as the server's entry points hand it on (op 7). bbs.Register / bbs.Login / bbs.CheckPasswd /
   bbs.ChangePasswd — and the gin handlers in front of them — turn the string they are given into []byte(passwd) and
   pass it, unchanged, to ptt.Register (cmbbs.GenPasswd, record written), ptt.Login / ptt.CheckPasswd
   (cmbbs.CheckPasswd against the stored hash) and ptt.ChangePasswd (cmbbs.CheckPasswd on the old password, then
   cmbbs.GenPasswd of the new one, hash written). An account is its stored hash; [None] = no record with that id. *)
Inductive aop : Type :=
| ARegister (u : nat) (pw salt : list Z)         (* bbs.Register(id_u, pw, ...); salt = the two bytes GenPasswd drew *)
| ALogin (u : nat) (pw : list Z)                 (* bbs.Login(id_u, pw, ip) *)
| ACheck (u : nat) (pw : list Z)                 (* bbs.CheckPasswd(id_u, pw, ip) *)
| AChange (u : nat) (old new salt : list Z).     (* bbs.ChangePasswd(id_u, old, new, ip) *)

Definition accounts : Type := list (option (list Z)).

Definition stored_of (st : accounts) (u : nat) : option (list Z) := nth u st None.
Fixpoint set_stored (st : accounts) (u : nat) (h : list Z) : accounts :=
  match st with
  | [] => []
  | x :: r => match u with O => Some h :: r | S u' => x :: set_stored r u' h end
  end.

(* the one comparison every entry point that asks for a password makes: cmbbs.CheckPasswd(stored hash of the account,
   the bytes of the string the caller gave); no record: refused *)
Definition accepts (st : accounts) (u : nat) (pw : list Z) : res bool :=
  match stored_of st u with
  | None => Ok false
  | Some h => check_passwd h pw
  end.

(* one operation: the accounts afterwards and whether it was accepted *)
Definition astep (st : accounts) (o : aop) : res (accounts * bool) :=
  match o with
  | ARegister u pw salt =>
      (* NewRegister: GenPasswd first, then SetupNewUser refuses an id that exists *)
      res_bind (gen_passwd pw salt) (fun h =>
        if Nat.ltb u (length st) then
          match stored_of st u with
          | Some _ => Ok (st, false)
          | None => Ok (set_stored st u h, true)
          end
        else Ok (st, false))
  | ALogin u pw => res_map (fun b => (st, b)) (accepts st u pw)
  | ACheck u pw => res_map (fun b => (st, b)) (accepts st u pw)
  | AChange u old new salt =>
      res_bind (accepts st u old) (fun good =>
        if good then res_map (fun h => (set_stored st u h, true)) (gen_passwd new salt)
        else Ok (st, false))
  end.

(* a history: per operation the verdict and the accounts after it; the first panic ends the case *)
Fixpoint arun (st : accounts) (ops : list aop) : res (list (bool * accounts)) :=
  match ops with
  | [] => Ok []
  | o :: rest =>
      res_bind (astep st o) (fun r =>
        res_map (cons (snd r, fst r)) (arun (fst r) rest))
  end.
(* the accounts after a history (of operations that all return) *)
Fixpoint after (st : accounts) (ops : list aop) : res accounts :=
  match ops with
  | [] => Ok st
  | o :: rest => res_bind (astep st o) (fun r => after (fst r) rest)
  end.

Definition wire_accounts (st : accounts) : list Z :=
  flat_map (fun x => match x with None => [0] | Some h => lenZ h :: h end) st.
Definition wire_arun (l : list (bool * accounts)) : list Z :=
  flat_map (fun r => wire_bool (fst r) ++ wire_accounts (snd r)) l.

(* wire: groups k | u | a | b | s, five per operation; k + 10 = the same operation through the gin handler *)
Fixpoint parse_aops (g : list (list Z)) : option (list aop) :=
  match g with
  | [] => Some []
  | [k] :: [u] :: a :: b :: s :: rest =>
      match parse_aops rest with
      | None => None
      | Some os =>
          if (0 <=? u) && (u <? 3) then
            let k := if 10 <? k then k - 10 else k in
            let n := Z.to_nat u in
            if k =? 1 then Some (ARegister n a s :: os)
            else if k =? 2 then Some (ALogin n a :: os)
            else if (k =? 3) || (k =? 5) then Some (ACheck n a :: os)
            else if k =? 4 then Some (AChange n a b s :: os)
            else None
          else None
      end
  | _ => None
  end.

(* wire: op 1 Fcrypt(pw, salt); op 2 GenPasswd(pw) with the drawn salt as third group; op 3 CheckPasswd(stored, pw);
   op 4 the crypt(3) specification of Model/C02_DesSpec.v (status 3 1: salt outside the alphabet);
   op 5 a session k|a|b|k|a|b|...; op 6 rounds|k|a|b|... the same calls concurrently;
   op 7 h0|k|u|a|b|s|... a history of account operations, account 0 starting with the stored hash h0 *)
Definition run_case (args : list (list Z)) : list Z :=
  match args with
  | [[1]; pw; salt] => wire (fun h => h) (fcrypt pw salt)
  | [[2]; pw; salt] => wire (fun h => h) (gen_passwd pw salt)
  | [[3]; stored; pw] => wire wire_bool (check_passwd stored pw)
  | [[4]; pw; salt] => match C02_DesSpec.crypt pw salt with Some h => ST_OK :: h | None => [ST_ERR; 1] end
  | [5] :: g =>
      match parse_calls g with
      | None => [ST_BADCASE]
      | Some cs => wire_opt (wire_session (session cs))
      end
  | [6] :: [rounds] :: g =>
      match parse_calls g with
      | None => [ST_BADCASE]
      | Some cs =>
          if (0 <=? rounds) && (rounds <=? 1000000) && (Nat.leb (length cs) 16) && all_closed cs
          then wire_opt (wire_concurrent cs) else [ST_BADCASE]
      end
  | [7] :: h0 :: g =>
      match parse_aops g with
      | None => [ST_BADCASE]
      | Some os =>
          if (length h0 =? 14)%nat then wire wire_arun (arun [Some h0; None; None] os) else [ST_BADCASE]
      end
  | _ => [ST_BADCASE]
  end.
