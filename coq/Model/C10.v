(* C10 — comments. Executable model of ptt/comments.go (FormatCommentString, doAddRecommend),
   ptt/article.go (ModifyDirLite) and the refusal conditions of ptt/recommend.go (Recommend), over the
   article file and the board's .DIR as byte lists. The clock string (MM/DD HH:MM) and the article's
   mtime after the append are observed inputs. The index entry is looked up by name (cmsys.GetRecord is
   the subject of C06; the harness keeps names unique and sorted by time). *)
From Verif Require Import Base.Common Gen.Consts_default.

Definition REC_SZ : nat := Z.to_nat ptttype.FILE_HEADER_RAW_SZ.      (* 128 *)
Definition OFF_MODIFIED : nat := 28.                                  (* FileHeaderRaw.Modified, int32 *)
Definition OFF_RECOMMEND : nat := 33.                                 (* FileHeaderRaw.Recommend, int8 *)
Definition OFF_FILEMODE : nat := 124.
Definition MAXREC : Z := ptttype.MAX_RECOMMENDS.                      (* 100 *)

Definition CT_RECOMMEND : Z := ptttype.COMMENT_TYPE_RECOMMEND.
Definition CT_BOO : Z := ptttype.COMMENT_TYPE_BOO.
Definition CT_COMMENT : Z := ptttype.COMMENT_TYPE_COMMENT.

(* ---------------------------------------------------------------- FormatCommentString (OLDRECOMMEND = false) *)
Definition ESC : Z := 27.
Definition ansi_color (code : list Z) : list Z := [ESC; 91] ++ code ++ [109].     (* ESC [ code m *)
Definition ansi_reset : list Z := [ESC; 91; 109].

Definition type_mark (ct : Z) : list Z :=          (* CommentType.Bytes() *)
  if ct =? CT_RECOMMEND then ansi_color [49; 59; 51; 55] ++ [177; 192]          (* 1;37  B1 C0 *)
  else if ct =? CT_BOO then ansi_color [49; 59; 51; 49] ++ [188; 78]            (* 1;31  BC 'N' *)
  else if ct =? CT_COMMENT then ansi_color [49; 59; 51; 49] ++ [161; 247]       (* 1;31  A1 F7 *)
  else [].

(* uid13: the 13-byte UserID array; ip16: the 16-byte IPv4_t array; clock: "MM/DD HH:MM" *)
Definition comment_line (align iplog : bool) (uid13 ip16 : list Z) (ct : Z) (content clock : list Z) : list Z :=
  let user := if align then uid13 else cprefix uid13 in
  let maxlen := 78 - 3 - 6 - 1 - 6 - (if iplog then 15 else 0) - lenZ user - lenZ content in
  let pad := repeat 32 (Z.to_nat maxlen) in                                      (* maxlen < 0 -> 0 *)
  let tail := (if iplog then cprefix ip16 else []) ++ [32] ++ clock in
  type_mark ct ++ [32] ++ ansi_color [51; 51] ++ user ++
  (ansi_reset ++ ansi_color [51; 51] ++ [58; 32]) ++ content ++ pad ++ ansi_reset ++ tail ++ [10].

(* ---------------------------------------------------------------- byte-list surgery *)
Definition patch (l : list Z) (off : nat) (p : list Z) : list Z :=
  firstn off l ++ p ++ skipn (off + length p) l.
Definition slice (l : list Z) (off n : nat) : list Z := firstn n (skipn off l).

Definition u8 (x : Z) : Z := x mod 256.
Definition le32 (x : Z) : list Z := [x mod 256; (x / 256) mod 256; (x / 65536) mod 256; (x / 16777216) mod 256].

Definition rec_at (dir : list Z) (i : nat) : list Z := slice dir (i * REC_SZ) REC_SZ.     (* entry i, 0-based *)
Definition rec_score (r : list Z) : Z := wrap8 (nth OFF_RECOMMEND r 0).
Definition rec_filemode (r : list Z) : Z := nth OFF_FILEMODE r 0.
Definition rec_name (r : list Z) : list Z := firstn 28 r.

(* Filename_t.Eq: C-string comparison from the third byte on *)
Fixpoint list_eqb (a b : list Z) : bool :=
  match a, b with
  | [], [] => true
  | x :: a', y :: b' => (x =? y) && list_eqb a' b'
  | _, _ => false
  end.
Definition name_eq (a b : list Z) : bool := list_eqb (cprefix (skipn 2 a)) (cprefix (skipn 2 b)).

(* the entry with this name among the first [total] entries, newest first; 0-based *)
Fixpoint find_entry (dir name : list Z) (k : nat) : option nat :=
  match k with
  | O => None
  | S k' => if name_eq (rec_name (rec_at dir k')) name then Some k' else find_entry dir name k'
  end.

(* ---------------------------------------------------------------- ModifyDirLite(idx, mtime, recommend = update) *)
Definition clamp (x : Z) : Z := if MAXREC <? x then MAXREC else if x <? - MAXREC then - MAXREC else x.

Definition modify_rec (r : list Z) (mtime update : Z) : list Z :=
  let r1 := if 0 <? mtime then patch r OFF_MODIFIED (le32 mtime) else r in
  if update =? 0 then r1
  else patch r1 OFF_RECOMMEND [u8 (clamp (wrap8 (update + rec_score r)))].           (* int8 addition, then the clamp *)

Definition modify_dir_lite (dir : list Z) (i : nat) (mtime update : Z) : list Z :=
  patch dir (i * REC_SZ) (modify_rec (rec_at dir i) mtime update).                  (* the 128 bytes are rewritten *)

(* ---------------------------------------------------------------- doAddRecommend *)
Record st : Type := St { s_art : list Z; s_dir : list Z }.

Definition update_of (ct score : Z) : Z :=
  if (ct =? CT_RECOMMEND) && (score <? MAXREC) then 1
  else if (ct =? CT_BOO) && (- MAXREC <? score) then -1
  else 0.

Definition do_add_recommend (s : st) (i : nat) (line : list Z) (ct mtime : Z) : st :=
  let art' := s_art s ++ line in                                                   (* O_APPEND write *)
  let update := update_of ct (rec_score (rec_at (s_dir s) i)) in
  if 0 <? mtime then St art' (modify_dir_lite (s_dir s) i mtime update) else St art' (s_dir s).

(* ---------------------------------------------------------------- the stamp already in the entry vs. the clock
   [mtime] above is the clock reading the file system gave the article file at the append. The entry's Modified field
   was written earlier - by the post, an edit, an earlier comment, possibly by another host or before the clock was
   stepped back: it may be EARLIER than, EQUAL to or LATER than [mtime]. stamp_entry is that environment operation:
   the index as it is when entry i carries the stamp [stamp] (any 32-bit value). do_add_recommend never reads it. *)
Definition rec_modified (r : list Z) : list Z := slice r OFF_MODIFIED 4.
Definition stamp_entry (dir : list Z) (i : nat) (stamp : Z) : list Z := patch dir (i * REC_SZ + OFF_MODIFIED) (le32 stamp).

(* ---------------------------------------------------------------- Recommend (after the permission checks of C07/C08) *)
Definition E_PERM : Z := 1.       (* ErrNotPermitted *)
Definition E_PARAMS : Z := 2.     (* ErrInvalidParams: the board has no articles *)
Definition E_NOTFOUND : Z := 3.   (* cmsys.ErrRecordNotFound *)

Inductive cres : Type :=
| COk (line : list Z) (s' : st)
| CErr (code : Z).

Record cfg : Type := Cfg { c_align : bool; c_iplog : bool; c_norec : bool; c_uid13 : list Z; c_ip16 : list Z }.

Definition locked (fm : Z) : bool :=
  negb (Z.land fm ptttype.FILE_MARKED =? 0) && negb (Z.land fm ptttype.FILE_SOLVED =? 0).

Definition recommend (c : cfg) (name : list Z) (ct : Z) (content clock : list Z) (mtime : Z) (s : st) : cres :=
  let total := (length (s_dir s) / REC_SZ)%nat in
  if (total =? 0)%nat then CErr E_PARAMS else
  match find_entry (s_dir s) name total with
  | None => CErr E_NOTFOUND
  | Some i =>
      let r := rec_at (s_dir s) i in
      if c_norec c || (nth 0 name 0 =? 76) || locked (rec_filemode r) then CErr E_PERM
      else
        let line := comment_line (c_align c) (c_iplog c) (c_uid13 c) (c_ip16 c) ct content clock in
        COk line (do_add_recommend s i line ct mtime)
  end.

Definition next_state (s : st) (r : cres) : st := match r with COk _ s' => s' | CErr _ => s end.

(* ---------------------------------------------------------------- wire *)
Fixpoint diff_from (a b : list Z) (off : Z) : list Z :=        (* (offset, new byte) pairs where b differs from a *)
  match a, b with
  | x :: a', y :: b' => (if x =? y then [] else [off; y]) ++ diff_from a' b' (off + 1)
  | _, _ => []
  end.

Definition score_at (dir name : list Z) : Z :=
  match find_entry dir name (length dir / REC_SZ) with Some i => rec_score (rec_at dir i) | None => 0 end.

Definition stamp_named (dir name : list Z) (stamp : Z) : list Z :=
  match find_entry dir name (length dir / REC_SZ) with Some i => stamp_entry dir i stamp | None => dir end.

Definition dump_step (name : list Z) (s : st) (r : cres) (mtime : Z) : list Z :=
  match r with
  | COk line s' =>
      let d := diff_from (s_dir s) (s_dir s') 0 in
      (* returned mtime; ...; score; the article file's own mtime as the driver stats it afterwards: the same number *)
      [0; lenZ line] ++ line ++ [mtime; 1; lenZ line] ++ line ++ [lenZ d / 2] ++ d ++ [score_at (s_dir s') name; mtime]
  | CErr e => [3; e; 0; 0]
  end.

(* steps: [ct; content...]; observations: clock (11 bytes) ++ [mtime] *)
Fixpoint run_steps (c : cfg) (name : list Z) (steps obs : list (list Z)) (s : st) : option (list Z) :=
  match steps with
  | [] => Some []
  | (ct :: content) :: steps' =>
      match obs with
      | o :: obs' =>
          let clock := firstn 11 o in
          let mtime := nth 11 o 0 in
          let r := recommend c name ct content clock mtime s in
          match run_steps c name steps' obs' (next_state s r) with
          | Some out => Some (dump_step name s r mtime ++ out)
          | None => None
          end
      | [] => None
      end
  | [] :: _ => None
  end.

Fixpoint split_at_sep (gs : list (list Z)) : list (list Z) * list (list Z) :=
  match gs with
  | [] => ([], [])
  | [99] :: r => ([], r)
  | g :: r => let '(a, b) := split_at_sep r in (g :: a, b)
  end.

Definition zbool (z : Z) : bool := negb (z =? 0).

(* ---------------------------------------------------------------- a board session (op 2): several articles, several commenters
   The board carries ALL its comment-related attributes: BRD_ALIGNEDCMT, BRD_IPLOGRECMD, BRD_NORECOMMEND — the three that
   ptt.Recommend / FormatCommentString read — and BRD_NOBOO, BRD_NOFASTRECMD and FastRecommendPause, which the code
   never reads: a comment's outcome is a function of (board flags read, commenter, type, text, clock, mtime, the
   addressed article file, .DIR) and of nothing else — in particular not of earlier comments of anybody. *)
Record board : Type := Board { b_align : bool; b_iplog : bool; b_norec : bool; b_noboo : bool; b_nofast : bool; b_pause : Z }.
Record hstep : Type := HStep { h_uid13 : list Z; h_ip16 : list Z; h_art : nat; h_ct : Z; h_content : list Z; h_clock : list Z; h_mtime : Z }.
Record bst : Type := BSt { bs_arts : list (list Z); bs_dir : list Z }.        (* the article files (in the order of [names]), .DIR *)

Definition cfg_of (b : board) (x : hstep) : cfg := Cfg (b_align b) (b_iplog b) (b_norec b) (h_uid13 x) (h_ip16 x).

Fixpoint set_nth (k : nat) (l : list (list Z)) (v : list Z) : list (list Z) :=
  match l, k with
  | [], _ => []
  | _ :: r, O => v :: r
  | a :: r, S k' => a :: set_nth k' r v
  end.

Definition board_step (b : board) (names : list (list Z)) (x : hstep) (s : bst) : cres :=
  recommend (cfg_of b x) (nth (h_art x) names []) (h_ct x) (h_content x) (h_clock x) (h_mtime x)
            (St (nth (h_art x) (bs_arts s) []) (bs_dir s)).

Definition board_next (x : hstep) (s : bst) (r : cres) : bst :=
  match r with
  | COk _ s' => BSt (set_nth (h_art x) (bs_arts s) (s_art s')) (s_dir s')
  | CErr _ => s
  end.

Fixpoint run_hist (b : board) (names : list (list Z)) (hist : list hstep) (s : bst) : bst :=
  match hist with
  | [] => s
  | x :: r => run_hist b names r (board_next x s (board_step b names x s))
  end.

(* steps: [user; article; ct; content...]; users: [uid number; sysop; id bytes...]; observations as for op 1.
   An accepted step is dumped as for op 1 followed by the number of OTHER article files that changed (0). *)
Fixpoint run_hsteps (b : board) (names users : list (list Z)) (ip16 : list Z) (steps obs : list (list Z)) (s : bst) : option (list Z) :=
  match steps with
  | [] => Some []
  | (u :: a :: ct :: content) :: steps' =>
      match obs with
      | o :: obs' =>
          let x := HStep (fixlen 13 (skipn 2 (nth (Z.to_nat u) users []))) ip16 (Z.to_nat a) ct content (firstn 11 o) (nth 11 o 0) in
          let r := board_step b names x s in
          match run_hsteps b names users ip16 steps' obs' (board_next x s r) with
          | Some out =>
              Some (dump_step (nth (h_art x) names []) (St (nth (h_art x) (bs_arts s) []) (bs_dir s)) r (h_mtime x) ++
                    (match r with COk _ _ => [0] | CErr _ => [] end) ++ out)
          | None => None
          end
      | [] => None
      end
  | _ => None
  end.

(* [1]; [align; iplog; norec]; .DIR bytes; name (28 bytes); article bytes; ip; user id; steps...; [99]; observations... *)
Definition run_case (args : list (list Z)) : list Z :=
  match args with
  | [1] :: [al; ipl; nr] :: dir :: name :: art :: ip :: uid :: rest =>
      let '(steps, obs) := split_at_sep rest in
      let c := Cfg (zbool al) (zbool ipl) (zbool nr) (fixlen 13 uid) (fixlen 16 ip) in
      match run_steps c (fixlen 28 name) steps obs (St art dir) with
      | Some out => [ST_OK; lenZ steps] ++ out
      | None => [ST_BADCASE]
      end
  (* [4]: as [1] on the index whose addressed entry carries the Modified stamp [stamp] (earlier or LATER than the observed mtimes) *)
  | [4] :: [al; ipl; nr] :: dir :: name :: art :: ip :: uid :: [stamp] :: rest =>
      let '(steps, obs) := split_at_sep rest in
      let c := Cfg (zbool al) (zbool ipl) (zbool nr) (fixlen 13 uid) (fixlen 16 ip) in
      match run_steps c (fixlen 28 name) steps obs (St art (stamp_named dir (fixlen 28 name) stamp)) with
      | Some out => [ST_OK; lenZ steps] ++ out
      | None => [ST_BADCASE]
      end
  (* [2]; [align; iplog; norec; noboo; nofast; pause]; .DIR; ip; [k; nu]; k names; k article files; nu users; steps...; [99]; observations... *)
  | [2] :: [al; ipl; nr; nb; nf; pause] :: dir :: ip :: [k; nu] :: rest =>
      let kn := Z.to_nat k in
      let names := map (fixlen 28) (firstn kn rest) in
      let arts := firstn kn (skipn kn rest) in
      let users := firstn (Z.to_nat nu) (skipn (kn + kn) rest) in
      let '(steps, obs) := split_at_sep (skipn (kn + kn + Z.to_nat nu) rest) in
      let b := Board (zbool al) (zbool ipl) (zbool nr) (zbool nb) (zbool nf) pause in
      match run_hsteps b names users (fixlen 16 ip) steps obs (BSt arts dir) with
      | Some out => [ST_OK; lenZ steps] ++ out
      | None => [ST_BADCASE]
      end
  | _ => [ST_BADCASE]
  end.
