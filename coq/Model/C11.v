(* C11 — board lookup and board listings.
   Executable model of cache/cache_board.go (GetBid, getBidByNameCore / getBidByClassCore, FindBoardIdxByName /
   FindBoardIdxByClass, FindBoardAutoCompleteStartIdx) and of the by-name and by-class listing walks that
   ptt.LoadGeneralBoards / bbs.LoadGeneralBoards compose from them. The search skeleton is Base/OddSearch.v.

   A table is given in the order of its sorted index (BSorted[by name] or BSorted[by class]): Go's sort.Sort is
   library code, its output order is an observed input that the check verifies to be a sorted permutation.
   Names are byte lists without the NUL padding of BoardID_t (13 bytes); a vacated slot has the empty name. *)
From Verif Require Import Base.Common Base.OddSearch.
From Verif Require Gen.Consts_default.

Definition tolower (ch : Z) : Z := if (65 <=? ch) && (ch <=? 90) then ch + 32 else ch.

(* types.Cstrcmp: C strings inside Go slices (the slice end also terminates) *)
Fixpoint cstrcmp (a b : list Z) : Z :=
  match a with
  | [] => match b with [] => 0 | y :: _ => - y end
  | x :: a' =>
      if x =? 0 then match b with [] => 0 | y :: _ => - y end
      else match b with
           | [] => x
           | y :: b' => if x =? y then cstrcmp a' b' else x - y
           end
  end.
Definition cstrcasecmp (a b : list Z) : Z := cstrcmp (map tolower a) (map tolower b).

Definition boardid (s : list Z) : list Z := fixlen 13 s.   (* copy into a BoardID_t *)
Definition name_at (names : list (list Z)) (i : Z) : list Z := boardid (nth (Z.to_nat i) names []).

(* comparison of the key with entry i of BSorted[by name] *)
Definition cmp_name (names : list (list Z)) (q : list Z) (i : Z) : Z := cstrcasecmp (boardid q) (name_at names i).

(* BoardTitle_t.BoardClass on the first five title bytes *)
Definition board_class (t5 : list Z) : list Z := if nth 4 t5 0 =? 32 then firstn 4 t5 else firstn 5 t5.
(* cmpBoardByClass against entry i of BSorted[by class] *)
Definition cmp_class (titles names : list (list Z)) (cls q : list Z) (i : Z) : Z :=
  let j := cstrcmp cls (board_class (nth (Z.to_nat i) titles [])) in
  if j =? 0 then cstrcasecmp (boardid q) (name_at names i) else j.

(* cache.GetBid: bid of the entry found (bids = BSorted[by name] + 1), 0 when there is none *)
Definition get_bid (names : list (list Z)) (bids : list Z) (q : list Z) : res Z :=
  match search (cmp_name names q) (lenZ names) with
  | Ok (idx, true) => Ok (nth (Z.to_nat idx) bids 0)
  | Ok (_, false) => Ok 0
  | Crash => Crash
  | Hang => Hang
  end.

Definition find_by_name (names : list (list Z)) (q : list Z) (asc : bool) : res Z :=
  find (cmp_name names q) (lenZ names) asc.
Definition find_by_class (titles names : list (list Z)) (cls q : list Z) (asc : bool) : res Z :=
  find (cmp_class titles names cls q) (lenZ names) asc.

(* the (at most three) probes of FindBoardAutoCompleteStartIdx *)
Definition cmp_prefix (names : list (list Z)) (kw : list Z) (i : Z) : Z :=
  cstrcasecmp kw (firstn (length kw) (name_at names i)).
Fixpoint ac_up (k : nat) (names : list (list Z)) (kw : list Z) (idx n : Z) : Z :=
  match k with
  | O => -1
  | S k' => if idx <? n then
              let j := cmp_prefix names kw idx in
              if j =? 0 then idx + 1 else if j <? 0 then -1 else ac_up k' names kw (idx + 1) n
            else -1
  end.
Fixpoint ac_down (k : nat) (names : list (list Z)) (kw : list Z) (idx : Z) : Z :=
  match k with
  | O => -1
  | S k' => if 0 <=? idx then
              let j := cmp_prefix names kw idx in
              if j =? 0 then idx + 1 else if 0 <? j then -1 else ac_down k' names kw (idx - 1)
            else -1
  end.

(* findBoardClosetKeyword: descending bumps the last byte of the prefix (a uint8) *)
Definition bump_last (kw : list Z) : list Z :=
  firstn (length kw - 1) kw ++ [wrapu8 (nth (length kw - 1) kw 0 + 1)].

Definition autocomplete (names : list (list Z)) (kw : list Z) (asc : bool) : res Z :=
  let n := lenZ names in
  let L := lenZ kw in
  if (L =? 0) || (12 <? L) then Ok (if (L =? 0) && (0 <? n) then (if asc then 1 else n) else -1)
  else
    let key := if asc then kw else bump_last kw in
    match find (cmp_name names key) n (negb asc) with
    | Ok idx =>
        let idx := if idx =? -1 then (if asc then 1 else n) else idx in
        Ok (if asc then ac_up 3 names kw (idx - 1) n else ac_down 3 names kw (idx - 1))
    | Crash => Crash
    | Hang => Hang
    end.

(* ---- the by-name listing walk (ptt.LoadGeneralBoards + bbs.LoadGeneralBoards on its own next-cursor) ---- *)
Definition visible (names : list (list Z)) (i : Z) : bool :=
  match nth (Z.to_nat i) names [] with [] => false | _ => true end.   (* vacated slots are never listed *)

Fixpoint zseq (a : Z) (k : nat) : list Z := match k with O => [] | S k' => a :: zseq (a + 1) k' end.

(* positions (0-based) the loop looks at from start (SortIdx; 0 = from the last when descending) *)
Definition candidates (n start : Z) (asc : bool) : list Z :=
  if asc then zseq (start - 1) (Z.to_nat (n - (start - 1)))
  else rev (zseq 0 (Z.to_nat (Z.min start n))).

Definition load_page (names : list (list Z)) (start : Z) (k : nat) (asc : bool) : list Z * option Z :=
  let n := lenZ names in
  let start' := if (start =? 0) && negb asc then n else start in
  let got := firstn (S k) (filter (visible names) (candidates n start' asc)) in
  if Nat.eqb (length got) (S k) then (firstn k got, nth_error got k) else (got, None).

Fixpoint walk (fuel : nat) (names : list (list Z)) (k : nat) (asc : bool) (start pages : Z) (acc : list Z)
  : res (Z * list Z) :=
  match fuel with
  | O => Hang
  | S f =>
      let '(items, next) := load_page names start k asc in
      let acc' := acc ++ map (fun i => i + 1) items in
      match next with
      | None => Ok (pages + 1, acc')
      | Some i =>
          match find_by_name names (nth (Z.to_nat i) names []) asc with
          | Ok s => if s <? 0 then Ok (pages + 1, acc') else walk f names k asc s (pages + 1) acc'
          | Crash => Crash
          | Hang => Hang
          end
      end
  end.
Definition page_walk (names : list (list Z)) (k : nat) (asc : bool) : res (Z * list Z) :=
  walk (S (S (S (2 * length names)))) names k asc (if asc then 1 else 0) 0 [].

(* ---- the by-class listing walk (bsortBy = BSORT_BY_CLASS): the same page loop over BSorted[by class]; the
   next-cursor of bbs.NewBoardSummaryFromRaw is (BoardClass = CstrToBytes(Title[:4]), Brdname), serialised as
   base64(class)@name, deserialised and resolved by cache.FindBoardIdxByClass. [titles]/[names] are in by-class order.
   A cursor that resolves to no entry (-1) costs one more, empty page (bbs.LoadGeneralBoards returns nil, "", nil). ---- *)
Definition cursor_class (t5 : list Z) : list Z := cprefix (firstn 4 t5).

Fixpoint walk_class (fuel : nat) (titles names : list (list Z)) (k : nat) (asc : bool) (start pages : Z) (acc : list Z)
  : res (Z * list Z) :=
  match fuel with
  | O => Hang
  | S f =>
      let '(items, next) := load_page names start k asc in
      let acc' := acc ++ map (fun i => i + 1) items in
      match next with
      | None => Ok (pages + 1, acc')
      | Some i =>
          match find_by_class titles names (cursor_class (nth (Z.to_nat i) titles [])) (nth (Z.to_nat i) names []) asc with
          | Ok s => if s <? 0 then Ok (pages + 2, acc') else walk_class f titles names k asc s (pages + 1) acc'
          | Crash => Crash
          | Hang => Hang
          end
      end
  end.
Definition page_walk_class (titles names : list (list Z)) (k : nat) (asc : bool) : res (Z * list Z) :=
  walk_class (S (S (S (2 * length names)))) titles names k asc (if asc then 1 else 0) 0 [].

(* ---- filtered listings: ptt.LoadGeneralBoards with a title filter or a keyword filter (keywordsNotInBoard) ----
   types.Cstrcasestr = Cstrstr of the two byte-wise lower-cased slices: bytes.Index over the WHOLE array, then refused
   when the first match starts at or after the first NUL. Only 'A'..'Z' are folded; bytes >= 0x80 (Big5) are compared
   as they are. *)
Fixpoint prefix_eqb (p s : list Z) : bool :=
  match p with
  | [] => true
  | x :: p' => match s with [] => false | y :: s' => (x =? y) && prefix_eqb p' s' end
  end.
Fixpoint index_of (p s : list Z) (i : Z) : Z :=   (* bytes.Index: first position of p in s, counted from i; -1 = none *)
  if prefix_eqb p s then i else match s with [] => -1 | _ :: s' => index_of p s' (i + 1) end.
Definition cstrstr (s p : list Z) : Z :=
  let i := index_of p s 0 in if (i <? 0) || (lenZ (cprefix s) <=? i) then -1 else i.
Definition cstrcasestr (s p : list Z) : Z := cstrstr (map tolower s) (map tolower p).

Definition BT : nat := Z.to_nat (Gen.Consts_default.ptttype.BTLEN + 1).
Definition btitle (t : list Z) : list Z := fixlen BT t.   (* copy into a BoardTitle_t *)

(* keywordsNotInBoard: a non-empty title filter decides alone; else a non-empty keyword must be in the title or the name *)
Definition filtered_out (title name tf kw : list Z) : bool :=
  match tf with
  | _ :: _ => cstrcasestr (btitle title) tf <? 0
  | [] => match kw with
          | _ :: _ => (cstrcasestr (btitle title) kw <? 0) && (cstrcasestr (boardid name) kw <? 0)
          | [] => false
          end
  end.
(* loadGeneralBoardStat as SYSOP: not vacated and not filtered out. [ftitles]/[names] in the order of the index walked *)
Definition vis_filter (ftitles names : list (list Z)) (tf kw : list Z) (i : Z) : bool :=
  visible names i && negb (filtered_out (nth (Z.to_nat i) ftitles []) (nth (Z.to_nat i) names []) tf kw).

(* the page loop and the two walks with the visibility predicate as a parameter *)
Definition load_page_v (vis : Z -> bool) (n start : Z) (k : nat) (asc : bool) : list Z * option Z :=
  let start' := if (start =? 0) && negb asc then n else start in
  let got := firstn (S k) (filter vis (candidates n start' asc)) in
  if Nat.eqb (length got) (S k) then (firstn k got, nth_error got k) else (got, None).

Fixpoint walk_v (vis : Z -> bool) (fuel : nat) (names : list (list Z)) (k : nat) (asc : bool) (start pages : Z) (acc : list Z)
  : res (Z * list Z) :=
  match fuel with
  | O => Hang
  | S f =>
      let '(items, next) := load_page_v vis (lenZ names) start k asc in
      let acc' := acc ++ map (fun i => i + 1) items in
      match next with
      | None => Ok (pages + 1, acc')
      | Some i =>
          match find_by_name names (nth (Z.to_nat i) names []) asc with
          | Ok s => if s <? 0 then Ok (pages + 1, acc') else walk_v vis f names k asc s (pages + 1) acc'
          | Crash => Crash
          | Hang => Hang
          end
      end
  end.
Fixpoint walk_class_v (vis : Z -> bool) (fuel : nat) (titles names : list (list Z)) (k : nat) (asc : bool) (start pages : Z) (acc : list Z)
  : res (Z * list Z) :=
  match fuel with
  | O => Hang
  | S f =>
      let '(items, next) := load_page_v vis (lenZ names) start k asc in
      let acc' := acc ++ map (fun i => i + 1) items in
      match next with
      | None => Ok (pages + 1, acc')
      | Some i =>
          match find_by_class titles names (cursor_class (nth (Z.to_nat i) titles [])) (nth (Z.to_nat i) names []) asc with
          | Ok s => if s <? 0 then Ok (pages + 2, acc') else walk_class_v vis f titles names k asc s (pages + 1) acc'
          | Crash => Crash
          | Hang => Hang
          end
      end
  end.

Definition title5 (t : list Z) : list Z := firstn 5 (btitle t).
(* bbs.LoadGeneralBoards(.., title, keyword, asc, BSORT_BY_NAME / BSORT_BY_CLASS) paged through its own next-cursor *)
Definition page_walk_filtered (ftitles names : list (list Z)) (tf kw : list Z) (k : nat) (asc : bool) : res (Z * list Z) :=
  walk_v (vis_filter ftitles names tf kw) (S (S (S (2 * length names)))) names k asc (if asc then 1 else 0) 0 [].
Definition page_walk_class_filtered (ftitles names : list (list Z)) (tf kw : list Z) (k : nat) (asc : bool) : res (Z * list Z) :=
  walk_class_v (vis_filter ftitles names tf kw) (S (S (S (2 * length names)))) (map title5 ftitles) names k asc (if asc then 1 else 0) 0 [].

(* ---- the orders the two indexes are sorted with (cache/shm_board_by.go) ---- *)
Definition less_name (a b : list Z) : bool := cstrcasecmp (boardid a) (boardid b) <? 0.
Definition less_class (a b : list Z * list Z) : bool :=   (* (Title[:5], name) *)
  let j := cstrcmp (firstn 4 (fst a)) (firstn 4 (fst b)) in
  if j =? 0 then cstrcasecmp (boardid (snd a)) (boardid (snd b)) <? 0 else j <? 0.
(* no adjacent pair is out of order *)
Fixpoint sorted_by {A} (less : A -> A -> bool) (l : list A) : bool :=
  match l with
  | a :: ((b :: _) as r) => negb (less b a) && sorted_by less r
  | _ => true
  end.

(* ---- the board cache over a HISTORY: (re)loading from the board file, creations, the busy flag ----
   cache.ReloadBCache / reloadBCacheCore / SortBCache / ResetBoard / AddbrdTouchCache (cache/cache_board.go),
   cmsys.AppendRecord on .BRD, ptt.addBoardRecord (ptt/admin.go). A record is the list of its RS bytes; only the name
   (bytes 0..12) and Title[:5] (bytes 13..17) are read by the lookups. The file is absent or a byte string; only its
   complete records are ever read (reloadBCacheCore: BNumber = size / RS; AppendRecord writes at (size / RS) * RS, over
   an incomplete tail). The state keeps BCache[0 .. BNumber): every operation below that raises BNumber writes the whole
   slot it exposes first. The two sort functions are a parameter [srt] (sort.Sort is library code); they return
   BSorted + 1 (bids). *)
Definition RS : Z := Gen.Consts_default.ptttype.BOARD_HEADER_RAW_SZ.
Definition MAXB : Z := Gen.Consts_default.ptttype.MAX_BOARD.

Definition rec_name (r : list Z) : list Z := cprefix (firstn 13 r).
Definition rec_title5 (r : list Z) : list Z := firstn 5 (skipn 13 r).
Definition rec_entry (r : list Z) : list Z * list Z := (rec_title5 r, rec_name r).
Definition mkrec (name18 : list Z) : list Z := fixlen 18 name18 ++ repeat 0 (Z.to_nat RS - 18).

(* the complete records of a byte string *)
Fixpoint chunks (fuel : nat) (b : list Z) : list (list Z) :=
  match fuel with
  | O => []
  | S f => if RS <=? lenZ b then firstn (Z.to_nat RS) b :: chunks f (skipn (Z.to_nat RS) b) else []
  end.
Definition records (b : list Z) : list (list Z) := chunks (length b) b.

Record bst : Type := mk_bst {
  bfile : option (list (list Z));   (* .BRD: absent, or its complete records *)
  btbl : list (list Z);             (* Shm.BCache[0 .. BNumber) *)
  bbusy : Z;                        (* Shm.BBusyState *)
  bsn : list Z;                     (* Shm.BSorted[by name] + 1 *)
  bsc : list Z }.                   (* Shm.BSorted[by class] + 1 *)
Definition fresh : bst := mk_bst None [] 0 [] [].   (* shared memory after start-up, no board file yet *)

Definition sorter : Type := (list (list Z) -> list Z) * (list (list Z * list Z) -> list Z).
Definition tnames (s : bst) : list (list Z) := map rec_name (btbl s).
Definition tentries (s : bst) : list (list Z * list Z) := map rec_entry (btbl s).
Definition file_recs (s : bst) : list (list Z) := match bfile s with Some x => x | None => [] end.

(* SortBCache: a silent no-op (after a second) while the flag is set; else flag := 1, both sorts, deferred flag := 0 *)
Definition sort_bcache (srt : sorter) (s : bst) : bst :=
  if bbusy s =? 0 then mk_bst (bfile s) (btbl s) 0 (fst srt (tnames s)) (snd srt (tentries s)) else s.

(* reloadBCacheCore: flag := 1 with a deferred flag := 0 that also runs on the early return when .BRD cannot be read *)
Definition reload_core (s : bst) : bst :=
  let s1 := mk_bst (bfile s) (btbl s) 1 (bsn s) (bsc s) in
  match bfile s1 with
  | None => mk_bst (bfile s1) (btbl s1) 0 (bsn s1) (bsc s1)
  | Some recs => mk_bst (bfile s1) (firstn (Z.to_nat MAXB) recs) 0 (bsn s1) (bsc s1)
  end.
(* ReloadBCache (the 10 s wait on the flag is not a lock and is not modelled) *)
Definition reload (srt : sorter) (s : bst) : bst := sort_bcache srt (reload_core s).
(* the harness (or an administrator) puts a board file in place, then ReloadBCache *)
Definition install (srt : sorter) (b : list Z) (s : bst) : bst :=
  reload srt (mk_bst (Some (records b)) (btbl s) (bbusy s) (bsn s) (bsc s)).

Definition set_slot (i : nat) (r : list Z) (l : list (list Z)) : list (list Z) := firstn i l ++ r :: skipn (S i) l.

(* ResetBoard(bid = i + 1): ErrBusy while the flag is set; reads record i of .BRD into the slot *)
Definition reset_board (i : nat) (s : bst) : option bst :=
  if bbusy s =? 0 then
    match nth_error (file_recs s) i with
    | Some r => match bfile s with
                | Some _ => Some (mk_bst (bfile s) (set_slot i r (btbl s)) (bbusy s) (bsn s) (bsc s))
                | None => None
                end
    | None => None
    end
  else None.

(* the append path of ptt.addBoardRecord: cmsys.AppendRecord (creates the file; writes after the last complete record),
   then cache.AddbrdTouchCache: BNumber++, ResetBoard(BNumber), SortBCache. None = the creation is refused (the state
   of the cache after a refused creation is not modelled). *)
Definition create (srt : sorter) (r : list Z) (s : bst) : option bst :=
  let i := length (btbl s) in
  if MAXB <=? Z.of_nat i then None
  else
    let s1 := mk_bst (Some (file_recs s ++ [r])) (btbl s) (bbusy s) (bsn s) (bsc s) in
    match reset_board i s1 with
    | Some s2 => Some (sort_bcache srt s2)
    | None => None
    end.

(* the index as the lookups see it: names / titles in the order of BSorted *)
Definition by_bids {A} (d : A) (l : list A) (bids : list Z) : list A := map (fun b => nth (Z.to_nat (b - 1)) l d) bids.
Definition snames (s : bst) : list (list Z) := by_bids [] (tnames s) (bsn s).
Definition cnames (s : bst) : list (list Z) := by_bids [] (tnames s) (bsc s).
Definition ctitles (s : bst) : list (list Z) := by_bids [] (map rec_title5 (btbl s)) (bsc s).

(* bbs.CreateBoard -> ptt.NewBoard -> mNewbrd -> addBoardRecord: (error code of the driver, state) *)
Definition new_board (srt : sorter) (name cls : list Z) (s : bst) : Z * bst :=
  let r := mkrec (fixlen 13 name ++ fixlen 4 cls ++ [32]) in
  match get_bid (snames s) (bsn s) name with
  | Ok b =>
      if 0 <? b then (4, s)
      else match get_bid (snames s) (bsn s) [] with
           | Ok v =>
               if 0 <? v then   (* a vacated slot: SubstituteRecord, ResetBoard (error ignored), SortBCache *)
                 let i := Z.to_nat (v - 1) in
                 let s1 := mk_bst (Some (set_slot i r (file_recs s))) (btbl s) (bbusy s) (bsn s) (bsc s) in
                 (0, sort_bcache srt (match reset_board i s1 with Some s2 => s2 | None => s1 end))
               else if MAXB <=? lenZ (btbl s) then (5, s)
               else match create srt r s with Some s' => (0, s') | None => (5, s) end
           | _ => (5, s)
           end
  | _ => (5, s)
  end.

(* the operations of a history *)
Inductive bop : Type :=
| OInstall (b : list Z)     (* a board file is put in place, ReloadBCache *)
| OReload                   (* ReloadBCache on whatever file there is: none in the fresh state *)
| OCreate (r : list Z).     (* AppendRecord + AddbrdTouchCache *)
Definition step_hist (srt : sorter) (o : bop) (s : bst) : option bst :=
  match o with
  | OInstall b => Some (install srt b s)
  | OReload => Some (reload srt s)
  | OCreate r => create srt r s
  end.
Fixpoint run_hist (srt : sorter) (ops : list bop) (s : bst) : option bst :=
  match ops with
  | [] => Some s
  | o :: r => match step_hist srt o s with Some s' => run_hist srt r s' | None => None end
  end.

(* an insertion sort of the bids 1..n, for the executable model (any sort gives the same index when no two boards tie) *)
Fixpoint insert_by {A} (less : A -> A -> bool) (x : A) (l : list A) : list A :=
  match l with
  | [] => [x]
  | y :: r => if less x y then x :: y :: r else y :: insert_by less x r
  end.
Definition isort_by {A} (less : A -> A -> bool) (l : list A) : list A := fold_right (insert_by less) [] l.
Definition bid_seq (n : nat) : list Z := map (fun i => Z.of_nat i + 1) (seq 0 n).
Definition isorter : sorter :=
  (fun names => isort_by (fun a b => less_name (nth (Z.to_nat (a - 1)) names []) (nth (Z.to_nat (b - 1)) names [])) (bid_seq (length names)),
   fun ents => isort_by (fun a b => less_class (nth (Z.to_nat (a - 1)) ents ([], [])) (nth (Z.to_nat (b - 1)) ents ([], []))) (bid_seq (length ents))).

(* ---- the scenario driver (op 8): one length-prefixed record per step, see go/impl/cmd/implrun/c11hist.go ---- *)
Definition resZ (r : res Z) : Z := match r with Ok v => v | Crash => -101 | Hang => -102 end.
Fixpoint chunk18 (l : list Z) (n : nat) : list (list Z) :=
  match n with O => [] | S n' => firstn 18 l :: chunk18 (skipn 18 l) n' end.
Definition status_of (err : Z) (s : bst) : list Z :=
  [err; bbusy s; 0; lenZ (btbl s); match bfile s with Some x => lenZ x | None => -1 end].
Definition walk_out (r : res (Z * list Z)) : Z * list Z :=
  match r with Ok (p, v) => (0, p :: v) | Crash => (6, []) | Hang => (7, []) end.

Definition scen_step (st : list Z) (s : bst) : list Z * bst :=
  match st with
  | 1 :: tail :: n :: data =>
      let b := concat (map mkrec (chunk18 data (Z.to_nat n))) ++ repeat 122 (Z.to_nat tail) in
      let s' := install isorter b s in (status_of 0 s', s')
  | [2] => let s' := reload isorter s in (status_of 0 s', s')
  | 3 :: data =>
      match create isorter (mkrec data) s with
      | Some s' => (status_of 0 s', s')
      | None => (status_of 3 s, s)
      end
  | 4 :: data =>
      let '(e, s') := new_board isorter (cprefix (firstn 13 data)) (firstn 4 (skipn 13 data)) s in (status_of e s', s')
  | 5 :: q =>
      (status_of 0 s ++ [resZ (get_bid (snames s) (bsn s) q); resZ (find_by_name (snames s) q true); resZ (find_by_name (snames s) q false);
                         resZ (autocomplete (snames s) q true); resZ (autocomplete (snames s) q false)], s)
  | 6 :: l :: r =>
      let cls := firstn (Z.to_nat l) r in let q := skipn (Z.to_nat l) r in
      (status_of 0 s ++ [resZ (find_by_class (ctitles s) (cnames s) cls q true); resZ (find_by_class (ctitles s) (cnames s) cls q false)], s)
  | [7; k; asc; by_] =>
      let '(e, v) := walk_out (if by_ =? 0 then page_walk (snames s) (Z.to_nat k) (negb (asc =? 0))
                               else page_walk_class (ctitles s) (cnames s) (Z.to_nat k) (negb (asc =? 0))) in
      (status_of e s ++ v, s)
  | [9] =>
      (status_of 0 s ++ map (fun b => b - 1) (bsn s) ++ map (fun b => b - 1) (bsc s)
         ++ concat (map (fun r => firstn 18 r) (btbl s)), s)
  | _ => ([-9], s)
  end.
Fixpoint scen_run (steps : list (list Z)) (s : bst) : list Z :=
  match steps with
  | [] => []
  | st :: r => let '(o, s') := scen_step st s in lenZ o :: o ++ scen_run r s'
  end.

(* ---- lookups while a writer is stopped inside its critical section (op 12, go/impl/cmd/implrun/c11busy.go) ----
   ReloadBCache / SortBCache set BBusyState around their work. [stall v]: a writer of another process stopped right after setting
   the flag to v - slower than the reader's wait, or killed there (the flag then stays behind in the shared memory for the next
   server run) -; the table and both indexes are whole, only the flag differs. *)
Definition stall (v : Z) (s : bst) : bst := mk_bst (bfile s) (btbl s) v (bsn s) (bsc s).
(* the head of getBidByNameCore / getBidByClassCore: when the flag is set on [entry], sleep one second (no time in the model;
   [after] = what the flag reads when the second is over), then search in either case *)
Definition waited {A} (entry after : Z) (search : A) : A :=
  if entry =? 0 then search else if after =? 0 then search else search.
Definition st_get_bid (after : Z) (s : bst) (q : list Z) : res Z := waited (bbusy s) after (get_bid (snames s) (bsn s) q).
Definition st_find_by_name (after : Z) (s : bst) (q : list Z) (asc : bool) : res Z := waited (bbusy s) after (find_by_name (snames s) q asc).
Definition st_autocomplete (after : Z) (s : bst) (q : list Z) (asc : bool) : res Z := waited (bbusy s) after (autocomplete (snames s) q asc).
Definition st_find_by_class (after : Z) (s : bst) (cls q : list Z) (asc : bool) : res Z :=
  waited (bbusy s) after (find_by_class (ctitles s) (cnames s) cls q asc).
Definition st_page_walk (after : Z) (s : bst) (k : nat) (asc : bool) : res (Z * list Z) := waited (bbusy s) after (page_walk (snames s) k asc).
Definition st_page_walk_class (after : Z) (s : bst) (k : nat) (asc : bool) : res (Z * list Z) :=
  waited (bbusy s) after (page_walk_class (ctitles s) (cnames s) k asc).

(* one observation of op 12 (the lookup steps 5, 6, 7 of a scenario), the flag reading [after] when a wait is over *)
Definition obs_step (after : Z) (st : list Z) (s : bst) : list Z :=
  match st with
  | 5 :: q =>
      status_of 0 s ++ [resZ (st_get_bid after s q); resZ (st_find_by_name after s q true); resZ (st_find_by_name after s q false);
                        resZ (st_autocomplete after s q true); resZ (st_autocomplete after s q false)]
  | 6 :: l :: r =>
      let cls := firstn (Z.to_nat l) r in let q := skipn (Z.to_nat l) r in
      status_of 0 s ++ [resZ (st_find_by_class after s cls q true); resZ (st_find_by_class after s cls q false)]
  | [7; k; asc; by_] =>
      let '(e, v) := walk_out (if by_ =? 0 then st_page_walk after s (Z.to_nat k) (negb (asc =? 0))
                               else st_page_walk_class after s (Z.to_nat k) (negb (asc =? 0))) in
      status_of e s ++ v
  | _ => [-9]
  end.
Definition framed (o : list Z) : list Z := lenZ o :: o.
(* load; phase A (nobody writing); stall v; phase B (the flag set all the time); release; phase C (several goroutines at once,
   nobody writing: every answer is the sequential one - there is no parallelism in the model, so: no answer differs) *)
Definition stalled_run (inst : list Z) (v : Z) (obs : list (list Z)) : list Z :=
  let '(o0, s) := scen_step (1 :: inst) fresh in
  let sb := stall v s in
  let sr := stall 0 sb in
  framed o0 ++ concat (map (fun st => framed (obs_step (bbusy s) st s)) obs)
    ++ framed (status_of 0 sb) ++ concat (map (fun st => framed (obs_step v st sb)) obs)
    ++ framed (status_of 0 sr) ++ framed (status_of 0 sr ++ [0; -1; -1; 0]).

(* ---- wire ---- *)
(* a group of NUL-terminated strings *)
Fixpoint split0 (l cur : list Z) : list (list Z) :=
  match l with
  | [] => []
  | x :: r => if x =? 0 then rev cur :: split0 r [] else split0 r (x :: cur)
  end.
Fixpoint chunk5 (l : list Z) : list (list Z) :=
  match l with
  | a :: b :: c :: d :: e :: r => [a; b; c; d; e] :: chunk5 r
  | _ => []
  end.

(* op 1 GetBid [names][bids][q]; 2 FindBoardIdxByName [names][q][asc]; 3 FindBoardIdxByClass [titles5][names][cls][q][asc];
   4 FindBoardAutoCompleteStartIdx [names][kw][asc]; 5 listing walk by name [names][k asc];
   7 listing walk by class [titles5][names][k asc] (both in by-class order);
   8 a history in fresh state: one group per step (scen_step);
   12 [tail n records] [v G R] obs...: lookups with the flag left set to v over a whole table (stalled_run);
   10 filtered listing walk [names][whole titles, NUL-terminated][mode f...][k asc by] (both in the order of the index walked:
      by = 0 name, 1 class; mode 1 = title filter, 2 = keyword filter) *)
Definition run_case (args : list (list Z)) : list Z :=
  match args with
  | [[1]; names; bids; q] => wire (fun b => [b]) (get_bid (split0 names []) bids q)
  | [[2]; names; q; [asc]] => wire (fun i => [i]) (find_by_name (split0 names []) q (negb (asc =? 0)))
  | [[3]; titles; names; cls; q; [asc]] =>
      wire (fun i => [i]) (find_by_class (chunk5 titles) (split0 names []) cls q (negb (asc =? 0)))
  | [[4]; names; kw; [asc]] => wire (fun i => [i]) (autocomplete (split0 names []) kw (negb (asc =? 0)))
  | [[5]; names; [k; asc]] => wire (fun r => fst r :: snd r) (page_walk (split0 names []) (Z.to_nat k) (negb (asc =? 0)))
  | [[7]; titles; names; [k; asc]] =>
      wire (fun r => fst r :: snd r) (page_walk_class (chunk5 titles) (split0 names []) (Z.to_nat k) (negb (asc =? 0)))
  | [8] :: steps => ST_OK :: scen_run steps fresh
  | [12] :: inst :: [v; _; _] :: obs => ST_OK :: stalled_run inst v obs
  | [[10]; names; ftitles; mode :: f; [k; asc; by_]] =>
      let tf := if mode =? 1 then f else [] in
      let kw := if mode =? 1 then [] else f in
      wire (fun r => fst r :: snd r)
        (if by_ =? 0 then page_walk_filtered (split0 ftitles []) (split0 names []) tf kw (Z.to_nat k) (negb (asc =? 0))
         else page_walk_class_filtered (split0 ftitles []) (split0 names []) tf kw (Z.to_nat k) (negb (asc =? 0)))
  | _ => [ST_BADCASE]
  end.
