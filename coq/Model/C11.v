(* C11 — board lookup and board listings.
   Executable model of cache/cache_board.go (GetBid, getBidByNameCore / getBidByClassCore, FindBoardIdxByName /
   FindBoardIdxByClass, FindBoardAutoCompleteStartIdx) and of the by-name and by-class listing walks that
   ptt.LoadGeneralBoards / bbs.LoadGeneralBoards compose from them. The search skeleton is Base/OddSearch.v.

   A table is given in the order of its sorted index (BSorted[by name] or BSorted[by class]): Go's sort.Sort is
   library code, its output order is an observed input that the check verifies to be a sorted permutation.
   Names are byte lists without the NUL padding of BoardID_t (13 bytes); a vacated slot has the empty name. *)
From Verif Require Import Base.Common Base.OddSearch.

Definition tolower (ch : Z) : Z := if (65 <=? ch) && (ch <=? 90) then ch + 32 else ch.

(* types.Cstrcmp: C strings inside Go slices (the slice end also terminates) *)
Fixpoint cstrcmp (a b : list Z) : Z :=
  match a with
  | [] => match b with [] => 0 | y :: _ => - y end
  | x :: a' =>
      if x =? 0 then match b with [] => 0 | y :: _ => - y end
      else match b with
           | [] => x
           | y :: b' => if x =? y then cstrcmp a' b' else x - y
           end
  end.
Definition cstrcasecmp (a b : list Z) : Z := cstrcmp (map tolower a) (map tolower b).

Definition boardid (s : list Z) : list Z := fixlen 13 s.   (* copy into a BoardID_t *)
Definition name_at (names : list (list Z)) (i : Z) : list Z := boardid (nth (Z.to_nat i) names []).

(* comparison of the key with entry i of BSorted[by name] *)
Definition cmp_name (names : list (list Z)) (q : list Z) (i : Z) : Z := cstrcasecmp (boardid q) (name_at names i).

(* BoardTitle_t.BoardClass on the first five title bytes *)
Definition board_class (t5 : list Z) : list Z := if nth 4 t5 0 =? 32 then firstn 4 t5 else firstn 5 t5.
(* cmpBoardByClass against entry i of BSorted[by class] *)
Definition cmp_class (titles names : list (list Z)) (cls q : list Z) (i : Z) : Z :=
  let j := cstrcmp cls (board_class (nth (Z.to_nat i) titles [])) in
  if j =? 0 then cstrcasecmp (boardid q) (name_at names i) else j.

(* cache.GetBid: bid of the entry found (bids = BSorted[by name] + 1), 0 when there is none *)
Definition get_bid (names : list (list Z)) (bids : list Z) (q : list Z) : res Z :=
  match search (cmp_name names q) (lenZ names) with
  | Ok (idx, true) => Ok (nth (Z.to_nat idx) bids 0)
  | Ok (_, false) => Ok 0
  | Crash => Crash
  | Hang => Hang
  end.

Definition find_by_name (names : list (list Z)) (q : list Z) (asc : bool) : res Z :=
  find (cmp_name names q) (lenZ names) asc.
Definition find_by_class (titles names : list (list Z)) (cls q : list Z) (asc : bool) : res Z :=
  find (cmp_class titles names cls q) (lenZ names) asc.

(* the (at most three) probes of FindBoardAutoCompleteStartIdx *)
Definition cmp_prefix (names : list (list Z)) (kw : list Z) (i : Z) : Z :=
  cstrcasecmp kw (firstn (length kw) (name_at names i)).
Fixpoint ac_up (k : nat) (names : list (list Z)) (kw : list Z) (idx n : Z) : Z :=
  match k with
  | O => -1
  | S k' => if idx <? n then
              let j := cmp_prefix names kw idx in
              if j =? 0 then idx + 1 else if j <? 0 then -1 else ac_up k' names kw (idx + 1) n
            else -1
  end.
Fixpoint ac_down (k : nat) (names : list (list Z)) (kw : list Z) (idx : Z) : Z :=
  match k with
  | O => -1
  | S k' => if 0 <=? idx then
              let j := cmp_prefix names kw idx in
              if j =? 0 then idx + 1 else if 0 <? j then -1 else ac_down k' names kw (idx - 1)
            else -1
  end.

(* findBoardClosetKeyword: descending bumps the last byte of the prefix (a uint8) *)
Definition bump_last (kw : list Z) : list Z :=
  firstn (length kw - 1) kw ++ [wrapu8 (nth (length kw - 1) kw 0 + 1)].

Definition autocomplete (names : list (list Z)) (kw : list Z) (asc : bool) : res Z :=
  let n := lenZ names in
  let L := lenZ kw in
  if (L =? 0) || (12 <? L) then Ok (if (L =? 0) && (0 <? n) then (if asc then 1 else n) else -1)
  else
    let key := if asc then kw else bump_last kw in
    match find (cmp_name names key) n (negb asc) with
    | Ok idx =>
        let idx := if idx =? -1 then (if asc then 1 else n) else idx in
        Ok (if asc then ac_up 3 names kw (idx - 1) n else ac_down 3 names kw (idx - 1))
    | Crash => Crash
    | Hang => Hang
    end.

(* ---- the by-name listing walk (ptt.LoadGeneralBoards + bbs.LoadGeneralBoards on its own next-cursor) ---- *)
Definition visible (names : list (list Z)) (i : Z) : bool :=
  match nth (Z.to_nat i) names [] with [] => false | _ => true end.   (* vacated slots are never listed *)

Fixpoint zseq (a : Z) (k : nat) : list Z := match k with O => [] | S k' => a :: zseq (a + 1) k' end.

(* positions (0-based) the loop looks at from start (SortIdx; 0 = from the last when descending) *)
Definition candidates (n start : Z) (asc : bool) : list Z :=
  if asc then zseq (start - 1) (Z.to_nat (n - (start - 1)))
  else rev (zseq 0 (Z.to_nat (Z.min start n))).

Definition load_page (names : list (list Z)) (start : Z) (k : nat) (asc : bool) : list Z * option Z :=
  let n := lenZ names in
  let start' := if (start =? 0) && negb asc then n else start in
  let got := firstn (S k) (filter (visible names) (candidates n start' asc)) in
  if Nat.eqb (length got) (S k) then (firstn k got, nth_error got k) else (got, None).

Fixpoint walk (fuel : nat) (names : list (list Z)) (k : nat) (asc : bool) (start pages : Z) (acc : list Z)
  : res (Z * list Z) :=
  match fuel with
  | O => Hang
  | S f =>
      let '(items, next) := load_page names start k asc in
      let acc' := acc ++ map (fun i => i + 1) items in
      match next with
      | None => Ok (pages + 1, acc')
      | Some i =>
          match find_by_name names (nth (Z.to_nat i) names []) asc with
          | Ok s => if s <? 0 then Ok (pages + 1, acc') else walk f names k asc s (pages + 1) acc'
          | Crash => Crash
          | Hang => Hang
          end
      end
  end.
Definition page_walk (names : list (list Z)) (k : nat) (asc : bool) : res (Z * list Z) :=
  walk (S (S (S (2 * length names)))) names k asc (if asc then 1 else 0) 0 [].

(* ---- the by-class listing walk (bsortBy = BSORT_BY_CLASS): the same page loop over BSorted[by class]; the
   next-cursor of bbs.NewBoardSummaryFromRaw is (BoardClass = CstrToBytes(Title[:4]), Brdname), serialised as
   base64(class)@name, deserialised and resolved by cache.FindBoardIdxByClass. [titles]/[names] are in by-class order.
   A cursor that resolves to no entry (-1) costs one more, empty page (bbs.LoadGeneralBoards returns nil, "", nil). ---- *)
Definition cursor_class (t5 : list Z) : list Z := cprefix (firstn 4 t5).

Fixpoint walk_class (fuel : nat) (titles names : list (list Z)) (k : nat) (asc : bool) (start pages : Z) (acc : list Z)
  : res (Z * list Z) :=
  match fuel with
  | O => Hang
  | S f =>
      let '(items, next) := load_page names start k asc in
      let acc' := acc ++ map (fun i => i + 1) items in
      match next with
      | None => Ok (pages + 1, acc')
      | Some i =>
          match find_by_class titles names (cursor_class (nth (Z.to_nat i) titles [])) (nth (Z.to_nat i) names []) asc with
          | Ok s => if s <? 0 then Ok (pages + 2, acc') else walk_class f titles names k asc s (pages + 1) acc'
          | Crash => Crash
          | Hang => Hang
          end
      end
  end.
Definition page_walk_class (titles names : list (list Z)) (k : nat) (asc : bool) : res (Z * list Z) :=
  walk_class (S (S (S (2 * length names)))) titles names k asc (if asc then 1 else 0) 0 [].

(* ---- wire ---- *)
(* a group of NUL-terminated strings *)
Fixpoint split0 (l cur : list Z) : list (list Z) :=
  match l with
  | [] => []
  | x :: r => if x =? 0 then rev cur :: split0 r [] else split0 r (x :: cur)
  end.
Fixpoint chunk5 (l : list Z) : list (list Z) :=
  match l with
  | a :: b :: c :: d :: e :: r => [a; b; c; d; e] :: chunk5 r
  | _ => []
  end.

(* op 1 GetBid [names][bids][q]; 2 FindBoardIdxByName [names][q][asc]; 3 FindBoardIdxByClass [titles5][names][cls][q][asc];
   4 FindBoardAutoCompleteStartIdx [names][kw][asc]; 5 listing walk by name [names][k asc];
   7 listing walk by class [titles5][names][k asc] (both in by-class order) *)
Definition run_case (args : list (list Z)) : list Z :=
  match args with
  | [[1]; names; bids; q] => wire (fun b => [b]) (get_bid (split0 names []) bids q)
  | [[2]; names; q; [asc]] => wire (fun i => [i]) (find_by_name (split0 names []) q (negb (asc =? 0)))
  | [[3]; titles; names; cls; q; [asc]] =>
      wire (fun i => [i]) (find_by_class (chunk5 titles) (split0 names []) cls q (negb (asc =? 0)))
  | [[4]; names; kw; [asc]] => wire (fun i => [i]) (autocomplete (split0 names []) kw (negb (asc =? 0)))
  | [[5]; names; [k; asc]] => wire (fun r => fst r :: snd r) (page_walk (split0 names []) (Z.to_nat k) (negb (asc =? 0)))
  | [[7]; titles; names; [k; asc]] =>
      wire (fun r => fst r :: snd r) (page_walk_class (chunk5 titles) (split0 names []) (Z.to_nat k) (negb (asc =? 0)))
  | _ => [ST_BADCASE]
  end.

(* ---- the orders the two indexes are sorted with (cache/shm_board_by.go) ---- *)
Definition less_name (a b : list Z) : bool := cstrcasecmp (boardid a) (boardid b) <? 0.
Definition less_class (a b : list Z * list Z) : bool :=   (* (Title[:5], name) *)
  let j := cstrcmp (firstn 4 (fst a)) (firstn 4 (fst b)) in
  if j =? 0 then cstrcasecmp (boardid (snd a)) (boardid (snd b)) <? 0 else j <? 0.
(* no adjacent pair is out of order *)
Fixpoint sorted_by {A} (less : A -> A -> bool) (l : list A) : bool :=
  match l with
  | a :: ((b :: _) as r) => negb (less b a) && sorted_by less r
  | _ => true
  end.
