(* C07 — board read access. Executable model of ptt/board.go (boardPermStat, boardPermStatNormally, groupOp),
   ptt/cache.go (IsBMCache), cache/cache_board.go (IsHiddenBoardFriend, as the boolean "uid is in the friend
   list"), the guard every article entry point of ptt/article_list.go and ptt/bbs.go starts with, and the
   board-listing filters / title masking of ptt/board_list.go and ptttype/board_summary.go.
   PERM_* / BRD_* / NBRD_* are the values gosync regenerates from the Go source on every run. *)
From Verif Require Import Base.Common Gen.Consts_default.
From Verif Require Gen.Consts_docker.      (* the production build (-tags docker): qualified names only *)

Definition has (x m : Z) : bool := negb (Z.land x m =? 0).      (* x & m != 0 : PERM.HasUserPerm, BrdAttr.HasPerm *)

Definition PERM_SYSOP := ptttype.PERM_SYSOP.
Definition PERM_POLICE := ptttype.PERM_POLICE.
Definition PERM_POLICE_MAN := ptttype.PERM_POLICE_MAN.
Definition PERM_BASIC := ptttype.PERM_BASIC.
Definition PERM_LOGINOK := ptttype.PERM_LOGINOK.
Definition PERM_BM := ptttype.PERM_BM.
Definition PERM_BOARD := ptttype.PERM_BOARD.
Definition PERM_NOCITIZEN := ptttype.PERM_NOCITIZEN.
Definition BRD_HIDE := ptttype.BRD_HIDE.
Definition BRD_POSTMASK := ptttype.BRD_POSTMASK.
Definition BRD_OVER18 := ptttype.BRD_OVER18.
Definition BRD_GROUPBOARD := ptttype.BRD_GROUPBOARD.
Definition BRD_SYMBOLIC := ptttype.BRD_SYMBOLIC.
Definition NBRD_INVALID := ptttype.NBRD_INVALID.
Definition NBRD_FAV := ptttype.NBRD_FAV.
Definition NBRD_BOARD := ptttype.NBRD_BOARD.
Definition NBRD_LINE := ptttype.NBRD_LINE.
Definition NBRD_FOLDER := ptttype.NBRD_FOLDER.
Definition USE_REAL_DESC := ptttype.USE_REAL_DESC_FOR_HIDDEN_BOARD_IN_MYFAV.

(* The repository is compiled in two configurations: the default one (ptttype/00-config-default.go; tests, the harness)
   and the production one (ptttype/01-config-docker.go, go build -tags docker). gosync regenerates the constants of
   both. A constant of the model that a configuration file (re)defines has one value per build. *)
Inductive build := Default | Docker.
Definition use_real_desc (c : build) : Z :=
  match c with
  | Default => Gen.Consts_default.ptttype.USE_REAL_DESC_FOR_HIDDEN_BOARD_IN_MYFAV
  | Docker => Gen.Consts_docker.ptttype.USE_REAL_DESC_FOR_HIDDEN_BOARD_IN_MYFAV
  end.
Definition max_board (c : build) : Z :=
  match c with Default => Gen.Consts_default.ptttype.MAX_BOARD | Docker => Gen.Consts_docker.ptttype.MAX_BOARD end.
(* the permission / attribute / status words of the model, as the named build has them (same order as C07_constants) *)
Definition build_words (c : build) : list Z :=
  match c with
  | Default =>
      [Gen.Consts_default.ptttype.PERM_BASIC; Gen.Consts_default.ptttype.PERM_LOGINOK; Gen.Consts_default.ptttype.PERM_BM;
       Gen.Consts_default.ptttype.PERM_BOARD; Gen.Consts_default.ptttype.PERM_SYSOP; Gen.Consts_default.ptttype.PERM_NOCITIZEN;
       Gen.Consts_default.ptttype.PERM_POLICE_MAN; Gen.Consts_default.ptttype.PERM_POLICE;
       Gen.Consts_default.ptttype.BRD_GROUPBOARD; Gen.Consts_default.ptttype.BRD_HIDE; Gen.Consts_default.ptttype.BRD_POSTMASK;
       Gen.Consts_default.ptttype.BRD_SYMBOLIC; Gen.Consts_default.ptttype.BRD_OVER18;
       Gen.Consts_default.ptttype.NBRD_INVALID; Gen.Consts_default.ptttype.NBRD_FAV; Gen.Consts_default.ptttype.NBRD_BOARD;
       Gen.Consts_default.ptttype.NBRD_LINE; Gen.Consts_default.ptttype.NBRD_FOLDER;
       Gen.Consts_default.ptttype.USE_REAL_DESC_FOR_HIDDEN_BOARD_IN_MYFAV]
  | Docker =>
      [Gen.Consts_docker.ptttype.PERM_BASIC; Gen.Consts_docker.ptttype.PERM_LOGINOK; Gen.Consts_docker.ptttype.PERM_BM;
       Gen.Consts_docker.ptttype.PERM_BOARD; Gen.Consts_docker.ptttype.PERM_SYSOP; Gen.Consts_docker.ptttype.PERM_NOCITIZEN;
       Gen.Consts_docker.ptttype.PERM_POLICE_MAN; Gen.Consts_docker.ptttype.PERM_POLICE;
       Gen.Consts_docker.ptttype.BRD_GROUPBOARD; Gen.Consts_docker.ptttype.BRD_HIDE; Gen.Consts_docker.ptttype.BRD_POSTMASK;
       Gen.Consts_docker.ptttype.BRD_SYMBOLIC; Gen.Consts_docker.ptttype.BRD_OVER18;
       Gen.Consts_docker.ptttype.NBRD_INVALID; Gen.Consts_docker.ptttype.NBRD_FAV; Gen.Consts_docker.ptttype.NBRD_BOARD;
       Gen.Consts_docker.ptttype.NBRD_LINE; Gen.Consts_docker.ptttype.NBRD_FOLDER;
       Gen.Consts_docker.ptttype.USE_REAL_DESC_FOR_HIDDEN_BOARD_IN_MYFAV]
  end.

(* ------------------------------------------------------------------ the abstract input record *)
(* one caller (whose uid is a valid, non-zero uid) against one board *)
Record inp := mk_inp {
  i_sysop : bool;      (* user level has PERM_SYSOP *)
  i_police : bool;     (* PERM_POLICE *)
  i_policeman : bool;  (* PERM_POLICE_MAN *)
  i_basic : bool;      (* PERM_BASIC *)
  i_verified : bool;   (* PERM_LOGINOK *)
  i_inbm : bool;       (* uid is one of the four entries of the board's moderator cache *)
  i_friend : bool;     (* uid is in the board's friend list (file "visable" -> Hbfl) *)
  i_uover18 : bool;    (* user.Over18 *)
  i_haslevel : bool;   (* user level & board level != 0 *)
  i_permboard : bool;  (* PERM_BOARD: the caller administers boards *)
  i_namedbm : bool;    (* the caller's id is named in the board's BM field (is_uBM) *)
  i_hidden : bool;     (* BRD_HIDE *)
  i_postmask : bool;   (* BRD_POSTMASK *)
  i_bover18 : bool;    (* BRD_OVER18 *)
  i_level0 : bool;     (* board level = 0 *)
  i_levelbm : bool     (* board level has the PERM_BM bit *)
}.

(* IsBMCache *)
Definition is_bm_cache (i : inp) : bool :=
  if negb (i_basic i) then false
  else if negb (i_basic i && i_verified i) then false            (* HasBasicUserPerm(PERM_LOGINOK) *)
  else i_inbm i.

(* boardPermStatNormally *)
Definition perm_stat_normally (i : inp) : Z :=
  if i_levelbm i && (i_police i || i_policeman i) then NBRD_FAV
  else if is_bm_cache i then NBRD_FAV
  else if i_hidden i then
    (if negb (i_friend i) then (if i_postmask i then NBRD_INVALID else NBRD_BOARD) else NBRD_FAV)
  else if i_bover18 i && negb (i_uover18 i) then NBRD_INVALID
  else if negb (i_level0 i) && negb (i_postmask i) && negb (i_haslevel i) then NBRD_INVALID
  else NBRD_FAV.

(* boardPermStat *)
Definition perm_stat (i : inp) : Z :=
  if i_sysop i then NBRD_FAV else perm_stat_normally i.

(* groupOp: the PERM_NOCITIZEN branch assigns false to a value that is already false *)
Definition group_op (i : inp) : bool :=
  let v := false in
  let v := if i_permboard i then true else v in
  let v := if i_namedbm i then true else v in
  v.

(* ------------------------------------------------------------------ the same on the numbers the code sees *)
Definition abs (ulevel : Z) (uover18 inbm friend namedbm : bool) (battr blevel : Z) : inp :=
  mk_inp (has ulevel PERM_SYSOP) (has ulevel PERM_POLICE) (has ulevel PERM_POLICE_MAN) (has ulevel PERM_BASIC)
         (has ulevel PERM_LOGINOK) inbm friend uover18 (has ulevel blevel) (has ulevel PERM_BOARD) namedbm
         (has battr BRD_HIDE) (has battr BRD_POSTMASK) (has battr BRD_OVER18) (blevel =? 0) (has blevel PERM_BM).

Definition is_bm_cache_bits (ulevel : Z) (inbm : bool) : bool :=
  if negb (has ulevel PERM_BASIC) then false
  else if negb (has ulevel PERM_BASIC && has ulevel PERM_LOGINOK) then false
  else inbm.

Definition perm_stat_bits (ulevel : Z) (uover18 inbm friend : bool) (battr blevel : Z) : Z :=
  if has ulevel PERM_SYSOP then NBRD_FAV
  else if negb (Z.land blevel PERM_BM =? 0) && (has ulevel PERM_POLICE || has ulevel PERM_POLICE_MAN) then NBRD_FAV
  else if is_bm_cache_bits ulevel inbm then NBRD_FAV
  else if negb (Z.land battr BRD_HIDE =? 0) then
    (if negb friend then (if negb (Z.land battr BRD_POSTMASK =? 0) then NBRD_INVALID else NBRD_BOARD) else NBRD_FAV)
  else if negb (Z.land battr BRD_OVER18 =? 0) && negb uover18 then NBRD_INVALID
  else if negb (blevel =? 0) && (Z.land battr BRD_POSTMASK =? 0) && negb (has ulevel blevel) then NBRD_INVALID
  else NBRD_FAV.

Definition group_op_bits (ulevel : Z) (namedbm : bool) : bool :=
  let v := false in
  let v := if has ulevel PERM_NOCITIZEN then false else v in
  let v := if has ulevel PERM_BOARD then true else v in
  let v := if namedbm then true else v in
  v.

(* ------------------------------------------------------------------ specification, from the property text *)
(* Whether a user may see a board's content: privileged categories see it regardless; everyone else sees a
   hidden board only as a listed friend (or when the hidden board does not carry the restricted mask), an
   over-18 board only as an adult, and a board with a required level only with one of the level's bits —
   unless the level is a posting level (restricted mask set), which does not restrict reading. *)
Definition moderator (i : inp) : bool := i_basic i && i_verified i && i_inbm i.
Definition privileged (i : inp) : bool :=
  i_sysop i || ((i_police i || i_policeman i) && i_levelbm i) || moderator i.
Definition ordinary_may_read (i : inp) : bool :=
  if i_hidden i then i_friend i || negb (i_postmask i)
  else (negb (i_bover18 i) || i_uover18 i) && (i_level0 i || i_postmask i || i_haslevel i).
Definition may_read (i : inp) : bool := privileged i || ordinary_may_read i.
(* ... "or the caller administers boards or is a named moderator of it" *)
Definition may_list (i : inp) : bool := may_read i || i_permboard i || i_namedbm i.

(* rows no user/board pair can produce: level = 0 has no bits *)
Definition consistent (i : inp) : bool :=
  negb (i_level0 i && (i_levelbm i || i_haslevel i)).

(* ------------------------------------------------------------------ article entry points *)
Inductive outcome (A : Type) : Type :=
| Data (a : A)         (* err == nil, the board's data *)
| NotPermitted         (* ErrNotPermitted, no data *)
| OtherErr (code : Z). (* ErrInvalidParams (1), ErrNoRecord (2) *)
Arguments Data {A} a.
Arguments NotPermitted {A}.
Arguments OtherErr {A} code.

(* "statAttr := boardPermStat(...); if statAttr == NBRD_INVALID { return ..., ErrNotPermitted }" *)
Definition guarded {A} (i : inp) (body : outcome A) : outcome A :=
  if perm_stat i =? NBRD_INVALID then NotPermitted else body.

Definition ep_is_board_valid_user (i : inp) : outcome bool :=
  if perm_stat i =? NBRD_INVALID then Data false else Data true.
Definition ep_load_general_articles {A} (i : inp) (total : Z) (recs : list A) : outcome (list A) :=
  guarded i (if total =? 0 then Data [] else Data recs).
Definition ep_load_bottom_articles {A} (i : inp) (total : Z) (recs : list A) : outcome (list A) :=
  guarded i (if total =? 0 then Data [] else Data recs).
Definition ep_find_article_start_idx (i : inp) (total idx : Z) : outcome Z :=
  guarded i (if total =? 0 then OtherErr 2 else Data idx).
Definition ep_read_post {A} (i : inp) (fn0 : Z) (content : A) : outcome A :=
  if (fn0 =? 76) || (fn0 =? 0) then OtherErr 1 else guarded i (Data content).
Definition ep_read_post_template {A} (i : inp) (content : A) : outcome A :=
  guarded i (Data content).

(* ------------------------------------------------------------------ article entry points on any board content *)
(* What the board holds when the entry point is called. The counters of the shared segment are part of it:
   Total is (re)loaded from .DIR by every reader that finds it 0 (GetBTotalWithRetry), NBottom is read as it is
   (GetBottomTotal) — 0 on a board without pinned articles and on a segment that has not loaded it yet. *)
Record content := mk_content {
  c_recs : list Z;          (* the records of .DIR (article index) *)
  c_idx : Z;                (* what the cursor search answers on a non-empty index *)
  c_pinned : list Z;        (* the records of .DIR.bottom (pinned articles) *)
  c_body : option Z;        (* the article file asked for: its content, None when there is no such file *)
  c_template : option Z;    (* the post template asked for *)
  c_loaded : bool           (* NBottom of the segment has been loaded from .DIR.bottom *)
}.
Definition c_total (c : content) : Z := Z.of_nat (length (c_recs c)).
Definition c_nbottom (c : content) : Z := if c_loaded c then Z.of_nat (length (c_pinned c)) else 0.
(* readContent: os.Stat fails on a missing file *)
Definition file_outcome (f : option Z) : outcome Z :=
  match f with Some x => Data x | None => OtherErr 3 end.

Definition epc_is_board_valid_user (i : inp) (c : content) : outcome bool := ep_is_board_valid_user i.
Definition epc_load_general_articles (i : inp) (c : content) : outcome (list Z) :=
  ep_load_general_articles i (c_total c) (c_recs c).
Definition epc_load_bottom_articles (i : inp) (c : content) : outcome (list Z) :=
  ep_load_bottom_articles i (c_nbottom c) (c_pinned c).
Definition epc_find_article_start_idx (i : inp) (c : content) : outcome Z :=
  ep_find_article_start_idx i (c_total c) (c_idx c).
Definition epc_read_post (i : inp) (fn0 : Z) (c : content) : outcome Z :=
  if (fn0 =? 76) || (fn0 =? 0) then OtherErr 1 else guarded i (file_outcome (c_body c)).
Definition epc_read_post_template (i : inp) (c : content) : outcome Z :=
  guarded i (file_outcome (c_template c)).

(* "refused" is read from the error value alone (ErrNotPermitted), never from the payload *)
Definition refused {A} (o : outcome A) : bool :=
  match o with NotPermitted => true | _ => false end.

(* ------------------------------------------------------------------ listings *)
Record board := mk_board {
  b_bid : Z;
  b_named : bool;     (* Brdname[0] != 0 *)
  b_attr : Z;
  b_level : Z;
  b_inbm : bool;      (* relative to the calling user *)
  b_friend : bool;
  b_namedbm : bool;
  b_match : bool      (* title/keyword (general) or prefix (auto-complete) matches *)
}.
Record user := mk_user { u_level : Z; u_over18 : bool }.
Definition row (u : user) (b : board) : inp :=
  abs (u_level u) (u_over18 u) (b_inbm b) (b_friend b) (b_namedbm b) (b_attr b) (b_level b).

Record summary := mk_summary {
  s_bid : Z;
  s_stat : Z;
  s_attr : Z;        (* BrdAttr as returned (after newBoardStat's write) *)
  s_title : bool     (* Title / BM list / counters present *)
}.

(* newBoardStat: forces BRD_POSTMASK onto a hidden board seen as NBRD_BOARD *)
Definition new_attr (attr stat : Z) : Z :=
  if negb (Z.land attr BRD_HIDE =? 0) && (Z.land attr BRD_POSTMASK =? 0) && (stat =? NBRD_BOARD)
  then Z.lor attr BRD_POSTMASK else attr.

(* parseBoardSummary; [urd] is the compile-time option USE_REAL_DESC_FOR_HIDDEN_BOARD_IN_MYFAV the code was built with
   (NewBoardSummaryRawWithReason fills the title of the 'refused' summary when it is on) *)
Definition parse_summary_with (urd : Z) (parse_folder : bool) (bid stat attr : Z) (gop : bool) : summary :=
  if negb (Z.land stat NBRD_LINE =? 0) then mk_summary bid stat 0 false
  else if negb parse_folder && negb (Z.land stat NBRD_FOLDER =? 0) then mk_summary bid stat 0 false
  else if negb gop && (stat =? NBRD_INVALID) then mk_summary bid stat attr (negb (urd =? 0))
  else mk_summary bid stat attr true.
Definition parse_summary := parse_summary_with USE_REAL_DESC.       (* the default build: what the harness links *)

Definition summarize_with (urd : Z) (parse_folder : bool) (u : user) (b : board) : summary :=
  let i := row u b in
  parse_summary_with urd parse_folder (b_bid b) (perm_stat i) (new_attr (b_attr b) (perm_stat i)) (group_op i).
Definition summarize (parse_folder : bool) (u : user) (b : board) : summary :=
  let i := row u b in
  parse_summary parse_folder (b_bid b) (perm_stat i) (new_attr (b_attr b) (perm_stat i)) (group_op i).

Definition visible (u : user) (b : board) : bool :=
  negb (perm_stat (row u b) =? NBRD_INVALID) || group_op (row u b).
Definition is_group (b : board) : bool := negb (Z.land (b_attr b) (Z.lor BRD_GROUPBOARD BRD_SYMBOLIC) =? 0).

Fixpoint take_while {A} (f : A -> bool) (l : list A) : list A :=
  match l with [] => [] | x :: r => if f x then x :: take_while f r else [] end.

(* loadGeneralBoardStat + showBoardList(isParseFolder = false); paging (nBoards+1) belongs to C11 *)
Definition load_general_boards (u : user) (bs : list board) : list summary :=
  map (summarize false u) (filter (fun b => b_named b && negb (is_group b) && visible u b && b_match b) bs).
(* loadAutoCompleteBoardStat: the walk ends at the first board whose name lacks the prefix *)
Definition load_autocomplete_boards (u : user) (bs : list board) : list summary :=
  map (summarize false u) (filter (fun b => b_named b && negb (is_group b) && visible u b) (take_while b_match bs)).
(* loadBoardStat + showBoardList(isParseFolder = true) *)
Definition load_boards_by_bids (u : user) (bs : list board) : list summary :=
  map (summarize true u) (filter (fun b => b_named b && visible u b) bs).
(* loadHotBoardStat *)
Definition load_hot_boards (u : user) (bs : list board) : list summary :=
  map (summarize false u) (filter (fun b => b_named b && negb (is_group b) && visible u b) bs).
(* ------------------------------------------------------------------ class listings *)
(* loadClassBoardStat: nil (and an error) for a vacated slot or a child that is neither class nor link (ErrInvalidBoard)
   and for a child the caller may not list (ErrNotPermitted) *)
Definition load_class_board_stat (u : user) (b : board) : option board :=
  if negb (b_named b) || negb (is_group b) then None
  else if negb (visible u b) then None
  else Some b.

(* LoadClassBoards, the walk along the sibling chain (FirstChild, then Next of the header at hand) collecting at most
   [cap] = ChildCount + 5 entries. [hdr] is the loop variable `board` whose Next the post statement reads: the code
   fetches the child's header before deciding ([fetch_first] = true), so it is never nil and the chain is followed
   also past a child that is skipped. [fetch_first] = false is the loop as it was before repo commit 3b3c8f7 (the
   header taken from loadClassBoardStat's result): kept only to record what the repair changed. *)
Fixpoint class_walk (fetch_first : bool) (u : user) (cap : nat) (chain : list board) (acc : list board) : res (list board) :=
  match chain with
  | [] => Ok (rev acc)                                                   (* bid <= 0: the chain ends *)
  | b :: rest =>
      if (length acc <? cap)%nat then
        let stat := load_class_board_stat u b in
        let hdr := if fetch_first then Some b else stat in
        let acc' := match stat with Some s => s :: acc | None => acc end in    (* eachErr != nil: continue *)
        match hdr with
        | Some _ => class_walk fetch_first u cap rest acc'                     (* bid = board.Next[bsortBy] *)
        | None => Crash
        end
      else Ok (rev acc)
  end.
(* LoadClassBoards + showBoardList(isParseFolder = true) *)
Definition load_class_boards (u : user) (childcount : nat) (chain : list board) : res (list summary) :=
  res_map (map (summarize true u)) (class_walk true u (childcount + 5) chain []).
(* LoadFullClassBoards: loadClassBoardStat on every board number from the start on, errors skipped; paging belongs to C11 *)
Definition load_full_class_boards (u : user) (boards : list board) : list summary :=
  map (summarize true u) (flat_map (fun b => match load_class_board_stat u b with Some s => [s] | None => [] end) boards).
(* specification: a child appears in a class listing when it is a (named) class or link and the caller may list it *)
Definition class_listable (u : user) (b : board) : bool := b_named b && is_group b && may_list (row u b).
(* LoadBoardSummary: always answers; parseBoardSummary masks *)
Definition load_board_summary (u : user) (b : board) : summary :=
  summarize (negb (Z.land (b_attr b) BRD_GROUPBOARD =? 0)) u b.
(* the same function compiled with the option at [urd] / in build [c] *)
Definition load_board_summary_with (urd : Z) (u : user) (b : board) : summary :=
  summarize_with urd (negb (Z.land (b_attr b) BRD_GROUPBOARD =? 0)) u b.
Definition load_board_summary_in (c : build) : user -> board -> summary := load_board_summary_with (use_real_desc c).

(* ------------------------------------------------------------------ wire *)
Definition zb (b : bool) : Z := if b then 1 else 0.
Definition bz (z : Z) : bool := negb (z =? 0).

Definition code_outcome {A} (o : outcome A) : Z :=
  match o with Data _ => 1 | NotPermitted => 0 | OtherErr c => 10 + c end.
Definition code_valid (o : outcome bool) : Z :=
  match o with Data true => 1 | Data false => 0 | NotPermitted => 7 | OtherErr c => 10 + c end.
(* a listing of the single board: 0 absent, 1 present with title, 2 present without title; then attr as returned *)
Definition code_listing (l : list summary) : list Z :=
  match l with
  | [] => [0; -1]
  | s :: _ => [if s_title s then 1 else 2; s_attr s]
  end.

Definition bits_of (i : inp) : list Z :=
  map zb [i_sysop i; i_police i; i_policeman i; i_basic i; i_verified i; i_inbm i; i_friend i; i_uover18 i;
          i_haslevel i; i_permboard i; i_namedbm i; i_hidden i; i_postmask i; i_bover18 i; i_level0 i; i_levelbm i].

(* op 1: [ulevel; over18; inbm; friend; namedbm] [battr; blevel]  ->
     status, perm_stat, group_op,
     six article entry points (1 data / 0 not permitted), four listings + summary (code, attr) *)
Definition run_row_in (c : build) (ulevel : Z) (o18 inbm fr nbm : bool) (battr blevel : Z) : list Z :=
  let i := abs ulevel o18 inbm fr nbm battr blevel in
  let u := mk_user ulevel o18 in
  let b := mk_board 10 true battr blevel inbm fr nbm true in
  [ST_OK; perm_stat_bits ulevel o18 inbm fr battr blevel; zb (group_op_bits ulevel nbm);
   code_valid (ep_is_board_valid_user i);
   code_outcome (ep_load_general_articles i 2 [1; 2]);
   code_outcome (ep_load_bottom_articles i 1 [1]);
   code_outcome (ep_find_article_start_idx i 2 1);
   code_outcome (ep_read_post i 77 196);
   code_outcome (ep_read_post_template i 196)]
  ++ code_listing (load_general_boards u [b])
  ++ code_listing (load_autocomplete_boards u [b])
  ++ code_listing (load_boards_by_bids u [b])
  ++ code_listing (load_hot_boards u [b])
  ++ code_listing [load_board_summary_in c u b]
  (* the bbs wrappers: same guards after loading the caller by name *)
  ++ [code_valid (ep_is_board_valid_user i);
      code_outcome (ep_load_general_articles i 2 [1; 2]);
      code_outcome (ep_load_bottom_articles i 1 [1]);
      code_outcome (ep_read_post i 77 196)]
  ++ code_listing [load_board_summary_in c u b].

Definition run_row := run_row_in Default.
(* op 9: [9; build] user board: op 1 in the named build (0 default, 1 -tags docker). Only the single-board summary reads a
   per-build option; a listing never reaches the branch that does (Proofs/C07.v: summarize_any_option).
   op 10: [10; build]: the options of that build the summary depends on, and MAX_BOARD (which tells the two builds apart) *)
Definition build_of (z : Z) : option build := if z =? 0 then Some Default else if z =? 1 then Some Docker else None.

(* op 3: the entry points take the board number and the board name separately; permission is evaluated on the
   board with that number, the files read are those of the board with that name *)
Definition ep_read_post_pair {A} (i_of_bid : inp) (fn0 : Z) (content_of_named_board : A) : outcome A :=
  ep_read_post i_of_bid fn0 content_of_named_board.
Definition run_pair (ulevel : Z) (o18 inbm fr nbm : bool) (battr blevel : Z) : list Z :=
  let i_name := abs ulevel o18 inbm fr nbm battr blevel in
  let i_bid := abs ulevel o18 false false false BRD_POSTMASK 0 in      (* fixture board 1 (SYSOP): postmask, level 0 *)
  [ST_OK; code_valid (ep_is_board_valid_user i_name); code_outcome (ep_read_post_pair i_bid 77 196); code_outcome (ep_read_post_pair i_bid 77 196)].

(* op 4: LoadGeneralArticlesSameCreateTime takes no caller at all *)
Definition ep_load_same_create_time {A} (total : Z) (recs : list A) : outcome (list A) :=
  if total =? 0 then Data [] else Data recs.
Definition run_helper (ulevel : Z) (o18 inbm fr nbm : bool) (battr blevel : Z) : list Z :=
  let i := abs ulevel o18 inbm fr nbm battr blevel in
  [ST_OK; code_valid (ep_is_board_valid_user i); code_outcome (ep_load_same_create_time 2 [1; 2])].

(* op 5: [5; content bits] user board: the ten article entry points on a board whose content is
   bit 0 article index (two records), bit 1 pinned index (one record), bit 2 the article file, bit 3 the post
   template, bit 4 NBottom loaded. Each entry point answers two numbers: the class of the error value
   (0 not permitted, 1 nil, 10 + c other) and the size of the payload. *)
Definition content_of_bits (cb : Z) : content :=
  mk_content (if Z.testbit cb 0 then [1; 2] else []) 1 (if Z.testbit cb 1 then [1] else [])
             (if Z.testbit cb 2 then Some 196 else None) (if Z.testbit cb 3 then Some 196 else None) (Z.testbit cb 4).
Definition code2_list (o : outcome (list Z)) : list Z :=
  match o with Data l => [1; Z.of_nat (length l)] | NotPermitted => [0; 0] | OtherErr c => [10 + c; 0] end.
Definition code2_z (o : outcome Z) : list Z :=
  match o with Data x => [1; x] | NotPermitted => [0; 0] | OtherErr c => [10 + c; 0] end.
Definition code2_valid (o : outcome bool) : list Z :=
  match o with Data b => [1; zb b] | NotPermitted => [0; 0] | OtherErr c => [10 + c; 0] end.
Definition run_content (cb ulevel : Z) (o18 inbm fr nbm : bool) (battr blevel : Z) : list Z :=
  let i := abs ulevel o18 inbm fr nbm battr blevel in
  let c := content_of_bits cb in
  [ST_OK]
  ++ code2_valid (epc_is_board_valid_user i c) ++ code2_list (epc_load_general_articles i c)
  ++ code2_list (epc_load_bottom_articles i c) ++ code2_z (epc_find_article_start_idx i c)
  ++ code2_z (epc_read_post i 77 c) ++ code2_z (epc_read_post_template i c)
  (* the bbs wrappers *)
  ++ code2_valid (epc_is_board_valid_user i c) ++ code2_list (epc_load_general_articles i c)
  ++ code2_list (epc_load_bottom_articles i c) ++ code2_z (epc_read_post i 77 c).

(* op 6: [6; variant] user board: the four listings where the surrounding list is degenerate.
   variant 0: nothing to list (no hot board, no board number asked for, keyword / prefix no board carries);
   variant 1: the board of the row is the only candidate. Each listing answers (code, attr, length); last the class
   listing of a class without children. *)
Definition code3_listing (l : list summary) : list Z := code_listing l ++ [Z.of_nat (length l)].
Definition code3_class (r : res (list summary)) : list Z :=
  match r with Ok l => code3_listing l | Crash => [8; -1; 0] | Hang => [2; -1; 0] end.
Definition run_listing (variant ulevel : Z) (o18 inbm fr nbm : bool) (battr blevel : Z) : list Z :=
  let u := mk_user ulevel o18 in
  let bs := if variant =? 0 then [] else [mk_board 10 true battr blevel inbm fr nbm true] in
  [ST_OK] ++ code3_listing (load_general_boards u bs) ++ code3_listing (load_autocomplete_boards u bs)
  ++ code3_listing (load_boards_by_bids u bs) ++ code3_listing (load_hot_boards u bs)
  ++ code3_class (load_class_boards u 0 []).

(* op 7: [7; mode; class; sort] user board [lvl] [bid; kind; ...] [bid; attr; level; ...]: the class listings on a planted
   class tree. The children come in sibling order with their kind (0 the board of the row, 1 unrestricted class, 2 hidden
   class with restricted mask, 3 class requiring level lvl, 4 over-18 class, 5 ordinary board, 6 vacated slot, 7 the
   fixture's header, 8 link); the last group holds the fixture's own classes. mode 0: the chain is the one the code's
   resolver builds (vacated slots are not chained, ChildCount stays 0); mode 1: the chain as planted, ChildCount = its
   length. Answer: ptt / bbs LoadClassBoards, ptt / bbs LoadFullClassBoards as (code, n, (bid, title, attr) x n), then
   the sibling chain. *)
Fixpoint pairs (l : list Z) : list (Z * Z) :=
  match l with a :: b :: r => (a, b) :: pairs r | _ => [] end.
Fixpoint triples (l : list Z) : list (Z * (Z * Z)) :=
  match l with a :: b :: c :: r => (a, (b, c)) :: triples r | _ => [] end.
Definition fixture_hdr (fx : list (Z * (Z * Z))) (bid : Z) : option (Z * Z) :=
  option_map snd (find (fun t => fst t =? bid) fx).
Definition kind_board (fx : list (Z * (Z * Z))) (battr blevel lvl : Z) (inbm fr nbm : bool) (bk : Z * Z) : board :=
  let (bid, kind) := bk in
  let plain (named : bool) (attr level : Z) := mk_board bid named attr level false false false true in
  if kind =? 0 then mk_board bid true battr blevel inbm fr nbm true
  else if kind =? 1 then plain true BRD_GROUPBOARD 0
  else if kind =? 2 then plain true (Z.lor BRD_GROUPBOARD (Z.lor BRD_HIDE BRD_POSTMASK)) 0
  else if kind =? 3 then plain true BRD_GROUPBOARD lvl
  else if kind =? 4 then plain true (Z.lor BRD_GROUPBOARD BRD_OVER18) 0
  else if kind =? 5 then plain true 0 0
  else if kind =? 6 then plain false BRD_GROUPBOARD 0
  else if kind =? 7 then match fixture_hdr fx bid with Some (a, l) => plain true a l | None => plain false 0 0 end
  else plain true BRD_SYMBOLIC 0.
Definition code_entries (l : list summary) : list Z :=
  flat_map (fun s => [s_bid s; if s_title s then 1 else 2; s_attr s]) l.
Definition code_class (r : res (list summary)) : list Z :=
  match r with Ok l => [1; lenZ l] ++ code_entries l | Crash => [8; 0] | Hang => [2; 0] end.
Definition run_class (mode ulevel : Z) (o18 inbm fr nbm : bool) (battr blevel lvl : Z) (chainZ fixtureZ : list Z) : list Z :=
  let u := mk_user ulevel o18 in
  let fx := triples fixtureZ in
  let children := map (kind_board fx battr blevel lvl inbm fr nbm) (pairs chainZ) in
  let stored := if mode =? 0 then filter b_named children else children in
  let cc := if mode =? 0 then 0%nat else length children in
  let a := code_class (load_class_boards u cc stored) in
  (* every board of the segment by number: a planted child, else a class of the fixture; the fixture's other boards are no classes *)
  let all := flat_map (fun bid => match find (fun b => b_bid b =? bid) children with
                                  | Some b => [b]
                                  | None => match fixture_hdr fx bid with
                                            | Some (at_, l) => [mk_board bid true at_ l false false false true]
                                            | None => []
                                            end
                                  end) (map Z.of_nat (seq 1 64)) in
  let f := code_class (Ok (load_full_class_boards u all)) in
  [ST_OK] ++ a ++ a ++ f ++ f ++ [lenZ stored] ++ map b_bid stored.

(* ------------------------------------------------------------------ board life cycle (op 11) *)
(* The moderator cache (Shm.BMCache) is kept per board SLOT (record number of .BRD), not per board. What a caller is
   allowed on a board therefore depends on how the cache of the slot was maintained while boards came and went:
   ptt.NewBoard -> mNewbrd -> addBoardRecord puts the new header into a free (blank-name) slot if there is one, else
   appends; both paths end in cache.ResetBoard (header read back from .BRD, buildBMCache = ParseBMList of the header's
   own BM field, at most MAX_BMs uids). A board is removed by blanking its record (the administration tools do that)
   and cache.ReloadBCache, which copies .BRD into the board cache and leaves the moderator caches as they are.
   State: the slots from the first one behind the fixture's boards on, each (header or blank, moderator cache). Users are
   numbers of a pool of registered users; a board name is a number. *)
Record lboard := mk_lboard { lb_name : Z; lb_bms : list Z; lb_attr : Z; lb_level : Z }.
Definition lslot := (option lboard * list Z)%type.
Definition parse_bm_list (ms : list Z) : list Z := firstn (Z.to_nat ptttype.MAX_BMs) ms.     (* ParseBMList *)
(* mNewbrd (creator with PERM_BOARD): a hidden board is created without restricted mask and without level *)
Definition mnewbrd_header (n : Z) (ms : list Z) (attr level : Z) : lboard :=
  if has attr BRD_HIDE then mk_lboard n ms (Z.ldiff attr BRD_POSTMASK) 0 else mk_lboard n ms attr level.
Definition l_named (n : Z) (s : lslot) : bool :=
  match fst s with Some b => lb_name b =? n | None => false end.
(* addBoardRecord, the free-slot path. [reset] = true: cache.ResetBoard(bid) as the code has it (the slot's moderator
   cache is rebuilt from the new header); [reset] = false: the header alone is published and the slot's moderator cache
   stays - not the code, kept to state what the call is needed for (C07_life_cycle_needs_reset) *)
Fixpoint put_free (reset : bool) (b : lboard) (sl : list lslot) : option (list lslot) :=
  match sl with
  | [] => None
  | s :: r =>
      match fst s with
      | None => Some ((Some b, if reset then parse_bm_list (lb_bms b) else snd s) :: r)
      | Some _ => option_map (cons s) (put_free reset b r)
      end
  end.
(* NewBoard: 3 = the name exists; else free slot, else append (AddbrdTouchCache -> ResetBoard) *)
Definition l_create (reset : bool) (sl : list lslot) (n : Z) (ms : list Z) (attr level : Z) : list lslot * Z :=
  if existsb (l_named n) sl then (sl, 3)
  else let b := mnewbrd_header n ms attr level in
       match put_free reset b sl with
       | Some sl' => (sl', 0)
       | None => (sl ++ [(Some b, parse_bm_list (lb_bms b))], 0)
       end.
(* removal: the record of the board is blanked, the boards are reloaded; the moderator cache of the slot is not touched
   (names are unique: creation refuses a name that exists) *)
Definition l_remove (sl : list lslot) (n : Z) : list lslot * Z :=
  if existsb (l_named n) sl then (map (fun s => if l_named n s then (None, snd s) else s) sl, 0) else (sl, 4).
(* what the entry points answer to pool user [u] (level word, over-18 flag) on a board with header [b] whose slot has
   moderator cache [c]; the board holds no article (it has just been created). found, then validity query, article list,
   pinned list, cursor search, article body, post template (1 not refused / 0 refused), bbs validity query, bbs article
   list, then listing by board number (0 absent, 1 with title, 2 without) and the summary (1 with title, 2 without) *)
Definition l_inp (b : lboard) (c : list Z) (u ulevel : Z) (o18 : bool) : inp :=
  abs ulevel o18 (existsb (Z.eqb u) c) false (existsb (Z.eqb u) (lb_bms b)) (lb_attr b) (lb_level b).
Definition nr {A} (o : outcome A) : Z := zb (negb (refused o)).
Definition l_answer (b : lboard) (c : list Z) (u ulevel : Z) (o18 : bool) : list Z :=
  let i := l_inp b c u ulevel o18 in
  let c0 := content_of_bits 0 in
  let us := mk_user ulevel o18 in
  let bd := mk_board 0 true (lb_attr b) (lb_level b) (existsb (Z.eqb u) c) false (existsb (Z.eqb u) (lb_bms b)) true in
  [1; code_valid (epc_is_board_valid_user i c0); nr (epc_load_general_articles i c0); nr (epc_load_bottom_articles i c0);
   nr (epc_find_article_start_idx i c0); nr (epc_read_post i 77 c0); nr (epc_read_post_template i c0);
   code_valid (epc_is_board_valid_user i c0); nr (epc_load_general_articles i c0);
   hd 0 (code_listing (load_boards_by_bids us [bd])); if s_title (load_board_summary us bd) then 1 else 2].
Definition l_query (sl : list lslot) (n u ulevel : Z) (o18 : bool) : list Z :=
  match find (l_named n) sl with
  | Some (Some b, c) => l_answer b c u ulevel o18
  | _ => [0; -1; -1; -1; -1; -1; -1; -1; -1; -1; -1]
  end.
(* steps: [1; name; attr; level; moderators...] create, [2; name] remove, [3] reload, [4; name; user; level; over18] query *)
Inductive lstep := LCreate (n attr level : Z) (ms : list Z) | LRemove (n : Z) | LReload | LQuery (n u ulevel o18 : Z) | LBad.
Definition l_decode (step : list Z) : lstep :=
  match step with
  | 1 :: n :: attr :: level :: ms => LCreate n attr level ms
  | [2; n] => LRemove n
  | [3] => LReload
  | [4; n; u; ulevel; o18] => LQuery n u ulevel o18
  | _ => LBad
  end.
Definition l_apply (reset : bool) (sl : list lslot) (s : lstep) : list lslot * list Z :=
  match s with
  | LCreate n attr level ms => let (sl', c) := l_create reset sl n ms attr level in (sl', [c])
  | LRemove n => let (sl', c) := l_remove sl n in (sl', [c])
  | LReload => (sl, [0])
  | LQuery n u ulevel o18 => (sl, l_query sl n u ulevel (bz o18))
  | LBad => (sl, [-9])
  end.
Definition l_step (reset : bool) (sl : list lslot) (step : list Z) : list lslot * list Z := l_apply reset sl (l_decode step).
Fixpoint l_run (reset : bool) (sl : list lslot) (steps : list (list Z)) : list lslot * list Z :=
  match steps with
  | [] => (sl, [])
  | s :: r => let (sl1, o1) := l_step reset sl s in let (sl2, o2) := l_run reset sl1 r in (sl2, o1 ++ o2)
  end.

Definition run_case (args : list (list Z)) : list Z :=
  match args with
  | [[1]; [ulevel; o18; inbm; fr; nbm]; [battr; blevel]] => run_row ulevel (bz o18) (bz inbm) (bz fr) (bz nbm) battr blevel
  | [[3]; [ulevel; o18; inbm; fr; nbm]; [battr; blevel]] => run_pair ulevel (bz o18) (bz inbm) (bz fr) (bz nbm) battr blevel
  | [[4]; [ulevel; o18; inbm; fr; nbm]; [battr; blevel]] => run_helper ulevel (bz o18) (bz inbm) (bz fr) (bz nbm) battr blevel
  | [[5; cb]; [ulevel; o18; inbm; fr; nbm]; [battr; blevel]] => run_content cb ulevel (bz o18) (bz inbm) (bz fr) (bz nbm) battr blevel
  | [[6; v]; [ulevel; o18; inbm; fr; nbm]; [battr; blevel]] => run_listing v ulevel (bz o18) (bz inbm) (bz fr) (bz nbm) battr blevel
  | [[7; mode; cls; sort]; [ulevel; o18; inbm; fr; nbm]; [battr; blevel]; [lvl]; chain; fx] =>
      run_class mode ulevel (bz o18) (bz inbm) (bz fr) (bz nbm) battr blevel lvl chain fx
  | [[9; cfg]; [ulevel; o18; inbm; fr; nbm]; [battr; blevel]] =>
      match build_of cfg with
      | Some c => run_row_in c ulevel (bz o18) (bz inbm) (bz fr) (bz nbm) battr blevel
      | None => [ST_BADCASE]
      end
  | [11] :: steps => ST_OK :: snd (l_run true [] steps)
  | [[10; cfg]] =>
      match build_of cfg with
      | Some c => [ST_OK; zb (negb (use_real_desc c =? 0)); max_board c]
      | None => [ST_BADCASE]
      end
  (* op 2: the abstract row of the numbers, then the specification's verdicts may_read, may_list *)
  | [[2]; [ulevel; o18; inbm; fr; nbm]; [battr; blevel]] =>
      let i := abs ulevel (bz o18) (bz inbm) (bz fr) (bz nbm) battr blevel in
      ST_OK :: bits_of i ++ [zb (may_read i); zb (may_list i)]
  | _ => [ST_BADCASE]
  end.
