(* C13 — article ids. Executable model of ptttype/types.go (Filename_t.ToAidu, Aidu.ToFN, Aidu.ToAidc,
   Aidc.ToAidu) and bbs/article_id.go (ToArticleID, ArticleID.ToRaw). Tables come from Gen/AidTab.v. *)
From Verif Require Import Base.Common Base.Dec Gen.AidTab.

Definition enc_digit (v : Z) : Z := nth (Z.to_nat v) encodeAidc 0.   (* v = aidu % 64 *)

(* Aidu.ToAidc: 8 digits, right to left, % 64 and / 64 on uint64 *)
Fixpoint to_aidc_loop (k : nat) (a : Z) (acc : list Z) : list Z :=
  match k with O => acc | S k' => to_aidc_loop k' (a / 64) (enc_digit (a mod 64) :: acc) end.
Definition aidu_to_aidc (a : Z) : list Z := to_aidc_loop 8 a [].

(* Aidc.ToAidu: stops at NUL or '@'; a byte the table does not cover yields 0 (an invalid id) *)
Fixpoint to_aidu_loop (s : list Z) (a : Z) : res Z :=
  match s with
  | [] => Ok a
  | c :: r =>
      if (c =? 0) || (c =? 64) then Ok a
      else if 128 <=? c then Ok 0
      else match nthZ decodeAidcTable c with
           | Some v => to_aidu_loop r (Z.lor (wrapu64 (Z.shiftl a 6)) v)
           | None => Crash
           end
  end.
Definition aidc_to_aidu (s : list Z) : res Z := to_aidu_loop s 0.

(* Filename_t.ToAidu on the 28-byte array *)
Definition fn_to_aidu (f : list Z) : Z :=
  if negb (nth 1 f 0 =? 46) then 0
  else if negb (nth 12 f 0 =? 46) then 0
  else if negb (nth 14 f 0 =? 46) then 0
  else
    let ty := if nth 0 f 0 =? 77 then 0 else 1 in
    let t := match atoi (firstn 10 (skipn 2 f)) with Some v => wrap32 v | None => 0 end in
    match parse_uint16 (firstn 3 (skipn 15 f)) 12 with
    | None => 0
    | Some p => wrapu64 (Z.shiftl (Z.land ty 15) 44 + wrapu64 (Z.shiftl (wrapu64 t) 12) + p)
    end.

(* Aidu.ToFN *)
Definition aidu_to_fn (a : Z) : list Z :=
  let ty := if Z.land (Z.shiftr a 44) 15 =? 0 then 77 else 71 in
  let t := wrap32 (Z.land (Z.shiftr a 12) 4294967295) in
  let p := Z.land (wrapu16 a) 4095 in
  fixlen 28 (ty :: 46 :: print_dec t ++ [46; 65; 46] ++ map hexU_char (digitsB 16 3 p)).   (* %03X of p < 4096 *)

(* bbs.ToArticleID: CstrToString of the 8 characters *)
Definition fn_to_articleid (f : list Z) : list Z := cprefix (aidu_to_aidc (fn_to_aidu f)).
(* bbs.ArticleID.ToRaw: the first (at most) 8 bytes are the id *)
Definition articleid_to_fn (s : list Z) : res (list Z) :=
  res_map aidu_to_fn (aidc_to_aidu (fixlen 8 s)).

(* the file name a post gets: type letter, 10-digit time, 3 upper-case hex digits *)
Definition mk_name (ty t sfx : Z) : list Z :=
  fixlen 28 (ty :: 46 :: map dec_char (digitsB 10 10 t) ++ [46; 65; 46] ++ map hexU_char (digitsB 16 3 sfx)).

Definition in_alphabet (c : Z) : bool := existsb (Z.eqb c) encodeAidc.

(* wire: op 1 aidu->aidc, 2 aidc->aidu, 3 fn->aidu, 4 aidu->fn, 5 fn->articleid, 6 articleid->fn *)
Definition run_case (args : list (list Z)) : list Z :=
  match args with
  | [[1]; [a]] => ST_OK :: aidu_to_aidc a
  | [[2]; s] => wire (fun a => [a]) (aidc_to_aidu s)
  | [[3]; f] => [ST_OK; fn_to_aidu f]
  | [[4]; [a]] => ST_OK :: aidu_to_fn a
  | [[5]; f] => ST_OK :: fn_to_articleid f
  | [[6]; s] => wire (fun f => f) (articleid_to_fn s)
  | _ => [ST_BADCASE]
  end.
