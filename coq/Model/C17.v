(* C17 — Big5 <-> UTF-8. Executable model of types/big5.go: initB2U / initU2B (the two maps, loaded
   row by row from the table files as gosync re-reads them: Gen/Big5Tab.v), initToBig5, initToUtf8,
   Big5ToUtf8, Utf8ToBig5. The Go maps are keyed by byte strings; so are these. *)
From Coq Require Import FMapPositive.
From Verif Require Import Base.Common Gen.Big5Tab.

(* string(bytes) as a map key: the digits 1 b0 b1 ... in base 256 *)
Definition bkeyZ (l : list Z) : Z := fold_left (fun a b => a * 256 + b) l 1.
Definition bkey (l : list Z) : positive := Z.to_pos (bkeyZ l).

(* initToBig5: the two bytes of the four hex digits *)
Definition big5_bytes (c : Z) : list Z := [c / 256; c mod 256].

(* initToUtf8 on ucs2 = hi*256+lo; `ucs2 & ^0x7f` is `land u (-128)`; byte(...) truncates *)
Definition utf8_enc (u : Z) : list Z :=
  if Z.land u (-128) =? 0 then [0]
  else if Z.land u 63488 =? 0 then
    [wrapu8 (Z.lor 192 (Z.shiftr u 6)); wrapu8 (Z.lor 128 (Z.land u 63))]
  else
    [wrapu8 (Z.lor 224 (Z.shiftr u 12)); wrapu8 (Z.lor 128 (Z.land (Z.shiftr u 6) 63));
     wrapu8 (Z.lor 128 (Z.land u 63))].

Definition tab := PositiveMap.t (list Z).
(* the loops of initB2U / initU2B: m[string(key)] = value, later rows overwrite earlier ones *)
Definition load_tab (kv : Z * Z -> list Z * list Z) (rows : list (Z * Z)) : tab :=
  fold_left (fun m r => PositiveMap.add (bkey (fst (kv r))) (snd (kv r)) m) rows (PositiveMap.empty (list Z)).
Definition b2u_kv (r : Z * Z) : list Z * list Z := (big5_bytes (fst r), utf8_enc (snd r)).
Definition u2b_kv (r : Z * Z) : list Z * list Z := (utf8_enc (snd r), big5_bytes (fst r)).
Definition b2u_map : tab := load_tab b2u_kv b2u_rows.     (* big5ToUTF8 *)
Definition u2b_map : tab := load_tab u2b_kv u2b_rows.     (* utf8ToBig5 *)
Definition lookup (m : tab) (k : list Z) : option (list Z) := PositiveMap.find (bkey k) m.

(* one iteration of a scanner loop: break, or "append out, cursor := rest" *)
Inductive step := Stop | Adv (out rest : list Z).

(* for p := s; len(p) > 0; { body }: an iteration that leaves the cursor where it was repeats forever *)
Fixpoint scan (body : list Z -> step) (fuel : nat) (p : list Z) : res (list Z) :=
  match p with
  | [] => Ok []
  | _ :: _ =>
      match fuel with
      | O => Hang
      | S fuel' =>
          match body p with
          | Stop => Ok []
          | Adv out rest =>
              if (length rest <? length p)%nat then res_map (app out) (scan body fuel' rest) else Hang
          end
      end
  end.

(* body of Big5ToUtf8 *)
Definition b2u_body (p : list Z) : step :=
  match p with
  | [] => Stop
  | b0 :: r =>
      if b0 <? 128 then Adv [b0] r
      else match r with
           | [] => Stop                                                  (* len(p_big5) < 2: break *)
           | b1 :: r1 => Adv (match lookup b2u_map [b0; b1] with Some v => v | None => [] end) r1
           end
  end.

Definition replacement : list Z := [255; 253].
Definition u2b_get (k : list Z) : list Z := match lookup u2b_map k with Some v => v | None => replacement end.

(* body of Utf8ToBig5; the final else arm appends the replacement and skips one byte *)
Definition u2b_else (r : list Z) : step := Adv replacement r.
Definition u2b_body (p : list Z) : step :=
  match p with
  | [] => Stop
  | b0 :: r =>
      if b0 <? 128 then Adv [b0] r
      else match r with
           | [] => u2b_else r
           | b1 :: r1 =>
               if Z.land b0 224 =? 192 then Adv (u2b_get [b0; b1]) r1           (* len >= 2 && b0&0xe0 == 0xc0 *)
               else match r1 with
                    | [] => u2b_else r
                    | b2 :: r2 =>
                        if Z.land b0 240 =? 224 then Adv (u2b_get [b0; b1; b2]) r2   (* len >= 3 && b0&0xf0 == 0xe0 *)
                        else u2b_else r
                    end
           end
  end.

Definition big5_to_utf8 (s : list Z) : res (list Z) := scan b2u_body (S (length s)) s.
Definition utf8_to_big5 (s : list Z) : res (list Z) := scan u2b_body (S (length s)) s.

(* wire: op 1 Big5ToUtf8(bytes), op 2 Utf8ToBig5(string(bytes)) *)
Definition run_case (args : list (list Z)) : list Z :=
  match args with
  | [[1]; s] => wire (fun o => o) (big5_to_utf8 s)
  | [[2]; s] => wire (fun o => o) (utf8_to_big5 s)
  | _ => [ST_BADCASE]
  end.
