(* C17 — Big5 <-> UTF-8. Executable model of types/big5.go: initB2U / initU2B (the two maps, loaded
   row by row from the table files as gosync re-reads them: Gen/Big5Tab.v), initToBig5, initToUtf8,
   Big5ToUtf8, Utf8ToBig5. The Go maps are keyed by byte strings; so are these. *)
From Coq Require Import FMapPositive.
From Verif Require Import Base.Common Gen.Big5Tab.

(* string(bytes) as a map key: the digits 1 b0 b1 ... in base 256 *)
Definition bkeyZ (l : list Z) : Z := fold_left (fun a b => a * 256 + b) l 1.
Definition bkey (l : list Z) : positive := Z.to_pos (bkeyZ l).

(* initToBig5: the two bytes of the four hex digits *)
Definition big5_bytes (c : Z) : list Z := [c / 256; c mod 256].

(* initToUtf8 on ucs2 = hi*256+lo; `ucs2 & ^0x7f` is `land u (-128)`; byte(...) truncates *)
Definition utf8_enc (u : Z) : list Z :=
  if Z.land u (-128) =? 0 then [0]
  else if Z.land u 63488 =? 0 then
    [wrapu8 (Z.lor 192 (Z.shiftr u 6)); wrapu8 (Z.lor 128 (Z.land u 63))]
  else
    [wrapu8 (Z.lor 224 (Z.shiftr u 12)); wrapu8 (Z.lor 128 (Z.land (Z.shiftr u 6) 63));
     wrapu8 (Z.lor 128 (Z.land u 63))].

Definition tab := PositiveMap.t (list Z).
(* the loops of initB2U / initU2B: m[string(key)] = value, later rows overwrite earlier ones *)
Definition load_tab (kv : Z * Z -> list Z * list Z) (rows : list (Z * Z)) : tab :=
  fold_left (fun m r => PositiveMap.add (bkey (fst (kv r))) (snd (kv r)) m) rows (PositiveMap.empty (list Z)).
Definition b2u_kv (r : Z * Z) : list Z * list Z := (big5_bytes (fst r), utf8_enc (snd r)).
Definition u2b_kv (r : Z * Z) : list Z * list Z := (utf8_enc (snd r), big5_bytes (fst r)).
Definition b2u_map : tab := load_tab b2u_kv b2u_rows.     (* big5ToUTF8 *)
Definition u2b_map : tab := load_tab u2b_kv u2b_rows.     (* utf8ToBig5 *)
Definition lookup (m : tab) (k : list Z) : option (list Z) := PositiveMap.find (bkey k) m.

(* one iteration of a scanner loop: break, or "append out, cursor := rest" *)
Inductive step := Stop | Adv (out rest : list Z).

(* for p := s; len(p) > 0; { body }: an iteration that leaves the cursor where it was repeats forever *)
Fixpoint scan (body : list Z -> step) (fuel : nat) (p : list Z) : res (list Z) :=
  match p with
  | [] => Ok []
  | _ :: _ =>
      match fuel with
      | O => Hang
      | S fuel' =>
          match body p with
          | Stop => Ok []
          | Adv out rest =>
              if (length rest <? length p)%nat then res_map (app out) (scan body fuel' rest) else Hang
          end
      end
  end.

(* body of Big5ToUtf8 *)
Definition b2u_body (p : list Z) : step :=
  match p with
  | [] => Stop
  | b0 :: r =>
      if b0 <? 128 then Adv [b0] r
      else match r with
           | [] => Stop                                                  (* len(p_big5) < 2: break *)
           | b1 :: r1 => Adv (match lookup b2u_map [b0; b1] with Some v => v | None => [] end) r1
           end
  end.

Definition replacement : list Z := [255; 253].
Definition u2b_get (k : list Z) : list Z := match lookup u2b_map k with Some v => v | None => replacement end.

(* body of Utf8ToBig5; the final else arm appends the replacement and skips one byte *)
Definition u2b_else (r : list Z) : step := Adv replacement r.
Definition u2b_body (p : list Z) : step :=
  match p with
  | [] => Stop
  | b0 :: r =>
      if b0 <? 128 then Adv [b0] r
      else match r with
           | [] => u2b_else r
           | b1 :: r1 =>
               if Z.land b0 224 =? 192 then Adv (u2b_get [b0; b1]) r1           (* len >= 2 && b0&0xe0 == 0xc0 *)
               else match r1 with
                    | [] => u2b_else r
                    | b2 :: r2 =>
                        if Z.land b0 240 =? 224 then Adv (u2b_get [b0; b1; b2]) r2   (* len >= 3 && b0&0xf0 == 0xe0 *)
                        else u2b_else r
                    end
           end
  end.

Definition big5_to_utf8 (s : list Z) : res (list Z) := scan b2u_body (S (length s)) s.
Definition utf8_to_big5 (s : list Z) : res (list Z) := scan u2b_body (S (length s)) s.

(* ------------------------------------------------------------------ initialisation paths
   The two maps are package state: empty in a new process, filled by initBig5() (called from
   types.InitConfig() -> postConfig(), and again on every later InitConfig()). The state is made explicit
   here; big5_to_utf8 / utf8_to_big5 above are the converters of the fully loaded state. *)

Record tabs := mk_tabs { tb : tab; tu : tab }.                    (* big5ToUTF8, utf8ToBig5 *)
Definition no_tabs : tabs := mk_tabs (PositiveMap.empty (list Z)) (PositiveMap.empty (list Z)).
Definition all_tabs : tabs := mk_tabs b2u_map u2b_map.

(* the row loop of initB2U / initU2B, run on the map as it is *)
Definition load_into (m : tab) (kv : Z * Z -> list Z * list Z) (rows : list (Z * Z)) : tab :=
  fold_left (fun m r => PositiveMap.add (bkey (fst (kv r))) (snd (kv r)) m) rows m.
Definition loaded (m : tab) : bool := negb (PositiveMap.is_empty m).       (* len(m) > 0 *)

(* initB2U / initU2B: "already loaded" guard, then os.Open + io.ReadAll (readable = both succeed, and the
   file then has the rows gosync re-read), then the row loop. Result: (err == nil, the map afterwards). *)
Definition init_b2u (readable : bool) (m : tab) : bool * tab :=
  if loaded m then (true, m) else if readable then (true, load_into m b2u_kv b2u_rows) else (false, m).
Definition init_u2b (readable : bool) (m : tab) : bool * tab :=
  if loaded m then (true, m) else if readable then (true, load_into m u2b_kv u2b_rows) else (false, m).

(* initBig5 with a = (BIG5_TO_UTF8 is readable, UTF8_TO_BIG5 is readable) *)
Definition init_big5 (a : bool * bool) (t : tabs) : bool * tabs :=
  let (ok1, m1) := init_b2u (fst a) (tb t) in
  if ok1 then let (ok2, m2) := init_u2b (snd a) (tu t) in (ok2, mk_tabs m1 m2)
  else (false, mk_tabs m1 (tu t)).

(* a history of start-up attempts: the status of each, and the tables afterwards *)
Fixpoint run_inits (h : list (bool * bool)) (t : tabs) : list bool * tabs :=
  match h with
  | [] => ([], t)
  | a :: h' => let (ok, t1) := init_big5 a t in let (oks, t2) := run_inits h' t1 in (ok :: oks, t2)
  end.

(* the converters on whatever the maps hold *)
Definition b2u_body_of (m : tab) (p : list Z) : step :=
  match p with
  | [] => Stop
  | b0 :: r =>
      if b0 <? 128 then Adv [b0] r
      else match r with
           | [] => Stop
           | b1 :: r1 => Adv (match lookup m [b0; b1] with Some v => v | None => [] end) r1
           end
  end.
Definition u2b_get_of (m : tab) (k : list Z) : list Z := match lookup m k with Some v => v | None => replacement end.
Definition u2b_body_of (m : tab) (p : list Z) : step :=
  match p with
  | [] => Stop
  | b0 :: r =>
      if b0 <? 128 then Adv [b0] r
      else match r with
           | [] => u2b_else r
           | b1 :: r1 =>
               if Z.land b0 224 =? 192 then Adv (u2b_get_of m [b0; b1]) r1
               else match r1 with
                    | [] => u2b_else r
                    | b2 :: r2 =>
                        if Z.land b0 240 =? 224 then Adv (u2b_get_of m [b0; b1; b2]) r2
                        else u2b_else r
                    end
           end
  end.
Definition big5_to_utf8_of (m : tab) (s : list Z) : res (list Z) := scan (b2u_body_of m) (S (length s)) s.
Definition utf8_to_big5_of (m : tab) (s : list Z) : res (list Z) := scan (u2b_body_of m) (S (length s)) s.

(* ptttype: BBSNAME (UTF-8) and BBSNAME_BIG5, compiled-in defaults of ptttype/00-config.go *)
Record bbs := mk_bbs { bbs_name : list Z; bbs_big5 : list Z }.
Definition default_bbs : bbs :=
  mk_bbs [230; 150; 176; 230; 137; 185; 232; 184; 162; 232; 184; 162] [183; 115; 167; 229; 189; 240; 189; 240].
(* setBBSName(n): BBSNAME = n; BBSNAME_BIG5 = types.Utf8ToBig5(BBSNAME) *)
Definition set_bbs_name (t : tabs) (n : list Z) (st : bbs) : res bbs :=
  res_map (fun b => mk_bbs n b) (utf8_to_big5_of (tu t) n).
(* ptttype.InitConfig(): config() stores the configured site name when the key is set,
   postInitConfig() calls setBBSName(BBSNAME) *)
Definition bbs_init_config (t : tabs) (cfg : option (list Z)) (st : bbs) : res bbs :=
  let st1 := match cfg with Some n => mk_bbs n (bbs_big5 st) | None => st end in
  set_bbs_name t (bbs_name st1) st1.
Fixpoint bbs_steps (t : tabs) (cfgs : list (option (list Z))) (st : bbs) : res (list bbs) :=
  match cfgs with
  | [] => Ok []
  | c :: r => res_bind (bbs_init_config t c st) (fun st1 => res_map (cons st1) (bbs_steps t r st1))
  end.

(* ------------------------------------------------------------------ the whole start-up: types.InitConfig()
   config() takes TIME_LOCATION and the two table paths from the configuration; postConfig() first loads the time
   zone (setTimeLocation -> time.LoadLocation) and returns its error BEFORE initBig5() is reached: a start-up
   without a loadable time zone is refused and leaves the maps as they were. A configured table path is a name in
   the file system: the regular table file, nothing, a directory, the empty name, or a symbolic link to any of
   these (os.Open follows links to the end of the chain; io.ReadAll reads the file found there to its end, so the
   rows are those of the table file whatever the length of the link itself). *)
Inductive node := NFile | NMissing | NDir | NNoName | NLink (n : node).
Fixpoint node_readable (n : node) : bool :=
  match n with NFile => true | NLink n' => node_readable n' | _ => false end.
Record attempt := mk_attempt { at_tz : bool; at_b2u : node; at_u2b : node }.
Definition attempt_paths (a : attempt) : bool * bool := (node_readable (at_b2u a), node_readable (at_u2b a)).
(* postConfig() *)
Definition post_config (a : attempt) (t : tabs) : bool * tabs :=
  if at_tz a then init_big5 (attempt_paths a) t else (false, t).
Fixpoint run_starts (h : list attempt) (t : tabs) : list bool * tabs :=
  match h with
  | [] => ([], t)
  | a :: h' => let (ok, t1) := post_config a t in let (oks, t2) := run_starts h' t1 in (ok :: oks, t2)
  end.
(* wire selectors of op 12 (c17start.go). Time zone: 0 "UTC", 1 "Local" (both load without a zoneinfo database),
   2 a name no database has, 3 a name time.LoadLocation rejects ("../UTC"). Path: 0-3 as in op 10, 4 link with an
   absolute target, 5 link with a relative target, 6 the file reached through a linked directory (the last
   component is the regular file), 7 link to a link, 8 dangling link, 9 link to a directory *)
Definition tz_of (z : Z) : option bool :=
  if (z =? 0) || (z =? 1) then Some true else if (z =? 2) || (z =? 3) then Some false else None.
Definition node_of (z : Z) : option node :=
  if z =? 0 then Some NFile else if z =? 1 then Some NMissing else if z =? 2 then Some NDir
  else if z =? 3 then Some NNoName else if z =? 4 then Some (NLink NFile) else if z =? 5 then Some (NLink NFile)
  else if z =? 6 then Some NFile else if z =? 7 then Some (NLink (NLink NFile))
  else if z =? 8 then Some (NLink NMissing) else if z =? 9 then Some (NLink NDir) else None.
Fixpoint parse_starts (h : list Z) : option (list attempt) :=
  match h with
  | [] => Some []
  | z :: pb :: pu :: r =>
      match tz_of z, node_of pb, node_of pu, parse_starts r with
      | Some tz, Some nb, Some nu, Some l => Some (mk_attempt tz nb nu :: l)
      | _, _, _, _ => None
      end
  | _ => None
  end.

(* wire helpers of ops 10 / 11 *)
Fixpoint parse_hist (h : list Z) : option (list (bool * bool)) :=
  match h with
  | [] => Some []
  | pb :: pu :: r =>
      if (0 <=? pb) && (pb <=? 3) && (0 <=? pu) && (pu <=? 3)
      then match parse_hist r with Some l => Some ((pb =? 0, pu =? 0) :: l) | None => None end
      else None
  | _ => None
  end.
Definition lenpfx (l : list Z) : list Z := Z.of_nat (length l) :: l.
Definition conv_wire (r : res (list Z)) : list Z :=
  match r with Ok o => ST_OK :: lenpfx o | Crash => [ST_CRASH] | Hang => [ST_HANG] end.
Definition conv_of (t : tabs) (g : list Z) : option (list Z) :=
  match g with
  | 1 :: s => Some (conv_wire (big5_to_utf8_of (tb t) s))
  | 2 :: s => Some (conv_wire (utf8_to_big5_of (tu t) s))
  | 3 :: s => Some (conv_wire (res_bind (big5_to_utf8_of (tb t) s) (utf8_to_big5_of (tu t))))
  | 4 :: s => Some (conv_wire (res_bind (utf8_to_big5_of (tu t) s) (big5_to_utf8_of (tb t))))
  | _ => None
  end.
Fixpoint convs_of (t : tabs) (gs : list (list Z)) : option (list Z) :=
  match gs with
  | [] => Some []
  | g :: r => match conv_of t g, convs_of t r with Some a, Some b => Some (a ++ b) | _, _ => None end
  end.
Fixpoint parse_steps (gs : list (list Z)) : option (list (option (list Z))) :=
  match gs with
  | [] => Some []
  | g :: r =>
      match parse_steps r with
      | None => None
      | Some l => match g with [0] => Some (None :: l) | 1 :: n => Some (Some n :: l) | _ => None end
      end
  end.
Definition sts_wire (oks : list bool) : list Z := lenpfx (map (fun b : bool => if b then 0 else 1) oks).
Definition bbs_wire (t : tabs) (st : bbs) : list Z :=
  lenpfx (bbs_name st) ++ lenpfx (bbs_big5 st) ++
  lenpfx (match utf8_to_big5_of (tu t) (bbs_name st) with Ok o => o | _ => [] end).

(* wire: op 1 Big5ToUtf8(bytes), op 2 Utf8ToBig5(string(bytes)) — tables loaded;
   op 10: history of start-ups in a new process, then conversions on the tables it leaves;
   op 11: history of start-ups in a new process, then ptttype.InitConfig() steps (formats: c17init.go);
   op 12: as op 10 with whole start-ups (time zone, table paths that may be symbolic links; c17start.go) *)
Definition run_case (args : list (list Z)) : list Z :=
  match args with
  | [[1]; s] => wire (fun o => o) (big5_to_utf8 s)
  | [[2]; s] => wire (fun o => o) (utf8_to_big5 s)
  | [10] :: h :: gs =>
      match parse_hist h with
      | None => [ST_BADCASE]
      | Some hs =>
          let (oks, t) := run_inits hs no_tabs in
          match convs_of t gs with Some o => ST_OK :: sts_wire oks ++ o | None => [ST_BADCASE] end
      end
  | [12] :: h :: gs =>
      match parse_starts h with
      | None => [ST_BADCASE]
      | Some hs =>
          let (oks, t) := run_starts hs no_tabs in
          match convs_of t gs with Some o => ST_OK :: sts_wire oks ++ o | None => [ST_BADCASE] end
      end
  | [11] :: h :: gs =>
      match parse_hist h, parse_steps gs with
      | Some hs, Some cfgs =>
          let (oks, t) := run_inits hs no_tabs in
          match bbs_steps t cfgs default_bbs with
          | Ok sts => ST_OK :: sts_wire oks ++ flat_map (bbs_wire t) sts
          | Crash => [ST_CRASH]
          | Hang => [ST_HANG]
          end
      | _, _ => [ST_BADCASE]
      end
  | _ => [ST_BADCASE]
  end.
