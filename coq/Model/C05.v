(* C05 — record files. Executable model of cmsys/record.go (GetNumRecords, GetRecords, SubstituteRecord,
   AppendRecord, DeleteRecord), ptt/article.go ModifyDirLite and cmbbs.PasswdUpdate, as coded: a file is its
   byte list, a record is the packed image binary.Write produces, the stride is the size the caller passes
   (unsafe.Sizeof); 0-/1-based index conversions are written out. *)
From Verif Require Import Base.Common Base.RecFile.
Open Scope Z_scope.

Inductive rres (A : Type) : Type := ROk (a : A) | RErr (code : Z) | RCrash.
Arguments ROk {A} a.
Arguments RErr {A} code.
Arguments RCrash {A}.

Definition ERR_INVALID_IDX : Z := 1.     (* ptttype.ErrInvalidIdx *)
Definition ERR_SEEK : Z := 2.            (* lseek to a negative offset: EINVAL *)
Definition ERR_INVALID_UID : Z := 3.     (* cache.ErrInvalidUID *)
Definition ERR_WRITE_REFUSED : Z := 4.   (* write(2) refused by the OS: EFBIG / ENOSPC (the harness uses RLIMIT_FSIZE = 0) *)

(* ------------------------------------------------------------------ cmsys *)

(* GetNumRecords: stat size / size *)
Definition num_records (sz : nat) (f : list Z) : Z := Z.of_nat (count sz f).

(* AppendRecord: idxInStore = fsize / size (floor); seek idxInStore*size; write; return idxInStore+1 *)
Definition append_record (sz : nat) (rec f : list Z) : Z * list Z :=
  let idx := count sz f in
  (Z.of_nat idx + 1, write_at (idx * sz) rec f).

(* SubstituteRecord(idxInStore int32): no bounds check; a negative offset makes Seek fail *)
Definition substitute_record (sz : nat) (idx : Z) (rec f : list Z) : rres (list Z) :=
  if idx <? 0 then RErr ERR_SEEK else ROk (write_at (Z.to_nat idx * sz) rec f).

(* DeleteRecord(index SortIdxInStore): writes the bytes of FN_SAFEDEL (tag) at index*size *)
Definition delete_record (sz : nat) (idx : Z) (tag f : list Z) : rres (list Z) :=
  if idx <? 0 then RErr ERR_SEEK else ROk (write_at (Z.to_nat idx * sz) tag f).

(* the file a cut-short append leaves: only the first k bytes of the record reached the file *)
Definition crash_append (sz : nat) (rec : list Z) (k : nat) (f : list Z) : list Z :=
  write_at (count sz f * sz) (firstn k rec) f.

(* GetRecords(startIdx 1-based, n, isDesc): the loop, with fuel n *)
Fixpoint get_records_loop (sz : nat) (f : list Z) (fuel : nat) (idx maxIdx : Z) (desc : bool) : list (Z * list Z) :=
  match fuel with
  | O => []
  | S fuel' =>
      if (idx =? 0) || (maxIdx <? idx) then []
      else (idx, record sz (Z.to_nat (idx - 1)) f)
           :: get_records_loop sz f fuel' (if desc then idx - 1 else idx + 1) maxIdx desc
  end.
Definition get_records (sz : nat) (start n : Z) (desc : bool) (f : list Z) : rres (list (Z * list Z)) :=
  if start <? 1 then RErr ERR_INVALID_IDX                       (* !startIdx.IsValid() *)
  else if n <? 0 then RCrash                                    (* make([]T, 0, n) *)
  else ROk (get_records_loop sz f (Z.to_nat n) start (num_records sz f) desc).

(* the same loop without the file: the indices (Aid) GetRecords returns on a file of maxIdx records. This is what
   the harness runs for files too large to be carried as byte lists (tens of thousands of records);
   Proofs/C05 get_records_by_index ties it to get_records for every file. *)
Fixpoint get_records_idx_loop (fuel : nat) (idx maxIdx : Z) (desc : bool) : list Z :=
  match fuel with
  | O => []
  | S fuel' =>
      if (idx =? 0) || (maxIdx <? idx) then []
      else idx :: get_records_idx_loop fuel' (if desc then idx - 1 else idx + 1) maxIdx desc
  end.
Definition get_records_idx (start n : Z) (desc : bool) (cnt : Z) : rres (list Z) :=
  if start <? 1 then RErr ERR_INVALID_IDX
  else if n <? 0 then RCrash
  else ROk (get_records_idx_loop (Z.to_nat n) start cnt desc).

(* cmbbs.PasswdUpdate(uid, user): seek USEREC_RAW_SZ*(uid-1), write the record *)
Definition passwd_update (sz : nat) (max_users uid : Z) (rec f : list Z) : rres (list Z) :=
  if (1 <=? uid) && (uid <=? max_users) then ROk (write_at (Z.to_nat (uid - 1) * sz) rec f)
  else RErr ERR_INVALID_UID.

(* ------------------------------------------------------------------ ptt.ModifyDirLite *)

(* types.Cstrcmp *)
Fixpoint cstrcmp (c1 c2 : list Z) : Z :=
  match c1 with
  | [] => match c2 with [] => 0 | b :: _ => - b end
  | a :: r1 =>
      if a =? 0 then match c2 with [] => 0 | b :: _ => if b =? 0 then 0 else - b end
      else match c2 with [] => a | b :: r2 => if a =? b then cstrcmp r1 r2 else a - b end
  end.

(* FileHeaderRaw, 128 bytes: Filename@0+28 Modified@28+4 Pad@32 Recommend@33 Owner@34+14 Date@48+6 Title@54+65
   Pad2@119 Multi@120+4 Filemode@124 Pad3@125+3 (Proofs/C05 checks these against the regenerated layout) *)
Definition FH_SZ : nat := 128.
Definition OFF_FILENAME : nat := 0.   Definition LEN_FILENAME : nat := 28.
Definition OFF_MODIFIED : nat := 28.
Definition OFF_RECOMMEND : nat := 33.
Definition OFF_OWNER : nat := 34.     Definition LEN_OWNER : nat := 14.
Definition OFF_DATE : nat := 48.      Definition LEN_DATE : nat := 6.
Definition OFF_TITLE : nat := 54.     Definition LEN_TITLE : nat := 65.
Definition OFF_MULTI : nat := 120.    Definition LEN_MULTI : nat := 4.
Definition OFF_FILEMODE : nat := 124.
Definition MAX_RECOMMENDS : Z := 100.

Fixpoint le_bytes (n : nat) (z : Z) : list Z :=
  match n with O => [] | S n' => z mod 256 :: le_bytes n' (z / 256) end.

Record modify_args : Type := {
  m_mtime : Z;                  (* types.Time4 *)
  m_recommend : Z;              (* int8 *)
  m_enable : Z; m_disable : Z;  (* ptttype.FileMode, uint8 *)
  m_title : option (list Z);    (* None = nil pointer *)
  m_owner : option (list Z);
  m_date : option (list Z);
  m_multi : option (list Z) }.

Definition set_if (o : option (list Z)) (off len : nat) (r : list Z) : list Z :=
  match o with
  | Some (c :: rest) => if c =? 0 then r else write_at off (fixlen len (c :: rest)) r
  | _ => r
  end.

(* the edits, on the 128-byte image of the record (every field is an integer or a byte array: re-encoding the
   decoded header reproduces the bytes that are not edited) *)
Definition apply_modify (a : modify_args) (r : list Z) : list Z :=
  let r := if 0 <? m_mtime a then write_at OFF_MODIFIED (le_bytes 4 (m_mtime a)) r else r in
  let mode0 := nth OFF_FILEMODE r 0 in
  let mode1 := if m_enable a =? 0 then mode0 else Z.lor mode0 (m_enable a) in
  let mode2 := if m_disable a =? 0 then mode1 else Z.land mode1 (Z.lxor (m_disable a) 255) in
  let r := write_at OFF_FILEMODE [mode2] r in
  let r := set_if (m_title a) OFF_TITLE LEN_TITLE r in
  let r := set_if (m_owner a) OFF_OWNER LEN_OWNER r in
  let r := set_if (m_date a) OFF_DATE LEN_DATE r in
  let r := match m_multi a with
           | Some m => write_at OFF_MULTI (firstn LEN_MULTI m) r
           | None => r
           end in
  if m_recommend a =? 0 then r
  else
    let old := wrap8 (nth OFF_RECOMMEND r 0) in
    let s := wrap8 (m_recommend a + old) in
    let s := if MAX_RECOMMENDS <? s then MAX_RECOMMENDS else if s <? - MAX_RECOMMENDS then - MAX_RECOMMENDS else s in
    write_at OFF_RECOMMEND [wrapu8 s] r.

Definition modify_dir_lite (idx : Z) (name : list Z) (a : modify_args) (f : list Z) : rres (list Z) :=
  if lenZ f <? Z.of_nat FH_SZ * idx then RErr ERR_INVALID_IDX
  else if idx - 1 <? 0 then RErr ERR_SEEK
  else
    let k := Z.to_nat (idx - 1) in
    let r := record FH_SZ k f in
    if negb (cstrcmp (read_at OFF_FILENAME LEN_FILENAME r) name =? 0) then RErr ERR_INVALID_IDX
    else ROk (write_at (k * FH_SZ) (apply_modify a r) f).

(* ------------------------------------------------------------------ histories (for the theorems and the harness alike) *)
Inductive op : Type :=
| OAppend (rec : list Z)
| OSubst (idx : Z) (rec : list Z)
| ODelete (idx : Z) (tag : list Z)
| OModify (idx : Z) (name : list Z) (a : modify_args)
| ORead (start n : Z) (desc : bool).

(* one operation on a file of stride sz; a refused operation leaves the file as it is *)
Definition step (sz : nat) (o : op) (f : list Z) : list Z :=
  match o with
  | OAppend rec => snd (append_record sz rec f)
  | OSubst idx rec => match substitute_record sz idx rec f with ROk f' => f' | _ => f end
  | ODelete idx tag => match delete_record sz idx tag f with ROk f' => f' | _ => f end
  | OModify idx name a => match modify_dir_lite idx name a f with ROk f' => f' | _ => f end
  | ORead _ _ _ => f
  end.

(* the 0-based record an operation writes to, if any *)
Definition addressed (sz : nat) (o : op) (f : list Z) : option nat :=
  match o with
  | OAppend _ => Some (count sz f)
  | OSubst idx _ => if idx <? 0 then None else Some (Z.to_nat idx)
  | ODelete idx _ => if idx <? 0 then None else Some (Z.to_nat idx)
  | OModify idx _ _ => if idx - 1 <? 0 then None else Some (Z.to_nat (idx - 1))
  | ORead _ _ _ => None
  end.

Fixpoint run (sz : nat) (ops : list op) (f : list Z) : list Z :=
  match ops with [] => f | o :: r => run sz r (step sz o f) end.

(* histories in ONE process during some operations of which the OS refuses every write(2) to a regular file
   (EFBIG, ENOSPC, ...): such an operation returns an error (its own refusal if it has one - stale pair, negative
   offset - because then it never reaches the write; otherwise the OS error), the file is left as it was, and no
   later operation is affected - the code keeps no state between two record operations. *)
Inductive hop : Type :=
| HDo (o : op)             (* o completes *)
| HRefused (o : op).       (* o is run while the OS refuses writes (on the observed file or on a copy of it) *)

(* what the caller of one operation sees: (status, index / error code) *)
Definition res_code {A} (r : rres A) : Z * Z :=
  match r with ROk _ => (ST_OK, 0) | RErr e => (ST_ERR, e) | RCrash => (ST_CRASH, 0) end.
Definition op_result (sz : nat) (o : op) (f : list Z) : Z * Z :=
  match o with
  | OAppend rec => (ST_OK, fst (append_record sz rec f))
  | OSubst idx rec => res_code (substitute_record sz idx rec f)
  | ODelete idx tag => res_code (delete_record sz idx tag f)
  | OModify idx name a => res_code (modify_dir_lite idx name a f)
  | ORead start n desc => res_code (get_records sz start n desc f)
  end.

Definition refused_result (sz : nat) (o : op) (f : list Z) : Z * Z :=
  match o with
  | ORead _ _ _ => op_result sz o f                      (* nothing to write *)
  | _ => let r := op_result sz o f in if fst r =? ST_OK then (ST_ERR, ERR_WRITE_REFUSED) else r
  end.

Definition hstep (sz : nat) (h : hop) (f : list Z) : (Z * Z) * list Z :=
  match h with
  | HDo o => (op_result sz o f, step sz o f)
  | HRefused o => (refused_result sz o f, f)
  end.

(* per step: what the caller saw and the whole file afterwards *)
Fixpoint htrace (sz : nat) (hs : list hop) (f : list Z) : list ((Z * Z) * list Z) :=
  match hs with
  | [] => []
  | h :: r => let x := hstep sz h f in x :: htrace sz r (snd x)
  end.
Fixpoint hfinal (sz : nat) (hs : list hop) (f : list Z) : list Z :=
  match hs with [] => f | h :: r => hfinal sz r (snd (hstep sz h f)) end.

(* the history with the refused operations deleted, and its trace *)
Fixpoint completed (hs : list hop) : list op :=
  match hs with [] => [] | HDo o :: r => o :: completed r | HRefused _ :: r => completed r end.
Fixpoint trace (sz : nat) (ops : list op) (f : list Z) : list ((Z * Z) * list Z) :=
  match ops with
  | [] => []
  | o :: r => (op_result sz o f, step sz o f) :: trace sz r (step sz o f)
  end.
(* the entries of a mixed trace that belong to the operations on the observed file *)
Fixpoint do_entries {A} (hs : list hop) (t : list A) : list A :=
  match hs, t with
  | HDo _ :: r, x :: t' => x :: do_entries r t'
  | HRefused _ :: r, _ :: t' => do_entries r t'
  | _, _ => []
  end.

(* ------------------------------------------------------------------ wire *)
Definition wire_r (r : rres (list Z)) : list Z :=
  match r with ROk f => ST_OK :: f | RErr e => [ST_ERR; e] | RCrash => [ST_CRASH] end.

Definition opt_bytes (flag : Z) (l : list Z) : option (list Z) := if flag =? 0 then None else Some l.

Fixpoint wire_records (l : list (Z * list Z)) : list Z :=
  match l with [] => [] | (i, r) :: rest => i :: r ++ wire_records rest end.

Definition no_edit (mtime recommend en dis : Z) : modify_args :=
  {| m_mtime := mtime; m_recommend := recommend; m_enable := en; m_disable := dis;
     m_title := None; m_owner := None; m_date := None; m_multi := None |}.

(* ------------------------------------------------------------------ sparse files: offsets at and beyond 2^31 / 2^32 bytes
   A file too large to be carried as a byte list is its size and the stride-sized slots (0-based) that hold a
   non-zero byte, each with its bytes up to the last non-zero one; everything else reads as zero. The offset of slot q
   is q * sz in Z - what int64(idx) * int64(size) computes for every int32 index and every stride in use (no wrap below
   2^63). Proofs/C05 sparse_represents ties these operations to the byte-list operations above for every file. *)
Definition slots : Type := list (Z * list Z).

Fixpoint sp_get (q : Z) (m : slots) : list Z :=
  match m with [] => [] | (k, v) :: r => if k =? q then v else sp_get q r end.
Fixpoint sp_put (q : Z) (v : list Z) (m : slots) : slots :=
  match m with
  | [] => [(q, v)]
  | (k, w) :: r => if q <? k then (q, v) :: (k, w) :: r else if k =? q then (q, v) :: r else (k, w) :: sp_put q v r
  end.
Fixpoint trim0 (l : list Z) : list Z :=
  match l with
  | [] => []
  | a :: r => match trim0 r with [] => if a =? 0 then [] else [a] | r' => a :: r' end
  end.

(* a write of bs (no longer than the stride) at the start of slot q *)
Definition sp_write (sz : nat) (q : Z) (bs : list Z) (s : Z * slots) : Z * slots :=
  (Z.max (fst s) (q * Z.of_nat sz + lenZ bs), sp_put q (trim0 (write_at 0 bs (sp_get q (snd s)))) (snd s)).

Definition sp_count (sz : nat) (s : Z * slots) : Z := fst s / Z.of_nat sz.
Definition sp_append (sz : nat) (rec : list Z) (s : Z * slots) : Z * (Z * slots) :=
  let idx := sp_count sz s in (idx + 1, sp_write sz idx rec s).
Definition sp_substitute (sz : nat) (idx : Z) (rec : list Z) (s : Z * slots) : rres (Z * slots) :=
  if idx <? 0 then RErr ERR_SEEK else ROk (sp_write sz idx rec s).
Definition sp_delete (sz : nat) (idx : Z) (tag : list Z) (s : Z * slots) : rres (Z * slots) :=
  if idx <? 0 then RErr ERR_SEEK else ROk (sp_write sz idx tag s).
Definition sp_record (sz : nat) (q : Z) (s : Z * slots) : list Z := fixlen sz (sp_get q (snd s)).
Definition sp_modify (idx : Z) (name : list Z) (a : modify_args) (s : Z * slots) : rres (Z * slots) :=
  if fst s <? Z.of_nat FH_SZ * idx then RErr ERR_INVALID_IDX
  else if idx - 1 <? 0 then RErr ERR_SEEK
  else
    let r := sp_record FH_SZ (idx - 1) s in
    if negb (cstrcmp (read_at OFF_FILENAME LEN_FILENAME r) name =? 0) then RErr ERR_INVALID_IDX
    else ROk (sp_write FH_SZ (idx - 1) (apply_modify a r) s).
Definition sp_get_records (start n : Z) (desc : bool) (s : Z * slots) : rres (list (Z * list Z)) :=
  match get_records_idx start n desc (sp_count FH_SZ s) with
  | ROk l => ROk (map (fun i => (i, sp_record FH_SZ (i - 1) s)) l)
  | RErr e => RErr e
  | RCrash => RCrash
  end.

Fixpoint parse_slots (l : list (list Z)) : option slots :=
  match l with
  | [] => Some []
  | [q] :: v :: rest => match parse_slots rest with Some m => Some (sp_put q (trim0 v) m) | None => None end
  | _ => None
  end.
Fixpoint wire_slots (m : slots) : list Z :=
  match m with
  | [] => []
  | (q, v) :: r => match v with [] => wire_slots r | _ => q :: lenZ v :: v ++ wire_slots r end
  end.
Fixpoint live_slots (m : slots) : Z :=
  match m with [] => 0 | (_, v) :: r => (match v with [] => 0 | _ => 1 end) + live_slots r end.
Definition wire_sparse (s : Z * slots) : list Z := fst s :: live_slots (snd s) :: wire_slots (snd s).
Definition wire_sr (r : rres (Z * slots)) (s : Z * slots) : list Z :=
  match r with ROk s' => ST_OK :: 0 :: wire_sparse s' | RErr e => ST_ERR :: e :: wire_sparse s | RCrash => [ST_CRASH] end.

Definition run_sparse (sz kind idx n desc mtime L : Z) (data : list Z) (m : slots) : list Z :=
  let s := (L, m) in
  let z := Z.to_nat sz in
  if kind =? 1 then let r := sp_append z data s in ST_OK :: fst r :: wire_sparse (snd r)
  else if kind =? 2 then wire_sr (sp_substitute z idx data s) s
  else if kind =? 3 then wire_sr (sp_delete z idx data s) s
  else if kind =? 4 then wire_sr (sp_modify idx data (no_edit mtime 0 0 0) s) s
  else if kind =? 5 then
    match sp_get_records idx n (negb (desc =? 0)) s with
    | ROk l => ST_OK :: lenZ l :: wire_records l
    | RErr e => [ST_ERR; e]
    | RCrash => [ST_CRASH]
    end
  else if kind =? 6 then [ST_OK; sp_count z s]
  else [ST_BADCASE].

(* a history on the wire: per operation a header [kind refused idx mtime recommend enable disable] and a data group
   (kind 1 append: record; 2 substitute idx: record; 3 delete idx: tag; 4 modify idx (1-based): name) *)
Fixpoint parse_hops (l : list (list Z)) : option (list hop) :=
  match l with
  | [] => Some []
  | hdr :: data :: rest =>
      match hdr with
      | [kind; refused; idx; mtime; recommend; en; dis] =>
          let o := if kind =? 1 then Some (OAppend data)
                   else if kind =? 2 then Some (OSubst idx data)
                   else if kind =? 3 then Some (ODelete idx data)
                   else if kind =? 4 then Some (OModify idx data (no_edit mtime recommend en dis))
                   else None in
          match o, parse_hops rest with
          | Some o, Some hs => Some ((if refused =? 0 then HDo o else HRefused o) :: hs)
          | _, _ => None
          end
      | _ => None
      end
  | _ => None
  end.

Fixpoint wire_htrace (t : list ((Z * Z) * list Z)) : list Z :=
  match t with [] => [] | ((st, code), f) :: r => st :: code :: lenZ f :: f ++ wire_htrace r end.

(* op 1 append [sz] rec f          -> 0 idx f'
   op 2 substitute [sz idx] rec f  -> 0 f' | 3 code
   op 3 delete [sz idx] tag f      -> 0 f' | 3 code
   op 4 modify [idx mtime recommend enable disable hasTitle hasOwner hasDate hasMulti] name title owner date multi f
   op 5 get_records [start n desc] f -> 0 k (idx rec)* | 3 1 | 1
   op 6 num_records [sz] f         -> 0 count
   op 7 passwd_update [sz max_users uid] rec f
   op 8 crash_append [sz k] rec f  -> 0 f'
   op 12 history [sz] f (hdr data)* -> 0 (status code |f'| f')*   one process, refused writes interleaved
   op 13 window indices [cnt start n desc] [seed] -> 0 k idx* | 3 1 | 1   GetRecords on a generated file of cnt records
   op 15 sparse [sz kind idx n desc mtime] [L] data (slot bytes)*   the operations on a sparse file of L bytes *)
Definition run_case (args : list (list Z)) : list Z :=
  match args with
  | [[1]; [sz]; rec; f] => let r := append_record (Z.to_nat sz) rec f in ST_OK :: fst r :: snd r
  | [[2]; [sz; idx]; rec; f] => wire_r (substitute_record (Z.to_nat sz) idx rec f)
  | [[3]; [sz; idx]; tag; f] => wire_r (delete_record (Z.to_nat sz) idx tag f)
  | [[4]; [idx; mtime; recommend; en; dis; ht; ho; hd; hm]; name; title; owner; date; multi; f] =>
      wire_r (modify_dir_lite idx name
                {| m_mtime := mtime; m_recommend := recommend; m_enable := en; m_disable := dis;
                   m_title := opt_bytes ht title; m_owner := opt_bytes ho owner; m_date := opt_bytes hd date;
                   m_multi := opt_bytes hm multi |} f)
  | [[5]; [start; n; desc]; f] =>
      match get_records FH_SZ start n (negb (desc =? 0)) f with
      | ROk l => ST_OK :: lenZ l :: wire_records l
      | RErr e => [ST_ERR; e]
      | RCrash => [ST_CRASH]
      end
  | [[6]; [sz]; f] => [ST_OK; num_records (Z.to_nat sz) f]
  | [[7]; [sz; mx; uid]; rec; f] => wire_r (passwd_update (Z.to_nat sz) mx uid rec f)
  | [[8]; [sz; k]; rec; f] => ST_OK :: crash_append (Z.to_nat sz) rec (Z.to_nat k) f
  | [12] :: [sz] :: f :: rest =>
      match parse_hops rest with
      | Some hs => ST_OK :: wire_htrace (htrace (Z.to_nat sz) hs f)
      | None => [ST_BADCASE]
      end
  | [[13]; [cnt; start; n; desc]; [_]] =>
      match get_records_idx start n (negb (desc =? 0)) cnt with
      | ROk l => ST_OK :: lenZ l :: l
      | RErr e => [ST_ERR; e]
      | RCrash => [ST_CRASH]
      end
  | [15] :: [sz; kind; idx; n; desc; mtime] :: [L] :: data :: rest =>
      match parse_slots rest with
      | Some m => run_sparse sz kind idx n desc mtime L data m
      | None => [ST_BADCASE]
      end
  | _ => [ST_BADCASE]
  end.
