(* C08 — write authorisation. Executable model of ptt/cache.go (postpermMsg, bannedMsg), ptt/acl.go (ban tag with
   expiry), ptt/cal.go + ptt/bbs.go (getRestrictionReason, getBoardRestrictionReason, checkCooldown),
   cache/cache_user.go (the packed cool-down word), ptt/article.go (isFileOwner, on the stored bytes through
   types.Cstrcmp and Filename_t.CreateTime) and the guard sequences of
   ptt.NewPost (DoPostArticle), ptt.Recommend, ptt.EditPost, ptt.CrossPost exactly in the order coded, with the
   first writes that follow them. The read rule is C07's (Model/C07.v). Build-time switches are taken at their
   defaults (USE_COOLDOWN, REJECT_FLOOD_POST, USE_NEW_BAN_SYSTEM, USE_SYSOP_EDIT, SAFE_ARTICLE_DELETE = true). *)
From Verif Require Import Base.Common Gen.Consts_default Model.C07.

Definition PERM_POST := ptttype.PERM_POST.
Definition PERM_VIOLATELAW := ptttype.PERM_VIOLATELAW.
Definition BRD_GUESTPOST := ptttype.BRD_GUESTPOST.
Definition BRD_RESTRICTEDPOST := ptttype.BRD_RESTRICTEDPOST.
Definition BRD_COOLDOWN := ptttype.BRD_COOLDOWN.
Definition BRD_VOTEBOARD := ptttype.BRD_VOTEBOARD.
Definition BRD_NORECOMMEND := ptttype.BRD_NORECOMMEND.
Definition BRD_CPLOG := ptttype.BRD_CPLOG.

(* error codes on the wire (ptt/errors.go) *)
Definition E_NOTPERMITTED : Z := 1.
Definition E_READONLY : Z := 2.
Definition E_BANNED : Z := 3.
Definition E_NOPOST : Z := 4.        (* ErrPermitNoPost *)
Definition E_RESTRICTED : Z := 5.
Definition E_VIOLATELAW : Z := 6.
Definition E_COOLDOWN : Z := 7.
Definition E_NOTLOGINOK : Z := 8.
Definition E_VOTEBOARD : Z := 9.
Definition E_DELETED : Z := 10.
Definition E_INVALIDFILENAME : Z := 11.
Definition E_INVALIDPARAMS : Z := 12.
Definition E_NOTFOUND : Z := 13.       (* cmsys.ErrRecordNotFound: the board has entries, none with that file name *)

(* ------------------------------------------------------------------ the facts a write decision looks at *)
Record winp := mk_winp {
  w_readable : bool;        (* boardPermStat(user, board) != NBRD_INVALID  (C07) *)
  w_sysop : bool;
  w_basic : bool;
  w_post : bool;            (* PERM_POST *)
  w_loginok : bool;         (* PERM_LOGINOK: verified account *)
  w_violatelaw : bool;      (* PERM_VIOLATELAW *)
  w_moderator : bool;       (* IsBMCache *)
  w_friend : bool;          (* IsHiddenBoardFriend *)
  w_banned : bool;          (* ban tag of this board in the user's home with expiry > now *)
  w_readonly : bool;        (* board is Security / ALLPOST *)
  w_default : bool;         (* board is DEFAULT_BOARD *)
  w_guestpost : bool;       (* BRD_GUESTPOST *)
  w_hidden : bool;          (* BRD_HIDE *)
  w_restrictedpost : bool;  (* BRD_RESTRICTEDPOST *)
  w_lvl_violatelaw : bool;  (* board level has PERM_VIOLATELAW *)
  w_extra0 : bool;          (* board level & ^PERM_POST = 0 *)
  w_hasextra : bool;        (* user level & (board level & ^PERM_POST) != 0 *)
  w_overlimit : bool;       (* getRestrictionReason(login days, bad posts, board limits) != NONE *)
  w_cd_expired : bool;      (* cool-down time - now < 0 *)
  w_brd_cooldown : bool;    (* BRD_COOLDOWN *)
  w_pt_full : bool;         (* post counter = 0xf *)
  w_flood : bool            (* board population / post counter thresholds *)
}.

(* postpermMsg: 0 = nil *)
Definition postperm (w : winp) : Z :=
  if w_readonly w then E_READONLY
  else if w_sysop w then 0
  else if w_banned w then E_BANNED
  else if w_default w then 0
  else if w_guestpost w then 0
  else if negb (w_post w) then E_NOPOST
  else if w_hidden w then 0
  else if w_restrictedpost w && negb (w_friend w) then E_RESTRICTED
  else if w_violatelaw w then (if w_lvl_violatelaw w then 0 else E_VIOLATELAW)
  else if w_extra0 w then 0
  else if negb (w_hasextra w) then E_NOTPERMITTED
  else 0.

(* getBoardRestrictionReason != RESTRICT_REASON_NONE *)
Definition restricted (w : winp) : bool :=
  if w_sysop w then false else if w_moderator w then false else w_overlimit w.

(* checkCooldown's answer *)
Definition cooling (w : winp) : bool :=
  if w_cd_expired w then false
  else if w_sysop w then false
  else if w_brd_cooldown w then true
  else if w_pt_full w then true
  else w_flood w.

(* ------------------------------------------------------------------ the numeric pieces *)
(* getRestrictionReason: uint32 / 10 < uint8 ; uint8 > 255 - uint8 (the subtraction is on uint8 and cannot wrap) *)
Definition restriction_reason (logindays badpost limlogins limbad : Z) : Z :=
  if logindays / 10 <? limlogins then ptttype.RESTRICT_REASON_NUMLOGIN_DAYS
  else if badpost >? 255 - limbad then ptttype.RESTRICT_REASON_BADPOST
  else ptttype.RESTRICT_REASON_NONE.

(* the same with Go's fixed-width arithmetic spelled out: numLoginDays is a uint32, the three others are uint8;
   `numLoginDays/10 < uint32(postLimitLogins)` widens the limit BEFORE comparing (no uint8 product that could wrap),
   `255 - postLimitBadpost` is a uint8 subtraction. This is the function the decision table and op 7 run. *)
Definition u8_ok (x : Z) : bool := (0 <=? x) && (x <? 256).
Definition u32_ok (x : Z) : bool := (0 <=? x) && (x <? 4294967296).
Definition restriction_reason_go (logindays badpost limlogins limbad : Z) : Z :=
  if wrapu32 (wrapu32 logindays / 10) <? wrapu32 (wrapu8 limlogins) then ptttype.RESTRICT_REASON_NUMLOGIN_DAYS
  else if wrapu8 badpost >? wrapu8 (255 - wrapu8 limbad) then ptttype.RESTRICT_REASON_BADPOST
  else ptttype.RESTRICT_REASON_NONE.

(* the packed cool-down word: time in the high bits, post counter in the low four *)
Definition CD_MASK : Z := 2147483632.                       (* 0x7FFFFFF0 *)
Definition cd_time (word : Z) : Z := Z.land word CD_MASK.
Definition cd_posttimes (word : Z) : Z := Z.land word 15.
Definition flood (nuser pt : Z) : bool :=
  ((nuser >? 4000) && (pt >=? 1)) || ((nuser >? 2000) && (pt >=? 2)) || ((nuser >? 1000) && (pt >=? 3)) || ((nuser >? -1) && (pt >=? 10)).
(* the word after checkCooldown: an expired cool-down is normalised (post counter dropped) *)
Definition cd_after_check (word now : Z) : Z :=
  if cd_time word - now <? 0 then Z.land (cd_time word) CD_MASK else word.
(* AddPosttimes(uid, 1) *)
Definition cd_add_posttime (word : Z) : Z :=
  if cd_posttimes word + 1 <? 15 then word + 1 else Z.lor word 15.

(* isBannedBy: a tag that has expired is removed and does not count *)
Definition banned (has_tag : bool) (expire now : Z) : bool := has_tag && (expire >? now).

(* isFileOwner *)
Definition is_owner (owner_matches name_long created_after_registration : bool) : bool :=
  if negb owner_matches then false else if negb name_long then false else created_after_registration.

(* isFileOwner on the stored bytes. types.Cstrcmp: C strings inside Go slices (the slice end also terminates) *)
Fixpoint cstrcmp (a b : list Z) : Z :=
  match a with
  | [] => match b with [] => 0 | y :: _ => - y end
  | x :: a' =>
      if x =? 0 then match b with [] => 0 | y :: _ => - y end
      else match b with
           | [] => x
           | y :: b' => if x =? y then cstrcmp a' b' else x - y
           end
  end.
Definition cstrlen (l : list Z) : Z := lenZ (cprefix l).
(* strconv.Atoi on the ten bytes Filename[2:12]: optional sign, then digits only and at least one; an error gives 0 *)
Definition is_digit (c : Z) : bool := (48 <=? c) && (c <=? 57).
Fixpoint digits_val (acc : Z) (l : list Z) : Z := match l with [] => acc | c :: r => digits_val (acc * 10 + (c - 48)) r end.
Definition atoi (l : list Z) : Z :=
  match l with
  | [] => 0
  | c :: r =>
      if (c =? 43) || (c =? 45)
      then (match r with [] => 0 | _ => if forallb is_digit r then (if c =? 45 then - digits_val 0 r else digits_val 0 r) else 0 end)
      else if forallb is_digit l then digits_val 0 l else 0
  end.
Definition OWNER_SZ : nat := 14.     (* Owner_t  = [IDLEN+2]byte *)
Definition USERID_SZ : nat := 13.    (* UserID_t = [IDLEN+1]byte *)
Definition FN_SZ : nat := 28.        (* Filename_t = [FNLEN]byte *)
(* Filename_t.CreateTime: Time4(Atoi(f[2:12])) — the conversion to the 32-bit time wraps *)
Definition create_time (fname : list Z) : Z := wrap32 (atoi (firstn 10 (skipn 2 (fixlen FN_SZ fname)))).
(* Cstrcmp(fhdr.Owner[:], user.UserID[:]) != 0: the WHOLE C strings are compared *)
Definition owner_matches (owner uid : list Z) : bool := cstrcmp (fixlen OWNER_SZ owner) (fixlen USERID_SZ uid) =? 0.
Definition is_file_owner (owner uid fname : list Z) (firstlogin : Z) : bool :=
  is_owner (owner_matches owner uid) (3 <? cstrlen (fixlen FN_SZ fname)) (create_time fname >=? firstlogin).

(* ------------------------------------------------------------------ operations as guard / effect sequences *)
Record state := mk_state {
  s_dir : Z;        (* entries of the target board's .DIR *)
  s_files : Z;      (* files in the target board's directory *)
  s_numposts : Z;   (* the author's NumPosts in .PASSWDS *)
  s_cd : Z;         (* the author's cool-down word in shared memory (not part of the property's frame) *)
  s_other : Z       (* writes to any OTHER board: the ALLPOST / ALLHIDPOST / NEWIDPOST / UNANONYMOUS log boards (index record +
                       article copy) and, for a cross-post out of a BRD_CPLOG board, the source article + the source index *)
}.
Inductive step : Type :=
| Guard (refuse : bool) (code : Z)       (* if refuse { return code } *)
| Eff (f : state -> state).

Inductive verdict : Type := Accept | Refuse (code : Z).

Fixpoint run (l : list step) (st : state) : verdict * state :=
  match l with
  | [] => (Accept, st)
  | Guard r c :: k => if r then (Refuse c, st) else run k st
  | Eff f :: k => run k (f st)
  end.

Definition eff_cd_check (now : Z) (st : state) : state := mk_state (s_dir st) (s_files st) (s_numposts st) (cd_after_check (s_cd st) now) (s_other st).
Definition eff_new_file (st : state) : state := mk_state (s_dir st) (s_files st + 1) (s_numposts st) (s_cd st) (s_other st).
Definition eff_rename_over (st : state) : state := mk_state (s_dir st) (s_files st - 1) (s_numposts st) (s_cd st) (s_other st).
Definition eff_append_dir (st : state) : state := mk_state (s_dir st + 1) (s_files st) (s_numposts st) (s_cd st) (s_other st).
Definition eff_inc_numposts (st : state) : state := mk_state (s_dir st) (s_files st) (s_numposts st + 1) (s_cd st) (s_other st).
Definition eff_add_posttime (st : state) : state := mk_state (s_dir st) (s_files st) (s_numposts st) (cd_add_posttime (s_cd st)) (s_other st).
(* a write to a board other than the target (counted once per writing step; whether the step writes at all can depend on
   the board being open — what matters for the property is WHERE in the sequence the step stands) *)
Definition eff_other (st : state) : state := mk_state (s_dir st) (s_files st) (s_numposts st) (s_cd st) (s_other st + 1).
Definition eff_other_if (b : bool) (st : state) : state := if b then eff_other st else st.

(* facts about the addressed article and the operation-specific board switches *)
Record aux := mk_aux {
  a_exists : bool;         (* the index has an entry with that file name (and the board has entries at all) *)
  a_owner : bool;          (* isFileOwner *)
  a_filevote : bool;       (* FILE_VOTE *)
  a_deleted : bool;        (* entry's file name starts with '.' (EditPost) / owner starts with '-' (CrossPost) *)
  a_locked : bool;         (* file name starts with 'L', or marked+solved (Recommend) *)
  a_voteboard : bool;      (* BRD_VOTEBOARD *)
  a_norecommend : bool;    (* BRD_NORECOMMEND *)
  a_cplog : bool           (* BRD_CPLOG on the source board (CrossPost) *)
}.

(* DoPostArticle *)
Definition new_post_steps (now : Z) (w : winp) : list step :=
  [ Guard (negb (w_readable w)) E_NOTPERMITTED;
    Guard (negb (postperm w =? 0)) (postperm w);
    Guard (restricted w) E_NOTPERMITTED;             (* CheckPostRestriction — added by the fix: commit *)
    Eff (eff_cd_check now);
    Guard (cooling w) E_COOLDOWN;
    Guard (negb (w_loginok w)) E_NOTPERMITTED;
    Eff eff_new_file; Eff eff_append_dir;
    Eff eff_other;                                   (* doCrosspost into NEWIDPOST / ALLPOST / ALLHIDPOST (/ UNANONYMOUS) *)
    Eff eff_inc_numposts; Eff eff_add_posttime ].

(* Recommend *)
Definition recommend_steps (now : Z) (w : winp) (a : aux) : list step :=
  [ Guard (negb (w_readable w)) E_NOTPERMITTED;
    Guard (negb (postperm w =? 0)) (postperm w);
    Guard (restricted w) E_NOTPERMITTED;
    Eff (eff_cd_check now);
    Guard (cooling w) E_COOLDOWN;
    Guard (negb (a_exists a)) E_NOTFOUND;
    Guard (a_norecommend a || a_locked a) E_NOTPERMITTED ].
    (* then the comment is appended to the article file and the score byte of the entry is rewritten (C10) *)

(* EditPost *)
Definition edit_post_steps (w : winp) (a : aux) : list step :=
  [ Guard (negb (w_readable w)) E_NOTPERMITTED;
    Guard (w_readonly w || a_voteboard a) E_NOTPERMITTED;
    Guard (negb (a_exists a)) E_NOTFOUND;
    Guard (a_filevote a) E_NOTPERMITTED;
    Guard (a_deleted a) E_DELETED;
    Guard (negb (w_basic w)) E_NOTPERMITTED;
    Guard (negb (postperm w =? 0)) (postperm w);
    Guard (restricted w) E_NOTPERMITTED;
    Guard (negb (a_owner a) && negb (w_sysop w)) E_NOTPERMITTED;
    Eff eff_new_file; Eff eff_rename_over ].
    (* the temporary file replaces the article after the content-hash check; the entry's title/mtime are rewritten *)

(* CrossPost: ws = caller vs the source board, wt = caller vs the target board *)
Definition cross_post_steps (now : Z) (ws wt : winp) (a : aux) : list step :=
  [ Guard (a_voteboard a) E_VOTEBOARD;
    Guard (negb (w_readable ws)) E_NOTPERMITTED;
    Guard (negb (a_exists a)) E_INVALIDFILENAME;
    Guard (a_deleted a) E_DELETED;
    Guard (w_violatelaw ws) E_VIOLATELAW;
    Guard (negb (w_loginok ws)) E_NOTLOGINOK;
    Guard (a_cplog a && (negb (postperm ws =? 0) || restricted ws)) E_NOPOST;
    Guard (negb (w_readable wt)) E_NOTPERMITTED;     (* read guard on the target — added by the fix: commit *)
    Guard (negb (postperm wt =? 0)) E_NOPOST;
    Guard (restricted wt) E_NOPOST;
    Eff (eff_cd_check now);
    Guard (cooling wt) E_COOLDOWN;
    Eff eff_new_file;                                (* Stampfile + crossPostWriteFile in the target directory *)
    Eff eff_other;                                   (* logCrosspostInAllpost: a record in ALLPOST's index *)
    Eff (eff_other_if (a_cplog a));                  (* crossPostComment + doAddRecommend: the forward line in the SOURCE article / index *)
    Eff eff_append_dir; Eff eff_add_posttime ].

(* ------------------------------------------------------------------ specification, from the property text *)
(* the posting rules: never on the read-only system boards; a sysop is otherwise exempt; not while banned;
   the default board and guest-post boards are open to everyone who is not banned; elsewhere the post permission
   is required, and — hidden boards being friends-only for reading already — on an open board: friends only where
   posting is restricted, violate-law users only where the board level admits them, other users need one of the
   extra level bits the board demands *)
Definition posting_rules (w : winp) : bool :=
  negb (w_readonly w) &&
  (w_sysop w ||
   (negb (w_banned w) &&
    (w_default w || w_guestpost w ||
     (w_post w &&
      (w_hidden w ||
       ((negb (w_restrictedpost w) || w_friend w) &&
        (if w_violatelaw w then w_lvl_violatelaw w else w_extra0 w || w_hasextra w))))))).
(* login-days and bad-post limits unless sysop or moderator *)
Definition limits_ok (w : winp) : bool := w_sysop w || w_moderator w || negb (w_overlimit w).
(* an active cool-down: not yet expired, and the board is cooling, or the user's post counter is saturated or
   over the population threshold; a sysop is exempt *)
Definition cooldown_active (w : winp) : bool :=
  negb (w_cd_expired w) && negb (w_sysop w) && (w_brd_cooldown w || w_pt_full w || w_flood w).
(* the one rule set *)
Definition may_write (w : winp) : bool :=
  w_readable w && posting_rules w && limits_ok w && w_loginok w && negb (cooldown_active w).

(* ------------------------------------------------------------------ the site configuration and the writer's uid *)
(* isReadonlyBoard: the read-only system boards are CONFIGURATION values — ptttype.BN_SECURITY / BN_ALLPOST, set by
   ptttype.InitConfig -> setBoards from the ini file (ToBoardID: the configured name copied into a 13-byte BoardID_t) —
   compared with the board's name by types.Cstrcasecmp (both lowered byte by byte, then compared as C strings) *)
Definition BOARDID_SZ : nat := 13.   (* BoardID_t = [IDLEN+1]byte *)
Definition tolower (c : Z) : Z := if (65 <=? c) && (c <=? 90) then c + 32 else c.
Definition cstrcasecmp (a b : list Z) : Z := cstrcmp (map tolower a) (map tolower b).
Definition is_readonly_board (bn_security bn_allpost name : list Z) : bool :=
  (cstrcasecmp (fixlen BOARDID_SZ name) (fixlen BOARDID_SZ bn_security) =? 0) ||
  (cstrcasecmp (fixlen BOARDID_SZ name) (fixlen BOARDID_SZ bn_allpost) =? 0).

(* the default board: postpermMsg asks types.Cstrcmp(board.Brdname[:], ptttype.DEFAULT_BOARD) == 0 — the board's name in
   its 13-byte id field against the name of the default board (a byte slice WITHOUT a terminating NUL: the slice end
   terminates), as whole C strings, case-sensitive. [dflt] is an input: ptttype.DEFAULT_BOARD is a variable of the code *)
Definition is_default_board (dflt name : list Z) : bool := cstrcmp (fixlen BOARDID_SZ name) dflt =? 0.

(* SHM->cooldowntime: one packed word per user, addressed by uid.ToUIDInStore() = uid - 1 for EVERY uid of the build
   (1 .. MAX_USERS: 50 in the default build, 2 000 000 with -tags docker). The store is kept as the list of plantings,
   latest first; a word is (cool-down time - now, post counter); a slot never planted holds 0 = long expired *)
Definition uid_slot (uid : Z) : Z := uid - 1.
Definition cd_store := list (Z * (Z * Z)).
Definition cd_set (s : cd_store) (slot : Z) (v : Z * Z) : cd_store := (slot, v) :: s.
Fixpoint cd_get (s : cd_store) (slot : Z) : Z * Z :=
  match s with
  | [] => (-1, 0)
  | (k, v) :: r => if k =? slot then v else cd_get r slot
  end.
(* CooldownTimeOf(uid) - now and PosttimesOf(uid) *)
Definition cd_of_uid (s : cd_store) (uid : Z) : Z * Z := cd_get s (uid_slot uid).
(* the plantings of the other users on the wire: uid, cd_rel, posttimes, ... in planting order *)
Fixpoint plant_others (s : cd_store) (l : list Z) (fuel : nat) {struct fuel} : cd_store :=
  match fuel with
  | O => s
  | S f => match l with
           | u :: c :: p :: r => plant_others (cd_set s (uid_slot u) (c, p)) r f
           | _ => s
           end
  end.
Fixpoint others_ok (uid maxusers : Z) (l : list Z) (fuel : nat) {struct fuel} : bool :=
  match fuel with
  | O => match l with [] => true | _ => false end
  | S f => match l with
           | [] => true
           | u :: c :: p :: r => (1 <=? u) && (u <=? maxusers) && negb (u =? uid) && (0 <=? p) && (p <=? 15) &&
                                 (-100000 <=? c) && (c <=? 100000) && others_ok uid maxusers r f
           | _ => false
           end
  end.

(* ------------------------------------------------------------------ wire *)
Definition vcode (v : verdict) : Z := match v with Accept => 0 | Refuse c => c end.

(* user: [level; over18; logindays; badpost; registered_before_article]
   rel:  [inbm; friend; ban (0 none, 1 active, 2 expired); cd_rel (cool-down time - now, multiple of 16 after masking); posttimes]
   board:[bsel (0 ordinary, 1 read-only ALLPOST, 2 default board); attr; level; limlogins; limbad; nuser]
   art:  [exists; owner (1 the caller's id, 0 the other fixture user's id, 2 the bytes of the next group)]
   extended rows carry three more groups:
   [owner bytes of the addressed article] | [the caller's user id] |
   src: [attr; level; limlogins; limbad; ban; inbm; friend] of CrossPost's SOURCE board (legacy rows: all 0, the open board Note) *)
Definition winp_of (ulevel : Z) (o18 inbm fr : bool) (ban : Z) (cd_rel pt : Z) (logindays badpost : Z)
                   (bsel battr blevel limlogins limbad nuser : Z) : winp :=
  let extra := Z.land blevel (Z.lnot PERM_POST) in
  mk_winp (negb (perm_stat_bits ulevel o18 inbm fr battr blevel =? NBRD_INVALID))
          (has ulevel PERM_SYSOP) (has ulevel PERM_BASIC) (has ulevel PERM_POST) (has ulevel PERM_LOGINOK) (has ulevel PERM_VIOLATELAW)
          (is_bm_cache_bits ulevel inbm) fr (banned (negb (ban =? 0)) (if ban =? 1 then 1000 else -1000) 0)
          (bsel =? 1) (bsel =? 2) (has battr BRD_GUESTPOST) (has battr BRD_HIDE) (has battr BRD_RESTRICTEDPOST)
          (has blevel PERM_VIOLATELAW) (extra =? 0) (has ulevel extra)
          (negb (restriction_reason_go logindays badpost limlogins limbad =? ptttype.RESTRICT_REASON_NONE))
          (cd_rel <? 0) (has battr BRD_COOLDOWN) (pt =? 15) (flood nuser pt).

Definition st0 : state := mk_state 2 5 0 0 0.
Definition delta (st : state) : list Z := [s_dir st - s_dir st0; s_files st - s_files st0; s_numposts st - s_numposts st0].
Definition frame_changed (st : state) : bool :=
  negb ((s_dir st =? s_dir st0) && (s_files st =? s_files st0) && (s_numposts st =? s_numposts st0) && (s_other st =? s_other st0)).
(* status, error code (0 = accepted), entries added to .DIR, files added to the directory, NumPosts added, and
   "a refusal changed an index / a board directory (ANY board) / the author's record" — which the sequences never do *)
Definition out (r : verdict * state) : list Z :=
  ST_OK :: vcode (fst r) :: delta (snd r) ++ [match fst r with Accept => 0 | Refuse _ => zb (frame_changed (snd r)) end].

(* the four write operations and the rule pieces on one row; [aowner] is isFileOwner's answer's first conjunct *)
(* [set_readonly]: the same facts, with "the board is one of the read-only system boards" decided by the caller *)
Definition set_readonly (w : winp) (ro : bool) : winp :=
  mk_winp (w_readable w) (w_sysop w) (w_basic w) (w_post w) (w_loginok w) (w_violatelaw w) (w_moderator w) (w_friend w) (w_banned w)
          ro (w_default w) (w_guestpost w) (w_hidden w) (w_restrictedpost w) (w_lvl_violatelaw w) (w_extra0 w) (w_hasextra w)
          (w_overlimit w) (w_cd_expired w) (w_brd_cooldown w) (w_pt_full w) (w_flood w).

Definition set_default (w : winp) (df : bool) : winp :=
  mk_winp (w_readable w) (w_sysop w) (w_basic w) (w_post w) (w_loginok w) (w_violatelaw w) (w_moderator w) (w_friend w) (w_banned w)
          (w_readonly w) df (w_guestpost w) (w_hidden w) (w_restrictedpost w) (w_lvl_violatelaw w) (w_extra0 w) (w_hasextra w)
          (w_overlimit w) (w_cd_expired w) (w_brd_cooldown w) (w_pt_full w) (w_flood w).

Definition run_row_k (ro df : option bool)
                   (op ulevel o18 logindays badpost regbefore inbm fr ban cd_rel pt bsel battr blevel limlogins limbad nuser aexists : Z)
                   (owner_ok : bool) (sattr slevel slimlogins slimbad sban sinbm sfr : Z) : list Z :=
  let w0 := winp_of ulevel (bz o18) (bz inbm) (bz fr) ban cd_rel pt logindays badpost bsel battr blevel limlogins limbad nuser in
  let w1 := match ro with None => w0 | Some b => set_readonly w0 b end in
  let w := match df with None => w1 | Some b => set_default w1 b end in
  let a := mk_aux (bz aexists) (is_owner owner_ok true (bz regbefore)) false false false
                  (has battr BRD_VOTEBOARD) (has battr BRD_NORECOMMEND) false in
  (* CrossPost's source board: the fixture board Note as planted by the src group *)
  let ws := winp_of ulevel (bz o18) (bz sinbm) (bz sfr) sban cd_rel pt logindays badpost 0 sattr slevel slimlogins slimbad 0 in
  let asrc := mk_aux (bz aexists) false false false false (has sattr BRD_VOTEBOARD) false (has sattr BRD_CPLOG) in
  if op =? 1 then out (run (new_post_steps 0 w) st0)
  else if op =? 2 then out (run (recommend_steps 0 w a) st0)
  else if op =? 3 then out (run (edit_post_steps w a) st0)
  else if op =? 4 then out (run (cross_post_steps 0 ws w asrc) st0)
  else if op =? 5 then [ST_OK; postperm w; zb (restricted w); zb (cooling w)]      (* CheckPostPerm2, !CheckPostRestriction, checkCooldown *)
  else if op =? 6 then [ST_OK; zb (may_write w); zb (w_readable w); zb (posting_rules w); zb (limits_ok w); zb (w_loginok w); zb (cooldown_active w);
                        (* the same facts about the source board of a cross-post *)
                        zb (w_readable ws); zb (posting_rules ws); zb (limits_ok ws)]
  else [ST_BADCASE].
Definition run_row := run_row_k None None.

(* op 9: a row against a target board chosen by name, under a site configuration naming the read-only system boards.
   The board group's bsel says whether the target is the default board (2) or not (0); read-only comes from the names *)
Definition name_ok (l : list Z) : bool := bytes_ok l && (1 <=? lenZ l) && (lenZ l <=? 12) && forallb (fun c => negb (c =? 0)) l.
Definition run_configured (iop : Z) (sec allpost target : list Z)
                          (ulevel o18 logindays badpost regbefore inbm fr ban cd_rel pt bsel battr blevel limlogins limbad nuser aexists aowner : Z) : list Z :=
  if (1 <=? iop) && (iop <=? 5) && name_ok sec && name_ok allpost && name_ok target && ((bsel =? 0) || (bsel =? 2)) && ((aowner =? 0) || (aowner =? 1))
  then run_row_k (Some (is_readonly_board sec allpost target)) None
                 iop ulevel o18 logindays badpost regbefore inbm fr ban cd_rel pt bsel battr blevel limlogins limbad nuser aexists (bz aowner) 0 0 0 0 0 0 0
  else [ST_BADCASE].

(* op 11: a row against a target board that carries the NAME the case chooses (the driver gives a board of the scratch BBS
   that name, next to the boards the special names belong to). What the rules know about the board through its name —
   "one of the read-only system boards", "the default board" — is decided from the name: [sec] / [allpost] as configured,
   [dflt] = ptttype.DEFAULT_BOARD *)
Definition run_named (iop : Z) (sec allpost dflt target : list Z)
                     (ulevel o18 logindays badpost regbefore inbm fr ban cd_rel pt bsel battr blevel limlogins limbad nuser aexists aowner : Z) : list Z :=
  if (1 <=? iop) && (iop <=? 5) && name_ok sec && name_ok allpost && name_ok dflt && name_ok target && (bsel =? 0) && ((aowner =? 0) || (aowner =? 1))
  then run_row_k (Some (is_readonly_board sec allpost target)) (Some (is_default_board dflt target))
                 iop ulevel o18 logindays badpost regbefore inbm fr ban cd_rel pt bsel battr blevel limlogins limbad nuser aexists (bz aowner) 0 0 0 0 0 0 0
  else [ST_BADCASE].

(* op 10: a row by the caller acting as user number uid, after cool-down words of other users were planted; the row's own
   (cd_rel, pt) is planted last, in the caller's slot, and the decision reads the store at the caller's slot *)
Definition run_as_uid (iop uid maxusers : Z) (others : list Z)
                      (ulevel o18 logindays badpost regbefore inbm fr ban cd_rel pt bsel battr blevel limlogins limbad nuser aexists aowner : Z) : list Z :=
  if (1 <=? iop) && (iop <=? 5) && (1 <=? uid) && (uid <=? maxusers) && others_ok uid maxusers others (length others) && ((aowner =? 0) || (aowner =? 1))
  then let s := cd_set (plant_others [] others (length others)) (uid_slot uid) (cd_rel, pt) in
       let own := cd_of_uid s uid in
       match run_row iop ulevel o18 logindays badpost regbefore inbm fr ban (fst own) (snd own) bsel battr blevel limlogins limbad nuser aexists (bz aowner) 0 0 0 0 0 0 0 with
       | st :: r => if st =? ST_OK then st :: r ++ [0] else st :: r      (* + "a cool-down word of another user changed": never *)
       | [] => []
       end
  else [ST_BADCASE].

Definition run_case (args : list (list Z)) : list Z :=
  match args with
  | [[op]; [iop]; sec; allpost; target; [ulevel; o18; logindays; badpost; regbefore]; [inbm; fr; ban; cd_rel; pt]; [bsel; battr; blevel; limlogins; limbad; nuser]; [aexists; aowner]] =>
      if op =? 9 then run_configured iop sec allpost target ulevel o18 logindays badpost regbefore inbm fr ban cd_rel pt bsel battr blevel limlogins limbad nuser aexists aowner
      else [ST_BADCASE]
  | [[op]; [iop]; sec; allpost; dflt; target; [ulevel; o18; logindays; badpost; regbefore]; [inbm; fr; ban; cd_rel; pt]; [bsel; battr; blevel; limlogins; limbad; nuser]; [aexists; aowner]] =>
      if op =? 11 then run_named iop sec allpost dflt target ulevel o18 logindays badpost regbefore inbm fr ban cd_rel pt bsel battr blevel limlogins limbad nuser aexists aowner
      else [ST_BADCASE]
  | [[op]; [iop]; [uid; maxusers]; others; [ulevel; o18; logindays; badpost; regbefore]; [inbm; fr; ban; cd_rel; pt]; [bsel; battr; blevel; limlogins; limbad; nuser]; [aexists; aowner]] =>
      if op =? 10 then run_as_uid iop uid maxusers others ulevel o18 logindays badpost regbefore inbm fr ban cd_rel pt bsel battr blevel limlogins limbad nuser aexists aowner
      else [ST_BADCASE]
  | [[op]; [ulevel; o18; logindays; badpost; regbefore]; [inbm; fr; ban; cd_rel; pt]; [bsel; battr; blevel; limlogins; limbad; nuser]; [aexists; aowner]] =>
      if (aowner =? 0) || (aowner =? 1) then
        run_row op ulevel o18 logindays badpost regbefore inbm fr ban cd_rel pt bsel battr blevel limlogins limbad nuser aexists (bz aowner) 0 0 0 0 0 0 0
      else [ST_BADCASE]
  | [[op]; [ulevel; o18; logindays; badpost; regbefore]; [inbm; fr; ban; cd_rel; pt]; [bsel; battr; blevel; limlogins; limbad; nuser]; [aexists; aowner];
     owner; uid; [sattr; slevel; slimlogins; slimbad; sban; sinbm; sfr]] =>
      if (aowner =? 2) && bytes_ok owner && bytes_ok uid && (lenZ owner <=? 14) && (lenZ uid <=? 13) then
        run_row op ulevel o18 logindays badpost regbefore inbm fr ban cd_rel pt bsel battr blevel limlogins limbad nuser aexists (owner_matches owner uid)
                sattr slevel slimlogins slimbad sban sinbm sfr
      else [ST_BADCASE]
  | [[op]; [logindays; badpost; limlogins; limbad]] =>          (* op 7: getRestrictionReason on its own *)
      if (op =? 7) && u32_ok logindays && u8_ok badpost && u8_ok limlogins && u8_ok limbad
      then [ST_OK; restriction_reason_go logindays badpost limlogins limbad] else [ST_BADCASE]
  | [[op]; owner; uid; fname; [firstlogin]] =>                  (* op 8: isFileOwner on its own *)
      if (op =? 8) && bytes_ok owner && bytes_ok uid && bytes_ok fname && (lenZ owner <=? 14) && (lenZ uid <=? 13) && (lenZ fname <=? 28) &&
         (-2147483648 <=? firstlogin) && (firstlogin <? 2147483648)
      then [ST_OK; zb (is_file_owner owner uid fname firstlogin)] else [ST_BADCASE]
  | _ => [ST_BADCASE]
  end.
