(* C20 — a user's balance in shared memory and in .PASSWDS. Executable model of
   cache/cache_money.go (SetUMoney, DeUMoney, MoneyOf), cache/passwd.go (passwdUpdateMoney), of
   the part of cache/uhash_loader.go that fills Shm.Money from .PASSWDS on a cold load, and of the
   other writers of a user's record: ptt/passwd.go (passwdSyncUpdate, passwdSyncQuery: the cached
   balance is overlaid on the record), cmbbs/passwd.go (PasswdUpdate, PasswdUpdatePasswd, PasswdUpdateEmail).
   MAX_USERS, USEREC_RAW_SZ and the record layout come from Gen/ (regenerated from the source). *)
From Coq Require Import String.
From Verif Require Import Base.Common Base.Layout Gen.Consts_default Gen.Layout_default.
From Verif Require Gen.Consts_docker.
Local Close Scope string_scope.
Local Open Scope Z_scope.

Definition MAXU : Z := ptttype.MAX_USERS.
Definition RECSZ : Z := ptttype.USEREC_RAW_SZ.

(* unsafe.Offsetof(USEREC_RAW.Money): the record is padding-free (C01), so the offset is the sum of
   the sizes of the fields in front of it. Only scalar and byte-array fields precede Money. *)
Fixpoint ty_size (t : ty) : Z :=
  match t with
  | TBool | TI8 | TU8 => 1
  | TI16 | TU16 => 2
  | TI32 | TU32 => 4
  | TI64 | TU64 => 8
  | TArr n e => n * ty_size e
  | TWord | TOpaque | TStruct _ => 0
  end.
Fixpoint offset_of (name : string) (fs : list (string * ty)) (acc : Z) : Z :=
  match fs with
  | [] => acc
  | (n, t) :: r => if String.eqb n name then acc else offset_of name r (acc + ty_size t)
  end.
Definition MONEY_OFF : Z := offset_of "Money"%string fields_UserecRaw 0.

(* ---------------------------------------------------------------- state *)
(* Shm.Shm.Money as a total function on the index (bounds are checked where Go checks them),
   .PASSWDS as its bytes. *)
Record st : Type := mkst { shm : Z -> Z; file : list Z }.

Definition upd (f : Z -> Z) (k v : Z) : Z -> Z := fun x => if x =? k then v else f x.

Definition in_range (i : Z) : bool := (0 <=? i) && (i <? MAXU).

(* binary.Write(LittleEndian, &int32) / binary.Read *)
Definition enc32 (m : Z) : list Z :=
  let u := m mod 4294967296 in [u mod 256; (u / 256) mod 256; (u / 65536) mod 256; (u / 16777216) mod 256].
Definition dec32 (b : list Z) : Z :=
  wrap32 (nth 0 b 0 + 256 * nth 1 b 0 + 65536 * nth 2 b 0 + 16777216 * nth 3 b 0).

(* pwrite at an offset: a write beyond the end of the file zero-fills the gap *)
Fixpoint write_at (f : list Z) (off : nat) (bs : list Z) : list Z :=
  match off with
  | O => bs ++ skipn (length bs) f
  | S o => match f with
           | x :: r => x :: write_at r o bs
           | [] => 0 :: write_at [] o bs
           end
  end.
Definition read_at (f : list Z) (off : nat) (n : nat) : list Z := firstn n (skipn off f).

Definition money_pos (uid : Z) : nat := Z.to_nat (RECSZ * (uid - 1) + MONEY_OFF).
(* the decoded Money field of record uid (what PasswdQuery(uid).Money returns) *)
Definition money_field (f : list Z) (uid : Z) : Z := dec32 (read_at f (money_pos uid) 4).

(* ---------------------------------------------------------------- the Go functions *)
Definition ERR_INVALID_UID : Z := 1.

(* outcome of a call: value, (value, error code), or panic *)
Inductive out : Type := OVal (v : Z) | OErr (v code : Z) | OPanic.

(* MoneyOf: Shm.Shm.Money[uid-1], bounds-checked by Go *)
Definition money_of (s : st) (uid : Z) : res Z :=
  let i := wrap32 (uid - 1) in if in_range i then Ok (shm s i) else Crash.

(* passwdUpdateMoney: nil = None *)
Definition passwd_update_money (s : st) (uid money : Z) : st * option Z :=
  if (uid <? 1) || (MAXU <? uid) then (s, Some ERR_INVALID_UID)
  else (mkst (shm s) (write_at (file s) (money_pos uid) (enc32 money)), None).

(* SetUMoney *)
Definition set_umoney (s : st) (uid money : Z) : st * out :=
  if (uid <=? 0) || (MAXU <? uid) then (s, OErr (-1) ERR_INVALID_UID)
  else
  let i := wrap32 (uid - 1) in
  if negb (in_range i) then (s, OPanic)
  else
    let s1 := mkst (upd (shm s) i money) (file s) in
    match passwd_update_money s1 uid money with
    | (s2, Some e) => (s2, OErr money e)
    | (s2, None) => match money_of s2 uid with Ok v => (s2, OVal v) | _ => (s2, OPanic) end
    end.

(* DeUMoney *)
Definition de_umoney (s : st) (uid money : Z) : st * out :=
  if (uid <=? 0) || (MAXU <? uid) then (s, OErr (-1) ERR_INVALID_UID)
  else match money_of s uid with
       | Ok cur =>
           if (money <? 0) && (cur <? - money)     (* compared in int64 *)
           then set_umoney s uid 0
           else set_umoney s uid (wrap32 (cur + money))
       | _ => (s, OPanic)
       end.

(* cold load (Shm.Reset; LoadUHash): Money[i] of every complete record i < MAX_USERS of the file, 0 elsewhere.
   (The ID index built by the same loop is the subject of C04.) *)
Definition load_table (f : list Z) : list Z :=
  let n := lenZ f in
  map (fun k => let i := Z.of_nat k in if n >=? RECSZ * (i + 1) then money_field f (i + 1) else 0) (seq 0 (Z.to_nat MAXU)).
Definition cold_load (f : list Z) : st :=
  let t := load_table f in
  mkst (fun i => if in_range i then nth (Z.to_nat i) t 0 else 0) f.

(* ---------------------------------------------------------------- the other writers of a user's record *)
Definition USERLEVEL_OFF : Z := offset_of "UserLevel"%string fields_UserecRaw 0.
Definition NUMPOSTS_OFF : Z := offset_of "NumPosts"%string fields_UserecRaw 0.
Definition PASSWD_OFF : Z := offset_of "PasswdHash"%string fields_UserecRaw 0.
Definition EMAIL_OFF : Z := offset_of "Email"%string fields_UserecRaw 0.
Definition PASSLEN : Z := ptttype.PASSLEN.
Definition EMAILSZ : Z := ptttype.EMAILSZ.

Definition rec_pos (uid : Z) : nat := Z.to_nat (RECSZ * (uid - 1)).
(* UID.IsValid *)
Definition uid_is_valid (uid : Z) : bool := (1 <=? uid) && (uid <=? MAXU).

(* the Money a record (its RECSZ bytes) carries, and the record with another Money *)
Definition rec_money (rec : list Z) : Z := dec32 (read_at rec (Z.to_nat MONEY_OFF) 4).
Definition rec_with_money (rec : list Z) (m : Z) : list Z := write_at rec (Z.to_nat MONEY_OFF) (enc32 m).

(* cmbbs.PasswdUpdate: the whole record at its position *)
Definition passwd_update (s : st) (uid : Z) (rec : list Z) : st * option Z :=
  if negb (uid_is_valid uid) then (s, Some ERR_INVALID_UID)
  else (mkst (shm s) (write_at (file s) (rec_pos uid) rec), None).

(* ptt.passwdSyncUpdate: user.Money = cache.MoneyOf(uid); cmbbs.PasswdUpdate(uid, user).
   The value is the Money the caller's record carries after the call (Go mutates it through the pointer). *)
Definition passwd_sync_update (s : st) (uid : Z) (rec : list Z) : st * out :=
  if negb (uid_is_valid uid) then (s, OErr (rec_money rec) ERR_INVALID_UID)
  else match money_of s uid with
       | Ok m =>
           match passwd_update s uid (rec_with_money rec m) with
           | (s1, Some e) => (s1, OErr m e)
           | (s1, None) => (s1, OVal m)
           end
       | _ => (s, OPanic)
       end.

(* cmbbs.PasswdUpdatePasswd / PasswdUpdateEmail: one field of the record at its offset *)
Inductive pfield : Type := FPasswd | FEmail.
Definition pf_off (k : pfield) : Z := match k with FPasswd => PASSWD_OFF | FEmail => EMAIL_OFF end.
Definition pf_len (k : pfield) : Z := match k with FPasswd => PASSLEN | FEmail => EMAILSZ end.
Definition passwd_update_field (s : st) (uid : Z) (k : pfield) (bs : list Z) : st * out :=
  if negb (uid_is_valid uid) then (s, OErr 0 ERR_INVALID_UID)
  else (mkst (shm s) (write_at (file s) (rec_pos uid + Z.to_nat (pf_off k)) bs), OVal 0).

(* ---------------------------------------------------------------- histories *)
(* OpRewrite: a whole-record write-back through passwdSyncUpdate with ANY record of the caller's (pwcuEnd,
   SetUserPerm, killUser, SetupNewUser all end here); OpPart: a one-field update that bypasses it *)
Inductive op : Type := OpSet (uid m : Z) | OpDe (uid m : Z) | OpGet (uid : Z)
                     | OpRewrite (uid : Z) (rec : list Z) | OpPart (uid : Z) (k : pfield) (bs : list Z).

Definition step (s : st) (o : op) : st * out :=
  match o with
  | OpSet u m => set_umoney s u m
  | OpDe u m => de_umoney s u m
  | OpGet u => (s, match money_of s u with Ok v => OVal v | _ => OPanic end)
  | OpRewrite u rec => passwd_sync_update s u rec
  | OpPart u k bs => passwd_update_field s u k bs
  end.

Fixpoint run (s : st) (h : list op) : st * list out :=
  match h with
  | [] => (s, [])
  | o :: r => let '(s1, x) := step s o in let '(s2, xs) := run s1 r in (s2, x :: xs)
  end.

(* ---------------------------------------------------------------- refused writes, disagreement left behind *)
(* The same calls while .PASSWDS refuses the write (the file is away: os.OpenFile fails; or the device is full: the
   write fails). passwdUpdateMoney / PasswdUpdate / PasswdUpdate* return the error after their uid check and write
   nothing; SetUMoney has ALREADY stored the balance into the segment when it learns about it. *)
Definition ERR_IO : Z := 99.

Definition refused_set (s : st) (uid money : Z) : st * out :=
  if (uid <=? 0) || (MAXU <? uid) then (s, OErr (-1) ERR_INVALID_UID)
  else
  let i := wrap32 (uid - 1) in
  if negb (in_range i) then (s, OPanic)
  else
    let s1 := mkst (upd (shm s) i money) (file s) in
    if (uid <? 1) || (MAXU <? uid) then (s1, OErr money ERR_INVALID_UID) else (s1, OErr money ERR_IO).

Definition refused_de (s : st) (uid money : Z) : st * out :=
  if (uid <=? 0) || (MAXU <? uid) then (s, OErr (-1) ERR_INVALID_UID)
  else match money_of s uid with
       | Ok cur =>
           if (money <? 0) && (cur <? - money)
           then refused_set s uid 0
           else refused_set s uid (wrap32 (cur + money))
       | _ => (s, OPanic)
       end.

Definition refused_step (s : st) (o : op) : st * out :=
  match o with
  | OpSet u m => refused_set s u m
  | OpDe u m => refused_de s u m
  | OpGet u => step s (OpGet u)
  | OpRewrite u rec =>          (* user.Money = MoneyOf(uid) happens before the write is attempted *)
      if negb (uid_is_valid u) then (s, OErr (rec_money rec) ERR_INVALID_UID)
      else match money_of s u with Ok m => (s, OErr m ERR_IO) | _ => (s, OPanic) end
  | OpPart u _ _ => if negb (uid_is_valid u) then (s, OErr 0 ERR_INVALID_UID) else (s, OErr 0 ERR_IO)
  end.

(* XOk: the call as above. XRefused: the call while the file refuses the write. XPlantShm u m: the segment's balance
   of slot u becomes m with no file write (a process that died between SetUMoney's store and its write; SysV memory
   survives it). XPlantFile u m: the Money field of record u becomes m behind the segment's back. *)
Inductive xop : Type := XOk (o : op) | XRefused (o : op) | XPlantShm (u m : Z) | XPlantFile (u m : Z).

Definition xstep (s : st) (x : xop) : st * out :=
  match x with
  | XOk o => step s o
  | XRefused o => refused_step s o
  | XPlantShm u m => (mkst (upd (shm s) (u - 1) m) (file s), OVal m)
  | XPlantFile u m => (mkst (shm s) (write_at (file s) (money_pos u) (enc32 m)), OVal m)
  end.

Fixpoint xrun (s : st) (h : list xop) : st * list out :=
  match h with
  | [] => (s, [])
  | x :: r => let '(s1, o) := xstep s x in let '(s2, os) := xrun s1 r in (s2, o :: os)
  end.

Definition xtarget (x : xop) : Z :=
  match x with XOk o | XRefused o => (match o with OpSet u _ | OpDe u _ | OpGet u | OpRewrite u _ | OpPart u _ _ => u end) | XPlantShm u _ | XPlantFile u _ => u end.

(* ---------------------------------------------------------------- wire *)
(* observation after each step: all MAX_USERS balances of the segment, the file length, and every
   byte of the file that differs from the initial file as (offset, byte) pairs *)
Fixpoint diff_missing (pos : Z) (a : list Z) : list Z :=
  match a with [] => [] | _ :: a' => pos :: (-1) :: diff_missing (pos + 1) a' end.
Fixpoint diff_from (pos : Z) (a b : list Z) {struct b} : list Z :=     (* a = initial, b = current *)
  match b with
  | [] => diff_missing pos a
  | y :: b' =>
      match a with
      | x :: a' => if x =? y then diff_from (pos + 1) a' b' else pos :: y :: diff_from (pos + 1) a' b'
      | [] => pos :: y :: diff_from (pos + 1) [] b'
      end
  end.
Definition observe (init : list Z) (s : st) : list Z :=
  let d := diff_from 0 init (file s) in
  map (fun i => shm s (Z.of_nat i)) (seq 0 (Z.to_nat MAXU)) ++ [lenZ (file s); lenZ d / 2] ++ d.

Definition out_wire (x : out) : list Z :=
  match x with OVal v => [0; v; 0] | OErr v c => [3; v; c] | OPanic => [1; 0; 0] end.

(* --- the callers of passwdSyncUpdate, compiled to OpRewrite with the record they hand over --- *)
(* encoding/binary decodes a bool byte as (b <> 0) and encodes it as 0/1: a record that went through
   a UserecRaw value has canonical bool bytes *)
Fixpoint canon_fields (fs : list (string * ty)) (bs : list Z) : list Z :=
  match fs with
  | [] => bs
  | (_, t) :: r =>
      let n := Z.to_nat (ty_size t) in
      (match t with TBool => map (fun b => if b =? 0 then 0 else 1) (firstn n bs) | _ => firstn n bs end)
      ++ canon_fields r (skipn n bs)
  end.
Definition canon (rec : list Z) : list Z := canon_fields fields_UserecRaw rec.
Fixpoint bool_offsets (fs : list (string * ty)) (acc : Z) : list Z :=
  match fs with
  | [] => []
  | (_, t) :: r => (match t with TBool => [acc] | _ => [] end) ++ bool_offsets r (acc + ty_size t)
  end.

Definition encu32 (v : Z) : list Z := enc32 v.
Definition decu32 (b : list Z) : Z := nth 0 b 0 + 256 * nth 1 b 0 + 65536 * nth 2 b 0 + 16777216 * nth 3 b 0.
(* passwdSyncQuery: the record of the file with the cached balance overlaid *)
Definition sync_query_rec (s : st) (u : Z) : list Z :=
  rec_with_money (canon (read_at (file s) (rec_pos u) (Z.to_nat RECSZ))) (shm s (u - 1)).
(* SetUserPerm: setUserec.UserLevel = perm *)
Definition rec_with_level (rec : list Z) (perm : Z) : list Z := write_at rec (Z.to_nat USERLEVEL_OFF) (encu32 perm).
(* u.NumPosts += bump *)
Definition rec_bump_posts (rec : list Z) (bump : Z) : list Z :=
  write_at rec (Z.to_nat NUMPOSTS_OFF) (encu32 (decu32 (read_at rec (Z.to_nat NUMPOSTS_OFF) 4) + bump)).

Definition pend : Type := list (Z * list Z).      (* records obtained by pwcuStart and not yet written back *)
Fixpoint pend_get (p : pend) (u : Z) : option (list Z) :=
  match p with [] => None | (v, r) :: t => if v =? u then Some r else pend_get t u end.
Definition pend_del (p : pend) (u : Z) : pend := filter (fun x => negb (fst x =? u)) p.

Definition is_rec (b : list Z) : bool := lenZ b =? RECSZ.
Definition whole_record (s : st) (u : Z) : bool := uid_is_valid u && (RECSZ * u <=? lenZ (file s)).

(* what to print as the value of the step: 0 = as the step returns it, 1 = nothing (the Go entry point has no such result) *)
Definition parse_op (pd : pend) (s : st) (g : list Z) : option (op * pend * bool) :=
  match g with
  | [1; u; m] => Some (OpSet u m, pd, false)
  | [2; u; m] => Some (OpDe u m, pd, false)
  | [3; u] => Some (OpGet u, pd, false)
  | [4; u] => Some (OpGet u, pd, false)     (* ptt.GetUser(id of slot u).Money: passwdSyncQuery overlays MoneyOf *)
  | 5 :: u :: rec => if is_rec rec then Some (OpRewrite u (canon rec), pd, false) else None
  | 6 :: u :: perm :: rec => if is_rec rec then Some (OpRewrite u (rec_with_level (canon rec) perm), pd, false) else None
  | [7; u] =>                               (* pwcuStart: the record is remembered, nothing is written *)
      if whole_record s u then Some (OpGet u, (u, sync_query_rec s u) :: pend_del pd u, false) else None
  | [8; u; bump] =>                         (* ...; u.NumPosts += bump; pwcuEnd *)
      match pend_get pd u with
      | Some rec => Some (OpRewrite u (rec_bump_posts rec bump), pend_del pd u, false)
      | None => None
      end
  | [9; u] =>                               (* killUser: passwdSyncUpdate(uid, &UserecRaw{}) *)
      if uid_is_valid u then Some (OpRewrite u (repeat 0 (Z.to_nat RECSZ)), pd, true) else None
  | 10 :: u :: bs => if lenZ bs =? PASSLEN then Some (OpPart u FPasswd bs, pd, false) else None
  | 11 :: u :: bs => if lenZ bs =? EMAILSZ then Some (OpPart u FEmail bs, pd, false) else None
  | [12; u] =>                              (* pwcuIncNumPost: pwcuStart; NumPosts++; pwcuEnd *)
      if whole_record s u then Some (OpRewrite u (rec_bump_posts (sync_query_rec s u) 1), pd, true) else None
  | _ => None
  end.

Definition parse_xop (pd : pend) (s : st) (g : list Z) : option (xop * pend * bool) :=
  match g with
  | 13 :: mode :: k :: g' =>                 (* the operation k ... while .PASSWDS refuses the write (1: away, 2: /dev/full) *)
      if ((mode =? 1) || (mode =? 2)) && ((k =? 1) || (k =? 2) || (k =? 5) || (k =? 10) || (k =? 11)) then
        match parse_op pd s (k :: g') with
        | Some (o, pd1, mute) => Some (XRefused o, pd1, mute)
        | None => None
        end
      else None
  | [14; u; m] => if uid_is_valid u then Some (XPlantShm u m, pd, false) else None
  | [15; u; m] => if uid_is_valid u then Some (XPlantFile u m, pd, false) else None
  | _ => match parse_op pd s g with
         | Some (o, pd1, mute) => Some (XOk o, pd1, mute)
         | None => None
         end
  end.

Definition target (o : op) : Z :=
  match o with OpSet u _ | OpDe u _ | OpGet u | OpRewrite u _ | OpPart u _ _ => u end.

Definition out_wire_mute (x : out) : list Z :=
  match x with OVal _ => [0; 0; 0] | OErr _ c => [3; 0; c] | OPanic => [1; 0; 0] end.

Fixpoint run_wire (init : list Z) (pd : pend) (s : st) (gs : list (list Z)) : option (list Z) :=
  match gs with
  | [] => Some []
  | g :: r =>
      match parse_xop pd s g with
      | None => None
      | Some (o, pd1, mute) =>
          let '(s1, x) := xstep s o in
          match run_wire init pd1 s1 r with
          | Some t =>
              let u := xtarget o in
              Some ((if mute then out_wire_mute x else out_wire x)
                    ++ (if in_range (u - 1) then money_field (file s1) u else 0) :: observe init s1 ++ t)
          | None => None
          end
      end
  end.

(* ---------------------------------------------------------------- any table size *)
(* The same Go functions on a table of N slots (N = MAX_USERS of whichever build: 50 by default, 2 000 000 with
   -tags docker), with .PASSWDS abstracted to what the property speaks about: the Money field of each record
   (gfld u = what PasswdQuery(u).Money decodes). Bytes, offsets and the codec are the business of the model above
   (they do not depend on N: the record layout of both builds is the same, see C01). w = the file accepts the write. *)
Record gst : Type := mkg { gshm : Z -> Z; gfld : Z -> Z }.
Definition g_in_range (N i : Z) : bool := (0 <=? i) && (i <? N).
Definition g_valid (N u : Z) : bool := (1 <=? u) && (u <=? N).
Definition g_money_of (N : Z) (s : gst) (uid : Z) : res Z :=
  let i := wrap32 (uid - 1) in if g_in_range N i then Ok (gshm s i) else Crash.
Definition g_set (N : Z) (w : bool) (s : gst) (uid money : Z) : gst * out :=
  if (uid <=? 0) || (N <? uid) then (s, OErr (-1) ERR_INVALID_UID)
  else
  let i := wrap32 (uid - 1) in
  if negb (g_in_range N i) then (s, OPanic)
  else
    let s1 := mkg (upd (gshm s) i money) (gfld s) in
    if (uid <? 1) || (N <? uid) then (s1, OErr money ERR_INVALID_UID)
    else if w then
      let s2 := mkg (gshm s1) (upd (gfld s1) uid money) in
      match g_money_of N s2 uid with Ok v => (s2, OVal v) | _ => (s2, OPanic) end
    else (s1, OErr money ERR_IO).
Definition g_de (N : Z) (w : bool) (s : gst) (uid money : Z) : gst * out :=
  if (uid <=? 0) || (N <? uid) then (s, OErr (-1) ERR_INVALID_UID)
  else match g_money_of N s uid with
       | Ok cur =>
           if (money <? 0) && (cur <? - money)
           then g_set N w s uid 0
           else g_set N w s uid (wrap32 (cur + money))
       | _ => (s, OPanic)
       end.
(* passwdSyncUpdate: recm = the Money the caller's record carries *)
Definition g_rewrite (N : Z) (w : bool) (s : gst) (uid recm : Z) : gst * out :=
  if negb (g_valid N uid) then (s, OErr recm ERR_INVALID_UID)
  else match g_money_of N s uid with
       | Ok m => if w then (mkg (gshm s) (upd (gfld s) uid m), OVal m) else (s, OErr m ERR_IO)
       | _ => (s, OPanic)
       end.
Definition g_step (N : Z) (s : gst) (x : xop) : gst * out :=
  match x with
  | XOk (OpSet u m) => g_set N true s u m
  | XRefused (OpSet u m) => g_set N false s u m
  | XOk (OpDe u m) => g_de N true s u m
  | XRefused (OpDe u m) => g_de N false s u m
  | XOk (OpGet u) | XRefused (OpGet u) => (s, match g_money_of N s u with Ok v => OVal v | _ => OPanic end)
  | XOk (OpRewrite u rec) => g_rewrite N true s u (rec_money rec)
  | XRefused (OpRewrite u rec) => g_rewrite N false s u (rec_money rec)
  | XOk (OpPart u _ _) => if negb (g_valid N u) then (s, OErr 0 ERR_INVALID_UID) else (s, OVal 0)
  | XRefused (OpPart u _ _) => if negb (g_valid N u) then (s, OErr 0 ERR_INVALID_UID) else (s, OErr 0 ERR_IO)
  | XPlantShm u m => (mkg (upd (gshm s) (u - 1) m) (gfld s), OVal m)
  | XPlantFile u m => (mkg (gshm s) (upd (gfld s) u m), OVal m)
  end.
Fixpoint g_run (N : Z) (s : gst) (h : list xop) : gst * list out :=
  match h with
  | [] => (s, [])
  | x :: r => let '(s1, o) := g_step N s x in let '(s2, os) := g_run N s1 r in (s2, o :: os)
  end.

(* the flag: the Go entry point has no value to print (see parse_op). pwcuStart hands out the record with the cached balance
   (a read), pwcuEnd / pwcuIncNumPost end in passwdSyncUpdate, whose result does not depend on the Money of the caller's record *)
Definition g_parse_plain (g : list Z) : option (xop * bool) :=
  match g with
  | [1; u; m] => Some (XOk (OpSet u m), false)
  | [2; u; m] => Some (XOk (OpDe u m), false)
  | [3; u] => Some (XOk (OpGet u), false)
  | 5 :: u :: rec => if is_rec rec then Some (XOk (OpRewrite u (canon rec)), false) else None
  | [7; u] => Some (XOk (OpGet u), false)
  | [8; u; _] => Some (XOk (OpRewrite u []), false)
  | 10 :: u :: bs => if lenZ bs =? PASSLEN then Some (XOk (OpPart u FPasswd bs), false) else None
  | 11 :: u :: bs => if lenZ bs =? EMAILSZ then Some (XOk (OpPart u FEmail bs), false) else None
  | [12; u] => Some (XOk (OpRewrite u []), true)
  | _ => None
  end.
Definition g_parse (N : Z) (g : list Z) : option (xop * bool) :=
  match g with
  | 13 :: mode :: k :: g' =>
      if ((mode =? 1) || (mode =? 2)) && ((k =? 1) || (k =? 2) || (k =? 5) || (k =? 10) || (k =? 11)) then
        match g_parse_plain (k :: g') with Some (XOk o, mute) => Some (XRefused o, mute) | _ => None end
      else None
  | [14; u; m] => if g_valid N u then Some (XPlantShm u m, false) else None
  | [15; u; m] => if g_valid N u then Some (XPlantFile u m, false) else None
  | _ => g_parse_plain g
  end.

(* observation: the segment's balance and the Money field of the record of every watched slot *)
Definition g_observe (s : gst) (watch : list Z) : list Z := flat_map (fun w => [gshm s (w - 1); gfld s w]) watch.
Fixpoint g_wire (N : Z) (watch : list Z) (s : gst) (gs : list (list Z)) : option (list Z) :=
  match gs with
  | [] => Some []
  | g :: r =>
      match g_parse N g with
      | None => None
      | Some (x, mute) =>
          let '(s1, o) := g_step N s x in
          match g_wire N watch s1 r with
          | Some t => let u := xtarget x in
                      Some ((if mute then out_wire_mute o else out_wire o)
                            ++ (if g_valid N u then gfld s1 u else 0) :: g_observe s1 watch ++ t)
          | None => None
          end
      end
  end.
(* the table after a cold load of a file whose record u carries Money m for every (u, m) listed and 0 elsewhere *)
Fixpoint g_planted (ps : list Z) : Z -> Z :=
  match ps with
  | u :: m :: r => let f := g_planted r in fun x => if x =? u then m else f x
  | _ => fun _ => 0
  end.
Definition g_size (cfg : Z) : Z := if cfg =? 1 then Gen.Consts_docker.ptttype.MAX_USERS else MAXU.

(* case: [1] | bytes of .PASSWDS | op | op | ...   (the segment is cold-loaded from the file first) *)
Definition run_case (args : list (list Z)) : list Z :=
  match args with
  | [1] :: f :: gs =>
      let s := cold_load f in
      match run_wire f [] s gs with
      | Some t => ST_OK :: observe f s ++ t
      | None => [ST_BADCASE]
      end
  | [4; cfg] :: watch :: ps :: gs =>       (* histories on the table of the build cfg (0 default, 1 docker) *)
      let N := g_size cfg in
      let f := g_planted ps in
      let s := mkg (fun i => f (i + 1)) f in
      match g_wire N watch s gs with
      | Some t => ST_OK :: g_observe s watch ++ t
      | None => [ST_BADCASE]
      end
  | [[2]] => [ST_OK; MAXU; RECSZ; MONEY_OFF]
  | [[2; cfg]] => [ST_OK; g_size cfg; RECSZ; MONEY_OFF]
  | [[3]] => let b := bool_offsets fields_UserecRaw 0 in
             [ST_OK; USERLEVEL_OFF; NUMPOSTS_OFF; PASSWD_OFF; PASSLEN; EMAIL_OFF; EMAILSZ; lenZ b] ++ b
  | _ => [ST_BADCASE]
  end.

(* ---------------------------------------------------------------- specification: plain arithmetic *)
(* a map slot -> balance with set, credit and saturating debit; the value each operation returns *)
Definition spec_step (b : Z -> Z) (o : op) : (Z -> Z) * Z :=
  match o with
  | OpSet u m => (upd b u m, m)
  | OpDe u m => let v := if (m <? 0) && (b u <? - m) then 0 else b u + m in (upd b u v, v)
  | OpGet u => (b, b u)
  | OpRewrite u _ => (b, b u)      (* no balance changes; the caller's record leaves with the balance *)
  | OpPart _ _ _ => (b, 0)
  end.
Fixpoint spec_run (b : Z -> Z) (h : list op) : (Z -> Z) * list Z :=
  match h with
  | [] => (b, [])
  | o :: r => let '(b1, v) := spec_step b o in let '(b2, vs) := spec_run b1 r in (b2, v :: vs)
  end.

Definition valid (u : Z) : Prop := 1 <= u <= MAXU.
Definition int32 (m : Z) : Prop := -2147483648 <= m <= 2147483647.
(* an operation of the property's histories: a valid slot, an int32 amount, and a sum that stays inside int32
   (a debit larger than the balance saturates and has no sum to overflow); a record rewrite hands over a
   whole record, a one-field update exactly the bytes of the field *)
Definition op_ok (b : Z -> Z) (o : op) : Prop :=
  match o with
  | OpSet u m => valid u /\ int32 m
  | OpDe u m => valid u /\ int32 m /\ ((m < 0 /\ b u < - m) \/ int32 (b u + m))
  | OpGet u => valid u
  | OpRewrite u rec => valid u /\ length rec = Z.to_nat RECSZ      (* ANY record: any Money, any other field *)
  | OpPart u k bs => valid u /\ length bs = Z.to_nat (pf_len k)
  end.
Fixpoint hist_ok (b : Z -> Z) (h : list op) : Prop :=
  match h with [] => True | o :: r => op_ok b o /\ hist_ok (fst (spec_step b o)) r end.

(* what the caller hands over has the size the Go type gives it (a UserecRaw, a Passwd_t, an Email_t) *)
Definition op_shape (o : op) : Prop :=
  match o with
  | OpRewrite _ rec => length rec = Z.to_nat RECSZ
  | OpPart _ k bs => length bs = Z.to_nat (pf_len k)
  | _ => True
  end.
(* (start, length) of the bytes of .PASSWDS an operation may write: the 4 bytes of the Money field for the money
   operations, the record for a whole-record write-back, the field for a one-field update *)
Definition footprint (o : op) : nat * nat :=
  match o with
  | OpRewrite u _ => (rec_pos u, Z.to_nat RECSZ)
  | OpPart u k _ => ((rec_pos u + Z.to_nat (pf_off k))%nat, Z.to_nat (pf_len k))
  | OpSet u _ | OpDe u _ | OpGet u => (money_pos u, 4%nat)
  end.

(* segment, file and arithmetic agree on every valid slot; .PASSWDS has MAX_USERS records *)
Definition Agree (s : st) (b : Z -> Z) : Prop :=
  length (file s) = Z.to_nat (MAXU * RECSZ) /\
  forall u, valid u -> shm s (u - 1) = b u /\ money_field (file s) u = b u.

(* ---------------------------------------------------------------- specification with refused writes *)
(* Arithmetic follows the segment (MoneyOf is what every reader is answered with); a set of "dirty" slots records where
   the file may have been left behind: a refused set / credit / debit and a planted disagreement make the slot dirty,
   every successful set / credit / debit and every whole-record write-back makes it clean again. *)
Definition bupd (d : Z -> bool) (k : Z) (v : bool) : Z -> bool := fun x => if x =? k then v else d x.

Definition de_value (b : Z -> Z) (u m : Z) : Z := if (m <? 0) && (b u <? - m) then 0 else b u + m.

Definition xspec_step (b : Z -> Z) (d : Z -> bool) (x : xop) : (Z -> Z) * (Z -> bool) * out :=
  match x with
  | XOk o =>
      (fst (spec_step b o),
       match o with OpSet u _ | OpDe u _ | OpRewrite u _ => bupd d u false | _ => d end,
       OVal (snd (spec_step b o)))
  | XRefused (OpSet u m) => (upd b u m, bupd d u true, OErr m ERR_IO)
  | XRefused (OpDe u m) => (upd b u (de_value b u m), bupd d u true, OErr (de_value b u m) ERR_IO)
  | XRefused (OpGet u) => (b, d, OVal (b u))
  | XRefused (OpRewrite u _) => (b, d, OErr (b u) ERR_IO)
  | XRefused (OpPart _ _ _) => (b, d, OErr 0 ERR_IO)
  | XPlantShm u m => (upd b u m, bupd d u true, OVal m)
  | XPlantFile u m => (b, bupd d u true, OVal m)
  end.

Fixpoint xspec_run (b : Z -> Z) (d : Z -> bool) (h : list xop) : (Z -> Z) * (Z -> bool) * list out :=
  match h with
  | [] => (b, d, [])
  | x :: r => let '(b1, d1, o) := xspec_step b d x in let '(b2, d2, os) := xspec_run b1 d1 r in (b2, d2, o :: os)
  end.

Definition xop_ok (b : Z -> Z) (x : xop) : Prop :=
  match x with
  | XOk o | XRefused o => op_ok b o
  | XPlantShm u m | XPlantFile u m => valid u /\ int32 m
  end.
Fixpoint xhist_ok (b : Z -> Z) (d : Z -> bool) (h : list xop) : Prop :=
  match h with [] => True | x :: r => xop_ok b x /\ xhist_ok (fst (fst (xspec_step b d x))) (snd (fst (xspec_step b d x))) r end.

(* the segment and arithmetic agree on every valid slot (balances are int32s); the Money field of the record agrees
   too on every slot that is not dirty; .PASSWDS has MAX_USERS records *)
Definition AgreeExcept (s : st) (b : Z -> Z) (d : Z -> bool) : Prop :=
  length (file s) = Z.to_nat (MAXU * RECSZ) /\
  forall u, valid u -> shm s (u - 1) = b u /\ int32 (b u) /\ (d u = false -> money_field (file s) u = b u).

(* ---------------------------------------------------------------- specification for any table size *)
Definition gvalid (N u : Z) : Prop := 1 <= u <= N.
Definition g_op_ok (N : Z) (b : Z -> Z) (x : xop) : Prop :=
  match x with
  | XOk o | XRefused o =>
      match o with
      | OpSet u m => gvalid N u /\ int32 m
      | OpDe u m => gvalid N u /\ int32 m /\ ((m < 0 /\ b u < - m) \/ int32 (b u + m))
      | OpGet u | OpRewrite u _ | OpPart u _ _ => gvalid N u
      end
  | XPlantShm u m | XPlantFile u m => gvalid N u /\ int32 m
  end.
Fixpoint g_hist_ok (N : Z) (b : Z -> Z) (d : Z -> bool) (h : list xop) : Prop :=
  match h with
  | [] => True
  | x :: r => g_op_ok N b x /\ g_hist_ok N (fst (fst (xspec_step b d x))) (snd (fst (xspec_step b d x))) r
  end.
(* on every slot 1..N the segment equals arithmetic, and so does the Money field of the record unless the slot is dirty *)
Definition GAgree (N : Z) (s : gst) (b : Z -> Z) (d : Z -> bool) : Prop :=
  forall u, gvalid N u -> gshm s (u - 1) = b u /\ (d u = false -> gfld s u = b u).
