(* C20 — a user's balance in shared memory and in .PASSWDS. Executable model of
   cache/cache_money.go (SetUMoney, DeUMoney, MoneyOf), cache/passwd.go (passwdUpdateMoney) and of
   the part of cache/uhash_loader.go that fills Shm.Money from .PASSWDS on a cold load.
   MAX_USERS, USEREC_RAW_SZ and the record layout come from Gen/ (regenerated from the source). *)
From Coq Require Import String.
From Verif Require Import Base.Common Base.Layout Gen.Consts_default Gen.Layout_default.
Local Close Scope string_scope.
Local Open Scope Z_scope.

Definition MAXU : Z := ptttype.MAX_USERS.
Definition RECSZ : Z := ptttype.USEREC_RAW_SZ.

(* unsafe.Offsetof(USEREC_RAW.Money): the record is padding-free (C01), so the offset is the sum of
   the sizes of the fields in front of it. Only scalar and byte-array fields precede Money. *)
Fixpoint ty_size (t : ty) : Z :=
  match t with
  | TBool | TI8 | TU8 => 1
  | TI16 | TU16 => 2
  | TI32 | TU32 => 4
  | TI64 | TU64 => 8
  | TArr n e => n * ty_size e
  | TWord | TOpaque | TStruct _ => 0
  end.
Fixpoint offset_of (name : string) (fs : list (string * ty)) (acc : Z) : Z :=
  match fs with
  | [] => acc
  | (n, t) :: r => if String.eqb n name then acc else offset_of name r (acc + ty_size t)
  end.
Definition MONEY_OFF : Z := offset_of "Money"%string fields_UserecRaw 0.

(* ---------------------------------------------------------------- state *)
(* Shm.Shm.Money as a total function on the index (bounds are checked where Go checks them),
   .PASSWDS as its bytes. *)
Record st : Type := mkst { shm : Z -> Z; file : list Z }.

Definition upd (f : Z -> Z) (k v : Z) : Z -> Z := fun x => if x =? k then v else f x.

Definition in_range (i : Z) : bool := (0 <=? i) && (i <? MAXU).

(* binary.Write(LittleEndian, &int32) / binary.Read *)
Definition enc32 (m : Z) : list Z :=
  let u := m mod 4294967296 in [u mod 256; (u / 256) mod 256; (u / 65536) mod 256; (u / 16777216) mod 256].
Definition dec32 (b : list Z) : Z :=
  wrap32 (nth 0 b 0 + 256 * nth 1 b 0 + 65536 * nth 2 b 0 + 16777216 * nth 3 b 0).

(* pwrite at an offset: a write beyond the end of the file zero-fills the gap *)
Fixpoint write_at (f : list Z) (off : nat) (bs : list Z) : list Z :=
  match off with
  | O => bs ++ skipn (length bs) f
  | S o => match f with
           | x :: r => x :: write_at r o bs
           | [] => 0 :: write_at [] o bs
           end
  end.
Definition read_at (f : list Z) (off : nat) (n : nat) : list Z := firstn n (skipn off f).

Definition money_pos (uid : Z) : nat := Z.to_nat (RECSZ * (uid - 1) + MONEY_OFF).
(* the decoded Money field of record uid (what PasswdQuery(uid).Money returns) *)
Definition money_field (f : list Z) (uid : Z) : Z := dec32 (read_at f (money_pos uid) 4).

(* ---------------------------------------------------------------- the Go functions *)
Definition ERR_INVALID_UID : Z := 1.

(* outcome of a call: value, (value, error code), or panic *)
Inductive out : Type := OVal (v : Z) | OErr (v code : Z) | OPanic.

(* MoneyOf: Shm.Shm.Money[uid-1], bounds-checked by Go *)
Definition money_of (s : st) (uid : Z) : res Z :=
  let i := wrap32 (uid - 1) in if in_range i then Ok (shm s i) else Crash.

(* passwdUpdateMoney: nil = None *)
Definition passwd_update_money (s : st) (uid money : Z) : st * option Z :=
  if (uid <? 1) || (MAXU <? uid) then (s, Some ERR_INVALID_UID)
  else (mkst (shm s) (write_at (file s) (money_pos uid) (enc32 money)), None).

(* SetUMoney *)
Definition set_umoney (s : st) (uid money : Z) : st * out :=
  if (uid <=? 0) || (MAXU <? uid) then (s, OErr (-1) ERR_INVALID_UID)
  else
  let i := wrap32 (uid - 1) in
  if negb (in_range i) then (s, OPanic)
  else
    let s1 := mkst (upd (shm s) i money) (file s) in
    match passwd_update_money s1 uid money with
    | (s2, Some e) => (s2, OErr money e)
    | (s2, None) => match money_of s2 uid with Ok v => (s2, OVal v) | _ => (s2, OPanic) end
    end.

(* DeUMoney *)
Definition de_umoney (s : st) (uid money : Z) : st * out :=
  if (uid <=? 0) || (MAXU <? uid) then (s, OErr (-1) ERR_INVALID_UID)
  else match money_of s uid with
       | Ok cur =>
           if (money <? 0) && (cur <? - money)     (* compared in int64 *)
           then set_umoney s uid 0
           else set_umoney s uid (wrap32 (cur + money))
       | _ => (s, OPanic)
       end.

(* cold load (Shm.Reset; LoadUHash): Money[i] of every complete record i < MAX_USERS of the file, 0 elsewhere.
   (The ID index built by the same loop is the subject of C04.) *)
Definition load_table (f : list Z) : list Z :=
  let n := lenZ f in
  map (fun k => let i := Z.of_nat k in if n >=? RECSZ * (i + 1) then money_field f (i + 1) else 0) (seq 0 (Z.to_nat MAXU)).
Definition cold_load (f : list Z) : st :=
  let t := load_table f in
  mkst (fun i => if in_range i then nth (Z.to_nat i) t 0 else 0) f.

(* ---------------------------------------------------------------- histories *)
Inductive op : Type := OpSet (uid m : Z) | OpDe (uid m : Z) | OpGet (uid : Z).

Definition step (s : st) (o : op) : st * out :=
  match o with
  | OpSet u m => set_umoney s u m
  | OpDe u m => de_umoney s u m
  | OpGet u => (s, match money_of s u with Ok v => OVal v | _ => OPanic end)
  end.

Fixpoint run (s : st) (h : list op) : st * list out :=
  match h with
  | [] => (s, [])
  | o :: r => let '(s1, x) := step s o in let '(s2, xs) := run s1 r in (s2, x :: xs)
  end.

(* ---------------------------------------------------------------- wire *)
(* observation after each step: all MAX_USERS balances of the segment, the file length, and every
   byte of the file that differs from the initial file as (offset, byte) pairs *)
Fixpoint diff_missing (pos : Z) (a : list Z) : list Z :=
  match a with [] => [] | _ :: a' => pos :: (-1) :: diff_missing (pos + 1) a' end.
Fixpoint diff_from (pos : Z) (a b : list Z) {struct b} : list Z :=     (* a = initial, b = current *)
  match b with
  | [] => diff_missing pos a
  | y :: b' =>
      match a with
      | x :: a' => if x =? y then diff_from (pos + 1) a' b' else pos :: y :: diff_from (pos + 1) a' b'
      | [] => pos :: y :: diff_from (pos + 1) [] b'
      end
  end.
Definition observe (init : list Z) (s : st) : list Z :=
  let d := diff_from 0 init (file s) in
  map (fun i => shm s (Z.of_nat i)) (seq 0 (Z.to_nat MAXU)) ++ [lenZ (file s); lenZ d / 2] ++ d.

Definition out_wire (x : out) : list Z :=
  match x with OVal v => [0; v; 0] | OErr v c => [3; v; c] | OPanic => [1; 0; 0] end.

Definition parse_op (g : list Z) : option op :=
  match g with
  | [1; u; m] => Some (OpSet u m)
  | [2; u; m] => Some (OpDe u m)
  | [3; u] => Some (OpGet u)
  | [4; u] => Some (OpGet u)     (* ptt.GetUser(id of slot u).Money: passwdSyncQuery overlays MoneyOf *)
  | _ => None
  end.

Fixpoint run_wire (init : list Z) (s : st) (gs : list (list Z)) : option (list Z) :=
  match gs with
  | [] => Some []
  | g :: r =>
      match parse_op g with
      | None => None
      | Some o => let '(s1, x) := step s o in
                  match run_wire init s1 r with
                  | Some t =>
                      let u := match o with OpSet u _ | OpDe u _ | OpGet u => u end in
                      Some (out_wire x ++ (if in_range (u - 1) then money_field (file s1) u else 0) :: observe init s1 ++ t)
                  | None => None
                  end
      end
  end.

(* case: [1] | bytes of .PASSWDS | op | op | ...   (the segment is cold-loaded from the file first) *)
Definition run_case (args : list (list Z)) : list Z :=
  match args with
  | [1] :: f :: gs =>
      let s := cold_load f in
      match run_wire f s gs with
      | Some t => ST_OK :: observe f s ++ t
      | None => [ST_BADCASE]
      end
  | [[2]] => [ST_OK; MAXU; RECSZ; MONEY_OFF]
  | _ => [ST_BADCASE]
  end.

(* ---------------------------------------------------------------- specification: plain arithmetic *)
(* a map slot -> balance with set, credit and saturating debit; the value each operation returns *)
Definition spec_step (b : Z -> Z) (o : op) : (Z -> Z) * Z :=
  match o with
  | OpSet u m => (upd b u m, m)
  | OpDe u m => let v := if (m <? 0) && (b u <? - m) then 0 else b u + m in (upd b u v, v)
  | OpGet u => (b, b u)
  end.
Fixpoint spec_run (b : Z -> Z) (h : list op) : (Z -> Z) * list Z :=
  match h with
  | [] => (b, [])
  | o :: r => let '(b1, v) := spec_step b o in let '(b2, vs) := spec_run b1 r in (b2, v :: vs)
  end.

Definition valid (u : Z) : Prop := 1 <= u <= MAXU.
Definition int32 (m : Z) : Prop := -2147483648 <= m <= 2147483647.
Definition target (o : op) : Z := match o with OpSet u _ | OpDe u _ | OpGet u => u end.

(* an operation of the property's histories: a valid slot, an int32 amount, and a sum that stays inside int32
   (a debit larger than the balance saturates and has no sum to overflow) *)
Definition op_ok (b : Z -> Z) (o : op) : Prop :=
  match o with
  | OpSet u m => valid u /\ int32 m
  | OpDe u m => valid u /\ int32 m /\ ((m < 0 /\ b u < - m) \/ int32 (b u + m))
  | OpGet u => valid u
  end.
Fixpoint hist_ok (b : Z -> Z) (h : list op) : Prop :=
  match h with [] => True | o :: r => op_ok b o /\ hist_ok (fst (spec_step b o)) r end.

(* segment, file and arithmetic agree on every valid slot; .PASSWDS has MAX_USERS records *)
Definition Agree (s : st) (b : Z -> Z) : Prop :=
  length (file s) = Z.to_nat (MAXU * RECSZ) /\
  forall u, valid u -> shm s (u - 1) = b u /\ money_field (file s) u = b u.
