(* C09 — publishing an article. Executable model of the success path of ptt.DoPostArticle (ptt/bbs.go)
   with the functions it calls: cmbbs.Stampfile/StampfileU (cmbbs/fhdr_stamp.go), doPostArticleFullTitle,
   tnSafeStrip/isTnAllowed/isTnAnnounce, ptt.WriteFile with writeHeader and addSimpleSignature
   (ptt/edit.go), cmsys.Trim (cmsys/string.go), ptt.StripANSIMoveCmd (ptt/kaede.go), GetWebURL,
   cmsys.LogFile (append), cmsys.AppendRecord on .DIR, os.Rename, cache.SetBTotal, ptt.pwcuIncNumPost,
   and of the read side bbs.GetArticle -> ptt.ReadPost (file named by the decoded article id).
   The file-name <-> article-id codec is Model/C13.v. Byte strings printed into the article come
   from Gen/PostTab.v (regenerated from ptttype on every run).

   Observed inputs (reported by the driver, arguments here): the three clock readings (first stamp,
   header, second stamp), the stream of math/rand draws Stampfile consumes, and the modification time
   DashT reports for the freshly written file. *)
From Verif Require Import Base.Common Base.Dec Gen.Consts_default Gen.PostTab Model.C13.

(* ------------------------------------------------------------------ byte-string helpers *)
Definition memb (c : Z) (l : list Z) : bool := existsb (Z.eqb c) l.

Fixpoint bytes_eqb (a b : list Z) : bool :=
  match a, b with
  | [], [] => true
  | x :: a', y :: b' => (x =? y) && bytes_eqb a' b'
  | _, _ => false
  end.

(* bytes.HasPrefix(s, p) *)
Fixpoint has_prefix (p s : list Z) : bool :=
  match p, s with
  | [], _ => true
  | x :: p', y :: s' => (x =? y) && has_prefix p' s'
  | _ :: _, [] => false
  end.

(* bytes.TrimRight(s, " ") *)
Fixpoint rtrim_sp (l : list Z) : list Z :=
  match l with
  | [] => []
  | c :: r => match rtrim_sp r with
              | [] => if c =? 32 then [] else [c]
              | r' => c :: r'
              end
  end.

(* cmsys.Trim: CstrToBytes (cut at the first NUL), then trim trailing blanks *)
Definition trim (l : list Z) : list Z := rtrim_sp (cprefix l).

(* ptt.StripANSIMoveCmd as coded: after an ESC, bytes of PATTERN_ANSI_CODE are skipped; if the byte
   that follows is one of PATTERN_ANSI_MOVECMD it is overwritten with 's'; scanning resumes at that
   byte. [in_esc] = "an ESC and only parameter bytes since". *)
Fixpoint defuse (in_esc : bool) (l : list Z) : list Z :=
  match l with
  | [] => []
  | c :: r =>
      if c =? types_ansi.ESC_CHR then c :: defuse true r
      else if in_esc then
        if memb c PATTERN_ANSI_CODE then c :: defuse true r
        else if memb c PATTERN_ANSI_MOVECMD then 115 :: defuse false r
        else c :: defuse false r
      else c :: defuse false r
  end.

Definition process_line (l : list Z) : list Z := defuse false (trim l) ++ [10].

(* the loop of WriteFile: the last line is skipped when it is empty (before trimming) *)
Fixpoint process_lines (ls : list (list Z)) : list Z :=
  match ls with
  | [] => []
  | [l] => match l with [] => [] | _ => process_line l end
  | l :: rest => process_line l ++ process_lines rest
  end.

(* the submitted lines that reach the file: all of them, in order, except an empty last one. There is no bound on
   their number or on their length anywhere between bbs.CreateArticle and WriteFile (ptttype.MAX_EDIT_LINE is a
   limit of the terminal editor, which is not on this path): Proofs/C09.v shows process_lines = flat_map
   process_line . kept_lines for every list of lines. *)
Fixpoint kept_lines (ls : list (list Z)) : list (list Z) :=
  match ls with
  | [] => []
  | [l] => match l with [] => [] | _ => [l] end
  | l :: rest => l :: kept_lines rest
  end.
Fixpoint ends_empty (ls : list (list Z)) : bool :=      (* the last submitted line exists and is empty *)
  match ls with
  | [] => false
  | [l] => match l with [] => true | _ => false end
  | _ :: rest => ends_empty rest
  end.
(* number of line feeds in a byte string = number of text lines it holds *)
Definition count_nl (s : list Z) : nat := count_occ Z.eq_dec s 10.

(* copy(dst, src) *)
Definition copy_into (dst src : list Z) : list Z :=
  firstn (length dst) src ++ skipn (length src) dst.

Definition le32 (x : Z) : list Z :=
  let u := wrapu32 x in [u mod 256; (u / 256) mod 256; (u / 65536) mod 256; (u / 16777216) mod 256].

(* ------------------------------------------------------------------ dates (types.Time4.Ctime / Cdatemd in Asia/Taipei) *)
Definition TZ_OFFSET : Z := 28800.   (* Asia/Taipei has been UTC+8 without DST since 1980; Proofs/C09.v pins TIME_LOCATION *)

(* civil date from days since 1970-01-01 (proleptic Gregorian) *)
Definition civil (days : Z) : Z * Z * Z :=
  let z := days + 719468 in
  let era := z / 146097 in
  let doe := z - era * 146097 in
  let yoe := (doe - doe / 1460 + doe / 36524 - doe / 146096) / 365 in
  let doy := doe - (365 * yoe + yoe / 4 - yoe / 100) in
  let mp := (5 * doy + 2) / 153 in
  let d := doy - (153 * mp + 2) / 5 + 1 in
  let m := if mp <? 10 then mp + 3 else mp - 9 in
  let y := yoe + era * 400 + (if m <=? 2 then 1 else 0) in
  (y, m, d).

Definition two (n : Z) : list Z := [48 + n / 10; 48 + n mod 10].
Definition sp2 (n : Z) : list Z := if n <? 10 then [32; 48 + n] else two n.
Definition WDAY : list (list Z) :=
  [[83;117;110]; [77;111;110]; [84;117;101]; [87;101;100]; [84;104;117]; [70;114;105]; [83;97;116]].
Definition MONTH : list (list Z) :=
  [[74;97;110]; [70;101;98]; [77;97;114]; [65;112;114]; [77;97;121]; [74;117;110];
   [74;117;108]; [65;117;103]; [83;101;112]; [79;99;116]; [78;111;118]; [68;101;99]].

(* "Mon Jan _2 15:04:05 2006" *)
Definition ctime (t : Z) : list Z :=
  let l := t + TZ_OFFSET in
  let days := l / 86400 in
  let s := l mod 86400 in
  let '(y, m, d) := civil days in
  nth (Z.to_nat ((days + 4) mod 7)) WDAY [] ++ [32] ++ nth (Z.to_nat (m - 1)) MONTH [] ++ [32] ++ sp2 d ++ [32]
  ++ two (s / 3600) ++ [58] ++ two ((s / 60) mod 60) ++ [58] ++ two (s mod 60) ++ [32] ++ print_dec y.

(* Cdatemd: Format("1/02"), padded on the left to 5 characters *)
Definition cdatemd (t : Z) : list Z :=
  let '(y, m, d) := civil ((t + TZ_OFFSET) / 86400) in
  let s := print_dec m ++ [47] ++ two d in
  if (length s =? 4)%nat then 32 :: s else s.

(* the Date field (ptttype.Date_t, 6 bytes) of an index entry whose stamp time is t: fhdrStamp copies nowTS.Cdatemd()
   into the zeroed field *)
Definition date_field_of (t : Z) : list Z := fixlen 6 (cdatemd t).

(* one process asked for the dates of a history of stamp times, in that order (a server that stays up over day, month
   and year boundaries, or whose clock is stepped back): every answer is the date of its own time — Cdatemd keeps
   nothing from one call to the next *)
Definition stamp_dates (ts : list Z) : list (list Z) := map date_field_of ts.

(* ------------------------------------------------------------------ the board directory as a map name -> bytes *)
Definition files := list (list Z * list Z).

Fixpoint lookup (n : list Z) (fs : files) : option (list Z) :=
  match fs with
  | [] => None
  | (k, v) :: r => if bytes_eqb k n then Some v else lookup n r
  end.
Definition fexists (fs : files) (n : list Z) : bool := match lookup n fs with Some _ => true | None => false end.
Fixpoint fs_set (n c : list Z) (fs : files) : files :=
  match fs with
  | [] => [(n, c)]
  | (k, v) :: r => if bytes_eqb k n then (k, c) :: r else (k, v) :: fs_set n c r
  end.
Fixpoint fs_remove (n : list Z) (fs : files) : files :=
  match fs with
  | [] => []
  | (k, v) :: r => if bytes_eqb k n then fs_remove n r else (k, v) :: fs_remove n r
  end.
Definition fs_write0 (n c : list Z) (fs : files) : files :=      (* O_WRONLY|O_CREATE, write at offset 0, no truncation *)
  fs_set n (match lookup n fs with Some old => c ++ skipn (length c) old | None => c end) fs.
Definition fs_append (n c : list Z) (fs : files) : files :=      (* O_APPEND|O_CREATE write *)
  fs_set n (match lookup n fs with Some old => old ++ c | None => c end) fs.
Definition fs_rename (a b : list Z) (fs : files) : files :=       (* rename(2): b is replaced *)
  match lookup a fs with
  | Some c => fs_set b c (fs_remove a fs)
  | None => fs
  end.

(* ------------------------------------------------------------------ Stampfile *)
(* fmt.Sprintf("M.%d.A.%3.3X", nowTS, rnd) *)
Definition stamp_name (t r : Z) : list Z :=
  [77; 46] ++ print_dec t ++ [46; 65; 46] ++ map hexU_char (digitsB 16 3 r).

(* the loop of fhdrStamp(STAMP_FILE): draw, advance the (int32) time, try O_EXCL; [rnds] is the observed
   stream of rand.Intn(4096) results. None = the observed stream ended before a free name was found. *)
Fixpoint stamp (fs : files) (now : Z) (rnds : list Z) : option (Z * Z * list Z) :=
  match rnds with
  | [] => None
  | r :: rest =>
      let now' := wrap32 (now + 1) in
      if fexists fs (stamp_name now' r) then stamp fs now' rest else Some (now', r, rest)
  end.

(* ------------------------------------------------------------------ state *)
Record user := mkUser {
  u_id : list Z;          (* UserID_t, 13 raw bytes *)
  u_nick : list Z;        (* Nickname_t raw bytes *)
  u_priv : bool;          (* holds one of the permissions isTnAllowed accepts (SYSOP, ACCOUNTS, BOARD, BBSADM, VIEWSYSOP, POLICE_MAN, SYS(SUPER)SUBOP) *)
  u_numposts : Z
}.
Record board := mkBoard {
  b_name : list Z;        (* Brdname, raw bytes of the array *)
  b_mods : list Z;        (* indices of the users IsBMCache accepts for this board *)
  b_dir : list Z;         (* bytes of .DIR *)
  b_files : files;        (* every other file of the board directory *)
  b_total : Z             (* Shm.Total[bid-1] *)
}.
Record state := mkState { s_users : list user; s_boards : list board }.

Record req := mkReq {
  q_user : Z; q_board : Z;
  q_class : list Z; q_title : list Z; q_lines : list (list Z); q_ip : list Z;
  (* observed *)
  q_nowA : Z; q_nowH : Z; q_nowB : Z; q_mtime : Z; q_rnds : list Z
}.

Record outcome := mkOut {
  o_idx : Z;              (* 1-based index AppendRecord returned *)
  o_fn : list Z;          (* Filename_t of the index entry, 28 bytes *)
  o_aid : list Z;         (* bbs.ArticleID text *)
  o_entry : list Z        (* the 128 bytes appended to .DIR *)
}.

(* ------------------------------------------------------------------ title *)
(* doPostArticleFullTitle *)
Definition full_title (cls title : list Z) : list Z :=
  match cls with [] => title | _ => [91] ++ cls ++ [93; 32] ++ title end.

(* isTnAnnounce: bytes.HasPrefix(title, TN_ANNOUNCE_BIG5) — total for every title, also one shorter than the tag *)
Definition is_tn_announce (title : list Z) : bool := has_prefix TN_ANNOUNCE_BIG5 title.

(* tnSafeStrip; [allowed_by_role] = the part of isTnAllowed that does not look at the title. The slice
   title[len(tag):] is only taken when the tag is a prefix, so it cannot go out of range. *)
Definition tn_safe_strip (allowed_by_role : bool) (title : list Z) : list Z :=
  if ALLOW_FREE_TN_ANNOUNCE || allowed_by_role || negb (is_tn_announce title) then title
  else skipn (length TN_ANNOUNCE_BIG5) title.

(* ------------------------------------------------------------------ article text *)
Definition header (u : user) (b : board) (title : list Z) (now : Z) : list Z :=
  STR_AUTHOR1_BIG5 ++ [32] ++ cprefix (u_id u) ++ [32; 40] ++ cprefix (u_nick u) ++ [41; 32]
  ++ STR_POST1_BIG5 ++ [32] ++ cprefix (b_name b) ++ [10]
  ++ STR_TITLE_BIG5 ++ [32] ++ title ++ [10]
  ++ STR_TIME_BIG5 ++ [32] ++ ctime now ++ [10; 10].

(* addSimpleSignature, not anonymous; host = CstrToBytes(ip[:]) ++ from, from = fromd.GetFrom = nil *)
Definition ip_host (ip : list Z) : list Z := cprefix (firstn (Z.to_nat (ptttype.IPV4LEN + 1)) ip).
Definition signature (ip : list Z) : list Z :=
  [10; 45; 45; 10] ++ STR_BBS_BIG5 ++ [32] ++ BBSNAME_BIG5 ++ [40] ++ MYHOSTNAME ++ [41; 44; 32]
  ++ STR_FROM_BIG5 ++ [32] ++ ip_host ip ++ [10].

(* GetWebURL (USE_AID_URL = false) and the line DoPostArticle appends *)
Definition url_line (b : board) (fn : list Z) : list Z :=
  if QUERY_ARTICLE_URL then
    STR_URL_DISPLAYNAME_BIG5 ++ [32] ++ URL_PREFIX ++ [47] ++ cprefix (b_name b) ++ [47]
    ++ (if USE_AID_URL then cprefix (aidu_to_aidc (fn_to_aidu fn)) else cprefix fn ++ [46; 104; 116; 109; 108]) ++ [10]
  else [].

Definition article_text (u : user) (b : board) (title : list Z) (nowH : Z) (lines : list (list Z)) (ip : list Z) : list Z :=
  header u b title nowH ++ process_lines lines ++ signature ip.

(* ------------------------------------------------------------------ index entry (ptttype.FileHeaderRaw, 128 bytes) *)
(* Multi stays zero: FileHeaderRaw.SetMoney writes into a bytes.Buffer that reallocates, not into the field *)
Definition mk_entry (fn : list Z) (mtime : Z) (owner13 date title : list Z) : list Z :=
  fn ++ le32 mtime ++ [0; 0]
  ++ copy_into (repeat 0 (Z.to_nat (ptttype.IDLEN + 2))) owner13
  ++ date
  ++ copy_into (repeat 0 (Z.to_nat (ptttype.TTLEN + 1))) title
  ++ [0] ++ [0; 0; 0; 0] ++ [0] ++ [0; 0; 0].

(* cmsys.AppendRecord: the record goes to offset (size / sz) * sz *)
Definition append_rec (f rec : list Z) : list Z :=
  firstn (Z.to_nat ((lenZ f / lenZ rec) * lenZ rec)) f ++ rec.

(* ------------------------------------------------------------------ DoPostArticle, success path *)
Definition allowed_by_role (ui : Z) (u : user) (b : board) : bool :=
  u_priv u || memb ui (b_mods b).

Definition post_on (role_ok : bool) (u : user) (b : board) (q : req) : res (user * board * outcome) :=
  match stamp (b_files b) (q_nowA q) (q_rnds q) with
  | None => Hang
  | Some (t1, r1, rnds1) =>
      let name1 := stamp_name t1 r1 in
      let fn1 := copy_into (repeat 0 (Z.to_nat ptttype.FNLEN)) name1 in
      let date1 := copy_into (repeat 0 6) (cdatemd t1) in
      let fs1 := fs_set name1 [] (b_files b) in
      let title := tn_safe_strip role_ok (full_title (q_class q) (q_title q)) in
      let fs2 := fs_write0 name1 (article_text u b title (q_nowH q) (q_lines q) (q_ip q)) fs1 in
      match stamp fs2 (q_nowB q) rnds1 with
      | None => Hang
      | Some (t2, r2, _) =>
          let name2 := stamp_name t2 r2 in
          let fn2 := copy_into fn1 name2 in
          let date2 := copy_into date1 (cdatemd t2) in
          let fs3 := fs_set name2 [] fs2 in
          let fs4 := fs_append name1 (url_line b fn2) fs3 in
          let entry := mk_entry fn2 (q_mtime q) (u_id u) date2 title in
          let dir' := append_rec (b_dir b) entry in
          let fs5 := fs_rename name1 name2 fs4 in
          let total' := wrap32 (lenZ dir' / ptttype.FILE_HEADER_RAW_SZ) in
          Ok (mkUser (u_id u) (u_nick u) (u_priv u) (wrapu32 (u_numposts u + 1)),
              mkBoard (b_name b) (b_mods b) dir' fs5 total',
              mkOut (lenZ (b_dir b) / lenZ entry + 1) fn2 (fn_to_articleid fn2) entry)
      end
  end.

Definition dflt_user : user := mkUser [] [] false 0.
Definition dflt_board : board := mkBoard [] [] [] [] 0.

Fixpoint upd {A} (n : nat) (x : A) (l : list A) : list A :=
  match l, n with
  | [], _ => []
  | _ :: r, O => x :: r
  | a :: r, S n' => a :: upd n' x r
  end.

Definition req_ok (st : state) (q : req) : bool :=
  (0 <=? q_user q) && (q_user q <? lenZ (s_users st)) && (0 <=? q_board q) && (q_board q <? lenZ (s_boards st)).

Definition post (st : state) (q : req) : res (state * outcome) :=
  let ui := Z.to_nat (q_user q) in
  let bi := Z.to_nat (q_board q) in
  let u := nth ui (s_users st) dflt_user in
  let b := nth bi (s_boards st) dflt_board in
  match post_on (allowed_by_role (q_user q) u b) u b q with
  | Ok (u', b', o) => Ok (mkState (upd ui u' (s_users st)) (upd bi b' (s_boards st)), o)
  | Crash => Crash
  | Hang => Hang
  end.

Fixpoint post_seq (st : state) (qs : list req) : res (state * list outcome) :=
  match qs with
  | [] => Ok (st, [])
  | q :: rest =>
      match post st q with
      | Ok (st', o) => match post_seq st' rest with
                       | Ok (st'', os) => Ok (st'', o :: os)
                       | Crash => Crash
                       | Hang => Hang
                       end
      | Crash => Crash
      | Hang => Hang
      end
  end.

(* ------------------------------------------------------------------ cache.SetBTotal and the shared memory around it *)
(* Filename_t.CreateTime: strconv.Atoi(string(f[2:12])) converted to Time4 (int32); None = the error return *)
Definition create_time (fn : list Z) : option Z :=
  match atoi (firstn 10 (skipn 2 fn)) with Some v => Some (wrap32 v) | None => None end.

(* cache.SetBTotal (cache/cache_board.go) on the bytes of the board's .DIR: what it leaves in Shm.Total and
   Shm.LastPostTime of the board ([old_last] = LastPostTime before the call) and whether it returns an error.
   Total is written first and unconditionally; LastPostTime is 0 for an empty index and for a newest entry named
   FN_SAFEDEL, otherwise the create time in the newest entry's name; when that name does not parse the error is
   returned with LastPostTime untouched. It reads NOTHING else: not Shm.BBusyState (the flag of ReloadBCache /
   SortBCache), not Shm.BusyStateB (the flag of ResetBoard), not the old Total. *)
Definition set_btotal (dir : list Z) (old_last : Z) : Z * Z * bool :=
  let n := wrap32 (lenZ dir / ptttype.FILE_HEADER_RAW_SZ) in
  if n =? 0 then (n, 0, false)
  else
    let fn := firstn (Z.to_nat ptttype.FNLEN) (skipn (Z.to_nat ((n - 1) * ptttype.FILE_HEADER_RAW_SZ)) dir) in
    if bytes_eqb (cprefix fn) FN_SAFEDEL then (n, 0, false)
    else match create_time fn with
         | Some t => (n, t, false)
         | None => (n, old_last, true)
         end.

(* the part of the shared memory of the board cache that a post request can find in any condition: the global busy
   flag (left set for good by a loader that went away between setting and clearing it), the per-board busy stamps,
   and LastPostTime; Shm.Total is b_total of the board *)
Record shm := mkShm {
  sh_bbusy : Z;            (* Shm.BBusyState *)
  sh_busyb : list Z;       (* Shm.BusyStateB[bid-1], per scenario board *)
  sh_lastpost : list Z     (* Shm.LastPostTime[bid-1], per scenario board *)
}.

Definition with_total (b : board) (n : Z) : board := mkBoard (b_name b) (b_mods b) (b_dir b) (b_files b) n.

(* DoPostArticle with that shared memory made explicit: the post itself, then SetBTotal on the index as it is after
   AppendRecord. The bool is the error return of SetBTotal (DoPostArticle would pass it on). *)
Definition post_shm (sh : shm) (st : state) (q : req) : res (shm * state * outcome * bool) :=
  match post st q with
  | Ok (st', o) =>
      let bi := Z.to_nat (q_board q) in
      let b' := nth bi (s_boards st') dflt_board in
      let '(n, t, err) := set_btotal (b_dir b') (nth bi (sh_lastpost sh) 0) in
      Ok (mkShm (sh_bbusy sh) (sh_busyb sh) (upd bi t (sh_lastpost sh)),
          mkState (s_users st') (upd bi (with_total b' n) (s_boards st')), o, err)
  | Crash => Crash
  | Hang => Hang
  end.

Fixpoint post_seq_shm (sh : shm) (st : state) (qs : list req) : res (shm * state * list outcome * bool) :=
  match qs with
  | [] => Ok (sh, st, [], false)
  | q :: rest =>
      match post_shm sh st q with
      | Ok (sh', st', o, false) =>
          match post_seq_shm sh' st' rest with
          | Ok (sh'', st'', os, e) => Ok (sh'', st'', o :: os, e)
          | Crash => Crash
          | Hang => Hang
          end
      | Ok (sh', st', o, true) => Ok (sh', st', [o], true)
      | Crash => Crash
      | Hang => Hang
      end
  end.

(* bbs.GetArticle -> ptt.ReadPost: the article id is decoded to a Filename_t, the file of that name is read *)
Definition fetch (b : board) (aid : list Z) : res (option (list Z)) :=
  match articleid_to_fn aid with
  | Ok fn => Ok (if (nth 0 fn 0 =? 76) || (nth 0 fn 0 =? 0) then None else lookup (cprefix fn) (b_files b))
  | Crash => Crash
  | Hang => Hang
  end.

(* ------------------------------------------------------------------ wire *)
(* blob = n b1 .. bn *)
(* the first n elements and the rest, None when there are fewer; one pass over the n elements only (bodies of
   thousands of lines are decoded blob by blob: measuring the whole remaining input for each would be quadratic) *)
Fixpoint take_z (l : list Z) (n : Z) : option (list Z * list Z) :=
  if n <=? 0 then Some ([], l)
  else match l with
       | [] => None
       | x :: r => match take_z r (n - 1) with Some (a, rest) => Some (x :: a, rest) | None => None end
       end.
Definition take_blob (l : list Z) : option (list Z * list Z) :=
  match l with
  | [] => None
  | n :: r => if 0 <=? n then take_z r n else None
  end.
Fixpoint take_blobs (k : nat) (l : list Z) : option (list (list Z)) :=
  match k with
  | O => match l with [] => Some [] | _ => None end
  | S k' => match take_blob l with
            | None => None
            | Some (b, r) => match take_blobs k' r with None => None | Some bs => Some (b :: bs) end
            end
  end.
(* count, then that many blobs *)
Definition dec_blobs (l : list Z) : option (list (list Z)) :=
  match l with
  | [] => None
  | n :: r => if (0 <=? n) && (n <=? lenZ r) then take_blobs (Z.to_nat n) r else None
  end.
Fixpoint pair_up (l : list (list Z)) : option files :=
  match l with
  | [] => Some []
  | n :: c :: r => match pair_up r with Some fs => Some ((n, c) :: fs) | None => None end
  | _ => None
  end.
Definition dec_files (l : list Z) : option files :=
  match l with
  | [] => None
  | n :: r => if (0 <=? n) && (2 * n <=? lenZ r) then
                match take_blobs (Z.to_nat (2 * n)) r with Some bs => pair_up bs | None => None end
              else None
  end.

Definition enc_blob (b : list Z) : list Z := lenZ b :: b.
Definition enc_files (fs : files) : list Z :=
  lenZ fs :: flat_map (fun kv => enc_blob (fst kv) ++ enc_blob (snd kv)) fs.

(* users: 3 groups each  [priv numposts] id nick
   boards: 4 groups each [total mod1 mod2 ..] name dir files
   posts: 6 groups each  [user board nowA nowH nowB mtime] rnds class title lines ip *)
Fixpoint dec_users (k : nat) (g : list (list Z)) : option (list user * list (list Z)) :=
  match k with
  | O => Some ([], g)
  | S k' => match g with
            | [p; np] :: id :: nick :: r =>
                match dec_users k' r with
                | Some (us, r') => Some (mkUser id nick (negb (p =? 0)) np :: us, r')
                | None => None
                end
            | _ => None
            end
  end.
Fixpoint dec_boards (k : nat) (g : list (list Z)) : option (list board * list (list Z)) :=
  match k with
  | O => Some ([], g)
  | S k' => match g with
            | (tot :: mods) :: name :: dir :: fe :: r =>
                match dec_files fe, dec_boards k' r with
                | Some fs, Some (bs, r') => Some (mkBoard name mods dir fs tot :: bs, r')
                | _, _ => None
                end
            | _ => None
            end
  end.
Fixpoint dec_reqs (k : nat) (g : list (list Z)) : option (list req) :=
  match k with
  | O => match g with [] => Some [] | _ => None end
  | S k' => match g with
            | [ui; bi; nA; nH; nB; mt] :: rnds :: cls :: title :: le :: ip :: r =>
                match dec_blobs le, dec_reqs k' r with
                | Some ls, Some qs => Some (mkReq ui bi cls title ls ip nA nH nB mt rnds :: qs)
                | _, _ => None
                end
            | _ => None
            end
  end.

Definition enc_out (o : outcome) : list Z := o_idx o :: enc_blob (o_fn o) ++ enc_blob (o_aid o).
Definition enc_board (b : board) : list Z := b_total b :: enc_blob (b_dir b) ++ enc_files (b_files b).
Definition enc_result (r : state * list outcome) : list Z :=
  let '(st, os) := r in
  lenZ os :: flat_map enc_out os
  ++ lenZ (s_users st) :: map u_numposts (s_users st)
  ++ lenZ (s_boards st) :: flat_map enc_board (s_boards st).

Definition small (n : Z) : bool := (0 <=? n) && (n <=? 64).

Definition wire_shm (r : res (shm * state * list outcome * bool)) : list Z :=
  match r with
  | Ok (sh, st, os, false) => ST_OK :: enc_result (st, os) ++ sh_bbusy sh :: sh_busyb sh ++ sh_lastpost sh
  | Ok (_, _, _, true) => [ST_ERR; 1]
  | Crash => [ST_CRASH]
  | Hang => [ST_HANG]
  end.

(* op 1: [1]; [nusers nboards nposts]; users; boards; posts  ->  outcomes, numposts, boards
   op 2: [2]; [total]; name; dir; files; aid               ->  0 absent / 1 content
   op 3: [3]; [nusers nboards nposts]; [bbusystate busystateb..]; [lastposttime..]; users; boards; posts
                                                           ->  outcomes, numposts, boards, bbusystate, busystateb.., lastposttime..
   op 4: [4]; [t..]                                        ->  the 6-byte date fields of the times, in order (stamp_dates) *)
Definition run_case (args : list (list Z)) : list Z :=
  match args with
  | [3] :: [nu; nb; np] :: (bbusy :: busyb) :: lastpost :: g =>
      if small nu && small nb && small np && (lenZ busyb =? nb) && (lenZ lastpost =? nb) then
        match dec_users (Z.to_nat nu) g with
        | None => [ST_BADCASE]
        | Some (us, g1) =>
            match dec_boards (Z.to_nat nb) g1 with
            | None => [ST_BADCASE]
            | Some (bs, g2) =>
                match dec_reqs (Z.to_nat np) g2 with
                | None => [ST_BADCASE]
                | Some qs =>
                    let st := mkState us bs in
                    if forallb (req_ok st) qs then wire_shm (post_seq_shm (mkShm bbusy busyb lastpost) st qs) else [ST_BADCASE]
                end
            end
        end
      else [ST_BADCASE]
  | [1] :: [nu; nb; np] :: g =>
      if small nu && small nb && small np then
        match dec_users (Z.to_nat nu) g with
        | None => [ST_BADCASE]
        | Some (us, g1) =>
            match dec_boards (Z.to_nat nb) g1 with
            | None => [ST_BADCASE]
            | Some (bs, g2) =>
                match dec_reqs (Z.to_nat np) g2 with
                | None => [ST_BADCASE]
                | Some qs =>
                    let st := mkState us bs in
                    if forallb (req_ok st) qs then wire enc_result (post_seq st qs) else [ST_BADCASE]
                end
            end
        end
      else [ST_BADCASE]
  | [[4]; ts] => ST_OK :: concat (stamp_dates ts)
  | [[2]; [tot]; name; dir; fe; aid] =>
      match dec_files fe with
      | None => [ST_BADCASE]
      | Some fs => wire (fun o => match o with Some c => 1 :: c | None => [0] end) (fetch (mkBoard name [] dir fs tot) aid)
      end
  | _ => [ST_BADCASE]
  end.
