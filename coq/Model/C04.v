(* C04 — the user-ID index in shared memory. Executable model of cache/cache_user.go (AddToUHash,
   RemoveFromUHash, SetUserID, SearchUserRaw, DoSearchUserRaw, GetUserID), cache/uhash_loader.go
   (LoadUHash, fillUHash, userecRawAddToUHash, InitFillUHash, checkHash), the attach handshake of
   cache/shm.go (NewSHM) and cmsys.StringHashWithHashBits (case-folded FNV-1a reduced to HASH_BITS).
   Arrays are total maps with point update; Go's bounds checks are explicit ([Crash]); the loader's
   unbounded loops run on fuel ([Hang] when it runs out).
   types.Cstrcmp(a,b) == 0 and types.Cstrcasecmp(a,b) == 0 on two USER_ID_SZ-byte arrays are re-specified as
   equality of the (lower-cased) bytes before the first NUL (those functions are the subject of C18). *)
From Verif Require Import Base.Common Base.TMap Gen.Consts_default.
From Verif Require Gen.Consts_docker.

(* The constants the index depends on. The model and every theorem are parametric in them (Section Cfg below, [Context {K : consts}]); the two build
   configurations of the repository instantiate them from the regenerated Gen/Consts_default.v (MAX_USERS 50) and Gen/Consts_docker.v (-tags docker,
   the production build: MAX_USERS 2 000 000 > PRE_ALLOCATED_USERS 1000 and > 2^HASH_BITS).
   FUEL_MAXU / FUEL_LOADER are Z.to_nat MAXU and its successor (consts_ok in Proofs/C04_chain.v); they are fields so that the extracted program builds
   these unary numbers once and not in every call. *)
Class consts : Type := mkconsts {
  MAXU : Z;             (* ptttype.MAX_USERS *)
  HASHBITS : Z;         (* ptttype.HASH_BITS *)
  PREALLOC : Z;         (* cache.PRE_ALLOCATED_USERS *)
  SHMVER : Z;           (* cache.SHM_VERSION *)
  SHMSZ : Z;            (* cache.SHM_RAW_SZ *)
  FUEL_MAXU : nat;      (* the loops bounded by times < MAX_USERS *)
  FUEL_LOADER : nat }.  (* the loader's unbounded walks: a cycle-free chain has at most MAX_USERS nodes *)
Definition K_default : consts :=
  mkconsts ptttype.MAX_USERS ptttype.HASH_BITS cache.PRE_ALLOCATED_USERS cache.SHM_VERSION cache.SHM_RAW_SZ
           (Z.to_nat ptttype.MAX_USERS) (S (Z.to_nat ptttype.MAX_USERS)).
Definition K_docker : consts :=
  mkconsts Gen.Consts_docker.ptttype.MAX_USERS Gen.Consts_docker.ptttype.HASH_BITS Gen.Consts_docker.cache.PRE_ALLOCATED_USERS
           Gen.Consts_docker.cache.SHM_VERSION Gen.Consts_docker.cache.SHM_RAW_SZ
           (Z.to_nat Gen.Consts_docker.ptttype.MAX_USERS) (S (Z.to_nat Gen.Consts_docker.ptttype.MAX_USERS)).

(* identical in both configurations (Proofs/C04.v: consts_shared) *)
Definition IDSZ : nat := Z.to_nat ptttype.USER_ID_SZ.
Definition IDLEN : Z := ptttype.IDLEN.

Section Cfg.
Context {K : consts}.
Definition HASHN : Z := 2 ^ HASHBITS.

(* ---------------------------------------------------------------- IDs and their hash *)
Definition toupper (c : Z) : Z := if (97 <=? c) && (c <=? 122) then c - 32 else c.
Definition tolower (c : Z) : Z := if (65 <=? c) && (c <=? 90) then c + 32 else c.

(* fnv1a32StrCase: stops at NUL; hval ^= toupper(c); hval *= FNV_32_PRIME (uint32) *)
Fixpoint fnv1a_case (l : list Z) (h : Z) : Z :=
  match l with
  | [] => h
  | c :: r => if c =? 0 then h else fnv1a_case r (wrapu32 (Z.lxor h (toupper c) * cmsys.FNV_32_PRIME))
  end.
(* StringHashWithHashBits *)
Definition uhash (id : list Z) : Z := fnv1a_case id cmsys.FNV1_32_INIT mod HASHN.

Fixpoint zlist_eqb (a b : list Z) : bool :=
  match a, b with
  | [], [] => true
  | x :: a', y :: b' => (x =? y) && zlist_eqb a' b'
  | _, _ => false
  end.
Definition cstr_eq (a b : list Z) : bool := zlist_eqb (cprefix a) (cprefix b).                             (* Cstrcmp == 0 *)
Definition id_eq_ci (a b : list Z) : bool := zlist_eqb (map tolower (cprefix a)) (map tolower (cprefix b)).  (* Cstrcasecmp == 0 *)

Definition isalpha (c : Z) : bool := ((65 <=? c) && (c <=? 90)) || ((97 <=? c) && (c <=? 122)).
Definition isalnum (c : Z) : bool := isalpha c || ((48 <=? c) && (c <=? 57)).
(* UserID_t.IsValid *)
Definition is_valid_id (id : list Z) : bool :=
  let n := lenZ (cprefix id) in
  (2 <=? n) && (n <=? IDLEN) && isalpha (nth 0 id 0) && forallb isalnum (cprefix id).

Definition EMPTY_ID : list Z := repeat 0 IDSZ.

(* ---------------------------------------------------------------- state *)
Record st : Type := mkst {
  head : tmap Z;            (* HashHead[1 << HASH_BITS] *)
  next : tmap Z;            (* NextInHash[MAX_USERS] *)
  ids : tmap (list Z);      (* Userid[MAX_USERS] *)
  number : Z;
  loaded : Z }.

Definition in_range (v : Z) : bool := (0 <=? v) && (v <? MAXU).
Definition set_head (s : st) (p v : Z) : st := mkst (tset (head s) p v) (next s) (ids s) (number s) (loaded s).
Definition set_next (s : st) (p v : Z) : st := mkst (head s) (tset (next s) p v) (ids s) (number s) (loaded s).
Definition set_id (s : st) (p : Z) (id : list Z) : st := mkst (head s) (next s) (tset (ids s) p id) (number s) (loaded s).
(* *p = v where p is &HashHead[p] (no hop taken yet) or &NextInHash[p] *)
Definition set_link (s : st) (isnext : bool) (p v : Z) : st := if isnext then set_next s p v else set_head s p v.

Definition ERR_ADD : Z := 1.
Definition ERR_REMOVE : Z := 2.
Definition ERR_INVALID_UID : Z := 3.

(* ---------------------------------------------------------------- AddToUHash *)
(* for ; times < MAX_USERS && val != -1; times++ { isNext = true; p = val; val = NextInHash[p] }   None: times >= MAX_USERS *)
Fixpoint add_walk (fuel : nat) (nx : tmap Z) (isnext : bool) (p val : Z) : res (option (bool * Z)) :=
  match fuel with
  | O => Ok None
  | S f => if val =? -1 then Ok (Some (isnext, p))
           else if in_range val then add_walk f nx true val (tget nx val) else Crash
  end.
Definition add_to_uhash (s : st) (slot : Z) (id : list Z) : res (st * Z) :=
  if negb (in_range slot) then Crash
  else
    let h := uhash id in
    let s1 := set_id s slot id in
    match add_walk FUEL_MAXU (next s1) false h (tget (head s1) h) with
    | Ok None => Ok (s1, ERR_ADD)
    | Ok (Some (isnext, p)) => Ok (set_next (set_link s1 isnext p slot) slot (-1), 0)
    | Crash => Crash
    | Hang => Hang
    end.

(* ---------------------------------------------------------------- RemoveFromUHash *)
Fixpoint rm_walk (fuel : nat) (nx : tmap Z) (slot : Z) (isnext : bool) (p val : Z) : res (option (bool * Z * Z)) :=
  match fuel with
  | O => Ok None
  | S f => if (val =? -1) || (val =? slot) then Ok (Some (isnext, p, val))
           else if in_range val then rm_walk f nx slot true val (tget nx val) else Crash
  end.
Definition remove_from_uhash (s : st) (slot : Z) : res (st * Z) :=
  if negb (in_range slot) then Crash
  else
    let h := uhash (tget (ids s) slot) in
    match rm_walk FUEL_MAXU (next s) slot false h (tget (head s) h) with
    | Ok None => Ok (s, ERR_REMOVE)
    | Ok (Some (isnext, p, val)) =>
        if val =? slot then Ok (set_link s isnext p (tget (next s) slot), 0) else Ok (s, 0)
    | Crash => Crash
    | Hang => Hang
    end.

(* ---------------------------------------------------------------- SetUserID *)
Definition set_user_id (s : st) (uid : Z) (id : list Z) : res (st * Z) :=
  if (uid <=? 0) || (MAXU <? uid) then Ok (s, ERR_INVALID_UID)
  else
    match remove_from_uhash s (uid - 1) with
    | Ok (s1, e1) =>
        match add_to_uhash s1 (uid - 1) id with
        | Ok (s2, e2) => Ok (s2, if negb (e1 =? 0) then e1 else e2)
        | Crash => Crash
        | Hang => Hang
        end
    | Crash => Crash
    | Hang => Hang
    end.

(* ---------------------------------------------------------------- SearchUserRaw / DoSearchUserRaw / GetUserID *)
(* returns (uid, the slot whose id matched, for rightID) *)
Fixpoint search_walk (fuel : nat) (s : st) (q : list Z) (p : Z) : res Z :=
  match fuel with
  | O => Ok 0
  | S f => if (p =? -1) || (MAXU <=? p) then Ok 0
           else if p <? 0 then Crash
           else if id_eq_ci q (tget (ids s) p) then Ok (p + 1)
           else search_walk f s q (tget (next s) p)
  end.
Definition do_search_user_raw (s : st) (q : list Z) : res Z :=
  search_walk FUEL_MAXU s q (tget (head s) (uhash q)).
Definition search_user_raw (s : st) (q : list Z) : res Z :=
  if nth 0 q 0 =? 0 then Ok 0 else do_search_user_raw s q.
(* what is copied into rightID *)
Definition right_id (s : st) (q : list Z) (uid : Z) : list Z :=
  if (uid =? 0) || (nth 0 q 0 =? 0) then EMPTY_ID else tget (ids s) (uid - 1).

Definition get_user_id (s : st) (uid : Z) : option (list Z) :=
  if in_range (uid - 1) then Some (tget (ids s) (uid - 1)) else None.

(* ---------------------------------------------------------------- loader *)
(* checkHash(h): for val != -1 { ... }  — unbounded in the code *)
Fixpoint check_walk (fuel : nat) (s : st) (h : Z) (isnext : bool) (p val : Z) : res st :=
  match fuel with
  | O => Hang
  | S f =>
      if val =? -1 then Ok s
      else if (val <? -1) || (MAXU <=? val) then Ok (set_link s isnext p (-1))
      else if negb (uhash (tget (ids s) val) =? h)
           then let nxt := tget (next s) val in check_walk f (set_link s isnext p nxt) h isnext p nxt
           else check_walk f s h true val (tget (next s) val)
  end.
Definition check_hash (s : st) (h : Z) : res st := check_walk FUEL_LOADER s h false h (tget (head s) h).
Fixpoint check_from (n : nat) (h : Z) (s : st) : res st :=
  match n with
  | O => Ok s
  | S n' => match check_hash s h with Ok s1 => check_from n' (h + 1) s1 | Crash => Crash | Hang => Hang end
  end.
(* InitFillUHash *)
Definition init_fill (s : st) (onfly : bool) : res st :=
  if onfly then check_from (Z.to_nat HASHN) 0 s
  else Ok (mkst (tconst (-1)) (next s) (ids s) (number s) (loaded s)).

(* the walk of userecRawAddToUHash: for val >= 0 && val < MAX_USERS { if onfly && val == i return; p = val; val = Next[p] }
   None: already in hash *)
Fixpoint load_walk (fuel : nat) (nx : tmap Z) (onfly : bool) (i : Z) (isnext : bool) (p val : Z) : res (option (bool * Z)) :=
  match fuel with
  | O => Hang
  | S f => if in_range val
           then if onfly && (val =? i) then Ok None else load_walk f nx onfly i true val (tget nx val)
           else Ok (Some (isnext, p))
  end.
(* userecRawAddToUHash(i, record with this id); cnt = uHashLoaderInvalidUserID *)
Definition userec_add (s : st) (cnt : Z) (i : Z) (id : list Z) (onfly : bool) : res (st * Z) :=
  let cnt1 := if is_valid_id id then cnt else cnt + 1 in
  if negb (is_valid_id id) && (PREALLOC <? cnt1) then Ok (s, cnt1)
  else if negb (in_range i) then Crash                       (* &Shm.Shm.Userid[uidInCache] *)
  else
    let h := uhash id in
    let s1 := if negb onfly || negb (cstr_eq id (tget (ids s) i)) then set_id s i id else s in
    match load_walk FUEL_LOADER (next s1) onfly i false h (tget (head s1) h) with
    | Ok None => Ok (s1, cnt1)
    | Ok (Some (isnext, p)) => Ok (set_next (set_link s1 isnext p i) i (-1), cnt1)
    | Crash => Crash
    | Hang => Hang
    end.
Fixpoint fill_records (s : st) (cnt : Z) (i : Z) (recs : list (list Z)) (onfly : bool) : res st :=
  match recs with
  | [] => Ok s
  | id :: r => match userec_add s cnt i id onfly with
               | Ok (s1, cnt1) => fill_records s1 cnt1 (i + 1) r onfly
               | Crash => Crash
               | Hang => Hang
               end
  end.
(* fillUHash: .PASSWDS is the list of the IDs of its records *)
Definition fill_uhash (s : st) (recs : list (list Z)) (onfly : bool) : res st :=
  match init_fill s onfly with
  | Ok s0 => match fill_records s0 0 0 recs onfly with
             | Ok s1 => Ok (mkst (head s1) (next s1) (ids s1) (lenZ recs) (loaded s1))
             | Crash => Crash
             | Hang => Hang
             end
  | Crash => Crash
  | Hang => Hang
  end.
(* LoadUHash. The cold-load decision reads Shm.Shm.Number and Shm.Shm.Loaded, i.e. the SEGMENT, and nothing that is local to
   the calling process. *)
Definition load_uhash (s : st) (recs : list (list Z)) : res st :=
  if (number s =? 0) && (loaded s =? 0)
  then match fill_uhash s recs false with
       | Ok s1 => Ok (mkst (head s1) (next s1) (ids s1) (number s1) 1)
       | Crash => Crash
       | Hang => Hang
       end
  else fill_uhash s recs true.

(* The process-local part of cache.SHM: IsNew says whether THIS process created the segment (shmget with IPC_EXCL succeeded).
   LoadUHash as coded does not consult it: whoever calls it - the creator, or a process that attached to a segment somebody
   else created (and possibly never loaded) - takes the branch the segment's Number / Loaded select. *)
Record proc : Type := mkproc { p_is_new : bool }.
Definition creator : proc := mkproc true.
Definition load_uhash_by (p : proc) (s : st) (recs : list (list Z)) : res st := load_uhash s recs.

(* BBSHOME/.PASSWDS as a directory entry: the table itself, or a symbolic link to another entry (a BBSHOME file linked into a data volume).
   The loader opens the PATH and reads what the path resolves to; everything it learns about the table - how many records, which ids -
   is a property of the resolved file, never of the entry (a link's own "size" is the length of its target string). *)
Inductive pfile : Type := PRegular (recs : list (list Z)) | PLink (target : pfile).
Fixpoint presolve (e : pfile) : list (list Z) := match e with PRegular r => r | PLink t => presolve t end.
Fixpoint plink (n : nat) (r : list (list Z)) : pfile := match n with O => PRegular r | S k => PLink (plink k r) end.
(* the harness's op 33: 0 regular file, 1 link with an absolute target, 2 link with a relative target, 3 link to a link *)
Definition passwd_entry (mode : Z) (r : list (list Z)) : pfile :=
  plink (if mode =? 0 then 0%nat else if mode =? 3 then 2%nat else 1%nat) r.
(* LoadUHash by process p when BBSHOME/.PASSWDS is the entry e *)
Definition load_passwd_by (p : proc) (s : st) (e : pfile) : res st := load_uhash_by p s (presolve e).

(* Shm.Reset(): everything zero *)
Definition reset_st : st := mkst (tconst 0) (tconst 0) (tconst EMPTY_ID) 0 0.
(* Number = 0; Loaded = 0 while the rest of the segment keeps its content: the next LoadUHash is a cold load *)
Definition unload (s : st) : st := mkst (head s) (next s) (ids s) 0 0.

(* ---------------------------------------------------------------- attach (NewSHM with isCreate = false) *)
Record segment : Type := mkseg { seg_version : Z; seg_size : Z; seg_body : st }.
Inductive attach_result : Type := Attached (view : st) | ErrShmVersion | ErrShmSize.
Definition attach (g : segment) : attach_result :=
  if negb (seg_version g =? SHMVER) then ErrShmVersion
  else if negb (seg_size g =? SHMSZ) then ErrShmSize
  else Attached (seg_body g).
(* NewSHM on a key whose segment exists already, by a second process: with isCreate = false it is shm.OpenShm; with isCreate = true
   shm.CreateShm gets EEXIST from the IPC_EXCL shmget and retries without it. Either way isNew = false, the header is NOT
   rewritten, and the version / size handshake decides. *)
Definition new_shm_existing (is_create : bool) (g : segment) : proc * attach_result := (mkproc false, attach g).
(* NewSHM(isCreate = true) on a key without segment: the kernel hands out zeroed memory, the creator writes the header
   (Version, Size, Number = 0, Loaded = 0): the created-but-not-yet-loaded segment *)
Definition new_shm_create : proc * segment := (creator, mkseg SHMVER SHMSZ reset_st).

(* ---------------------------------------------------------------- observation *)
(* the chain of bucket h as the harness walks it: slots, then -1 (proper end), -2 (link out of range) or -3 (longer than MAX_USERS) *)
Fixpoint obs_walk (fuel : nat) (nx : tmap Z) (val : Z) : list Z * Z :=
  match fuel with
  | O => ([], -3)
  | S f => if val =? -1 then ([], -1)
           else if in_range val then let '(l, e) := obs_walk f nx (tget nx val) in (val :: l, e)
           else ([], -2)
  end.
Definition obs_chain (s : st) (h : Z) : list Z :=
  let '(l, e) := obs_walk FUEL_LOADER (next s) (tget (head s) h) in
  if e =? -3 then [h; 0; -3] else h :: lenZ l :: l ++ [e].
(* number of buckets whose head is not -1 *)
Definition nonempty_heads (s : st) : Z :=
  let ks := filter (fun k => (0 <=? k) && (k <? HASHN)) (tkeys (head s)) in
  if tdefault (head s) =? -1
  then lenZ (filter (fun k => negb (tget (head s) k =? -1)) ks)
  else HASHN - lenZ (filter (fun k => tget (head s) k =? -1) ks).

(* hslots: the slots whose ids the harness prints (op 32; None: all MAX_USERS of them) *)
Record hst : Type := mkh { hs : st; hfile : list (list Z); hbattery : list (list Z); hbuckets : list Z; hslots : option (list Z) }.

Definition observe (x : hst) : list Z :=
  let s := hs x in
  [number s; loaded s; nonempty_heads s; lenZ (hbuckets x)]
  ++ flat_map (obs_chain s) (hbuckets x)
  ++ match hslots x with
     | None => flat_map (fun i => tget (ids s) (Z.of_nat i)) (seq 0 (Z.to_nat MAXU))
     | Some l => flat_map (fun i => tget (ids s) i) l
     end
  ++ lenZ (hbattery x) :: map (fun q => match search_user_raw s q with Ok v => v | Crash => -1 | Hang => -2 end) (hbattery x).

(* ---------------------------------------------------------------- wire *)
Fixpoint chunks (fuel : nat) (l : list Z) : list (list Z) :=
  match fuel with
  | O => []
  | S f => match l with [] => [] | _ => fixlen IDSZ l :: chunks f (skipn IDSZ l) end
  end.
Definition ids_of (l : list Z) : list (list Z) := chunks (length l) l.

(* op 24: a .PASSWDS of n records, the empty id everywhere except at the listed slots: n (slot id)* *)
Fixpoint sparse_pairs (fuel : nat) (l : list Z) : option (list (Z * list Z)) :=
  match fuel with
  | O => None
  | S f => match l with
           | [] => Some []
           | slot :: r => if (length r <? IDSZ)%nat then None
                          else match sparse_pairs f (skipn IDSZ r) with
                               | Some ps => Some ((slot, firstn IDSZ r) :: ps)
                               | None => None
                               end
           end
  end.
Fixpoint sparse_build (fuel : nat) (i : Z) (m : tmap (list Z)) : list (list Z) :=
  match fuel with O => [] | S f => tget m i :: sparse_build f (i + 1) m end.
Definition sparse_file (n : Z) (b : list Z) : option (list (list Z)) :=
  if (n <? 0) || (MAXU + 8 <? n) then None
  else match sparse_pairs (S (length b)) b with
       | Some ps => if forallb (fun p => (0 <=? fst p) && (fst p <? n)) ps
                    then Some (sparse_build (Z.to_nat n) 0 (fold_left (fun m p => tset m (fst p) (snd p)) ps (tconst EMPTY_ID)))
                    else None
       | None => None
       end.

Definition ret (x : hst) (r : res (st * Z)) (extra : list Z) : option (hst * list Z) :=
  match r with
  | Ok (s1, e) => Some (mkh s1 (hfile x) (hbattery x) (hbuckets x) (hslots x), (if e =? 0 then 0 else 3) :: e :: extra)
  | Crash => Some (x, 1 :: 0 :: extra)
  | Hang => Some (x, 2 :: 0 :: extra)
  end.
Definition with_st (x : hst) (s : st) : hst := mkh s (hfile x) (hbattery x) (hbuckets x) (hslots x).

(* one operation executed by process p on its view of the segment *)
Definition apply_local (p : proc) (x : hst) (g : list Z) : option (hst * list Z) :=
  let s := hs x in
  match g with
  | 10 :: slot :: b => ret x (add_to_uhash s slot (fixlen IDSZ b)) []
  | [11; slot] => ret x (remove_from_uhash s slot) []
  | 12 :: uid :: b => ret x (set_user_id s uid (fixlen IDSZ b)) []
  | 13 :: b => let q := fixlen IDSZ b in
               match search_user_raw s q with
               | Ok v => Some (x, 0 :: v :: right_id s q v)
               | Crash => Some (x, 1 :: 0 :: EMPTY_ID)
               | Hang => Some (x, 2 :: 0 :: EMPTY_ID)
               end
  | 14 :: b => let q := fixlen IDSZ b in
               match do_search_user_raw s q with
               | Ok v => Some (x, 0 :: v :: right_id s q v)
               | Crash => Some (x, 1 :: 0 :: EMPTY_ID)
               | Hang => Some (x, 2 :: 0 :: EMPTY_ID)
               end
  | [15; uid] => match get_user_id s uid with
                 | Some id => Some (x, 0 :: 0 :: id)
                 | None => Some (x, 3 :: ERR_INVALID_UID :: EMPTY_ID)
                 end
  | 20 :: b => Some (mkh s (ids_of b) (hbattery x) (hbuckets x) (hslots x), [0; 0])
  | [21] => match load_uhash_by p s (hfile x) with
            | Ok s1 => Some (with_st x s1, [0; 0])
            | Crash => Some (x, [1; 0])
            | Hang => Some (x, [2; 0])
            end
  | [22] => Some (with_st x reset_st, [0; 0])
  | [23] => Some (with_st x (unload s), [0; 0])
  | [25] => match attach (mkseg SHMVER SHMSZ s) with
            | Attached v => Some (x, 0 :: 0 :: lenZ (hbattery x)
                                   :: map (fun q => match search_user_raw v q with Ok u => u | Crash => -1 | Hang => -2 end) (hbattery x))
            | _ => Some (x, [3; 98; 0])
            end
  | [26; ver; size] => match attach (mkseg ver size s) with
                       | Attached _ => Some (x, [0; 0])
                       | ErrShmVersion => Some (x, [3; 4])
                       | ErrShmSize => Some (x, [3; 5])
                       end
  | 24 :: n :: b => match sparse_file n b with
                     | Some f => Some (mkh s f (hbattery x) (hbuckets x) (hslots x), [0; 0])
                     | None => None
                     end
  | [33; mode] => if (0 <=? mode) && (mode <? 4)
                  then Some (mkh s (presolve (passwd_entry mode (hfile x))) (hbattery x) (hbuckets x) (hslots x), [0; 0])
                  else None
  | 30 :: b => Some (mkh s (hfile x) (ids_of b) (hbuckets x) (hslots x), [0; 0])
  | 31 :: b => Some (mkh s (hfile x) (hbattery x) b (hslots x), [0; 0])
  | [32] => Some (mkh s (hfile x) (hbattery x) (hbuckets x) None, [0; 0])
  | 32 :: b => if forallb in_range b then Some (mkh s (hfile x) (hbattery x) (hbuckets x) (Some b), [0; 0]) else None
  | _ => None
  end.

(* the operations a second process is asked to execute (op 29) *)
Definition proc2_op (g : list Z) : bool :=
  match g with
  | k :: _ => existsb (Z.eqb k) [10; 11; 12; 13; 14; 15; 21]
  | [] => false
  end.
(* the first process of the harness is the creator of the segment; [29; mode; op...]: a second process attaches to the existing
   segment (mode 1: with the create flag) and executes op on what it sees - the same memory *)
Definition apply_op (x : hst) (g : list Z) : option (hst * list Z) :=
  match g with
  | 29 :: mode :: g' =>
      if ((mode =? 0) || (mode =? 1)) && proc2_op g'
      then match new_shm_existing (mode =? 1) (mkseg SHMVER SHMSZ (hs x)) with
           | (p2, Attached v) => apply_local p2 (with_st x v) g'
           | _ => None
           end
      else None
  (* [34; k; op...]: the long-lived attached process k (it attached once, without the create flag, and stays): the same memory, and no
     process of the model owns any index state of its own - what an operation does is a function of the segment *)
  | 34 :: k :: g' =>
      if (0 <=? k) && (k <? 3) && proc2_op g'
      then match new_shm_existing false (mkseg SHMVER SHMSZ (hs x)) with
           | (p2, Attached v) => apply_local p2 (with_st x v) g'
           | _ => None
           end
      else None
  | _ => apply_local creator x g
  end.

(* a step with status 2 (an operation that did not return: the harness had to kill the process) ends the history *)
Fixpoint run_wire (x : hst) (gs : list (list Z)) : option (list Z) :=
  match gs with
  | [] => Some []
  | g :: r => match apply_op x g with
              | None => None
              | Some (x1, o) => if nth 0 o 0 =? 2 then Some (o ++ observe x1)
                                else match run_wire x1 r with Some t => Some (o ++ observe x1 ++ t) | None => None end
              end
  end.

(* case: [1] | op | op | ...   the segment starts zeroed (Shm.Reset), .PASSWDS empty
         [2] | id bytes         StringHashWithHashBits
         [3]                    constants
         [4]                    is the harness's first process the creator of the segment *)
Definition run_cfg (args : list (list Z)) : list Z :=
  match args with
  | [1] :: gs => match run_wire (mkh reset_st [] [] [] None) gs with Some t => ST_OK :: t | None => [ST_BADCASE] end
  | [[2]; b] => [ST_OK; uhash (fixlen IDSZ b)]
  | [[3]] => [ST_OK; MAXU; HASHN; Z.of_nat IDSZ; SHMVER; SHMSZ; PREALLOC]
  | [[4]] => [ST_OK; if p_is_new creator then 1 else 0]
  | _ => [ST_BADCASE]
  end.
End Cfg.

(* [11] | op | ...  and [13]: the same as [1] | .. and [3] for the production configuration (-tags docker); everything else is the default build *)
Definition run_case (args : list (list Z)) : list Z :=
  match args with
  | [11] :: gs => @run_cfg K_docker ([1] :: gs)
  | [[13]] => @run_cfg K_docker [[3]]
  | _ => @run_cfg K_default args
  end.
