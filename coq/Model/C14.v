(* C14 — concurrent appends. Small-step interleaving model of cmsys.AppendRecord under
   cmsys.GoFlock / GoFunlock (cmsys/lock.go, cmsys/record.go).

   One thread = one AppendRecord call. Threads are numbered by nat; [proc t] is the server process a
   thread runs in (the in-process lock table is per process, the flock is per open file description,
   i.e. exclusive between any two calls, in the same process or not). The atomic steps are the
   assumptions of this model (DESIGN §3): lockFD's map access under its mutex, flock(LOCK_EX) granting
   exclusivity, Seek, a write of a byte range, flock(LOCK_UN), unlockFD. The write is split in two
   halves so that a torn record is expressible. *)
From Verif Require Import Base.Common.

Inductive pc : Type :=
| PStart                 (* before lockFD *)
| PLockedFD              (* holds the table entry of its process, waits for the flock *)
| PFlocked               (* holds the flock  — hook "append.locked" *)
| PSeeked (i : nat)      (* knows its 0-based index — hook "append.seeked" *)
| PHalf (i : nat)        (* first half of the record written *)
| PWritten (i : nat)     (* record written — hook "append.written" *)
| PUnflocked (i : nat)   (* flock released (deferred GoFunlock, first part) *)
| PDoneOk (i : nat)      (* returned 1-based index i *)
| PFailing               (* the write failed (payload encoding/binary refuses): error pending, flock still held *)
| PFailUnflocked         (* error path: flock released by the deferred GoFunlock *)
| PDoneErr.              (* returned an error (ErrPttLock, or the write error) *)

Record cfg : Type := mkCfg {
  sz : nat;                 (* record size (stride) *)
  half : nat;               (* where the write is cut in two *)
  proc : nat -> nat;
  recd : nat -> list Z;     (* the record thread t appends: sz bytes *)
  bad : nat -> bool;        (* thread t's payload cannot be serialised: BinaryWrite fails before writing anything *)
  away : nat -> bool        (* thread t's call names ANOTHER record file, whose write the OS refuses (ENOSPC: /dev/full, a full or
                               over-quota volume). That call takes the table entry and the flock of the other name, fails in its
                               write and returns the error; nothing of it is state of this file: AppendRecord keeps no state
                               between calls besides lockFDMap (keyed by name) and the files themselves. *)
}.

Record st : Type := mkSt {
  pcs : nat -> pc;
  tbl : nat -> bool;        (* process p holds the entry for this file name in lockFDMap *)
  owner : option nat;       (* thread holding the flock *)
  file : list Z;
  log : list nat            (* ghost: threads in the order their writes completed *)
}.

Definition updf {A} (f : nat -> A) (k : nat) (v : A) : nat -> A := fun x => if Nat.eqb x k then v else f x.

(* file.Seek(off); file.Write(bs): bytes beyond the end leave a zero-filled hole *)
Definition write_at (off : nat) (bs f : list Z) : list Z :=
  firstn off f ++ repeat 0 (off - length f) ++ bs ++ skipn (off + length bs) f.

Definition set_pc (s : st) (t : nat) (p : pc) : st := mkSt (updf (pcs s) t p) (tbl s) (owner s) (file s) (log s).

Definition step (c : cfg) (s : st) (t : nat) : option st :=
  match pcs s t with
  | PStart =>
      if away c t then Some (set_pc s t PDoneErr)                                  (* the whole failed call on the other file *)
      else if tbl s (proc c t) then Some (set_pc s t PDoneErr)                         (* lockFD: ErrPttLock, fail fast *)
      else Some (mkSt (updf (pcs s) t PLockedFD) (updf (tbl s) (proc c t) true) (owner s) (file s) (log s))
  | PLockedFD =>
      match owner s with
      | None => Some (mkSt (updf (pcs s) t PFlocked) (tbl s) (Some t) (file s) (log s))
      | Some _ => None                                                              (* blocked in flock(LOCK_EX) *)
      end
  | PFlocked => Some (set_pc s t (PSeeked (length (file s) / sz c)))               (* Seek(0,End); idx = fsize / sz *)
  | PSeeked i =>
      if bad c t then Some (set_pc s t PFailing)
      else Some (mkSt (updf (pcs s) t (PHalf i)) (tbl s) (owner s)
                 (write_at (i * sz c) (firstn (half c) (recd c t)) (file s)) (log s))
  | PHalf i =>
      Some (mkSt (updf (pcs s) t (PWritten i)) (tbl s) (owner s)
                 (write_at (i * sz c + half c) (skipn (half c) (recd c t)) (file s)) (log s ++ [t]))
  | PWritten i => Some (mkSt (updf (pcs s) t (PUnflocked i)) (tbl s) None (file s) (log s))
  | PUnflocked i => Some (mkSt (updf (pcs s) t (PDoneOk (S i))) (updf (tbl s) (proc c t) false) (owner s) (file s) (log s))
  | PFailing => Some (mkSt (updf (pcs s) t PFailUnflocked) (tbl s) None (file s) (log s))
  | PFailUnflocked => Some (mkSt (updf (pcs s) t PDoneErr) (updf (tbl s) (proc c t) false) (owner s) (file s) (log s))
  | PDoneOk _ => None
  | PDoneErr => None
  end.

Definition init_st (f : list Z) : st := mkSt (fun _ => PStart) (fun _ => false) None f [].

(* a schedule is a list of thread ids; a thread that cannot move is skipped *)
Definition step_skip (c : cfg) (s : st) (t : nat) : st := match step c s t with Some s' => s' | None => s end.
Definition run (c : cfg) (sch : list nat) (s : st) : st := fold_left (step_skip c) sch s.

(* strict replay: every scheduled step must be enabled (used to validate observed traces) *)
Fixpoint replay (c : cfg) (sch : list nat) (s : st) : option st :=
  match sch with
  | [] => Some s
  | t :: r => match step c s t with Some s' => replay c r s' | None => None end
  end.

(* ------------------------------------------------------------------ the offset computation in machine arithmetic
   cmsys/record.go AppendRecord, after fsize := Seek(0, End):
       idxInStore := ptttype.SortIdxInStore(fsize / int64(theSize))     -- SortIdxInStore is int (64 bits on the built platforms)
       offset     := int64(idxInStore) * int64(theSize)                  -- a 64-bit product
       Seek(offset, Start); write; return idxInStore.ToSortIdx()         -- idxInStore + 1
   The interleaving model above computes [length file / sz] and [i * sz] on nat, i.e. without any width. The functions
   below carry the widths ([wrap64s] after every operation, as Go does); Props/C14.v C14_offset_exact shows that for every
   file length an off_t can hold they coincide with the unbounded ones, so the nat model is faithful also for files of
   2 GiB, 4 GiB and more. The check compares them with the index returned and the offset written by the real call on
   sparse files of those lengths (op 2). *)
Definition wrap64s (x : Z) : Z := (x + 9223372036854775808) mod 18446744073709551616 - 9223372036854775808.
Definition append_idx (fsize szz : Z) : Z := wrap64s (Z.quot fsize (wrap64s szz)).
Definition append_off (fsize szz : Z) : Z := wrap64s (wrap64s (append_idx fsize szz) * wrap64s szz).
Definition append_ret (fsize szz : Z) : Z := wrap64s (append_idx fsize szz + 1).
(* Seek(offset, Start) refuses a negative offset (EINVAL): the call fails *)
Definition append_seek_ok (fsize szz : Z) : bool := 0 <=? append_off fsize szz.

(* ------------------------------------------------------------------ wire *)
(* case: [[1]; [sz; half]; procs (one per thread; 100+p = process p with an unserialisable payload; 200+p = process p, the call
   goes to another file whose write the OS refuses); init file bytes; schedule]; thread t appends sz bytes of value t+1.
   result: 0 :: (per thread: code, idx) ++ [-1] ++ file bytes; code 0 not finished, 1 ok, 2 err; status 3 7 = a scheduled step was not enabled *)
Definition pc_code (p : pc) : list Z :=
  match p with
  | PDoneOk i => [1; Z.of_nat i]
  | PDoneErr => [2; 0]
  | _ => [0; 0]
  end.

Definition run_case (args : list (list Z)) : list Z :=
  match args with
  | [[1]; [szz; hf]; procs; f0; sch] =>
      let n := length procs in
      let c := mkCfg (Z.to_nat szz) (Z.to_nat hf) (fun t => Z.to_nat (nth t procs 0 mod 100))
                     (fun t => repeat (Z.of_nat (S t)) (Z.to_nat szz)) (fun t => (100 <=? nth t procs 0) && (nth t procs 0 <? 200)) (fun t => 200 <=? nth t procs 0) in
      match replay c (map Z.to_nat sch) (init_st f0) with
      | None => [ST_ERR; 7]
      | Some s => ST_OK :: flat_map (fun t => pc_code (pcs s t)) (seq 0 n) ++ [-1] ++ file s
      end
  | [[2]; [fsize; szz]] =>                       (* the offset computation alone: returned index, offset of the write *)
      if (szz <=? 0) || (fsize <? 0) then [ST_BADCASE]
      else if append_seek_ok fsize szz then [ST_OK; append_ret fsize szz; append_off fsize szz] else [ST_ERR; 1]
  | _ => [ST_BADCASE]
  end.
