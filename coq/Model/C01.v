(* C01 — record layouts. Executable model only.
   - resolved type descriptions (from the field lists gosync regenerates in Gen/Layout_<cfg>.v),
   - packed_size / packed_offsets : what encoding/binary writes (no padding at all),
   - go_align / go_size / go_offsets : the gc layout rule behind unsafe.Sizeof / unsafe.Offsetof,
   - encode / decode : encoding/binary, little endian, on a value of a type description,
   - the partial-update entry points of cmbbs/passwd.go and cache/passwd.go as coded
     (seek to Sizeof*(uid-1)+Offsetof(field), then binary.Write of the field value). *)
From Coq Require Import String Ascii.
From Verif Require Import Base.Common Base.Layout Base.RecFile Model.C01_Frozen.
From Verif Require Gen.Layout_default Gen.Layout_docker Gen.Consts_default Gen.Consts_docker Gen.BinArgs_default Gen.BinArgs_docker.
Open Scope Z_scope.

(* ------------------------------------------------------------------ type descriptions *)

Inductive ik : Type := I8 | U8 | I16 | U16 | I32 | U32 | I64 | U64.
Definition ik_bytes (k : ik) : nat :=
  match k with I8 | U8 => 1 | I16 | U16 => 2 | I32 | U32 => 4 | I64 | U64 => 8 end%nat.
Definition ik_signed (k : ik) : bool :=
  match k with I8 | I16 | I32 | I64 => true | _ => false end.
Definition ik_size (k : ik) : Z := Z.of_nat (ik_bytes k).
Definition ik_mod (k : ik) : Z := 2 ^ (8 * ik_size k).

Inductive rty : Type :=
| RInt (k : ik)
| RBool
| RArr (n : Z) (t : rty)
| RStruct (fs : list (string * rty)).

Fixpoint lookup {A} (name : string) (l : list (string * A)) : option A :=
  match l with
  | [] => None
  | (n, a) :: r => if String.eqb n name then Some a else lookup name r
  end.

(* TWord (int/uint/uintptr) and TOpaque (pointers, slices, ...) have no fixed serialised form:
   binary.Write refuses them; a struct containing one is not a record type. *)
Fixpoint resolve_ty (env : list (string * rty)) (t : ty) : option rty :=
  match t with
  | TBool => Some RBool
  | TI8 => Some (RInt I8) | TU8 => Some (RInt U8)
  | TI16 => Some (RInt I16) | TU16 => Some (RInt U16)
  | TI32 => Some (RInt I32) | TU32 => Some (RInt U32)
  | TI64 => Some (RInt I64) | TU64 => Some (RInt U64)
  | TWord | TOpaque => None
  | TArr n t' => match resolve_ty env t' with Some r => Some (RArr n r) | None => None end
  | TStruct name => lookup name env
  end.

Fixpoint resolve_fields (env : list (string * rty)) (fs : list (string * ty)) : option (list (string * rty)) :=
  match fs with
  | [] => Some []
  | (n, t) :: r =>
      match resolve_ty env t, resolve_fields env r with
      | Some t', Some r' => Some ((n, t') :: r')
      | _, _ => None
      end
  end.

(* gosync lists a struct after the structs it embeds *)
Fixpoint resolve_all (env : list (string * rty)) (ss : list (string * list (string * ty))) : list (string * rty) :=
  match ss with
  | [] => env
  | (name, fs) :: r =>
      match resolve_fields env fs with
      | Some fs' => resolve_all (env ++ [(name, RStruct fs')]) r
      | None => resolve_all env r
      end
  end.

Inductive cfg : Type := Default | Docker.
Definition env_default : list (string * rty) := resolve_all [] Gen.Layout_default.structs.
Definition env_docker : list (string * rty) := resolve_all [] Gen.Layout_docker.structs.
Definition env (c : cfg) : list (string * rty) := match c with Default => env_default | Docker => env_docker end.
Definition max_users (c : cfg) : Z :=
  match c with Default => Gen.Consts_default.ptttype.MAX_USERS | Docker => Gen.Consts_docker.ptttype.MAX_USERS end.
Definition passwd2_version (c : cfg) : Z :=
  match c with Default => Gen.Consts_default.ptttype.PASSWD2_VERSION | Docker => Gen.Consts_docker.ptttype.PASSWD2_VERSION end.

(* ------------------------------------------------------------------ packed layout (encoding/binary) *)

Fixpoint packed_size (t : rty) : Z :=
  match t with
  | RInt k => ik_size k
  | RBool => 1
  | RArr n t' => n * packed_size t'
  | RStruct fs => (fix go (fs : list (string * rty)) : Z :=
                     match fs with [] => 0 | f :: r => packed_size (snd f) + go r end) fs
  end.

Fixpoint packed_offsets_from (off : Z) (fs : list (string * rty)) : list Z :=
  match fs with
  | [] => []
  | f :: r => off :: packed_offsets_from (off + packed_size (snd f)) r
  end.
Definition packed_offsets (fs : list (string * rty)) : list Z := packed_offsets_from 0 fs.

(* ------------------------------------------------------------------ in-memory layout (gc, amd64) *)

Fixpoint go_align (t : rty) : Z :=
  match t with
  | RInt k => ik_size k
  | RBool => 1
  | RArr _ t' => go_align t'
  | RStruct fs => (fix go (fs : list (string * rty)) : Z :=
                     match fs with [] => 1 | f :: r => Z.max (go_align (snd f)) (go r) end) fs
  end.

Definition round_up (x a : Z) : Z := ((x + a - 1) / a) * a.

(* offset at which the next field would start after laying out fs from off *)
Fixpoint go_size (t : rty) : Z :=
  match t with
  | RInt k => ik_size k
  | RBool => 1
  | RArr n t' => n * go_size t'
  | RStruct fs =>
      round_up ((fix go (off : Z) (fs : list (string * rty)) : Z :=
                   match fs with
                   | [] => off
                   | f :: r => go (round_up off (go_align (snd f)) + go_size (snd f)) r
                   end) 0 fs) (go_align t)
  end.

Fixpoint go_offsets_from (off : Z) (fs : list (string * rty)) : list Z :=
  match fs with
  | [] => []
  | f :: r => let o := round_up off (go_align (snd f)) in o :: go_offsets_from (o + go_size (snd f)) r
  end.
Definition go_offsets (fs : list (string * rty)) : list Z := go_offsets_from 0 fs.

Definition fields_of (t : rty) : list (string * rty) := match t with RStruct fs => fs | _ => [] end.

Fixpoint zlist_eqb (a b : list Z) : bool :=
  match a, b with
  | [], [] => true
  | x :: a', y :: b' => (x =? y) && zlist_eqb a' b'
  | _, _ => false
  end.

(* no padding anywhere inside t: every struct's aligned layout is its packed layout *)
Fixpoint padding_free (t : rty) : bool :=
  match t with
  | RInt _ | RBool => true
  | RArr _ t' => padding_free t'
  | RStruct fs =>
      (go_size t =? packed_size t) && zlist_eqb (go_offsets fs) (packed_offsets fs)
      && (fix go (fs : list (string * rty)) : bool :=
            match fs with [] => true | f :: r => padding_free (snd f) && go r end) fs
  end.

(* array lengths are non-negative (always so for what gosync emits) *)
Fixpoint rty_wf (t : rty) : bool :=
  match t with
  | RInt _ | RBool => true
  | RArr n t' => (0 <=? n) && rty_wf t'
  | RStruct fs => (fix go (fs : list (string * rty)) : bool :=
                     match fs with [] => true | f :: r => rty_wf (snd f) && go r end) fs
  end.

(* (field, offset, size) table of a struct, aligned and packed *)
Fixpoint table (fs : list (string * rty)) (offs : list Z) (size : rty -> Z) : list (string * Z * Z) :=
  match fs, offs with
  | f :: r, o :: ro => (fst f, o, size (snd f)) :: table r ro size
  | _, _ => []
  end.
Definition go_layout (t : rty) : Z * list (string * Z * Z) :=
  (go_size t, table (fields_of t) (go_offsets (fields_of t)) go_size).
Definition packed_layout (t : rty) : Z * list (string * Z * Z) :=
  (packed_size t, table (fields_of t) (packed_offsets (fields_of t)) packed_size).

Definition go_layout_of (c : cfg) (name : string) : option (Z * list (string * Z * Z)) :=
  option_map go_layout (lookup name (env c)).
Definition packed_layout_of (c : cfg) (name : string) : option (Z * list (string * Z * Z)) :=
  option_map packed_layout (lookup name (env c)).
Definition frozen_layout_of (name : string) : option (Z * list (string * Z * Z)) := lookup name frozen.

(* pttbbs declares title[66] where the Go struct has a 65-byte Title_t followed by one pad byte: a field
   whose name starts with "Pad" and that starts where its predecessor ends is counted with the predecessor *)
Definition is_pad_name (n : string) : bool := String.prefix "Pad" n.
Fixpoint absorb_pads (l : list (string * Z * Z)) : list (string * Z * Z) :=
  match l with
  | [] => []
  | (n, o, s) :: rest =>
      match rest with
      | (n', o', s') :: r' =>
          if is_pad_name n' && negb (is_pad_name n) && (o' =? o + s)
          then (n, o, s + s') :: absorb_pads r'
          else (n, o, s) :: absorb_pads rest
      | [] => [(n, o, s)]
      end
  end.

(* the record types, by the way they are persisted *)
Definition strict_disk_records : list string :=
  ["UserecRaw"; "Userec2Raw"; "BoardHeaderRaw"; "FileHeaderRaw"; "PostLog"]%string.
Definition disk_records : list string := (strict_disk_records ++ ["FavBoard"%string])%list.
Definition mapped_records_any_cfg : list string := ["MsgQueueRaw"]%string.
Definition mapped_records_docker : list string := ["UserInfoRaw"; "SHMRaw"]%string.

(* what the source hands to encoding/binary (Gen/BinArgs_<cfg>.v, regenerated from the type-checked syntax) *)
Definition bin_raw_structs (c : cfg) : list string :=
  match c with Default => Gen.BinArgs_default.binary_rw_structs | Docker => Gen.BinArgs_docker.binary_rw_structs end.
Definition bin_padded_structs (c : cfg) : list string :=
  match c with Default => Gen.BinArgs_default.binrw_structs | Docker => Gen.BinArgs_docker.binrw_structs end.
Definition bin_passthrough (c : cfg) : list string :=
  match c with Default => Gen.BinArgs_default.bin_passthrough | Docker => Gen.BinArgs_docker.bin_passthrough end.
Definition bin_other (c : cfg) : list string :=
  match c with Default => Gen.BinArgs_default.bin_other | Docker => Gen.BinArgs_docker.bin_other end.
Definition mem_str (n : string) (l : list string) : bool := existsb (String.eqb n) l.

(* types.BinWrite(file, v, theSize): the packed image followed by theSize - binary.Size(v) zero bytes *)
Definition binwrite_len (packed theSize : Z) : Z := if theSize <? packed then packed else theSize.

(* ------------------------------------------------------------------ values and the codec *)

Inductive value : Type :=
| VInt (z : Z)
| VBool (b : bool)
| VList (vs : list value).

Fixpoint le_bytes (n : nat) (z : Z) : list Z :=
  match n with O => [] | S n' => z mod 256 :: le_bytes n' (z / 256) end.
Fixpoint le_val (bs : list Z) : Z :=
  match bs with [] => 0 | b :: r => b + 256 * le_val r end.

Definition int_in_range (k : ik) (z : Z) : bool :=
  if ik_signed k then (- (ik_mod k / 2) <=? z) && (z <? ik_mod k / 2)
  else (0 <=? z) && (z <? ik_mod k).
Definition int_of_raw (k : ik) (u : Z) : Z :=      (* u in [0, 2^(8*size)) *)
  if ik_signed k then (if u <? ik_mod k / 2 then u else u - ik_mod k) else u.

Fixpoint wt (t : rty) (v : value) : bool :=
  match t, v with
  | RInt k, VInt z => int_in_range k z
  | RBool, VBool _ => true
  | RArr n t', VList vs =>
      (Z.of_nat (length vs) =? n) && forallb (wt t') vs
  | RStruct fs, VList vs =>
      (fix go (fs : list (string * rty)) (vs : list value) : bool :=
         match fs, vs with
         | [], [] => true
         | f :: fr, v :: vr => wt (snd f) v && go fr vr
         | _, _ => false
         end) fs vs
  | _, _ => false
  end.

Fixpoint encode (t : rty) (v : value) : list Z :=
  match t, v with
  | RInt k, VInt z => le_bytes (ik_bytes k) z
  | RBool, VBool b => [if b then 1 else 0]
  | RArr _ t', VList vs => flat_map (encode t') vs
  | RStruct fs, VList vs =>
      (fix go (fs : list (string * rty)) (vs : list value) : list Z :=
         match fs, vs with
         | f :: fr, v :: vr => encode (snd f) v ++ go fr vr
         | _, _ => []
         end) fs vs
  | _, _ => []
  end.

(* binary.Read: None = unexpected EOF *)
Fixpoint decode (t : rty) (bs : list Z) : option (value * list Z) :=
  match t with
  | RInt k =>
      if (length bs <? ik_bytes k)%nat then None
      else Some (VInt (int_of_raw k (le_val (firstn (ik_bytes k) bs))), skipn (ik_bytes k) bs)
  | RBool => match bs with [] => None | b :: r => Some (VBool (negb (b =? 0)), r) end
  | RArr n t' =>
      match (fix go (k : nat) (bs : list Z) : option (list value * list Z) :=
               match k with
               | O => Some ([], bs)
               | S k' => match decode t' bs with
                         | Some (v, r) => match go k' r with Some (vs, r') => Some (v :: vs, r') | None => None end
                         | None => None
                         end
               end) (Z.to_nat n) bs with
      | Some (vs, r) => Some (VList vs, r)
      | None => None
      end
  | RStruct fs =>
      match (fix go (fs : list (string * rty)) (bs : list Z) : option (list value * list Z) :=
               match fs with
               | [] => Some ([], bs)
               | f :: fr => match decode (snd f) bs with
                            | Some (v, r) => match go fr r with Some (vs, r') => Some (v :: vs, r') | None => None end
                            | None => None
                            end
               end) fs bs with
      | Some (vs, r) => Some (VList vs, r)
      | None => None
      end
  end.

(* replace the i-th component *)
Fixpoint set_nth {A} (i : nat) (a : A) (l : list A) : list A :=
  match l, i with
  | [], _ => []
  | _ :: r, O => a :: r
  | x :: r, S i' => x :: set_nth i' a r
  end.
Definition set_field (i : nat) (v : value) (rec : value) : value :=
  match rec with VList vs => VList (set_nth i v vs) | _ => rec end.

Fixpoint index_of (name : string) (l : list string) : option nat :=
  match l with
  | [] => None
  | n :: r => if String.eqb n name then Some O else option_map S (index_of name r)
  end.
Definition field_index (t : rty) (fname : string) : option nat := index_of fname (map fst (fields_of t)).

Definition field_ty (t : rty) (i : nat) : rty := snd (nth i (fields_of t) (EmptyString, RBool)).
Definition field_off (t : rty) (i : nat) : Z := nth i (go_offsets (fields_of t)) 0.      (* unsafe.Offsetof *)
Definition psz (t : rty) : nat := Z.to_nat (packed_size t).

(* ------------------------------------------------------------------ partial updates, as coded *)

Definition ERR_INVALID_UID : Z := 1.
Definition ERR_BAD_FIELD : Z := 2.
Definition ERR_PASSWD2_SIZE : Z := 3.

Inductive upd (A : Type) : Type := UOk (a : A) | UErr (code : Z).
Arguments UOk {A} a.
Arguments UErr {A} code.

(* file.Seek(Sizeof(record)*(uid-1) + Offsetof(record.field)); binary.Write(field value) *)
Definition field_update (t : rty) (i : nat) (uid : Z) (v : value) (f : list Z) : list Z :=
  write_at (Z.to_nat (go_size t * (uid - 1) + field_off t i)) (encode (field_ty t i) v) f.

Definition uid_is_valid (c : cfg) (uid : Z) : bool := (1 <=? uid) && (uid <=? max_users c).   (* UID.IsValid *)
Definition uid_ok_money (c : cfg) (uid : Z) : bool := negb ((uid <? 1) || (max_users c <? uid)).   (* cache/passwd.go passwdUpdateMoney, after fix fcc0c19: uid > MAX_USERS is refused *)

Definition userec (c : cfg) : rty := match lookup "UserecRaw" (env c) with Some t => t | None => RStruct [] end.
Definition userec2 (c : cfg) : rty := match lookup "Userec2Raw" (env c) with Some t => t | None => RStruct [] end.

(* cmbbs.PasswdUpdatePasswd / PasswdUpdateEmail (which = field name); cache.passwdUpdateMoney *)
Definition passwd_update_field (c : cfg) (fname : string) (uid : Z) (v : value) (f : list Z) : upd (list Z) :=
  match field_index (userec c) fname with
  | None => UErr ERR_BAD_FIELD
  | Some i =>
      let valid := if String.eqb fname "Money" then uid_ok_money c uid else uid_is_valid c uid in
      if valid then UOk (field_update (userec c) i uid v f) else UErr ERR_INVALID_UID
  end.

(* cmbbs.PasswdUpdateUserLevel2 on the user's .PASSWD2 (None = no such file yet); now = types.NowTS() *)
Definition passwd2_prepare (c : cfg) (f : option (list Z)) : upd (list Z) :=        (* passwdCheckPasswd2 *)
  let t := userec2 c in
  match f with
  | None => UOk (le_bytes 4 (passwd2_version c) ++ repeat 0 (Z.to_nat (packed_size t) - 4))
  | Some bs =>
      let diff := go_size t - lenZ bs in
      if diff =? 0 then UOk bs
      else if diff <? 0 then UErr ERR_PASSWD2_SIZE
      else UOk (bs ++ repeat 0 (Z.to_nat diff))
  end.
Definition passwd2_update_level2 (c : cfg) (perm : Z) (isSet : bool) (now : Z) (f : option (list Z)) : upd (list Z) :=
  match passwd2_prepare c f with
  | UErr e => UErr e
  | UOk bs =>
      let t := userec2 c in
      match field_index t "UserLevel2", field_index t "UpdateTS" with
      | Some i, Some j =>
          let off := Z.to_nat (field_off t i) in
          let old := match decode (RInt U32) (skipn off bs) with Some (VInt z, _) => z | _ => 0 end in
          let new := if isSet then Z.lor old perm else Z.land old (Z.lxor perm 4294967295) in
          UOk (field_update t j 1 (VInt now) (field_update t i 1 (VInt new) bs))
      | _, _ => UErr ERR_BAD_FIELD
      end
  end.

(* ------------------------------------------------------------------ histories: several writes in one process,
   some of them refused by the operating system (ENOSPC, EFBIG, EBADF: nothing reaches the file). The only state a
   history carries from one call to the next is the files themselves: types.BinaryWrite keeps nothing. *)

Definition ERR_IO : Z := 4.

Inductive dev : Type := DevOk | DevRefuse.
Definition on_dev (d : dev) (r : upd (list Z)) : upd (list Z) :=       (* the uid check precedes the open *)
  match d, r with DevRefuse, UOk _ => UErr ERR_IO | _, _ => r end.

(* cmbbs.PasswdUpdate: the whole record at Sizeof*(uid-1) *)
Definition passwd_update_record (c : cfg) (uid : Z) (v : value) (f : list Z) : upd (list Z) :=
  if uid_is_valid c uid
  then UOk (write_at (Z.to_nat (go_size (userec c) * (uid - 1))) (encode (userec c) v) f)
  else UErr ERR_INVALID_UID.

Record hstate : Type := { st_pw : list Z; st_pw2 : option (list Z) }.     (* .PASSWDS, one user's .PASSWD2 *)

Inductive step : Type :=
| SField (fname : string) (d : dev) (uid : Z) (v : value)      (* PasswdUpdatePasswd / PasswdUpdateEmail / SetUMoney *)
| SRecord (d : dev) (uid : Z) (v : value)                      (* PasswdUpdate *)
| SLevel2 (perm : Z) (isSet : bool) (now : Z).                 (* PasswdUpdateUserLevel2 *)

Definition hstep (c : cfg) (s : step) (st : hstate) : (Z * Z) * hstate :=
  match s with
  | SField fname d uid v =>
      match on_dev d (passwd_update_field c fname uid v (st_pw st)) with
      | UOk f => ((ST_OK, 0), {| st_pw := f; st_pw2 := st_pw2 st |})
      | UErr e => ((ST_ERR, e), st)
      end
  | SRecord d uid v =>
      match on_dev d (passwd_update_record c uid v (st_pw st)) with
      | UOk f => ((ST_OK, 0), {| st_pw := f; st_pw2 := st_pw2 st |})
      | UErr e => ((ST_ERR, e), st)
      end
  | SLevel2 perm isSet now =>
      match passwd2_update_level2 c perm isSet now (st_pw2 st) with
      | UOk f => ((ST_OK, 0), {| st_pw := st_pw st; st_pw2 := Some f |})
      | UErr e => ((ST_ERR, e), st)
      end
  end.

Fixpoint run_history (c : cfg) (h : list step) (st : hstate) : list (Z * Z) * hstate :=
  match h with
  | [] => ([], st)
  | s :: r => let '(o, st1) := hstep c s st in
              let '(os, st2) := run_history c r st1 in (o :: os, st2)
  end.

Definition step_accepted (s : step) : bool :=
  match s with SField _ DevRefuse _ _ | SRecord DevRefuse _ _ => false | _ => true end.

(* the byte ranges of .PASSWDS a history may write: (offset, length) of every accepted, valid step *)
Definition step_range (c : cfg) (s : step) : list (nat * nat) :=
  match s with
  | SField fname DevOk uid v =>
      match field_index (userec c) fname with
      | Some i => [(Z.to_nat (go_size (userec c) * (uid - 1) + field_off (userec c) i),
                    length (encode (field_ty (userec c) i) v))]
      | None => []
      end
  | SRecord DevOk uid v => [(Z.to_nat (go_size (userec c) * (uid - 1)), length (encode (userec c) v))]
  | _ => []
  end.
Definition touched (c : cfg) (h : list step) : list (nat * nat) := flat_map (step_range c) h.
Definition outside (p : nat) (rs : list (nat * nat)) : Prop :=
  forall a n, In (a, n) rs -> (p < a \/ a + n <= p)%nat.

(* types.BinaryWrite(writer, value): the image goes to the writer in one piece. room = None: the writer takes
   everything; Some k: it takes k bytes and refuses the rest. Returns the status and what reached the writer. *)
Definition binary_write_to (t : rty) (v : value) (room : option nat) : (Z * Z) * list Z :=
  let img := encode t v in
  match room with
  | None => ((ST_OK, 0), img)
  | Some k => if (length img <=? k)%nat then ((ST_OK, 0), img) else ((ST_ERR, ERR_IO), firstn k img)
  end.
Definition sink_room (k : Z) : option nat := if k =? -1 then None else Some (Z.to_nat k).

(* ------------------------------------------------------------------ wire *)

Definition string_of_bytes (l : list Z) : string :=
  fold_right (fun b s => String (ascii_of_N (Z.to_N b)) s) EmptyString l.
Fixpoint bytes_of_string (s : string) : list Z :=
  match s with EmptyString => [] | String a r => Z.of_N (N_of_ascii a) :: bytes_of_string r end.

(* leaves of a value in field order; bool as 0/1 *)
Fixpoint flatten (v : value) : list Z :=
  match v with
  | VInt z => [z]
  | VBool b => [if b then 1 else 0]
  | VList vs => flat_map flatten vs
  end.
Fixpoint unflatten (t : rty) (l : list Z) : option (value * list Z) :=
  match t with
  | RInt _ => match l with z :: r => Some (VInt z, r) | [] => None end
  | RBool => match l with z :: r => Some (VBool (negb (z =? 0)), r) | [] => None end
  | RArr n t' =>
      match (fix go (k : nat) (l : list Z) : option (list value * list Z) :=
               match k with
               | O => Some ([], l)
               | S k' => match unflatten t' l with
                         | Some (v, r) => match go k' r with Some (vs, r') => Some (v :: vs, r') | None => None end
                         | None => None
                         end
               end) (Z.to_nat n) l with
      | Some (vs, r) => Some (VList vs, r)
      | None => None
      end
  | RStruct fs =>
      match (fix go (fs : list (string * rty)) (l : list Z) : option (list value * list Z) :=
               match fs with
               | [] => Some ([], l)
               | f :: fr => match unflatten (snd f) l with
                            | Some (v, r) => match go fr r with Some (vs, r') => Some (v :: vs, r') | None => None end
                            | None => None
                            end
               end) fs l with
      | Some (vs, r) => Some (VList vs, r)
      | None => None
      end
  end.

Definition cfg_of (z : Z) : cfg := if z =? 1 then Docker else Default.

Fixpoint layout_wire (fs : list (string * rty)) (go_o packed_o : list Z) : list Z :=
  match fs, go_o, packed_o with
  | f :: r, g :: gr, p :: pr =>
      let nm := bytes_of_string (fst f) in
      (lenZ nm :: nm) ++ [g; p; go_size (snd f); packed_size (snd f)] ++ layout_wire r gr pr
  | _, _, _ => []
  end.

Definition wire_upd (r : upd (list Z)) : list Z :=
  match r with UOk f => ST_OK :: f | UErr e => [ST_ERR; e] end.

Definition dev_of (z : Z) : dev := if z =? 0 then DevOk else DevRefuse.
Definition typed (t : rty) (leaves : list Z) : option value :=
  match unflatten t leaves with
  | Some (v, []) => if wt t v then Some v else None
  | _ => None
  end.
Definition parse_field_step (c : cfg) (fname : string) (d uid : Z) (pay : list Z) : option step :=
  match field_index (userec c) fname with
  | Some i => option_map (SField fname (dev_of d) uid) (typed (field_ty (userec c) i) pay)
  | None => None
  end.
Definition parse_step (c : cfg) (g : list Z) : option step :=
  match g with
  | 1 :: d :: uid :: pay => parse_field_step c "PasswdHash" d uid pay
  | 2 :: d :: uid :: pay => parse_field_step c "Email" d uid pay
  | 3 :: d :: uid :: pay => parse_field_step c "Money" d uid pay
  | 4 :: d :: uid :: pay => option_map (SRecord (dev_of d) uid) (typed (userec c) pay)
  | [5; _; _; perm; isSet; now] => Some (SLevel2 perm (negb (isSet =? 0)) now)
  | _ => None
  end.
Fixpoint parse_steps (c : cfg) (gs : list (list Z)) : option (list step) :=
  match gs with
  | [] => Some []
  | g :: r => match parse_step c g, parse_steps c r with
              | Some s, Some h => Some (s :: h)
              | _, _ => None
              end
  end.
Definition wire_status (o : Z * Z) : list Z := [fst o; snd o].
Definition wire_hstate (st : hstate) : list Z :=
  (lenZ (st_pw st) :: st_pw st) ++ match st_pw2 st with None => [0; 0] | Some b => 1 :: lenZ b :: b end.

(* op 11: name leaves [sink] name leaves [sink] ... *)
Fixpoint bw_history (e : list (string * rty)) (gs : list (list Z)) : option (list Z) :=
  match gs with
  | [] => Some []
  | name :: rest1 =>
      match rest1 with
      | leaves :: rest2 =>
          match rest2 with
          | [k] :: r =>
              match lookup (string_of_bytes name) e with
              | Some t =>
                  match typed t leaves, bw_history e r with
                  | Some v, Some out =>
                      let '(o, got) := binary_write_to t v (sink_room k) in
                      Some (wire_status o ++ (lenZ got :: got) ++ out)
                  | _, _ => None
                  end
              | None => None
              end
          | _ => None
          end
      | [] => None
      end
  end.

(* ---------------------------------------------------------------- restart on a left-over segment (cache.NewSHM)
   A run of the server calls cache.NewSHM(key, hugetlb, isCreate). What a run finds under the key is either nothing
   or the segment a previous run left: its allocation size, the Version and Size stamps at offsets 0 and 4, and the
   segment fields Number and Loaded. shmget refuses a segment smaller than the size asked for; a segment that
   already exists is only VERIFIED (never stamped); a segment this call created is stamped and then verified.
   al is ptttype.SHMALIGNEDSIZE (a run-time setting). *)
Definition shm_version (c : cfg) : Z :=
  match c with Default => Gen.Consts_default.cache.SHM_VERSION | Docker => Gen.Consts_docker.cache.SHM_VERSION end.
Definition shm_raw_sz (c : cfg) : Z :=
  match c with Default => Gen.Consts_default.cache.SHM_RAW_SZ | Docker => Gen.Consts_docker.cache.SHM_RAW_SZ end.
Definition shm_size (c : cfg) (al : Z) : Z := if al =? 0 then shm_raw_sz c else (shm_raw_sz c / al + 1) * al.

Record seg : Type := { sg_alloc : Z; sg_ver : Z; sg_size : Z; sg_number : Z; sg_loaded : Z }.
Definition ERR_SHM_VERSION : Z := 1.
Definition ERR_SHM_SIZE : Z := 2.
Definition ERR_SHMGET : Z := 5.

Definition fresh_seg (c : cfg) (al : Z) : seg :=
  {| sg_alloc := shm_size c al; sg_ver := shm_version c; sg_size := shm_raw_sz c; sg_number := 0; sg_loaded := 0 |}.
Definition shm_verify (c : cfg) (g : seg) : Z * Z :=
  if sg_ver g =? shm_version c
  then if sg_size g =? shm_raw_sz c then (ST_OK, 0) else (ST_ERR, ERR_SHM_SIZE)
  else (ST_ERR, ERR_SHM_VERSION).
Definition newshm (c : cfg) (al : Z) (isCreate : bool) (s : option seg) : (Z * Z) * option seg :=
  match s with
  | Some g => if sg_alloc g <? shm_size c al then ((ST_ERR, ERR_SHMGET), Some g) else (shm_verify c g, Some g)
  | None => if isCreate then (shm_verify c (fresh_seg c al), Some (fresh_seg c al)) else ((ST_ERR, ERR_SHMGET), None)
  end.

(* one run of a server: NewSHM; when accepted the run works on the segment (here: sets Number and Loaded) and
   exits, leaving the segment behind. The observation is taken right after NewSHM. *)
Record srun : Type := { r_create : bool; r_number : Z; r_loaded : Z }.
Definition shm_accepted (o : Z * Z) : bool := fst o =? ST_OK.
Definition shm_run (c : cfg) (al : Z) (r : srun) (s : option seg) : ((Z * Z) * option seg) * option seg :=
  let '(o, s1) := newshm c al (r_create r) s in
  ((o, s1),
   if shm_accepted o
   then option_map (fun g => {| sg_alloc := sg_alloc g; sg_ver := sg_ver g; sg_size := sg_size g;
                                sg_number := r_number r; sg_loaded := r_loaded r |}) s1
   else s1).
Fixpoint shm_history (c : cfg) (al : Z) (rs : list srun) (s : option seg) : list ((Z * Z) * option seg) * option seg :=
  match rs with
  | [] => ([], s)
  | r :: rest => let '(o, s1) := shm_run c al r s in
                 let '(os, s2) := shm_history c al rest s1 in (o :: os, s2)
  end.

(* per run: status code, then 0 (no segment under the key) or 1 Version Size Number Loaded k, k = the number of
   bytes outside those four fields that NewSHM changed (the code writes no other byte: 0) *)
Definition wire_seg (s : option seg) : list Z :=
  match s with None => [0] | Some g => [1; sg_ver g; sg_size g; sg_number g; sg_loaded g; 0] end.
Definition wire_srun (o : (Z * Z) * option seg) : list Z := wire_status (fst o) ++ wire_seg (snd o).
Fixpoint parse_sruns (gs : list (list Z)) : option (list srun) :=
  match gs with
  | [] => Some []
  | [b; n; l] :: r => match parse_sruns r with
                      | Some rs => Some ({| r_create := negb (b =? 0); r_number := n; r_loaded := l |} :: rs)
                      | None => None
                      end
  | _ => None
  end.

(* op 1 layout of a struct: go_size packed_size go_align nfields (len name.. go_off packed_off go_sz packed_sz)*
   op 2 encode a record value given by its leaves; op 3 decode bytes to leaves
   op 4 partial update of .PASSWDS: [cfg; uid] field-name value-leaves file
   op 5 level-2 update of .PASSWD2: [cfg; exists; perm; isSet; now] file
   op 10 a history of updates, some refused: [cfg; pin] .PASSWDS [exists] .PASSWD2 step...   (pin: scheduling of the driver only)
   op 11 a history of types.BinaryWrite calls to writers of limited room: [cfg; pin] (name leaves [sink])...
   op 13 runs of a server over one shared-memory key: [cfg; SHMALIGNEDSIZE] [exists; alloc; Version; Size; Number; Loaded]
         (the segment a previous run left, if any) then per run [isCreate; Number; Loaded] *)
Definition run_case (args : list (list Z)) : list Z :=
  match args with
  | [[1]; [c]; name] =>
      match lookup (string_of_bytes name) (env (cfg_of c)) with
      | Some t =>
          let fs := fields_of t in
          [ST_OK; go_size t; packed_size t; go_align t; lenZ fs]
          ++ layout_wire fs (go_offsets fs) (packed_offsets fs)
      | None => [ST_ERR; 0]
      end
  | [[2]; [c]; name; leaves] =>
      match lookup (string_of_bytes name) (env (cfg_of c)) with
      | Some t => match unflatten t leaves with
                  | Some (v, []) => if wt t v then ST_OK :: encode t v else [ST_ERR; 2]
                  | _ => [ST_ERR; 1]
                  end
      | None => [ST_ERR; 0]
      end
  | [[3]; [c]; name; bs] =>
      match lookup (string_of_bytes name) (env (cfg_of c)) with
      | Some t => match decode t bs with
                  | Some (v, _) => ST_OK :: flatten v
                  | None => [ST_ERR; 1]
                  end
      | None => [ST_ERR; 0]
      end
  | [[4]; [c; uid]; fname; leaves; f] =>
      let c := cfg_of c in
      let fname := string_of_bytes fname in
      match field_index (userec c) fname with
      | None => [ST_ERR; ERR_BAD_FIELD]
      | Some i =>
          let ft := field_ty (userec c) i in
          match unflatten ft leaves with
          | Some (v, []) => if wt ft v then wire_upd (passwd_update_field c fname uid v f) else [ST_BADCASE]
          | _ => [ST_BADCASE]
          end
      end
  | [[5]; [c; ex; perm; isSet; now]; f] =>
      wire_upd (passwd2_update_level2 (cfg_of c) perm (negb (isSet =? 0)) now (if ex =? 0 then None else Some f))
  | [10] :: [c; _] :: f :: [ex] :: f2 :: steps =>
      match parse_steps (cfg_of c) steps with
      | Some h =>
          let '(outs, st) := run_history (cfg_of c) h {| st_pw := f; st_pw2 := if ex =? 0 then None else Some f2 |} in
          ST_OK :: flat_map wire_status outs ++ wire_hstate st
      | None => [ST_BADCASE]
      end
  | [11] :: [c; _] :: gs =>
      match bw_history (env (cfg_of c)) gs with
      | Some out => ST_OK :: out
      | None => [ST_BADCASE]
      end
  | [13] :: [c; al] :: [ex; alloc; ver; size; number; loaded] :: runs =>
      match parse_sruns runs with
      | Some rs =>
          let s := if ex =? 0 then None
                   else Some {| sg_alloc := alloc; sg_ver := ver; sg_size := size; sg_number := number; sg_loaded := loaded |} in
          ST_OK :: flat_map wire_srun (fst (shm_history (cfg_of c) al rs s))
      | None => [ST_BADCASE]
      end
  | _ => [ST_BADCASE]
  end.
