(* C06 — article lookup and paging over a board index (.DIR).
   Executable model of cmsys/record.go (FindRecordStartIdx and its helpers, GetRecord, GetRecords) and of the
   page walk that ptt.LoadGeneralArticles / bbs.LoadGeneralArticles compose from them.

   An index file is a list of entries; [None] is an entry whose file name has no parsable creation time
   (delete-marked ".deleted", zeroed, garbage); [Some (t, nm)] is "M.<t>.A.<nm>".  A cursor is a creation time T
   and optionally a file name; the harness (and every caller in ptt/bbs) builds the file name from the same T, so
   the name is represented by its suffix number alone.  Indices in the store are 0-based, [SortIdx] is 1-based. *)
From Verif Require Import Base.Common.

Definition entry := option (Z * Z).

(* a call returns a value, an error (small enum), or does not return within its fuel *)
Inductive fr (A : Type) : Type :=
| FOk (a : A)
| FErr (code : Z)
| FHang.
Arguments FOk {A} a.
Arguments FErr {A} code.
Arguments FHang {A}.

Definition E_NOTFOUND : Z := 1.   (* cmsys.ErrRecordNotFound *)
Definition E_EOF : Z := 2.        (* read beyond the end of the file *)
Definition E_SEEK : Z := 3.       (* seek to a negative offset *)
Definition E_INVALIDIDX : Z := 4. (* ptttype.ErrInvalidIdx *)
Definition E_ATOI : Z := 5.       (* strconv error: file name / cursor without a parsable creation time *)

Definition fbind {A B} (r : fr A) (f : A -> fr B) : fr B :=
  match r with FOk a => f a | FErr c => FErr c | FHang => FHang end.

(* file.Seek + types.BinaryRead of record i *)
Definition rd (es : list entry) (i : Z) : fr entry :=
  if i <? 0 then FErr E_SEEK
  else match nth_error es (Z.to_nat i) with Some e => FOk e | None => FErr E_EOF end.

(* Every loop of record.go over the index has the same shape: walk idx up (down) to a bound, skip entries
   whose CreateTime() fails, stop at the first parsable entry that meets the loop's break/return condition.
   [FOk None] = the loop ran past its bound. *)
Fixpoint scan_up (fuel : nat) (es : list entry) (idx bound : Z) (p : Z * Z -> bool) : fr (option (Z * (Z * Z))) :=
  match fuel with
  | O => FHang
  | S f =>
      if idx <=? bound then
        match rd es idx with
        | FOk (Some tn) => if p tn then FOk (Some (idx, tn)) else scan_up f es (idx + 1) bound p
        | FOk None => scan_up f es (idx + 1) bound p
        | FErr c => FErr c
        | FHang => FHang
        end
      else FOk None
  end.

Fixpoint scan_down (fuel : nat) (es : list entry) (idx bound : Z) (p : Z * Z -> bool) : fr (option (Z * (Z * Z))) :=
  match fuel with
  | O => FHang
  | S f =>
      if bound <=? idx then
        match rd es idx with
        | FOk (Some tn) => if p tn then FOk (Some (idx, tn)) else scan_down f es (idx - 1) bound p
        | FOk None => scan_down f es (idx - 1) bound p
        | FErr c => FErr c
        | FHang => FHang
        end
      else FOk None
  end.

Definition lfuel (es : list entry) : nat := S (S (length es)).

(* findValidRecordIdxInStore: nearest parsable entry from idx towards the bound, with its header *)
Definition find_valid (es : list entry) (idx : Z) (desc : bool) (s e : Z) : fr (Z * (Z * Z)) :=
  match (if desc then scan_down (lfuel es) es idx s (fun _ => true) else scan_up (lfuel es) es idx e (fun _ => true)) with
  | FOk (Some r) => FOk r
  | FOk None => FErr E_NOTFOUND
  | FErr c => FErr c
  | FHang => FHang
  end.

(* findRecordStartIdxBinSearchValidIdxInStore: the probe is unparsable; returns (idx, header, start, end) *)
Definition valid_idx (es : list entry) (idx s e : Z) : fr (Z * (Z * Z) * Z * Z) :=
  if idx =? s then
    fbind (find_valid es idx false s e) (fun '(i, tn) => FOk (i, tn, i, e))
  else if idx =? e then
    fbind (find_valid es idx true s e) (fun '(i, tn) => FOk (i, tn, s, i))
  else
    fbind (find_valid es idx false s e) (fun '(i, tn) =>
      if i =? e then fbind (find_valid es idx true s e) (fun '(i2, tn2) => FOk (i2, tn2, s, e))
      else FOk (i, tn, s, e)).

(* the tail of one round of findRecordStartIdxBinSearch, once a parsable probe (idx, tn) is at hand;
   [again s e] is the next round *)
Definition bs_cont (again : Z -> Z -> fr (Z * entry)) (T idx : Z) (tn : Z * Z) (s e : Z) : fr (Z * entry) :=
  let j := wrap32 (T - fst tn) in
  if j =? 0 then FOk (idx, Some tn)
  else if e =? s then FOk (idx, Some tn)
  else if idx =? s then again e e            (* idxInStore = end; start = end *)
  else if 0 <? j then again idx e
  else again s idx.

(* findRecordStartIdxBinSearch: returns the index it stopped at and the header last read there *)
Fixpoint binsearch (fuel : nat) (es : list entry) (s e T : Z) : fr (Z * entry) :=
  match fuel with
  | O => FHang
  | S f =>
      let idx := Z.quot (s + e) 2 in
      match rd es idx with
      | FErr c => FErr c
      | FHang => FHang
      | FOk (Some tn) => bs_cont (fun s' e' => binsearch f es s' e' T) T idx tn s e
      | FOk None =>
          if s =? e then FOk (idx, None)
          else match valid_idx es idx s e with
               | FOk (idx', tn, s', e') => bs_cont (fun s' e' => binsearch f es s' e' T) T idx' tn s' e'
               | FErr c => FErr c
               | FHang => FHang
               end
      end
  end.

Definition name_eq (name : option Z) (n : Z) : bool :=
  match name with None => true | Some m => n =? m end.

(* findRecordStartIdxPostSearchDescLinearSearch *)
Definition lin_down (es : list entry) (idx ss T : Z) (name : option Z) : fr Z :=
  match scan_down (lfuel es) es idx ss (fun tn => ((T =? fst tn) && name_eq name (snd tn)) || (fst tn <? T)) with
  | FOk (Some (i, (t, n))) =>
      if (T =? t) && name_eq name n then FOk i
      else match name with Some _ => FErr E_NOTFOUND | None => FOk i end
  | FOk None => FErr E_NOTFOUND
  | FErr c => FErr c
  | FHang => FHang
  end.

(* findRecordStartIdxPostSearchAscLinearSearch *)
Definition lin_up (es : list entry) (idx ee T : Z) (name : option Z) : fr Z :=
  match scan_up (lfuel es) es idx ee (fun tn => ((T =? fst tn) && name_eq name (snd tn)) || (T <? fst tn)) with
  | FOk (Some (i, (t, n))) =>
      if (T =? t) && name_eq name n then FOk i
      else match name with Some _ => FErr E_NOTFOUND | None => FOk i end
  | FOk None => FErr E_NOTFOUND
  | FErr c => FErr c
  | FHang => FHang
  end.

(* findRecordStartIdxPostSearchDesc: up to the first entry newer than the cursor (else the last entry), then down *)
Definition post_desc (es : list entry) (idx ss ee T : Z) (name : option Z) : fr Z :=
  match scan_up (lfuel es) es idx ee (fun tn => T <? fst tn) with
  | FErr c => FErr c
  | FHang => FHang
  | FOk r =>
      let i := match r with Some (i, _) => i | None => ee end in
      match lin_down es i ss T name with
      | FOk k => FOk k
      | FHang => FHang
      | FErr _ => lin_down es i ss T None
      end
  end.

(* findRecordStartIdxPostSearchAsc: down to the first entry older than the cursor (else the first entry), then up *)
Definition post_asc (es : list entry) (idx ss ee T : Z) (name : option Z) : fr Z :=
  match scan_down (lfuel es) es idx ss (fun tn => fst tn <? T) with
  | FErr c => FErr c
  | FHang => FHang
  | FOk r =>
      let i := match r with Some (i, _) => i | None => ss end in
      match lin_up es i ee T name with
      | FOk k => FOk k
      | FHang => FHang
      | FErr _ => lin_up es i ee T None
      end
  end.

Definition bfuel (es : list entry) : nat := S (S (2 * length es)).

(* cmsys.FindRecordStartIdx(dir, total, createTime, filename, isDesc) -> SortIdx *)
Definition find (es : list entry) (total T : Z) (name : option Z) (desc : bool) : fr Z :=
  match find_valid es 0 false 0 (total - 1) with
  | FErr c => FErr c
  | FHang => FHang
  | FOk (ss, _) =>
      match (match find_valid es (total - 1) true ss (total - 1) with
             | FOk (i, _) => FOk i | FErr _ => FOk (-1) | FHang => FHang end) with   (* the error is not looked at *)
      | FErr c => FErr c
      | FHang => FHang
      | FOk ee =>
          match binsearch (bfuel es) es ss ee T with
          | FErr c => FErr c
          | FHang => FHang
          | FOk (_, None) => FErr E_ATOI
          | FOk (idx, Some (t, n)) =>
              if (T =? t) && (match name with Some m => n =? m | None => false end) then FOk (idx + 1)
              else fbind (if desc then post_desc es idx ss ee T name else post_asc es idx ss ee T name)
                         (fun i => FOk (i + 1))
          end
      end
  end.

(* cmsys.GetRecord(dir, filename, total): the found entry must carry the name *)
Definition get_record (es : list entry) (total T nm : Z) : fr Z :=
  fbind (find es total T (Some nm) true) (fun idx =>
    fbind (rd es (idx - 1)) (fun e =>
      match e with
      | Some (t, n) => if (t =? T) && (n =? nm) then FOk idx else FErr E_NOTFOUND
      | None => FErr E_NOTFOUND
      end)).

(* cmsys.GetRecords(board, dir, startIdx, n, isDesc): (SortIdx, entry) pairs *)
Fixpoint get_records_loop (n : nat) (es : list entry) (idx : Z) (desc : bool) : list (Z * entry) :=
  match n with
  | O => []
  | S n' =>
      if (idx =? 0) || (lenZ es <? idx) then []
      else match rd es (idx - 1) with
           | FOk e => (idx, e) :: get_records_loop n' es (if desc then idx - 1 else idx + 1) desc
           | _ => []
           end
  end.
Definition get_records (es : list entry) (start : Z) (n : nat) (desc : bool) : fr (list (Z * entry)) :=
  if start <? 1 then FErr E_INVALIDIDX else FOk (get_records_loop n es start desc).

(* ptt.LoadGeneralArticles from a resolved start index (0 = "from the newest" when descending):
   k entries and the (k+1)-th as the next cursor *)
Definition load_page (es : list entry) (start : Z) (k : nat) (desc : bool) : fr (list (Z * entry) * option (Z * entry)) :=
  if lenZ es =? 0 then FOk ([], None)
  else
    let start' := if (start =? 0) && desc then lenZ es else start in
    fbind (get_records es start' (S k) desc) (fun l =>
      if Nat.eqb (length l) (S k) then FOk (firstn k l, nth_error l k) else FOk (l, None)).

(* bbs.LoadGeneralArticles iterated on its own next-cursor: visited SortIdx in order and how the walk ended
   (0 = last page reached, otherwise the error code of the step that failed; out of fuel = did not stop).
   The cursor of an unparsable entry ("0@00000000") is rejected by DeserializeArticleIdxStr. *)
Fixpoint walk (fuel : nat) (es : list entry) (k : nat) (desc : bool) (start : Z) (pages : Z) (acc : list Z)
  : fr (Z * Z * list Z) :=
  match fuel with
  | O => FHang
  | S f =>
      match load_page es start k desc with
      | FHang => FHang
      | FErr c => FOk (c, pages, acc)
      | FOk (items, next) =>
          let acc' := acc ++ map fst items in
          match next with
          | None => FOk (0, pages + 1, acc')
          | Some (_, None) => FOk (E_ATOI, pages + 1, acc')
          | Some (_, Some (t, nm)) =>
              match find es (lenZ es) t (Some nm) desc with
              | FOk i => walk f es k desc i (pages + 1) acc'
              | FErr c => FOk (c, pages + 1, acc')
              | FHang => FHang
              end
          end
      end
  end.
Definition wfuel (es : list entry) : nat := S (S (S (2 * length es))).
(* result: (how it ended, pages served, visited positions) *)
Definition page_walk (es : list entry) (k : nat) (desc : bool) : fr (Z * Z * list Z) :=
  walk (wfuel es) es k desc (if desc then 0 else 1) 0 [].

(* ---- bbs.LoadGeneralArticles as one call: cursor text -> start index -> page ----
   A cursor is [None] (the empty string: list from the default start) or [Some (T, nm)] - the text
   "<T>@<article id of M.<T>.A.<nm>>" that DeserializeArticleIdxStr accepted (time and name consistent).  The cursor
   may come from a page served earlier (and be stale by now) or from the client: any (T, nm). *)
Definition E_NORECORD : Z := 8.   (* ptt.ErrNoRecord: a cursor on a board whose cached article count is 0 *)

(* bbs.loadGeneralArticlesToStartIdx -> ptt.FindArticleStartIdx -> cmsys.FindRecordStartIdx; an error ends the request *)
Definition bbs_start (es : list entry) (cur : option (Z * Z)) (desc : bool) : fr Z :=
  match cur with
  | None => FOk (if desc then 0 else 1)
  | Some (T, nm) => if lenZ es =? 0 then FErr E_NORECORD else find es (lenZ es) T (Some nm) desc
  end.

(* bbs.LoadGeneralArticles(cursor, k, desc): the (SortIdx, entry) pairs of the page and the entry after it *)
Definition bbs_page (es : list entry) (cur : option (Z * Z)) (k : nat) (desc : bool)
  : fr (list (Z * entry) * option (Z * entry)) :=
  fbind (bbs_start es cur desc) (fun s => load_page es s k desc).

(* an article is deleted: its index entry is overwritten in place with a delete-marked (unparsable) one *)
Fixpoint delete_at (es : list entry) (i : nat) : list entry :=
  match es, i with
  | [], _ => []
  | _ :: r, O => None :: r
  | e :: r, S i' => e :: delete_at r i'
  end.
(* the deletions (page number, 0-based position) scheduled right before page [pg] is requested *)
Definition apply_dels (es : list entry) (pg : Z) (dels : list (Z * Z)) : list entry :=
  fold_left (fun acc d => if (fst d =? pg) && (0 <=? snd d) then delete_at acc (Z.to_nat (snd d)) else acc) dels es.

Definition cursor_wire (o : option (Z * entry)) : list Z :=
  match o with None => [-1; 0] | Some (_, None) => [-2; 0] | Some (_, Some (t, nm)) => [t; nm] end.
Definition page_wire (p : list (Z * entry) * option (Z * entry)) : list Z :=
  lenZ (fst p) :: match fst p with [] => 0 | (i, _) :: _ => i end :: cursor_wire (snd p).

(* bbs.LoadGeneralArticles iterated on the cursors it hands out WHILE THE INDEX CHANGES: before page number [pg]
   (0 = the first) is requested the scheduled deletions are applied.  Result: (how it ended, pages served, visited
   SortIdx in order, per page [count; first SortIdx; next cursor]). *)
Fixpoint bwalk (fuel : nat) (es : list entry) (k : nat) (desc : bool) (cur : option (Z * Z)) (pg : Z)
               (dels : list (Z * Z)) (vis tr : list Z) : fr (Z * Z * list Z * list Z) :=
  match fuel with
  | O => FHang
  | S f =>
      let es' := apply_dels es pg dels in
      match bbs_page es' cur k desc with
      | FHang => FHang
      | FErr c => FOk (c, pg, vis, tr)
      | FOk (items, next) =>
          let vis' := vis ++ map fst items in
          let tr' := tr ++ page_wire (items, next) in
          match next with
          | None => FOk (0, pg + 1, vis', tr')
          | Some (_, None) => FOk (E_ATOI, pg + 1, vis', tr')
          | Some (_, Some tn) => bwalk f es' k desc (Some tn) (pg + 1) dels vis' tr'
          end
      end
  end.
Definition bwfuel (es : list entry) : nat := S (S (S (S (S (S (2 * length es)))))).
Definition bbs_walk (es : list entry) (k : nat) (desc : bool) (dels : list (Z * Z)) : fr (Z * Z * list Z * list Z) :=
  bwalk (bwfuel es) es k desc None 0 dels [] [].

(* ---- the specification: a linear scan of the whole file ---- *)
Definition is_exact (T nm : Z) (e : entry) : bool :=
  match e with Some (t, n) => (t =? T) && (n =? nm) | None => false end.
Definition is_le (T : Z) (e : entry) : bool := match e with Some (t, _) => t <=? T | None => false end.
Definition is_ge (T : Z) (e : entry) : bool := match e with Some (t, _) => T <=? t | None => false end.
Definition is_valid (e : entry) : bool := match e with Some _ => true | None => false end.

(* position (head = k) of the first / last entry satisfying p *)
Fixpoint first_idx (p : entry -> bool) (es : list entry) (k : Z) : option Z :=
  match es with [] => None | e :: r => if p e then Some k else first_idx p r (k + 1) end.
Fixpoint last_idx (p : entry -> bool) (es : list entry) (k : Z) : option Z :=
  match es with
  | [] => None
  | e :: r => match last_idx p r (k + 1) with Some i => Some i | None => if p e then Some k else None end
  end.

(* the entry equal to the cursor if there is one, else the nearest entry in the listing direction *)
Definition find_spec (es : list entry) (T : Z) (name : option Z) (desc : bool) : option Z :=
  let pick := if desc then last_idx else first_idx in
  match (match name with Some nm => pick (is_exact T nm) es 1 | None => None end) with
  | Some i => Some i
  | None => pick (if desc then is_le T else is_ge T) es 1
  end.

(* the page of k entries that starts at position s (1-based) and runs in the listing direction, with the entry after
   it as the next cursor: what a linear reader of the file lists from s *)
Fixpoint zseq (d a : Z) (len : nat) : list Z :=
  match len with O => [] | S l => a :: zseq d (a + d) l end.
Definition dir (desc : bool) : Z := if desc then -1 else 1.
(* entries left in the listing direction, counting position idx itself *)
Definition remn (es : list entry) (desc : bool) (idx : Z) : Z := if desc then idx else lenZ es + 1 - idx.
Definition getl (es : list entry) (i : Z) : entry := match rd es (i - 1) with FOk e => e | _ => None end.
Definition tag (es : list entry) (i : Z) : Z * entry := (i, getl es i).
Definition page_of (es : list entry) (s : Z) (k : nat) (desc : bool) : list (Z * entry) * option (Z * entry) :=
  if Z.of_nat k <? remn es desc s
  then (map (tag es) (zseq (dir desc) s k), Some (tag es (s + Z.of_nat k * dir desc)))
  else (map (tag es) (zseq (dir desc) s (Z.to_nat (remn es desc s))), None).

(* one bbs.LoadGeneralArticles call as the property states it: no cursor - the page from the newest (descending) /
   the first (ascending) entry; a cursor - the page from the entry the linear scan positions it at, and NOT FOUND when
   the scan finds no entry in the listing direction (a cursor older than everything when descending, newer than
   everything when ascending): the listing ends there, it does not start over *)
Definition bbs_page_spec (es : list entry) (cur : option (Z * Z)) (k : nat) (desc : bool)
  : fr (list (Z * entry) * option (Z * entry)) :=
  match cur with
  | None => if lenZ es =? 0 then FOk ([], None) else FOk (page_of es (if desc then lenZ es else 1) k desc)
  | Some (T, nm) =>
      if lenZ es =? 0 then FErr E_NORECORD
      else match find_spec es T (Some nm) desc with
           | Some s => FOk (page_of es s k desc)
           | None => FErr E_NOTFOUND
           end
  end.

(* ---- file names as bytes (ptttype.Filename_t): "M.<10 decimal digits>.A.<3 hex digits>" ----
   The rest of the model represents a name by the pair (creation time, suffix number); this part ties that pair to the
   bytes the code compares.  [digits b n v]: the n digits of v in base b, most significant first (fmt "%010d" / "%03X"). *)
Fixpoint digits (b : Z) (n : nat) (v : Z) : list Z :=
  match n with O => [] | S n' => digits b n' (v / b) ++ [v mod b] end.
Definition dchar (d : Z) : Z := if d <? 10 then 48 + d else 55 + d.   (* '0'..'9', 'A'..'F' *)
Definition sdigits (b : Z) (n : nat) (v : Z) : list Z := map dchar (digits b n v).
Definition fname (t nm : Z) : list Z := 77 :: 46 :: sdigits 10 10 t ++ [46; 65; 46] ++ sdigits 16 3 nm.

Fixpoint bytes_eqb (a b : list Z) : bool :=
  match a, b with
  | [], [] => true
  | x :: a', y :: b' => (x =? y) && bytes_eqb a' b'
  | _, _ => false
  end.
(* types.Cstrcmp(f[p:], f2[p:]) == 0 for names without a NUL inside *)
Definition fn_eq_from (p : nat) (a b : list Z) : bool := bytes_eqb (skipn p a) (skipn p b).
(* ptttype.Filename_t.Eq - "compare only with the timestamp and the rnd": the 2-byte type prefix is skipped, whatever the
   site configuration is.  [sd] is the length of the safe-delete prefix (ptttype.FN_SAFEDEL_PREFIX_LEN, 2 for the default
   FN_SAFEDEL=".d", 8 for ".deleted"): a global the lookup must not depend on, so the model takes it and ignores it. *)
Definition fn_eq (sd : Z) (a b : list Z) : bool := fn_eq_from 2 a b.

(* ---- wire ---- *)
Definition entries_of_wire (l : list Z) : list entry :=
  (fix go (l : list Z) : list entry :=
     match l with
     | t :: n :: r => (if t <? 0 then None else Some (t, n)) :: go r
     | _ => []
     end) l.

Definition pairs_of_wire (l : list Z) : list (Z * Z) :=
  (fix go (l : list Z) : list (Z * Z) := match l with a :: b :: r => (a, b) :: go r | _ => [] end) l.

Definition wire_fr {A} (f : A -> list Z) (r : fr A) : list Z :=
  match r with FOk a => ST_OK :: f a | FErr c => [ST_ERR; c] | FHang => [ST_HANG] end.

Definition entry_wire (e : entry) : list Z := match e with Some (t, n) => [t; n] | None => [-1; 0] end.

(* op 1 find: [total T hasname nm desc]; 2 get_record: [total T nm]; 3 get_records: [start n desc];
   4 page walk: [k desc]; 5 the same walk through bbs.LoadGeneralArticles; 6 find_spec (the reference scan);
   7 one bbs.LoadGeneralArticles call with a client-supplied cursor: [hascur T nm k desc];
   8 bbs.LoadGeneralArticles walk with deletions between pages: [k desc] [page pos page pos ...];
   9 bbs_page_spec (the reference for op 7);
   21 Filename_t.Eq of M.<t>.A.<nm> and M.<t'>.A.<nm'> under the safe-delete prefix length sd: [sd t nm t' nm'] *)
Definition run_base (args : list (list Z)) : list Z :=
  match args with
  | [[21]; [sd; t; nm; t'; nm']] => [ST_OK; if fn_eq sd (fname t nm) (fname t' nm') then 1 else 0]
  | [[1]; es; [total; T; hasname; nm; desc]] =>
      wire_fr (fun i => [i]) (find (entries_of_wire es) total T (if hasname =? 0 then None else Some nm) (negb (desc =? 0)))
  | [[2]; es; [total; T; nm]] => wire_fr (fun i => [i]) (get_record (entries_of_wire es) total T nm)
  | [[3]; es; [start; n; desc]] =>
      wire_fr (fun l => flat_map (fun ie => fst ie :: entry_wire (snd ie)) l)
              (get_records (entries_of_wire es) start (Z.to_nat n) (negb (desc =? 0)))
  | [[4]; es; [k; desc]] => wire_fr (fun r => fst (fst r) :: snd (fst r) :: snd r) (page_walk (entries_of_wire es) (Z.to_nat k) (negb (desc =? 0)))
  | [[5]; es; [k; desc]] => wire_fr (fun r => fst (fst r) :: snd (fst r) :: snd r) (page_walk (entries_of_wire es) (Z.to_nat k) (negb (desc =? 0)))
  | [[7]; es; [hascur; T; nm; k; desc]] =>
      wire_fr page_wire (bbs_page (entries_of_wire es) (if hascur =? 0 then None else Some (T, nm)) (Z.to_nat k) (negb (desc =? 0)))
  | [[8]; es; [k; desc]; dels] =>
      wire_fr (fun r => match r with (code, pages, vis, tr) => code :: pages :: lenZ vis :: vis ++ tr end)
              (bbs_walk (entries_of_wire es) (Z.to_nat k) (negb (desc =? 0)) (pairs_of_wire dels))
  | [[9]; es; [hascur; T; nm; k; desc]] =>
      wire_fr page_wire (bbs_page_spec (entries_of_wire es) (if hascur =? 0 then None else Some (T, nm)) (Z.to_nat k) (negb (desc =? 0)))
  | [[6]; es; [T; hasname; nm; desc]] =>
      match find_spec (entries_of_wire es) T (if hasname =? 0 then None else Some nm) (negb (desc =? 0)) with
      | Some i => [ST_OK; i]
      | None => [ST_ERR; E_NOTFOUND]
      end
  | _ => [ST_BADCASE]
  end.

(* the site configuration: first group [20; sd; op] = "op under FN_SAFEDEL of length sd" (2 = the default ".d",
   8 = ".deleted").  Lookup and paging do not read the safe-delete prefix: every op answers as under the default. *)
Definition cfg_split (args : list (list Z)) : option (Z * list (list Z)) :=
  match args with
  | [c; sd; op] :: rest => if c =? 20 then Some (sd, [op] :: rest) else None
  | _ => None
  end.
Definition run_cfg (args : list (list Z)) : list Z :=
  match cfg_split args with
  | Some (sd, inner) => if (2 <=? sd) && (sd <=? 8) then run_base inner else [ST_BADCASE]
  | None => run_base args
  end.

(* ---- the environment of a lookup ----
   FIRST ACCESS.  The listing does not count the records itself: ptt.LoadGeneralArticles / FindArticleStartIdx take the
   board's article count from shared memory, and when it is not there yet (0) cache.GetBTotalWithRetry -> SetBTotal
   computes it as (size of the index file) / (record size).  [fsize es slack]: the size of a file holding the records es
   and `slack` < 128 bytes of an incomplete record after them.  [bbs_page_at es total ...] is bbs.LoadGeneralArticles on
   a board whose cached count is `total`; [bbs_page_first] is the first access.  WHICH file size the code reads (the file
   the path resolves to, through symbolic links) is the operating system's answer and is not modelled. *)
Definition REC_SZ : Z := 128.       (* ptttype.FILE_HEADER_RAW_SZ *)
Definition fsize (es : list entry) (slack : Z) : Z := REC_SZ * lenZ es + slack.
Definition btotal_of_size (sz : Z) : Z := sz / REC_SZ.
Definition bbs_page_at (es : list entry) (total : Z) (cur : option (Z * Z)) (k : nat) (desc : bool)
  : fr (list (Z * entry) * option (Z * entry)) :=
  if total =? 0 then match cur with None => FOk ([], None) | Some _ => FErr E_NORECORD end
  else fbind (match cur with
              | None => FOk (if desc then total else 1)
              | Some (T, nm) => find es total T (Some nm) desc
              end) (fun s => load_page es s k desc).
Definition bbs_page_first (es : list entry) (slack : Z) (cur : option (Z * Z)) (k : nat) (desc : bool) :=
  bbs_page_at es (btotal_of_size (fsize es slack)) cur k desc.

(* first group [30; layout; op]: op on an index reached through path layout 0..4 (regular file, symbolic links, a hard
   link) with the article count obtained by first access; [31; mode; op]: op while another operation of the same
   process (mode 1..3: an append, a delete, another lookup - none has written anything yet; 4: the same lookup in
   several goroutines) is inside the same index.  Neither is an input of lookup and paging: the entries alone decide.
   Op 7 under 30 goes through the first-access count. *)
Definition env_split (args : list (list Z)) : option (Z * list (list Z)) :=
  match args with
  | [c; v; op] :: rest =>
      if (c =? 30) && (0 <=? v) && (v <=? 4) then Some (30, [op] :: rest)
      else if (c =? 31) && (1 <=? v) && (v <=? 4) then Some (31, [op] :: rest)
      else None
  | _ => None
  end.
Definition run_first (args : list (list Z)) : list Z :=
  match args with
  | [[7]; es; [hascur; T; nm; k; desc]] =>
      wire_fr page_wire (bbs_page_first (entries_of_wire es) 0 (if hascur =? 0 then None else Some (T, nm)) (Z.to_nat k) (negb (desc =? 0)))
  | _ => run_base args
  end.
Definition run_case (args : list (list Z)) : list Z :=
  match env_split args with
  | Some (c, inner) => if c =? 30 then run_first inner else run_base inner
  | None => run_cfg args
  end.
