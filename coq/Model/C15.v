(* C15 — concurrent registrations. Small-step interleaving model of ptt.SetupNewUser (ptt/register.go)
   over the passwd semaphore (cmbbs.PasswdLock / PasswdUnlock, sem/) and an abstract account table:
   [idx k] is SHM.Userid[k] (looked up case-insensitively through the hash index, cache/cache_user.go),
   [pwd k] is the user id stored in record k of .PASSWDS. [] is the empty id (a free slot).

   One thread = one SetupNewUser call. The atomic steps are the assumptions of this model (DESIGN §3):
   one DoSearchUserRaw, semop(-1) granting exclusivity, SetUserID, the write of one .PASSWDS record,
   semop(+1). The semaphore is a COUNTER ([semv], the value semctl(GETVAL) reads): PasswdLock waits until it
   is positive and decrements it, every PasswdUnlock — the deferred one on the success path and on each
   error path inside the critical section — increments it, whatever its value; nothing in the step
   relation caps it at 1. That it never exceeds 1 is a theorem about the protocol as coded
   (Props: C15_sem_counter), not a property of the semaphore. [recheck c] says whether the id is looked up again inside the critical section:
   [code_rechecks] below is what the code in the tree does now; the other value is kept so that the
   theorem about the code as it was found (C15_unique_id_refuted) stays stated and checked.

   Processes. Every thread belongs to a process ([proc c t]). The semaphore operations carry SEM_UNDO (sem/sem.c): the
   kernel keeps, per process, the adjustment [adj p] it will add to the value when the process goes away (semop(-1) adds
   1 to it, semop(+1) subtracts 1). [Join p] is a process starting while the site runs: its start-up (main_init.go)
   attaches the shared memory and calls cmbbs.PasswdInit with no handle yet; the semaphore exists, so semget with
   IPC_CREAT|IPC_EXCL fails with EEXIST and the process only fetches the handle — [passwd_init true v = v]: the value is
   not touched, whatever the other processes are doing. [Die p] is process p going away (exit or SIGKILL) at any moment:
   none of its calls that have not returned ever returns ([kill]: what they had written stays written), and the kernel
   applies the adjustment: value := value + adj p. That the adjustment is 1 exactly for the process whose call is inside
   and 0 for every other one — so that a death releases the lock when and only when it was held there — is again a
   theorem (Props: C15_undo_adjustment), not built into the step relation.

   tryCleanUser (between the existence check and the lock, only when no free slot is visible) is not a step of the
   interleaving relation above; it is modelled at the end of this file as a function on the account table
   ([expire_value], [sweep_kills], [sweep]: the comparison of the sweeping process' clock with the stamps other requests
   stored) together with a sequential registration machine [sw_step] that runs it where SetupNewUser does; the harness
   keeps .fresh recent in every op but op 6 (model op 3), where the sweep is what is exercised. *)
From Verif Require Import Base.Common Gen.Consts_default.

Definition lower (ch : Z) : Z := if (65 <=? ch) && (ch <=? 90) then ch + 32 else ch.
Definition key (id : list Z) : list Z := map lower id.

Fixpoint eqbl (a b : list Z) : bool :=
  match a, b with
  | [], [] => true
  | x :: a', y :: b' => (x =? y) && eqbl a' b'
  | _, _ => false
  end.

(* strcasecmp(a, b) == 0 on C-string contents *)
Definition ci_eqb (a b : list Z) : bool := eqbl (key a) (key b).
Definition is_empty (id : list Z) : bool := match id with [] => true | _ => false end.

Definition E_EXISTS : Z := 1.      (* ptttype.ErrUserIDAlreadyExists *)
Definition E_NOSLOT : Z := 2.      (* cache.ErrInvalidUID: SetUserID(0, ...) when no empty slot was found *)
Definition E_INTR : Z := 104.      (* errno EINTR from semop, as classified by the driver (100 + errno) *)

Inductive pc : Type :=
| PCheck                 (* before the existence check *)
| PLock                  (* id not found — hook "reg.checked"; waits for the semaphore *)
| PRecheck               (* holds the semaphore — hook "reg.locked"; (repaired code) looks the id up again *)
| PFind                  (* holds the semaphore; searches the empty id *)
| PSetID (k : nat)       (* found free slot k (0-based) *)
| PWrite (k : nat)       (* SHM index updated; .PASSWDS record not yet written *)
| PUnlock (k : nat)      (* record written — hook "reg.beforeUnlock" *)
| PUnlockErr (e : Z)     (* failed inside the critical section; deferred unlock pending *)
| PDoneOk (k : nat)      (* returned nil; the account is in slot k *)
| PDoneErr (e : Z)       (* returned an error *)
| PDead                  (* its process went away before it wrote anything; never returns *)
| PDeadW (k : nat)       (* its process went away between SetUserID and the .PASSWDS write of slot k *)
| PDeadOk (k : nat).     (* its process went away after the record was written, before it could return *)

Record cfg : Type := mkCfg {
  nslots : nat;               (* MAX_USERS (run_case takes it from Gen/Consts_default.v) *)
  recheck : bool;
  uid : nat -> list Z;        (* the id thread t registers *)
  proc : nat -> nat           (* the process thread t runs in *)
}.

Record st : Type := mkSt {
  pcs : nat -> pc;
  sem : option nat;           (* ghost: the thread whose semop(-1) was granted last and has not posted yet; no step reads it *)
  semv : nat;                 (* the value of the passwd semaphore (semctl GETVAL); the only thing PasswdLock looks at *)
  idx : nat -> list Z;
  pwd : nat -> list Z;
  adj : nat -> Z              (* the SEM_UNDO adjustment the kernel holds for each process *)
}.

Definition updf {A} (f : nat -> A) (k : nat) (v : A) : nat -> A := fun x => if Nat.eqb x k then v else f x.

(* DoSearchUserRaw(id) != 0 *)
Definition exists_id (n : nat) (tab : nat -> list Z) (id : list Z) : bool :=
  existsb (fun k => ci_eqb (tab k) id) (seq 0 n).
(* DoSearchUserRaw(""): the free slots are chained in ascending order after a load and registrations only
   ever take the first one, so the first free slot is the lowest one *)
Definition find_empty (n : nat) (tab : nat -> list Z) : option nat :=
  find (fun k => is_empty (tab k)) (seq 0 n).

Definition set_pc (s : st) (t : nat) (p : pc) : st := mkSt (updf (pcs s) t p) (sem s) (semv s) (idx s) (pwd s) (adj s).
(* the SEM_UNDO bookkeeping of one semop of thread t *)
Definition adj_op (c : cfg) (s : st) (t : nat) (d : Z) : nat -> Z := updf (adj s) (proc c t) (adj s (proc c t) + d).

(* one step of thread t *)
Definition step_thread (c : cfg) (s : st) (t : nat) : option st :=
  match pcs s t with
  | PCheck =>
      if exists_id (nslots c) (idx s) (uid c t) then Some (set_pc s t (PDoneErr E_EXISTS))
      else Some (set_pc s t PLock)
  | PLock =>
      match semv s with
      | S v => Some (mkSt (updf (pcs s) t (if recheck c then PRecheck else PFind)) (Some t) v (idx s) (pwd s) (adj_op c s t 1))
      | O => None                                                            (* blocked in semop(-1) *)
      end
  | PRecheck =>
      if exists_id (nslots c) (idx s) (uid c t) then Some (set_pc s t (PUnlockErr E_EXISTS))
      else Some (set_pc s t PFind)
  | PFind =>
      match find_empty (nslots c) (idx s) with
      | Some k => Some (set_pc s t (PSetID k))
      | None => Some (set_pc s t (PUnlockErr E_NOSLOT))
      end
  | PSetID k => Some (mkSt (updf (pcs s) t (PWrite k)) (sem s) (semv s) (updf (idx s) k (uid c t)) (pwd s) (adj s))
  | PWrite k => Some (mkSt (updf (pcs s) t (PUnlock k)) (sem s) (semv s) (idx s) (updf (pwd s) k (uid c t)) (adj s))
  | PUnlock k => Some (mkSt (updf (pcs s) t (PDoneOk k)) None (S (semv s)) (idx s) (pwd s) (adj_op c s t (-1)))      (* semop(+1) *)
  | PUnlockErr e => Some (mkSt (updf (pcs s) t (PDoneErr e)) None (S (semv s)) (idx s) (pwd s) (adj_op c s t (-1)))  (* the deferred semop(+1) *)
  | PDoneOk _ => None
  | PDoneErr _ => None
  | PDead => None
  | PDeadW _ => None
  | PDeadOk _ => None
  end.

(* semop(2) is never restarted after a signal handler ran (the Go runtime preempts with signals): a thread waiting
   for the semaphore may instead return EINTR, and SetupNewUser returns that error without having changed anything.
   Observed on the implementation about once in 30 000 contended calls. *)
Definition step_intr (s : st) (t : nat) : option st :=
  match pcs s t with
  | PLock => Some (set_pc s t (PDoneErr E_INTR))
  | _ => None
  end.

(* cmbbs.PasswdInit() in a process that has no handle yet (cmbbs.Sem == nil), on a semaphore whose value is v.
   [ex] = a semaphore set for PASSWDSEM_KEY exists already.
   not ex: semget(IPC_CREAT|IPC_EXCL) creates it, SETVAL 1.
   ex:     semget fails with EEXIST, semget again without IPC_CREAT: the handle, nothing else. *)
Definition passwd_init (ex : bool) (v : nat) : nat := if ex then v else 1%nat.

(* a process starts while the site runs *)
Definition step_join (s : st) (p : nat) : option st :=
  Some (mkSt (pcs s) (sem s) (passwd_init true (semv s)) (idx s) (pwd s) (adj s)).

(* what becomes of a call when its process goes away *)
Definition kill (p : pc) : pc :=
  match p with
  | PWrite k => PDeadW k
  | PUnlock k => PDeadOk k
  | PDoneOk _ | PDoneErr _ | PDeadW _ | PDeadOk _ => p
  | _ => PDead
  end.

(* process p goes away (exit, SIGKILL): exit_sem adds its adjustment to the value (never below 0) and forgets it *)
Definition step_die (c : cfg) (s : st) (p : nat) : option st :=
  Some (mkSt (fun t => if Nat.eqb (proc c t) p then kill (pcs s t) else pcs s t)
             (match sem s with Some h => if Nat.eqb (proc c h) p then None else Some h | None => None end)
             (Z.to_nat (Z.of_nat (semv s) + adj s p))
             (idx s) (pwd s) (updf (adj s) p 0)).

Inductive act : Type :=
| Step (t : nat)
| Intr (t : nat)
| Join (p : nat)
| Die (p : nat).

Definition step (c : cfg) (s : st) (a : act) : option st :=
  match a with
  | Step t => step_thread c s t
  | Intr t => step_intr s t
  | Join p => step_join s p
  | Die p => step_die c s p
  end.

(* the first process created the semaphore: PasswdInit on the create path *)
Definition init_st (tab : nat -> list Z) : st := mkSt (fun _ => PCheck) None (passwd_init false 0%nat) tab tab (fun _ => 0).

(* a schedule is a list of actions; an action that is not enabled is skipped *)
Definition step_skip (c : cfg) (s : st) (a : act) : st := match step c s a with Some s' => s' | None => s end.
Definition run (c : cfg) (sch : list act) (s : st) : st := fold_left (step_skip c) sch s.

(* strict replay: every scheduled action must be enabled (used to validate observed traces) *)
Fixpoint replay (c : cfg) (sch : list act) (s : st) : option st :=
  match sch with
  | [] => Some s
  | a :: r => match step c s a with Some s' => replay c r s' | None => None end
  end.

(* schedule numbers: 0 <= t < JOINZ is a step of thread t, -(t+1) an interrupted wait of thread t,
   JOINZ + p process p starting, DIEZ + p process p going away *)
Definition JOINZ : Z := 2000000.
Definition DIEZ : Z := 3000000.
Definition act_of_Z (z : Z) : act :=
  if z <? 0 then Intr (Z.to_nat (- z - 1))
  else if z <? JOINZ then Step (Z.to_nat z)
  else if z <? DIEZ then Join (Z.to_nat (z - JOINZ))
  else Die (Z.to_nat (z - DIEZ)).

(* replay of an observed trace given as schedule numbers, with observation points: the number [OBS] in the schedule
   is not a step — it records the value of the semaphore at that moment (the driver reads semctl(GETVAL) there) *)
Definition OBS : Z := 1000000.
Fixpoint replay_obs (c : cfg) (zs : list Z) (s : st) : option (st * list Z) :=
  match zs with
  | [] => Some (s, [])
  | z :: r =>
      if z =? OBS then
        match replay_obs c r s with Some (s', o) => Some (s', Z.of_nat (semv s) :: o) | None => None end
      else match step c s (act_of_Z z) with Some s' => replay_obs c r s' | None => None end
  end.

(* what ptt.SetupNewUser in the tree does now *)
Definition code_rechecks : bool := true.

(* ------------------------------------------------------------------ wire *)
(* length-prefixed byte strings: n b1 .. bn n b1 .. bn ... *)
Fixpoint dec_strs (fuel : nat) (l : list Z) : list (list Z) :=
  match fuel with
  | O => []
  | S f => match l with
           | [] => []
           | n :: r => firstn (Z.to_nat n) r :: dec_strs f (skipn (Z.to_nat n) r)
           end
  end.
Definition enc_tab (n : nat) (tab : nat -> list Z) : list Z :=
  flat_map (fun k => lenZ (tab k) :: tab k) (seq 0 n).

Definition pc_code (p : pc) : list Z :=
  match p with
  | PDoneOk k => [1; Z.of_nat (S k)]          (* the uid is slot + 1 *)
  | PDoneErr e => [2; e]
  | PDead => [3; 0]                           (* its process went away *)
  | PDeadOk k => [3; Z.of_nat (S k)]          (* ... after it had written slot k (what the driver saw at reg.beforeUnlock) *)
  | PDeadW k => [4; Z.of_nat (S k)]           (* ... between the two writes (no schedule point there: the driver never produces it) *)
  | _ => [0; 0]
  end.

(* case: [[1]; ids of the threads; initial table (one id per slot, missing = empty); schedule (with OBS marks)]
   result: 0 :: (per thread: code, uid|error) ++ [-1] ++ index ids ++ [-1] ++ .PASSWDS ids
             ++ [-1] ++ semaphore values at the OBS marks ++ [-1; final semaphore value];
   status 3 7 = a scheduled step was not enabled.
   Threads of a later phase of a multi-phase scenario are simply threads that take their first step later.
   case [[2]; process of each thread; ids; table; schedule] is the same with the threads spread over processes
   (op 1 = all in process 0); only [Die] looks at the process of a thread. *)
Definition run_with (procs ids tab0 sch : list Z) : list Z :=
  let idl := dec_strs (length ids) ids in
  let tabl := dec_strs (length tab0) tab0 in
  let c := mkCfg (Z.to_nat ptttype.MAX_USERS) code_rechecks (fun t => nth t idl []) (fun t => Z.to_nat (nth t procs 0)) in
  match replay_obs c sch (init_st (fun k => nth k tabl [])) with
  | None => [ST_ERR; 7]
  | Some (s, obs) => ST_OK :: flat_map (fun t => pc_code (pcs s t)) (seq 0 (length idl)) ++ [-1]
                    ++ enc_tab (nslots c) (idx s) ++ [-1] ++ enc_tab (nslots c) (pwd s)
                    ++ [-1] ++ obs ++ [-1; Z.of_nat (semv s)]
  end.

(* ------------------------------------------------------------------ the expiry sweep on a full table *)
(* ptt/register.go computeUserExpireValue / checkAndExpireAccount / tryCleanUser. [now] is types.NowTS() of the
   registering process, [ll] the LastLogin another request stored: both are Time4 = int32, the difference is taken in
   int32 ([wrap32]) and divided with Go's truncating division ([Z.quot]); nothing orders [ll] and [now] - a stamp written
   while the clock was ahead (clock stepped back since, request served by another host) is LATER than [now].
   KEEP_DAYS_* are configuration variables of ptttype (defaults below; the driver reports the values in force). *)
Definition KEEP_DAYS_REGGED : Z := 120.
Definition KEEP_DAYS_UNREGGED : Z := 15.
Definition ID_GUEST : list Z := [103; 117; 101; 115; 116].
Definition ID_REGNEW : list Z := [110; 101; 119].
Definition wrap32 (z : Z) : Z := (z + 2147483648) mod 4294967296 - 2147483648.

Definition expire_value (now : Z) (id : list Z) (level ll : Z) : Z :=
  if is_empty id || negb (Z.land level ptttype.PERM_XEMPT =? 0) || eqbl id ID_GUEST then 999999
  else let m := Z.quot (wrap32 (now - ll)) 60 in
       if eqbl id ID_REGNEW then 30 - m
       else if negb (Z.land level (ptttype.PERM_LOGINOK + ptttype.PERM_VIOLATELAW) =? 0) then KEEP_DAYS_REGGED * 24 * 60 - m
       else KEEP_DAYS_UNREGGED * 24 * 60 - m.

(* checkAndExpireAccount(uid, user, CLEAN_USER_EXPIRE_RANGE_MIN) calls killUser *)
Definition sweep_kills (now : Z) (id : list Z) (level ll : Z) : bool :=
  let v := expire_value now id level ll in (v <? 0) && (ptttype.CLEAN_USER_EXPIRE_RANGE_MIN <? - v).

(* one account: id, user level, LastLogin. killUser empties the index entry and writes an all-zero record. *)
Definition srec : Type := (list Z * Z * Z)%type.
Definition srec_id (r : srec) : list Z := fst (fst r).
Definition srec_empty : srec := ([], 0, 0).
Definition sweep_rec (now : Z) (r : srec) : srec :=
  let '(id, lv, ll) := r in if sweep_kills now id lv ll then srec_empty else r.
(* tryCleanUser walks uid 2 .. MAX_USERS: slot 0 (uid 1, SYSOP) is not looked at *)
Definition sweep (now : Z) (t : list srec) : list srec :=
  match t with [] => [] | r0 :: rest => r0 :: map (sweep_rec now) rest end.

Definition sw_lookup (id : list Z) (t : list srec) : bool :=
  existsb (fun r => negb (is_empty (srec_id r)) && ci_eqb (srec_id r) id) t.
Fixpoint sw_free (t : list srec) (k : nat) : option nat :=
  match t with [] => None | r :: t' => if is_empty (srec_id r) then Some k else sw_free t' (S k) end.
Fixpoint sw_set {A} (t : list A) (k : nat) (r : A) : list A :=
  match t, k with
  | [], _ => []
  | _ :: t', O => r :: t'
  | x :: t', S k' => x :: sw_set t' k' r
  end.

(* SetupNewUser with the sweep, one call = up to 4 controller steps (thread state: 0 not started, 1 at reg.checked,
   2 at reg.locked, 3 at reg.beforeUnlock (slot+1), 4 returned nil (slot+1), 5 returned error). [stale] = .fresh is
   missing or older than an hour; the first sweep touches it. A call leaves reg.checked only while nobody is inside
   the lock (the controller of op 6 schedules it that way), so its sweep and its semop are one step here. *)
Definition sw_state : Type := (list srec * bool * list (Z * Z))%type.
Definition sw_step (now : Z) (ids : list (list Z)) (lls : list Z) (s : sw_state) (t : nat) : option sw_state :=
  let '(tab, stale, pcs) := s in
  let id := nth t ids [] in
  let '(c, v) := nth t pcs (9, 0) in
  if c =? 0 then Some (tab, stale, sw_set pcs t (if sw_lookup id tab then (5, E_EXISTS) else (1, 0)))
  else if c =? 1 then
    if existsb (fun p => (fst p =? 2) || (fst p =? 3)) pcs then None
    else let run := stale && match sw_free tab 0 with None => true | Some _ => false end in
         Some (if run then sweep now tab else tab, if run then false else stale, sw_set pcs t (2, 0))
  else if c =? 2 then
    if sw_lookup id tab then Some (tab, stale, sw_set pcs t (5, E_EXISTS))
    else match sw_free tab 0 with
         | None => Some (tab, stale, sw_set pcs t (5, E_NOSLOT))
         | Some k => Some (sw_set tab k (id, ptttype.PERM_DEFAULT, nth t lls 0), stale, sw_set pcs t (3, Z.of_nat (S k)))
         end
  else if c =? 3 then Some (tab, stale, sw_set pcs t (4, v))
  else None.

Fixpoint sw_run (now : Z) (ids : list (list Z)) (lls : list Z) (sch : list Z) (s : sw_state) : option sw_state :=
  match sch with
  | [] => Some s
  | z :: r => match sw_step now ids lls s (Z.to_nat z) with Some s' => sw_run now ids lls r s' | None => None end
  end.

Fixpoint zip3 (a : list (list Z)) (b c : list Z) : list srec :=
  match a, b, c with
  | x :: a', y :: b', z :: c' => (x, y, z) :: zip3 a' b' c'
  | _, _, _ => []
  end.

(* case [[3]; [now; fresh]; ids of the table; levels; LastLogin stamps; ids of the threads; stamps of the requests; order of the steps]
   result: 0 :: per thread (error class, uid) ++ [-1] ++ ids of the final table ++ [-1] ++ LastLogin - now per slot (0 for a free slot) *)
Definition run_sweep (now fresh : Z) (tids tlv tll ids lls sch : list Z) : list Z :=
  let tab := zip3 (dec_strs (length tids) tids) tlv tll in
  let idl := dec_strs (length ids) ids in
  match sw_run now idl lls sch (tab, negb (fresh =? 2), map (fun _ => (0, 0)) idl) with
  | None => [ST_ERR; 7]
  | Some (tab', _, pcs) =>
      ST_OK :: flat_map (fun p => if fst p =? 4 then [0; snd p] else if fst p =? 5 then [snd p; 0] else [-2; fst p]) pcs ++ [-1]
      ++ flat_map (fun r => lenZ (srec_id r) :: srec_id r) tab' ++ [-1]
      ++ map (fun r => if is_empty (srec_id r) then 0 else snd r - now) tab'
  end.

Definition run_case (args : list (list Z)) : list Z :=
  match args with
  | [[1]; ids; tab0; sch] => run_with [] ids tab0 sch
  | [[2]; procs; ids; tab0; sch] => run_with procs ids tab0 sch
  | [[3]; [now; fresh]; tids; tlv; tll; ids; lls; sch] => run_sweep now fresh tids tlv tll ids lls sch
  | _ => [ST_BADCASE]
  end.
