(* C15 — concurrent registrations. Small-step interleaving model of ptt.SetupNewUser (ptt/register.go)
   over the passwd semaphore (cmbbs.PasswdLock / PasswdUnlock, sem/) and an abstract account table:
   [idx k] is SHM.Userid[k] (looked up case-insensitively through the hash index, cache/cache_user.go),
   [pwd k] is the user id stored in record k of .PASSWDS. [] is the empty id (a free slot).

   One thread = one SetupNewUser call. The atomic steps are the assumptions of this model (DESIGN §3):
   one DoSearchUserRaw, semop(-1) granting exclusivity, SetUserID, the write of one .PASSWDS record,
   semop(+1). The semaphore is a COUNTER ([semv], the value semctl(GETVAL) reads): PasswdLock waits until it
   is positive and decrements it, every PasswdUnlock — the deferred one on the success path and on each
   error path inside the critical section — increments it, whatever its value; nothing in the step
   relation caps it at 1. That it never exceeds 1 is a theorem about the protocol as coded
   (Props: C15_sem_counter), not a property of the semaphore. [recheck c] says whether the id is looked up again inside the critical section:
   [code_rechecks] below is what the code in the tree does now; the other value is kept so that the
   theorem about the code as it was found (C15_unique_id_refuted) stays stated and checked.

   tryCleanUser (between the existence check and the lock, only when no free slot is visible) is not
   part of this model: the harness keeps .fresh recent so that it is a no-op (expiry belongs to C03). *)
From Verif Require Import Base.Common Gen.Consts_default.

Definition lower (ch : Z) : Z := if (65 <=? ch) && (ch <=? 90) then ch + 32 else ch.
Definition key (id : list Z) : list Z := map lower id.

Fixpoint eqbl (a b : list Z) : bool :=
  match a, b with
  | [], [] => true
  | x :: a', y :: b' => (x =? y) && eqbl a' b'
  | _, _ => false
  end.

(* strcasecmp(a, b) == 0 on C-string contents *)
Definition ci_eqb (a b : list Z) : bool := eqbl (key a) (key b).
Definition is_empty (id : list Z) : bool := match id with [] => true | _ => false end.

Definition E_EXISTS : Z := 1.      (* ptttype.ErrUserIDAlreadyExists *)
Definition E_NOSLOT : Z := 2.      (* cache.ErrInvalidUID: SetUserID(0, ...) when no empty slot was found *)
Definition E_INTR : Z := 104.      (* errno EINTR from semop, as classified by the driver (100 + errno) *)

Inductive pc : Type :=
| PCheck                 (* before the existence check *)
| PLock                  (* id not found — hook "reg.checked"; waits for the semaphore *)
| PRecheck               (* holds the semaphore — hook "reg.locked"; (repaired code) looks the id up again *)
| PFind                  (* holds the semaphore; searches the empty id *)
| PSetID (k : nat)       (* found free slot k (0-based) *)
| PWrite (k : nat)       (* SHM index updated; .PASSWDS record not yet written *)
| PUnlock (k : nat)      (* record written — hook "reg.beforeUnlock" *)
| PUnlockErr (e : Z)     (* failed inside the critical section; deferred unlock pending *)
| PDoneOk (k : nat)      (* returned nil; the account is in slot k *)
| PDoneErr (e : Z).      (* returned an error *)

Record cfg : Type := mkCfg {
  nslots : nat;               (* MAX_USERS (run_case takes it from Gen/Consts_default.v) *)
  recheck : bool;
  uid : nat -> list Z         (* the id thread t registers *)
}.

Record st : Type := mkSt {
  pcs : nat -> pc;
  sem : option nat;           (* ghost: the thread whose semop(-1) was granted last and has not posted yet; no step reads it *)
  semv : nat;                 (* the value of the passwd semaphore (semctl GETVAL); the only thing PasswdLock looks at *)
  idx : nat -> list Z;
  pwd : nat -> list Z
}.

Definition updf {A} (f : nat -> A) (k : nat) (v : A) : nat -> A := fun x => if Nat.eqb x k then v else f x.

(* DoSearchUserRaw(id) != 0 *)
Definition exists_id (n : nat) (tab : nat -> list Z) (id : list Z) : bool :=
  existsb (fun k => ci_eqb (tab k) id) (seq 0 n).
(* DoSearchUserRaw(""): the free slots are chained in ascending order after a load and registrations only
   ever take the first one, so the first free slot is the lowest one *)
Definition find_empty (n : nat) (tab : nat -> list Z) : option nat :=
  find (fun k => is_empty (tab k)) (seq 0 n).

Definition set_pc (s : st) (t : nat) (p : pc) : st := mkSt (updf (pcs s) t p) (sem s) (semv s) (idx s) (pwd s).

(* one step of thread t *)
Definition step_thread (c : cfg) (s : st) (t : nat) : option st :=
  match pcs s t with
  | PCheck =>
      if exists_id (nslots c) (idx s) (uid c t) then Some (set_pc s t (PDoneErr E_EXISTS))
      else Some (set_pc s t PLock)
  | PLock =>
      match semv s with
      | S v => Some (mkSt (updf (pcs s) t (if recheck c then PRecheck else PFind)) (Some t) v (idx s) (pwd s))
      | O => None                                                            (* blocked in semop(-1) *)
      end
  | PRecheck =>
      if exists_id (nslots c) (idx s) (uid c t) then Some (set_pc s t (PUnlockErr E_EXISTS))
      else Some (set_pc s t PFind)
  | PFind =>
      match find_empty (nslots c) (idx s) with
      | Some k => Some (set_pc s t (PSetID k))
      | None => Some (set_pc s t (PUnlockErr E_NOSLOT))
      end
  | PSetID k => Some (mkSt (updf (pcs s) t (PWrite k)) (sem s) (semv s) (updf (idx s) k (uid c t)) (pwd s))
  | PWrite k => Some (mkSt (updf (pcs s) t (PUnlock k)) (sem s) (semv s) (idx s) (updf (pwd s) k (uid c t)))
  | PUnlock k => Some (mkSt (updf (pcs s) t (PDoneOk k)) None (S (semv s)) (idx s) (pwd s))      (* semop(+1) *)
  | PUnlockErr e => Some (mkSt (updf (pcs s) t (PDoneErr e)) None (S (semv s)) (idx s) (pwd s))  (* the deferred semop(+1) *)
  | PDoneOk _ => None
  | PDoneErr _ => None
  end.

(* semop(2) is never restarted after a signal handler ran (the Go runtime preempts with signals): a thread waiting
   for the semaphore may instead return EINTR, and SetupNewUser returns that error without having changed anything.
   Observed on the implementation about once in 30 000 contended calls. *)
Definition step_intr (s : st) (t : nat) : option st :=
  match pcs s t with
  | PLock => Some (set_pc s t (PDoneErr E_INTR))
  | _ => None
  end.

Inductive act : Type :=
| Step (t : nat)
| Intr (t : nat).

Definition step (c : cfg) (s : st) (a : act) : option st :=
  match a with
  | Step t => step_thread c s t
  | Intr t => step_intr s t
  end.

(* PasswdInit: SETVAL 1 *)
Definition init_st (tab : nat -> list Z) : st := mkSt (fun _ => PCheck) None 1%nat tab tab.

(* a schedule is a list of actions; an action that is not enabled is skipped *)
Definition step_skip (c : cfg) (s : st) (a : act) : st := match step c s a with Some s' => s' | None => s end.
Definition run (c : cfg) (sch : list act) (s : st) : st := fold_left (step_skip c) sch s.

(* strict replay: every scheduled action must be enabled (used to validate observed traces) *)
Fixpoint replay (c : cfg) (sch : list act) (s : st) : option st :=
  match sch with
  | [] => Some s
  | a :: r => match step c s a with Some s' => replay c r s' | None => None end
  end.

(* schedule numbers: t >= 0 is a step of thread t, -(t+1) an interrupted wait of thread t *)
Definition act_of_Z (z : Z) : act := if z <? 0 then Intr (Z.to_nat (- z - 1)) else Step (Z.to_nat z).

(* replay of an observed trace given as schedule numbers, with observation points: the number [OBS] in the schedule
   is not a step — it records the value of the semaphore at that moment (the driver reads semctl(GETVAL) there) *)
Definition OBS : Z := 1000000.
Fixpoint replay_obs (c : cfg) (zs : list Z) (s : st) : option (st * list Z) :=
  match zs with
  | [] => Some (s, [])
  | z :: r =>
      if z =? OBS then
        match replay_obs c r s with Some (s', o) => Some (s', Z.of_nat (semv s) :: o) | None => None end
      else match step c s (act_of_Z z) with Some s' => replay_obs c r s' | None => None end
  end.

(* what ptt.SetupNewUser in the tree does now *)
Definition code_rechecks : bool := true.

(* ------------------------------------------------------------------ wire *)
(* length-prefixed byte strings: n b1 .. bn n b1 .. bn ... *)
Fixpoint dec_strs (fuel : nat) (l : list Z) : list (list Z) :=
  match fuel with
  | O => []
  | S f => match l with
           | [] => []
           | n :: r => firstn (Z.to_nat n) r :: dec_strs f (skipn (Z.to_nat n) r)
           end
  end.
Definition enc_tab (n : nat) (tab : nat -> list Z) : list Z :=
  flat_map (fun k => lenZ (tab k) :: tab k) (seq 0 n).

Definition pc_code (p : pc) : list Z :=
  match p with
  | PDoneOk k => [1; Z.of_nat (S k)]          (* the uid is slot + 1 *)
  | PDoneErr e => [2; e]
  | _ => [0; 0]
  end.

(* case: [[1]; ids of the threads; initial table (one id per slot, missing = empty); schedule (with OBS marks)]
   result: 0 :: (per thread: code, uid|error) ++ [-1] ++ index ids ++ [-1] ++ .PASSWDS ids
             ++ [-1] ++ semaphore values at the OBS marks ++ [-1; final semaphore value];
   status 3 7 = a scheduled step was not enabled.
   Threads of a later phase of a multi-phase scenario are simply threads that take their first step later. *)
Definition run_case (args : list (list Z)) : list Z :=
  match args with
  | [[1]; ids; tab0; sch] =>
      let idl := dec_strs (length ids) ids in
      let tabl := dec_strs (length tab0) tab0 in
      let c := mkCfg (Z.to_nat ptttype.MAX_USERS) code_rechecks (fun t => nth t idl []) in
      match replay_obs c sch (init_st (fun k => nth k tabl [])) with
      | None => [ST_ERR; 7]
      | Some (s, obs) => ST_OK :: flat_map (fun t => pc_code (pcs s t)) (seq 0 (length idl)) ++ [-1]
                        ++ enc_tab (nslots c) (idx s) ++ [-1] ++ enc_tab (nslots c) (pwd s)
                        ++ [-1] ++ obs ++ [-1; Z.of_nat (semv s)]
      end
  | _ => [ST_BADCASE]
  end.
