(* C19 — favourites. Executable model of ptt/fav (fav.go: NewFavRaw, AddBoard/AddLine/AddFolder,
   cleanup/rebuildFav, WriteFavrec, ReadFavrec, Load, Save) over byte lists and the file-system
   model of Base/Fs.v. Constants come from Gen/Consts_default.v (regenerated from ptt/fav on every run).

   Go types: NBoards, FavNum int16; NLines, NFolders, LineID, FolderID, Lid, Fid, Attr, TheType int8;
   Bid, LastVisit int32. All fields are kept as signed Z with the wrap written at each operation. *)
From Verif Require Import Base.Common Base.Fs Gen.Consts_default.

Record hdr : Type := Hdr { h_nb : Z; h_nl : Z; h_nf : Z; h_lineid : Z; h_folderid : Z; h_favnum : Z }.

Inductive item : Type :=
| IBoard (attr bid visit battr : Z)                    (* FavType{BOARD, attr, &FavBoard{bid, visit, battr}} *)
| ILine (attr lid : Z)
| IFolder (attr fid : Z) (title : list Z) (h : hdr) (sub : list item).

Definition fav : Type := (hdr * list item)%type.

Definition empty_hdr : hdr := Hdr 0 0 0 0 0 0.
Definition empty_fav : fav := (empty_hdr, []).                       (* NewFavRaw *)

Definition T_BOARD : Z := ptt_fav.FAVT_BOARD.
Definition T_FOLDER : Z := ptt_fav.FAVT_FOLDER.
Definition T_LINE : Z := ptt_fav.FAVT_LINE.
Definition TITLE_SZ : nat := Z.to_nat ptttype.BOARD_TITLE_SZ.         (* 49 *)
Definition BOARD_BIN : nat := 9.                                     (* binary.Size(FavBoard): int32 int32 int8 *)
Definition BOARD_SZ : nat := Z.to_nat ptt_fav.SIZE_OF_FAV_BOARD.      (* 12: the C struct size *)
Definition LINE_SZ : nat := Z.to_nat ptt_fav.SIZE_OF_FAV_LINE.        (* 1 *)

Definition data_number (h : hdr) : Z := wrap16 (h_nb h + h_nl h + h_nf h).   (* getDataNumber, int16 arithmetic *)
Definition item_attr (i : item) : Z :=
  match i with IBoard a _ _ _ => a | ILine a _ => a | IFolder a _ _ _ _ => a end.
Definition item_valid (i : item) : bool := negb (Z.land (item_attr i) ptt_fav.FAVH_FAV =? 0).

(* ---------------------------------------------------------------- little-endian codec (encoding/binary) *)
Definition u8 (x : Z) : Z := x mod 256.
Definition le16 (x : Z) : list Z := [x mod 256; (x / 256) mod 256].
Definition le32 (x : Z) : list Z := [x mod 256; (x / 256) mod 256; (x / 65536) mod 256; (x / 16777216) mod 256].
Definition rd16 (b0 b1 : Z) : Z := wrap16 (b0 + 256 * b1).
Definition rd32 (b0 b1 b2 b3 : Z) : Z := wrap32 (b0 + 256 * b1 + 65536 * b2 + 16777216 * b3).

(* ---------------------------------------------------------------- WriteFavrec
   A chunk is one write(2). The flag says whether it is issued by a types.BinaryWrite call (which
   passes a crash point first) or is the padding write of types.BinWrite. *)
Definition chunk : Type := (bool * list Z)%type.

Definition item_entry (i : item) : list chunk :=
  match i with
  | IBoard a bid v ba =>
      [(true, [u8 T_BOARD]); (true, [u8 a]); (true, le32 bid ++ le32 v ++ [u8 ba]); (false, repeat 0 (BOARD_SZ - BOARD_BIN))]
  | ILine a lid =>
      [(true, [u8 T_LINE]); (true, [u8 a]); (true, [u8 lid]); (false, repeat 0 (LINE_SZ - 1))]
  | IFolder a fid t _ _ =>
      [(true, [u8 T_FOLDER]); (true, [u8 a]); (true, [u8 fid]); (true, t)]
  end.

Definition hdr_chunks (h : hdr) : list chunk :=
  [(true, le16 (h_nb h)); (true, [u8 (h_nl h)]); (true, [u8 (h_nf h)])].

(* for i < total: f.Favh[i] — index out of range panics *)
Fixpoint entries_upto (its : list item) (k : nat) : res (list chunk) :=
  match k with
  | O => Ok []
  | S k' => match its with
            | [] => Crash
            | i :: r => res_map (app (item_entry i)) (entries_upto r k')
            end
  end.

Section WriteRec.
  Variable rec : item -> res (list chunk).
  Fixpoint subs_upto (its : list item) (k : nat) {struct its} : res (list chunk) :=
    match its with
    | [] => match k with O => Ok [] | S _ => Crash end
    | i :: r => match k with
                | O => Ok []
                | S k' => res_bind (rec i) (fun c => res_map (app c) (subs_upto r k'))
                end
    end.
  Definition fav_chunks_with (h : hdr) (its : list item) : res (list chunk) :=
    let k := Z.to_nat (data_number h) in      (* the loops do not run for total <= 0 *)
    res_bind (entries_upto its k) (fun e =>
    res_bind (subs_upto its k) (fun s => Ok (hdr_chunks h ++ e ++ s))).
End WriteRec.

Fixpoint sub_chunks (i : item) : res (list chunk) :=
  match i with
  | IFolder _ _ _ h sub => fav_chunks_with sub_chunks h sub
  | _ => Ok []
  end.
Definition fav_chunks (f : fav) : res (list chunk) := fav_chunks_with sub_chunks (fst f) (snd f).
Definition bytes_of (cs : list chunk) : list Z := concat (map snd cs).
Definition write_fav (f : fav) : res (list Z) := res_map bytes_of (fav_chunks f).

Definition version_chunk : chunk := (true, le16 ptt_fav.FAV_VERSION).
(* the whole file: version word, then the tree *)
Definition file_chunks (f : fav) : res (list chunk) := res_map (cons version_chunk) (fav_chunks f).
Definition file_image (f : fav) : res (list Z) := res_map bytes_of (file_chunks f).

(* ---------------------------------------------------------------- the pttbbs .fav format, written out (specification of the writer) *)
Definition entry_bytes (i : item) : list Z :=
  match i with
  | IBoard a bid v ba => [1; u8 a] ++ le32 bid ++ le32 v ++ [u8 ba; 0; 0; 0]      (* type, attr, 12-byte board *)
  | ILine a lid => [3; u8 a; u8 lid]                                               (* type, attr, 1-byte line *)
  | IFolder a fid t _ _ => [2; u8 a; u8 fid] ++ t                                  (* type, attr, fid, 49-byte title *)
  end.
(* counts, the entries of this level, then the sub-tree of each folder of this level, depth first *)
Fixpoint spec_sub (i : item) : list Z :=
  match i with
  | IFolder _ _ _ h sub =>
      le16 (h_nb h) ++ [u8 (h_nl h); u8 (h_nf h)] ++ flat_map entry_bytes sub ++ flat_map spec_sub sub
  | _ => []
  end.
Definition spec_fav (f : fav) : list Z :=
  le16 (h_nb (fst f)) ++ [u8 (h_nl (fst f)); u8 (h_nf (fst f))] ++ flat_map entry_bytes (snd f) ++ flat_map spec_sub (snd f).
Definition spec_file (f : fav) : list Z := le16 3363 ++ spec_fav f.       (* version word FAV_VERSION first *)

(* ---------------------------------------------------------------- ReadFavrec *)
Inductive rres (A : Type) : Type :=
| ROk (a : A)
| RErr (code : Z)
| RCrash
| RFuel.
Arguments ROk {A} a.
Arguments RErr {A} code.
Arguments RCrash {A}.
Arguments RFuel {A}.

Definition E_RECORD : Z := 1.   (* ErrInvalidFavRecord *)
Definition E_TYPE : Z := 2.     (* ErrInvalidFavType *)
Definition E_FOLDER : Z := 3.   (* ErrInvalidFavFolder *)
Definition E_BOARD : Z := 4.    (* ErrInvalidFavBoard *)
Definition E_LINE : Z := 5.     (* ErrInvalidFavLine *)
Definition E_EOF : Z := 6.      (* io.EOF *)
Definition E_UEOF : Z := 7.     (* io.ErrUnexpectedEOF *)

Definition valid_type (t : Z) : bool := (t =? T_BOARD) || (t =? T_FOLDER) || (t =? T_LINE).

(* the first loop of ReadFavrec: n entries; BinaryRead fails on a short read; BinRead seeks over the padding
   (seeking beyond the end of a regular file succeeds) *)
Fixpoint read_entries (n : nat) (bs : list Z) : rres (list item * list Z) :=
  match n with
  | O => ROk ([], bs)
  | S n' =>
      match bs with
      | [] => RErr E_TYPE
      | t :: bs1 =>
          let ty := wrap8 t in
          if negb (valid_type ty) then RErr E_TYPE else
          match bs1 with
          | [] => RErr E_TYPE
          | a :: bs2 =>
              let attr := wrap8 a in
              let continue (it : item) (rest : list Z) :=
                match read_entries n' rest with
                | ROk (its, r) => ROk (it :: its, r)
                | RErr e => RErr e | RCrash => RCrash | RFuel => RFuel
                end in
              if ty =? T_FOLDER then
                match bs2 with
                | [] => RErr E_FOLDER
                | f :: bs3 =>
                    if (length bs3 <? TITLE_SZ)%nat then RErr E_FOLDER
                    else continue (IFolder attr (wrap8 f) (firstn TITLE_SZ bs3) empty_hdr []) (skipn TITLE_SZ bs3)
                end
              else if ty =? T_BOARD then
                match bs2 with
                | b0 :: b1 :: b2 :: b3 :: v0 :: v1 :: v2 :: v3 :: ba :: _ =>
                    continue (IBoard attr (rd32 b0 b1 b2 b3) (rd32 v0 v1 v2 v3) (wrap8 ba)) (skipn BOARD_SZ bs2)
                | _ => RErr E_BOARD
                end
              else
                match bs2 with
                | [] => RErr E_LINE
                | l :: _ => continue (ILine attr (wrap8 l)) (skipn LINE_SZ bs2)
                end
          end
      end
  end.

Section ReadRec.
  Variable rf : list Z -> rres (fav * list Z).
  (* the second loop: renumber lines and folders, read each folder's sub-tree, accumulate FavNum *)
  Fixpoint read_subs (its : list item) (bs : list Z) (lid fid fn : Z) : rres (list item * (Z * Z * Z) * list Z) :=
    match its with
    | [] => ROk ([], (lid, fid, fn), bs)
    | IFolder a _ t _ _ :: r =>
        match rf bs with
        | ROk ((h, sub), bs') =>
            let fid' := wrap8 (fid + 1) in
            match read_subs r bs' lid fid' (wrap16 (fn + h_favnum h)) with
            | ROk (r', c, bs'') => ROk (IFolder a fid' t h sub :: r', c, bs'')
            | RErr e => RErr e | RCrash => RCrash | RFuel => RFuel
            end
        | RErr _ => RErr E_FOLDER
        | RCrash => RCrash
        | RFuel => RFuel
        end
    | ILine a _ :: r =>
        let lid' := wrap8 (lid + 1) in
        match read_subs r bs lid' fid fn with
        | ROk (r', c, bs'') => ROk (ILine a lid' :: r', c, bs'')
        | RErr e => RErr e | RCrash => RCrash | RFuel => RFuel
        end
    | b :: r =>
        match read_subs r bs lid fid fn with
        | ROk (r', c, bs'') => ROk (b :: r', c, bs'')
        | RErr e => RErr e | RCrash => RCrash | RFuel => RFuel
        end
    end.
End ReadRec.

Definition read_hdr (bs : list Z) : option (Z * Z * Z * list Z) :=
  match bs with
  | b0 :: b1 :: l :: f :: r => Some (rd16 b0 b1, wrap8 l, wrap8 f, r)
  | _ => None
  end.

Fixpoint read_fav (fuel : nat) (bs : list Z) : rres (fav * list Z) :=
  match fuel with
  | O => RFuel
  | S fuel' =>
      match read_hdr bs with
      | None => RErr E_RECORD
      | Some (nb, nl, nf, bs1) =>
          let total := wrap16 (nb + nl + nf) in
          if total <? 0 then RErr E_RECORD      (* a negative count is an invalid record (before the fix: make panicked) *)
          else
          match read_entries (Z.to_nat total) bs1 with
          | ROk (its, bs2) =>
              match read_subs (read_fav fuel') its bs2 0 0 total with
              | ROk (its', (lid, fid, fn), bs3) => ROk ((Hdr nb nl nf lid fid fn, its'), bs3)
              | RErr e => RErr e | RCrash => RCrash | RFuel => RFuel
              end
          | RErr e => RErr e | RCrash => RCrash | RFuel => RFuel
          end
      end
  end.

(* fav.Load on the content of a regular .fav file: the version word is read and ignored *)
Definition load (bs : list Z) : rres fav :=
  match bs with
  | [] => RErr E_EOF
  | [_] => RErr E_UEOF
  | _ :: _ :: r =>
      match read_fav (S (length bs)) r with
      | ROk (f, _) => ROk f
      | RErr e => RErr e | RCrash => RCrash | RFuel => RFuel
      end
  end.

(* ---------------------------------------------------------------- what reading does to ids and counters *)
Section Renum.
  Variable rn : item -> item.
  Fixpoint renum_items (its : list item) (lid fid fn : Z) : list item * (Z * Z * Z) :=
    match its with
    | [] => ([], (lid, fid, fn))
    | (IFolder a _ t _ _ as i) :: r =>
        match rn i with
        | IFolder _ _ _ h' sub' =>
            let fid' := wrap8 (fid + 1) in
            let '(r', c) := renum_items r lid fid' (wrap16 (fn + h_favnum h')) in
            (IFolder a fid' t h' sub' :: r', c)
        | _ => ([], (lid, fid, fn))   (* not reached: rn keeps the constructor *)
        end
    | ILine a _ :: r =>
        let lid' := wrap8 (lid + 1) in
        let '(r', c) := renum_items r lid' fid fn in (ILine a lid' :: r', c)
    | b :: r =>
        let '(r', c) := renum_items r lid fid fn in (b :: r', c)
    end.
End Renum.

Fixpoint renum_item (i : item) : item :=
  match i with
  | IFolder a f t h sub =>
      let '(sub', (lid, fid, fn)) := renum_items renum_item sub 0 0 (data_number h) in
      IFolder a f t (Hdr (h_nb h) (h_nl h) (h_nf h) lid fid fn) sub'
  | x => x
  end.

Definition renumber (f : fav) : fav :=
  let '(h, its) := f in
  let '(its', (lid, fid, fn)) := renum_items renum_item its 0 0 (data_number h) in
  (Hdr (h_nb h) (h_nl h) (h_nf h) lid fid fn, its').

(* ---------------------------------------------------------------- cleanup / rebuildFav *)
Fixpoint need_rebuild_item (i : item) : bool :=
  negb (item_valid i) ||
  match i with IFolder _ _ _ _ sub => existsb need_rebuild_item sub | _ => false end.
Definition need_rebuild (f : fav) : bool := existsb need_rebuild_item (snd f).

Section Rebuild.
  Variable rb : item -> res item.
  (* counters (nb, nl, nf, lineid, folderid) are rebuilt from the surviving entries; FavNum is not touched *)
  Fixpoint rebuild_items (its : list item) (nb nl nf lid fid : Z) : res (list item * (Z * Z * Z * Z * Z)) :=
    match its with
    | [] => Ok ([], (nb, nl, nf, lid, fid))
    | i :: r =>
        if negb (item_valid i) then rebuild_items r nb nl nf lid fid
        else match i with
             | IBoard a b v ba =>
                 res_map (fun '(r', c) => (IBoard a b v ba :: r', c)) (rebuild_items r (wrap16 (nb + 1)) nl nf lid fid)
             | ILine a _ =>
                 let lid' := wrap8 (lid + 1) in
                 res_map (fun '(r', c) => (ILine a lid' :: r', c)) (rebuild_items r nb (wrap8 (nl + 1)) nf lid' fid)
             | IFolder a _ t _ _ =>
                 res_bind (rb i) (fun i' =>
                 match i' with
                 | IFolder _ _ _ h' sub' =>
                     let fid' := wrap8 (fid + 1) in
                     res_map (fun '(r', c) => (IFolder a fid' t h' sub' :: r', c)) (rebuild_items r nb nl (wrap8 (nf + 1)) lid fid')
                 | _ => Crash
                 end)
             end
    end.
  Definition rebuild_with (h : hdr) (its : list item) : res fav :=
    res_bind (rebuild_items its 0 0 0 0 0) (fun '(its', (nb, nl, nf, lid, fid)) =>
      let h' := Hdr nb nl nf lid fid (h_favnum h) in
      let n := data_number h' in
      (* f.Favh = f.Favh[:nFavh]: slice bounds panic when the int16/int8 counters wrapped *)
      if (n <? 0) || (lenZ its' <? n) then Crash else Ok (h', firstn (Z.to_nat n) its')).
End Rebuild.

Fixpoint rebuild_item (i : item) : res item :=
  match i with
  | IFolder a f t h sub => res_map (fun '(h', sub') => IFolder a f t h' sub') (rebuild_with rebuild_item h sub)
  | x => Ok x
  end.
Definition rebuild (f : fav) : res fav := rebuild_with rebuild_item (fst f) (snd f).
Definition cleanup (f : fav) : res fav := if need_rebuild f then rebuild f else Ok f.

(* ---------------------------------------------------------------- the Add* API on a folder addressed by a path *)
Definition E_TOOMANY_FAVS : Z := 11.
Definition E_TOOMANY_LINES : Z := 12.
Definition E_TOOMANY_FOLDERS : Z := 13.
Definition E_INVALID_BID : Z := 14.

Inductive upd (A : Type) : Type := UOk (a : A) | UErr (code : Z) | UBad.   (* UBad: the script does not address a folder *)
Arguments UOk {A} a.
Arguments UErr {A} code.
Arguments UBad {A}.

Fixpoint replace_nth {A} (n : nat) (x : A) (l : list A) : list A :=
  match l with
  | [] => []
  | y :: r => match n with O => x :: r | S n' => y :: replace_nth n' x r end
  end.

(* apply g to the FavRaw reached by following folder entries path[0], path[1], ...; g also says
   whether it appended an entry *)
Fixpoint at_path (path : list Z) (g : fav -> upd (fav * bool)) (f : fav) : upd (fav * bool) :=
  match path with
  | [] => g f
  | p :: rest =>
      if p <? 0 then UBad else
      match nth_error (snd f) (Z.to_nat p) with
      | Some (IFolder a fid t h sub) =>
          match at_path rest g (h, sub) with
          | UOk ((h', sub'), b) => UOk ((fst f, replace_nth (Z.to_nat p) (IFolder a fid t h' sub') (snd f)), b)
          | UErr e => UErr e
          | UBad => UBad
          end
      | _ => UBad
      end
  end.

Definition has_board (bid : Z) (its : list item) : bool :=
  existsb (fun i => match i with IBoard _ b _ _ => b =? bid | _ => false end) its.

(* the local part of AddBoard/AddLine/AddFolder (root_full = Root.FavNum >= MAX_FAV);
   the bool says whether an entry was appended (then Root.FavNum++) *)
Definition add_board_local (root_full : bool) (bid : Z) (f : fav) : upd (fav * bool) :=
  let '(h, its) := f in
  if negb ((1 <=? bid) && (bid <=? ptttype.MAX_BOARD)) then UErr E_INVALID_BID
  else if has_board bid its then UOk (f, false)
  else if root_full then UErr E_TOOMANY_FAVS
  else UOk ((Hdr (wrap16 (h_nb h + 1)) (h_nl h) (h_nf h) (h_lineid h) (h_folderid h) (h_favnum h),
             its ++ [IBoard ptt_fav.FAVH_FAV bid 0 0]), true).

Definition add_line_local (root_full : bool) (f : fav) : upd (fav * bool) :=
  let '(h, its) := f in
  if root_full then UErr E_TOOMANY_FAVS
  else if ptt_fav.MAX_LINE <=? h_nl h then UErr E_TOOMANY_LINES
  else let lid := wrap8 (h_lineid h + 1) in
       UOk ((Hdr (h_nb h) (wrap8 (h_nl h + 1)) (h_nf h) lid (h_folderid h) (h_favnum h),
             its ++ [ILine ptt_fav.FAVH_FAV lid]), true).

Definition add_folder_local (root_full : bool) (title : list Z) (f : fav) : upd (fav * bool) :=
  let '(h, its) := f in
  if root_full then UErr E_TOOMANY_FAVS
  else if ptt_fav.MAX_FOLDER <=? h_nf h then UErr E_TOOMANY_FOLDERS
  else let fid := wrap8 (h_folderid h + 1) in
       UOk ((Hdr (h_nb h) (h_nl h) (wrap8 (h_nf h + 1)) (h_lineid h) fid (h_favnum h),
             its ++ [IFolder ptt_fav.FAVH_FAV fid (fixlen TITLE_SZ title) empty_hdr []]), true).

Definition bump_root (f : fav) : fav :=
  let '(h, its) := f in
  (Hdr (h_nb h) (h_nl h) (h_nf h) (h_lineid h) (h_folderid h) (wrap16 (h_favnum h + 1)), its).

(* one Add* call on the folder at [path] of the tree rooted at [root]; Root.FavNum++ when an entry was appended *)
Definition add_op (local : bool -> fav -> upd (fav * bool)) (path : list Z) (root : fav) : upd fav :=
  let full := ptt_fav.MAX_FAV <=? h_favnum (fst root) in
  match at_path path (local full) root with
  | UOk (root', grew) => UOk (if grew then bump_root root' else root')
  | UErr e => UErr e
  | UBad => UBad
  end.

Definition set_op (g : fav -> upd fav) (path : list Z) (root : fav) : upd fav :=
  match at_path path (fun f => match g f with UOk f' => UOk (f', false) | UErr e => UErr e | UBad => UBad end) root with
  | UOk (root', _) => UOk root'
  | UErr e => UErr e
  | UBad => UBad
  end.

Definition set_attr_local (idx attr : Z) (f : fav) : upd fav :=
  if idx <? 0 then UBad else
  match nth_error (snd f) (Z.to_nat idx) with
  | Some (IBoard _ b v ba) => UOk (fst f, replace_nth (Z.to_nat idx) (IBoard (wrap8 attr) b v ba) (snd f))
  | Some (ILine _ l) => UOk (fst f, replace_nth (Z.to_nat idx) (ILine (wrap8 attr) l) (snd f))
  | Some (IFolder _ fid t h s) => UOk (fst f, replace_nth (Z.to_nat idx) (IFolder (wrap8 attr) fid t h s) (snd f))
  | None => UBad
  end.

Definition set_board_local (idx visit battr : Z) (f : fav) : upd fav :=
  if idx <? 0 then UBad else
  match nth_error (snd f) (Z.to_nat idx) with
  | Some (IBoard a b _ _) => UOk (fst f, replace_nth (Z.to_nat idx) (IBoard a b (wrap32 visit) (wrap8 battr)) (snd f))
  | _ => UBad
  end.

(* script operation: [code; plen; path...; args...] *)
Definition run_op (g : list Z) (root : fav) : upd fav :=
  match g with
  | code :: plen :: rest =>
      if plen <? 0 then UBad else
      let path := firstn (Z.to_nat plen) rest in
      let args := skipn (Z.to_nat plen) rest in
      if (lenZ rest <? plen) then UBad
      else if code =? 1 then match args with [bid] => add_op (fun full => add_board_local full bid) path root | _ => UBad end
      else if code =? 2 then match args with [] => add_op add_line_local path root | _ => UBad end
      else if code =? 3 then add_op (fun full => add_folder_local full args) path root
      else if code =? 4 then match args with [idx; attr] => set_op (set_attr_local idx attr) path root | _ => UBad end
      else if code =? 5 then match args with [idx; v; ba] => set_op (set_board_local idx v ba) path root | _ => UBad end
      else UBad
  | _ => UBad
  end.

(* runs a script; API errors are counted, the script goes on *)
Fixpoint run_script (ops : list (list Z)) (root : fav) (nerr : Z) : option (fav * Z) :=
  match ops with
  | [] => Some (root, nerr)
  | g :: r =>
      match run_op g root with
      | UOk root' => run_script r root' nerr
      | UErr _ => run_script r root (nerr + 1)
      | UBad => None
      end
  end.

(* ---------------------------------------------------------------- Save *)
Definition FN_FAV : Z := 0.
Definition FN_TMP : Z := 1.

Inductive saved : Type :=
| SOk (file : option (list Z)) (ret : fav)       (* returned tree, content of .fav afterwards *)
| SErr (file : option (list Z)) (code : Z)
| SCrash.

(* rel: sign of (f.MTime - mtime of the existing .fav), an observed input; old: content of .fav if it exists *)
Definition save (rel : Z) (old : option (list Z)) (f : fav) : saved :=
  match cleanup f with
  | Ok f1 =>
      let write_it :=
        match file_chunks f1 with
        | Ok cs =>
            let s := match old with Some c => [(FN_FAV, c)] | None => [] end in
            let s' := exec s (save_ops FN_TMP FN_FAV (map snd cs)) in
            let file := lookup FN_FAV s' in
            match file with
            | Some img => match load img with
                          | ROk f2 => SOk file f2
                          | RErr e => SErr file e
                          | RCrash => SCrash
                          | RFuel => SCrash
                          end
            | None => SCrash
            end
        | _ => SCrash
        end in
      match old with
      | None => write_it
      | Some c =>
          if 0 <? rel then write_it
          else if rel =? 0 then SOk old f1
          else match load c with
               | ROk f2 => SOk old f2
               | RErr e => SErr old e
               | _ => SCrash
               end
      end
  | _ => SCrash
  end.

(* The system calls of one Save, derived the way FavRaw.Save derives them:
     filename := home/.fav
     checkIsToSave: stat(filename) fails with "does not exist" -> save; otherwise save iff the file is older (rel > 0)
     tmpFilename := home/.fav.tmp.<random>        (taken whether or not .fav exists: also the FIRST save goes
                                                  through the temporary file)
     os.Create(tmpFilename); one write(2) per chunk of the cleaned tree; os.Rename(tmpFilename, filename)
   old = content of .fav before the save if it exists. [save] above hands exactly this list to Fs.exec. *)
Definition writes (rel : Z) (old : option (list Z)) : bool :=
  match old with None => true | Some _ => 0 <? rel end.
Definition save_tmp_name (old : option (list Z)) : Z := FN_TMP.
Definition save_syscalls (rel : Z) (old : option (list Z)) (f : fav) : list op :=
  match cleanup f with
  | Ok f1 => if writes rel old
             then match file_chunks f1 with Ok cs => save_ops (save_tmp_name old) FN_FAV (map snd cs) | _ => [] end
             else []
  | _ => []
  end.

(* the process dies at the k-th crash point (k = 1 ..): the ops executed so far.
   Crash points: one before every BinaryWrite chunk, one before the rename. *)
Fixpoint cut_points (cs : list chunk) (written : nat) : list nat :=
  match cs with
  | [] => [written]                                  (* before the rename *)
  | (true, _) :: r => written :: cut_points r (S written)
  | (false, _) :: r => cut_points r (S written)
  end.

(* 0: .fav is the complete old image, 1: the complete new image, 2: anything else *)
Definition classify (old new : option (list Z)) (cur : option (list Z)) : Z :=
  let eqo := fun a b => match a, b with
                        | None, None => true
                        | Some x, Some y => (lenZ x =? lenZ y) && forallb (fun '(p, q) => p =? q) (combine x y)
                        | _, _ => false
                        end in
  if eqo cur old then 0 else if eqo cur new then 1 else 2.

(* ---------------------------------------------------------------- wire *)
Fixpoint dump_item (i : item) : list Z :=
  match i with
  | IBoard a b v ba => [T_BOARD; a; b; v; ba]
  | ILine a l => [T_LINE; a; l]
  | IFolder a f t h sub =>
      [T_FOLDER; a; f] ++ t ++
      [h_nb h; h_nl h; h_nf h; h_lineid h; h_folderid h; h_favnum h; lenZ sub] ++ flat_map dump_item sub
  end.
Definition dump_fav (f : fav) : list Z :=
  let '(h, its) := f in
  [h_nb h; h_nl h; h_nf h; h_lineid h; h_folderid h; h_favnum h; lenZ its] ++ flat_map dump_item its.

Definition dump_file (o : option (list Z)) : list Z :=
  match o with None => [-1] | Some c => lenZ c :: c end.

Definition dump_saved (nerr : Z) (pre : fav) (s : saved) : list Z :=
  let d := dump_fav pre in                      (* the tree in memory before Save *)
  match s with
  | SOk file ret => [ST_OK; nerr; lenZ d] ++ d ++ dump_file file ++ dump_fav ret
  | SErr file e => [ST_ERR; e; nerr; lenZ d] ++ d ++ dump_file file
  | SCrash => [ST_CRASH]
  end.

(* ---------------------------------------------------------------- a save over ANY initial content of the home directory
   Other names of the user's home that the sweep plants / observes. *)
Definition FN_FAV4 : Z := 2.     (* .fav4: the old format, converted by Load when there is no .fav (TryFav4Load -> Save) *)
Definition FN_STALE : Z := 3.    (* .fav.tmp.<other postfix>: a temporary file left behind by an earlier crash *)
Definition FN_BAK : Z := 4.      (* .fav.bak: copy of the new .fav made by TryFav4Load after its Save returned *)

Definition opt_file (n flag : Z) (c : list Z) : fs := if flag =? 0 then [] else [(n, c)].

(* every file of the home directory: how many, then (name, length, bytes) in the order of the names *)
Definition dump_disk (s : fs) : list Z :=
  let names := [FN_FAV; FN_TMP; FN_FAV4; FN_STALE; FN_BAK] in
  let ent := fun n => match lookup n s with Some c => n :: lenZ c :: c | None => [] end in
  lenZ (filter (fun n => match lookup n s with Some _ => true | None => false end) names) :: flat_map ent names.

(* fav.Load on that directory afterwards: the tree of .fav; without .fav: nil (-1), or the .fav4 conversion runs (-2) *)
Definition dump_load_after (s : fs) : list Z :=
  match lookup FN_FAV s with
  | None => match lookup FN_FAV4 s with None => [ST_OK; -1] | Some _ => [ST_OK; -2] end
  | Some c => match load c with
              | ROk t => let d := dump_fav t in ST_OK :: lenZ d :: d
              | RErr e => [ST_ERR; e]
              | RCrash => [ST_CRASH]
              | RFuel => [ST_HANG]
              end
  end.

(* the save of fn over disk dies at every crash point in turn, the last run completes: the whole directory and
   what Load returns afterwards, each time. mode 1: the save is the one inside TryFav4Load (followed by the .bak copy) *)
Definition sweep_disk (mode rel : Z) (disk : fs) (fn : fav) : list Z :=
  let old := lookup FN_FAV disk in
  match cleanup fn with
  | Ok fn1 =>
      match file_chunks fn1 with
      | Ok cs =>
          let allops := save_syscalls rel old fn in
          let cuts := if writes rel old then cut_points cs 0 else [] in
          let final0 := exec disk allops in
          let final := if mode =? 1
                       then match lookup FN_FAV final0 with Some c => set FN_BAK c final0 | None => final0 end
                       else final0 in
          let states := map (fun w => exec disk (firstn (S w) allops)) cuts ++ [final] in
          lenZ cuts :: flat_map (fun s => dump_disk s ++ dump_load_after s) states
      | _ => [ST_CRASH]
      end
  | _ => [ST_CRASH]
  end.

(* ---------------------------------------------------------------- kill points at SYSTEM-CALL granularity (op 9)
   The child that saves runs under ptrace(2); the harness records every file-system call of the save as the kernel
   sees it and kills the child at the entry of the k-th one, for every k. The model prints the same: the call list
   (kind, names, byte count) and the directory + Load after EVERY prefix of save_syscalls (not only at the crash
   points placed in the source). *)
Definition dump_op (o : op) : list Z :=
  match o with
  | Create n => [1; n; -1; 0]
  | Write n bs => [2; n; -1; lenZ bs]
  | Rename a b => [3; a; b; 0]
  end.

Definition sweep_calls (rel : Z) (disk : fs) (fn : fav) : list Z :=
  let ops := save_syscalls rel (lookup FN_FAV disk) fn in
  lenZ ops :: flat_map dump_op ops ++
  flat_map (fun k => let s := exec disk (firstn k ops) in dump_disk s ++ dump_load_after s) (seq 0 (S (length ops))).

(* what the kernel can be asked to do to a directory beyond Base/Fs.v: unlink(2). A call list as ptrace shows it. *)
Inductive call : Type :=
| COp (o : op)
| CUnlink (n : Z).                           (* unlink(n) / unlinkat / os.RemoveAll of a file *)

Definition cstep (s : fs) (c : call) : fs :=
  match c with COp o => step s o | CUnlink n => remove n s end.
Definition cexec (s : fs) (cs : list call) : fs := fold_left cstep cs s.

(* the calls of FavRaw.Save as the kernel sees them *)
Definition save_calls (rel : Z) (old : option (list Z)) (f : fav) : list call := map COp (save_syscalls rel old f).

(* the variant whose last step is a "force rename" (unlink the target if it exists, then rename): the same calls with
   one unlink(.fav) before the rename *)
Definition force_rename_calls (rel : Z) (old : option (list Z)) (f : fav) : list call :=
  match cleanup f with
  | Ok f1 => if writes rel old
             then match file_chunks f1 with
                  | Ok cs => (COp (Create FN_TMP) :: map (fun b => COp (Write FN_TMP b)) (map snd cs)) ++
                             (match old with Some _ => [CUnlink FN_FAV] | None => [] end) ++
                             [COp (Rename FN_TMP FN_FAV)]
                  | _ => []
                  end
             else []
  | _ => []
  end.

(* ---------------------------------------------------------------- several users, several saves in ONE process (op 8)
   The homes of the users share one file system: file n (n < 8) of user u's home has the name 8 * u + n.
   A step is one call of FavRaw.Save on a fresh tree:
     HSave u f        an ordinary Save of user u: the system calls of save_syscalls under the names of u's home
     HRefused u f k   a Save that is refused / fails after k bytes of the image went into the temporary file (an entry
                      whose payload does not match its type: WriteFavrec returns an error; a write that fails): the
                      temporary file is created and holds those k bytes, there is no rename, Save returns an error
     HNoHome u f      the temporary file cannot be created: no system call has an effect
   Nothing else is carried from one Save to the next: no process-wide state. *)
Definition uname (u n : Z) : Z := 8 * u + n.

Inductive hstep : Type :=
| HSave (u : Z) (f : fav)
| HRefused (u : Z) (f : fav) (k : nat)
| HNoHome (u : Z) (f : fav).

Definition rename_op (g : Z -> Z) (o : op) : op :=
  match o with
  | Create n => Create (g n)
  | Write n bs => Write (g n) bs
  | Rename a b => Rename (g a) (g b)
  end.

Definition step_syscalls (st : hstep) : list op :=
  match st with
  | HSave u f => map (rename_op (uname u)) (save_syscalls 1 None f)
  | HRefused u f k =>
      match cleanup f with
      | Ok f1 => match file_chunks f1 with
                 | Ok cs => [Create (uname u FN_TMP); Write (uname u FN_TMP) (firstn k (bytes_of cs))]
                 | _ => []
                 end
      | _ => []
      end
  | HNoHome _ _ => []
  end.

Definition run_hist (h : list hstep) (disk : fs) : fs := exec disk (flat_map step_syscalls h).

Definition seq_users : list Z := [0; 1; 2; 3].
Definition dump_favs (d : fs) : list Z := flat_map (fun v => dump_file (lookup (uname v FN_FAV) d)) seq_users.

Definition dump_load_user (d : fs) (v : Z) : list Z :=
  match lookup (uname v FN_FAV) d with
  | None => [ST_OK; -1]
  | Some c => match load c with
              | ROk t => let x := dump_fav t in ST_OK :: lenZ x :: x
              | RErr e => [ST_ERR; e]
              | RCrash => [ST_CRASH]
              | RFuel => [ST_HANG]
              end
  end.

(* what one step prints: the tree before Save, status (+ the returned tree), the temporary file the step left behind,
   .fav of every user; e is the error code the case expects of a refused step. None: Save panics. *)
Definition hist_step_out (st : hstep) (e : Z) (disk : fs) : option (list Z * fs) :=
  let disk' := exec disk (step_syscalls st) in
  match st with
  | HSave u f =>
      let pre := dump_fav f in
      match save 1 (lookup (uname u FN_FAV) disk) f with
      | SOk _ ret => let x := dump_fav ret in
                     Some ([lenZ pre] ++ pre ++ [ST_OK; lenZ x] ++ x ++ [-1] ++ dump_favs disk', disk')
      | SErr _ code => Some ([lenZ pre] ++ pre ++ [ST_ERR; code; -1] ++ dump_favs disk', disk')
      | SCrash => None
      end
  | HRefused u f _ =>
      let pre := dump_fav f in
      match cleanup f with
      | Ok f1 => match file_chunks f1 with
                 | Ok _ => Some ([lenZ pre] ++ pre ++ [ST_ERR; e] ++ dump_file (lookup (uname u FN_TMP) disk') ++ dump_favs disk', disk')
                 | _ => None
                 end
      | _ => None
      end
  | HNoHome u f =>
      let pre := dump_fav f in
      match cleanup f with
      | Ok _ => Some ([lenZ pre] ++ pre ++ [ST_ERR; e; -1] ++ dump_favs disk', disk')
      | _ => None
      end
  end.

(* the groups of a case after [8]: a group 81 :: header starts a step, the groups up to the next header are its script.
   Returns the steps and the script groups that precede the first header (must be none). *)
Fixpoint steps_of (gs : list (list Z)) : list (list Z * list (list Z)) * list (list Z) :=
  match gs with
  | [] => ([], [])
  | g :: r =>
      let '(steps, pend) := steps_of r in
      match g with
      | 81 :: hdr => ((hdr, pend) :: steps, [])
      | _ => (steps, g :: pend)
      end
  end.

Inductive seqres : Type := QOk (out : list Z) (disk : fs) | QBad | QCrash.

(* header: u kind k e idx plen path...; the model uses u, kind, k, e *)
Fixpoint run_steps (steps : list (list Z * list (list Z))) (disk : fs) (acc : list Z) : seqres :=
  match steps with
  | [] => QOk acc disk
  | (hdr, script) :: r =>
      match hdr with
      | u :: kind :: k :: e :: _ :: _ :: _ =>
          if (u <? 0) || (3 <? u) || (kind <? 0) || (3 <? kind) || (k <? 0) then QBad else
          match run_script script empty_fav 0 with
          | Some (f, _) =>
              let st := if kind =? 0 then HSave u f
                        else if kind =? 2 then HNoHome u f
                        else HRefused u f (Z.to_nat k) in
              match hist_step_out st e disk with
              | Some (o, disk') => run_steps r disk' (acc ++ o)
              | None => QCrash
              end
          | None => QBad
          end
      | _ => QBad
      end
  end.

Fixpoint split_at_sep (gs : list (list Z)) : list (list Z) * list (list Z) :=
  match gs with
  | [] => ([], [])
  | [99] :: r => ([], r)
  | g :: r => let '(a, b) := split_at_sep r in (g :: a, b)
  end.

Definition image_of (s : saved) : option (list Z) :=
  match s with SOk file _ => file | SErr file _ => file | SCrash => None end.

(* op 1: script, Save into an empty home, result = file bytes + returned tree
   op 2: Load of arbitrary file content
   op 3: [rel]; old script; [99]; new script: Save of the old tree, then Save of the new one with MTime set by rel
   op 4: old script; [99]; new script: the save of the new tree dies at every crash point in turn
   op 7: [hasfav; mode; rel]; 77 :: present :: .fav4 bytes; 78 :: present :: stale temp file bytes; old script; [99];
         new script: the same sweep over any initial home directory (no .fav / .fav of the old script with the mtime
         relation rel, a .fav4, a stale temporary file), observing every file of the directory and Load afterwards
   op 8: 81 :: u :: kind :: k :: e :: idx :: plen :: path; script; 81 :: ...; script; ...: several Saves of several users in
         one process, some refused after k bytes of the image (run_steps above)
   op 9: [hasfav; rel]; 77 ...; 78 ...; old script; [99]; new script: the call list of the save and the directory + Load
         after EVERY prefix of it (the child is killed under ptrace at the entry of every file-system call) *)
Definition run_case (args : list (list Z)) : list Z :=
  match args with
  | [1] :: ops =>
      match run_script ops empty_fav 0 with
      | Some (f, nerr) => dump_saved nerr f (save 1 None f)
      | None => [ST_BADCASE]
      end
  | [[2]; bs] =>
      match load bs with
      | ROk f => ST_OK :: dump_fav f
      | RErr e => [ST_ERR; e]
      | RCrash => [ST_CRASH]
      | RFuel => [ST_HANG]
      end
  | [3] :: [rel] :: ops =>
      let '(o, n) := split_at_sep ops in
      match run_script o empty_fav 0, run_script n empty_fav 0 with
      | Some (fo, _), Some (fn, nerr) =>
          match save 1 None fo with
          | SOk (Some img) _ => dump_saved nerr fn (save rel (Some img) fn)
          | _ => [ST_BADCASE]
          end
      | _, _ => [ST_BADCASE]
      end
  | [4] :: ops =>
      let '(o, n) := split_at_sep ops in
      match run_script o empty_fav 0, run_script n empty_fav 0 with
      | Some (fo, _), Some (fn, _) =>
          match save 1 None fo, cleanup fn with
          | SOk (Some img) _, Ok fn1 =>
              match file_chunks fn1 with
              | Ok cs =>
                  let s := [(FN_FAV, img)] in
                  let allops := save_ops FN_TMP FN_FAV (map snd cs) in
                  let new := lookup FN_FAV (exec s allops) in
                  let cuts := cut_points cs 0 in
                  (* crash point k happens after Create and cuts[k] writes; the last run completes *)
                  let outcomes := map (fun w => classify (Some img) new (lookup FN_FAV (exec s (firstn (S w) allops)))) cuts
                                  ++ [classify (Some img) new new] in
                  [ST_OK; lenZ cuts] ++ outcomes ++ dump_file (Some img) ++ dump_file new
              | _ => [ST_CRASH]
              end
          | _, _ => [ST_BADCASE]
          end
      | _, _ => [ST_BADCASE]
      end
  | [7] :: [hasfav; mode; rel] :: (77 :: p4 :: b4) :: (78 :: ps :: bs) :: ops =>
      let '(o, n) := split_at_sep ops in
      match run_script o empty_fav 0, run_script n empty_fav 0 with
      | Some (fo, _), Some (fn, _) =>
          let oldimg := if hasfav =? 0 then Some []
                        else match save 1 None fo with SOk (Some img) _ => Some [(FN_FAV, img)] | _ => None end in
          match oldimg with
          | Some d0 =>
              let disk := d0 ++ opt_file FN_FAV4 p4 b4 ++ opt_file FN_STALE ps bs in
              let dold := dump_fav fo in
              let dn := dump_fav fn in
              [ST_OK; lenZ dold] ++ dold ++ [lenZ dn] ++ dn ++ sweep_disk mode rel disk fn
          | None => [ST_BADCASE]
          end
      | _, _ => [ST_BADCASE]
      end
  | [9] :: [hasfav; rel] :: (77 :: p4 :: b4) :: (78 :: ps :: bs) :: ops =>
      let '(o, n) := split_at_sep ops in
      match run_script o empty_fav 0, run_script n empty_fav 0 with
      | Some (fo, _), Some (fn, _) =>
          let oldimg := if hasfav =? 0 then Some []
                        else match save 1 None fo with SOk (Some img) _ => Some [(FN_FAV, img)] | _ => None end in
          match oldimg with
          | Some d0 =>
              let disk := d0 ++ opt_file FN_FAV4 p4 b4 ++ opt_file FN_STALE ps bs in
              let dold := dump_fav fo in
              let dn := dump_fav fn in
              [ST_OK; lenZ dold] ++ dold ++ [lenZ dn] ++ dn ++ sweep_calls rel disk fn
          | None => [ST_BADCASE]
          end
      | _, _ => [ST_BADCASE]
      end
  | [8] :: gs =>
      let '(steps, pend) := steps_of gs in
      match pend with
      | [] => match run_steps steps [] [] with
              | QOk out disk => [ST_OK; lenZ steps] ++ out ++ flat_map (dump_load_user disk) seq_users
              | QBad => [ST_BADCASE]
              | QCrash => [ST_CRASH]
              end
      | _ => [ST_BADCASE]
      end
  | _ => [ST_BADCASE]
  end.
