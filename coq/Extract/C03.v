From Coq Require Extraction ExtrOcamlBasic.
From Verif Require Import Base.Common Model.C03.
Extraction "model.ml" C03.run_case Z.add Z.mul Z.opp Z.quotrem Z.of_nat.
