From Coq Require Extraction ExtrOcamlBasic.
From Verif Require Import Base.Common Model.C17.
Extraction "model.ml" C17.run_case Z.add Z.mul Z.opp Z.quotrem Z.of_nat.
