From Coq Require Extraction ExtrOcamlBasic.
From Verif Require Import Base.Common Model.C09.
Extraction "model.ml" C09.run_case Z.add Z.mul Z.opp Z.quotrem Z.of_nat.
