From Coq Require Extraction ExtrOcamlBasic.
From Verif Require Import Base.Common Model.C01.
Extraction "model.ml" C01.run_case Z.add Z.mul Z.opp Z.quotrem Z.of_nat.
