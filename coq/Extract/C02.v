From Coq Require Extraction ExtrOcamlBasic.
From Verif Require Import Base.Common Model.C02.
Extraction "model.ml" C02.run_case Z.add Z.mul Z.opp Z.quotrem Z.of_nat.
