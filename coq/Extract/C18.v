From Coq Require Extraction ExtrOcamlBasic.
From Verif Require Import Base.Common Model.C18.
Extraction "model.ml" C18.run_case Z.add Z.mul Z.opp Z.quotrem Z.of_nat.
