From Coq Require Extraction ExtrOcamlBasic.
From Verif Require Import Base.Common Model.C10.
Extraction "model.ml" C10.run_case Z.add Z.mul Z.opp Z.quotrem Z.of_nat.
