From Coq Require Extraction ExtrOcamlBasic.
From Verif Require Import Base.Common Model.C20.
Extraction "model.ml" C20.run_case Z.add Z.mul Z.opp Z.quotrem Z.of_nat.
