From Coq Require Extraction ExtrOcamlBasic.
From Verif Require Import Base.Common Model.C12.
Extraction "model.ml" C12.run_case Z.add Z.mul Z.opp Z.quotrem Z.of_nat.
