(* Total maps Z -> A with point update: an executable stand-in for a Go array held in shared memory
   (bounds are checked by the models where Go checks them). Backed by a radix tree so that the
   extracted model stays fast on 2^16-entry tables; proofs use only [tget_tset] / [tget_tconst]. *)
From Coq Require Import ZArith Bool FMapPositive.
Open Scope Z_scope.

Definition zkey (k : Z) : positive :=
  match k with Z0 => 1%positive | Zpos p => xO p | Zneg p => xI p end.

Lemma zkey_inj a b : zkey a = zkey b -> a = b.
Proof. destruct a, b; cbn; intros H; try discriminate; try reflexivity; inversion H; reflexivity. Qed.

Record tmap (A : Type) : Type := mktmap { tdefault : A; ttree : PositiveMap.t A }.
Arguments mktmap {A}. Arguments tdefault {A}. Arguments ttree {A}.

Definition tconst {A} (d : A) : tmap A := mktmap d (PositiveMap.empty A).
Definition tget {A} (m : tmap A) (k : Z) : A :=
  match PositiveMap.find (zkey k) (ttree m) with Some v => v | None => tdefault m end.
Definition tset {A} (m : tmap A) (k : Z) (v : A) : tmap A :=
  mktmap (tdefault m) (PositiveMap.add (zkey k) v (ttree m)).

Lemma tget_tconst {A} (d : A) k : tget (tconst d) k = d.
Proof. unfold tget, tconst. cbn. rewrite PositiveMap.gempty. reflexivity. Qed.

Lemma tget_tset {A} (m : tmap A) k v x : tget (tset m k v) x = if x =? k then v else tget m x.
Proof.
  unfold tget, tset. cbn. destruct (Z.eqb_spec x k) as [->|H].
  - rewrite PositiveMap.gss. reflexivity.
  - rewrite PositiveMap.gso; [reflexivity|]. intros E. apply H. apply zkey_inj. exact E.
Qed.

Lemma tget_tset_same {A} (m : tmap A) k v : tget (tset m k v) k = v.
Proof. rewrite tget_tset, Z.eqb_refl. reflexivity. Qed.
Lemma tget_tset_other {A} (m : tmap A) k v x : x <> k -> tget (tset m k v) x = tget m x.
Proof. intros H. rewrite tget_tset. destruct (Z.eqb_spec x k); congruence. Qed.

(* the keys that were ever set (for enumerating the non-default entries) *)
Definition unzkey (p : positive) : Z :=
  match p with xH => 0 | xO q => Zpos q | xI q => Zneg q end.
Definition tkeys {A} (m : tmap A) : list Z := List.map (fun kv => unzkey (fst kv)) (PositiveMap.elements (ttree m)).
