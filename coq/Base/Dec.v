(* Fixed- and variable-width positional printing / parsing, as used by strconv.Atoi,
   strconv.ParseUint and fmt's %d / %03X. Executable definitions first, lemmas after. *)
From Verif Require Import Base.Common.

Fixpoint digitsB (b : Z) (k : nat) (n : Z) : list Z :=      (* k digits of n in base b, most significant first *)
  match k with O => [] | S k' => digitsB b k' (n / b) ++ [n mod b] end.
Definition parseB (b : Z) (l : list Z) : Z := fold_left (fun a d => a * b + d) l 0.

Fixpoint drop_zeros (l : list Z) : list Z :=
  match l with [] => [] | d :: r => if d =? 0 then drop_zeros r else l end.
(* minimal-width digits of a non-negative n < b^24 *)
Definition min_digits (b : Z) (n : Z) : list Z :=
  match drop_zeros (digitsB b 24 n) with [] => [0] | l => l end.

Definition dec_char (d : Z) : Z := 48 + d.
Definition hexU_char (d : Z) : Z := if d <? 10 then 48 + d else 55 + d.
Definition is_dec_digit (c : Z) : bool := (48 <=? c) && (c <=? 57).
Definition hex_val (c : Z) : option Z :=
  if (48 <=? c) && (c <=? 57) then Some (c - 48)
  else if (97 <=? c) && (c <=? 102) then Some (c - 87)
  else if (65 <=? c) && (c <=? 70) then Some (c - 55)
  else None.

(* fmt %d of a signed integer *)
Definition print_dec (n : Z) : list Z :=
  if n <? 0 then 45 :: map dec_char (min_digits 10 (- n)) else map dec_char (min_digits 10 n).

(* strconv.Atoi on a string shorter than 19 bytes: optional sign, then one or more decimal digits *)
Definition atoi (s : list Z) : option Z :=
  match s with
  | [] => None
  | c :: r =>
      let neg := c =? 45 in
      let ds := if (c =? 45) || (c =? 43) then r else s in
      match ds with
      | [] => None
      | _ => if forallb is_dec_digit ds
             then Some ((if neg then -1 else 1) * parseB 10 (map (fun c => c - 48) ds))
             else None
      end
  end.

(* strconv.ParseUint(s, 16, bits) for short s: no sign, no prefix, no underscore; range error above 2^bits-1 *)
Fixpoint hex_vals (s : list Z) : option (list Z) :=
  match s with
  | [] => Some []
  | c :: r => match hex_val c, hex_vals r with Some v, Some vs => Some (v :: vs) | _, _ => None end
  end.
Definition parse_uint16 (s : list Z) (bits : Z) : option Z :=
  match s with
  | [] => None
  | _ => match hex_vals s with
         | Some vs => let v := parseB 16 vs in if v <? 2 ^ bits then Some v else None
         | None => None
         end
  end.

(* ------------------------------------------------------------------ lemmas *)

Lemma parseB_app b l1 l2 : parseB b (l1 ++ l2) = fold_left (fun a d => a * b + d) l2 (parseB b l1).
Proof. unfold parseB. apply fold_left_app. Qed.

Lemma parse_digits b k : 1 < b -> forall n, 0 <= n -> parseB b (digitsB b k n) = n mod b ^ Z.of_nat k.
Proof.
  intros Hb. induction k as [|k IH]; intros n Hn.
  - cbn. rewrite Z.mod_1_r. reflexivity.
  - cbn [digitsB]. rewrite parseB_app. cbn [fold_left].
    rewrite IH by (apply Z.div_pos; lia).
    rewrite Nat2Z.inj_succ, Z.pow_succ_r by lia.
    rewrite Z.rem_mul_r by (try apply Z.pow_pos_nonneg; lia). lia.
Qed.

Lemma digitsB_length b k n : length (digitsB b k n) = k.
Proof. revert n. induction k as [|k IH]; intros n; cbn [digitsB]; [reflexivity|]. rewrite app_length, IH. cbn. lia. Qed.

Lemma digitsB_range b k : 1 < b -> forall n, Forall (fun d => 0 <= d < b) (digitsB b k n).
Proof.
  intros Hb. induction k as [|k IH]; intros n; cbn [digitsB]; [constructor|].
  apply Forall_app. split; [apply IH|]. constructor; [|constructor]. apply Z.mod_pos_bound. lia.
Qed.

Lemma digitsB_zero b k : 1 < b -> digitsB b k 0 = repeat 0 k.
Proof.
  intros Hb. induction k as [|k IH]; [reflexivity|]. cbn [digitsB].
  rewrite Z.div_0_l, Z.mod_0_l, IH by lia.
  clear. induction k as [|k IH]; [reflexivity|]. cbn. rewrite IH. reflexivity.
Qed.

(* splitting a wide rendering into high and low part *)
Lemma digitsB_split b j k : 1 < b -> forall n, 0 <= n ->
  digitsB b (j + k) n = digitsB b j (n / b ^ Z.of_nat k) ++ digitsB b k n.
Proof.
  intros Hb. induction k as [|k IH]; intros n Hn.
  - rewrite Nat.add_0_r. cbn [digitsB Z.of_nat]. rewrite Z.pow_0_r, Z.div_1_r, app_nil_r. reflexivity.
  - replace (j + S k)%nat with (S (j + k)) by lia. cbn [digitsB].
    rewrite IH by (apply Z.div_pos; lia). rewrite <- app_assoc. f_equal.
    rewrite Nat2Z.inj_succ, Z.pow_succ_r by lia.
    rewrite Z.div_div by (try apply Z.pow_pos_nonneg; lia). reflexivity.
Qed.

Lemma drop_zeros_repeat j l : drop_zeros (repeat 0 j ++ l) = drop_zeros l.
Proof. induction j as [|j IH]; [reflexivity|]. cbn. exact IH. Qed.

(* the leading digit of a k-digit rendering of n >= b^(k-1) is not zero *)
Lemma digitsB_head b k : 1 < b -> forall n, b ^ Z.of_nat k <= n < b ^ Z.of_nat (S k) ->
  exists d r, digitsB b (S k) n = d :: r /\ d <> 0.
Proof.
  intros Hb. induction k as [|k IH]; intros n Hn.
  - cbn in *. exists (n mod b), []. split; [reflexivity|].
    rewrite Z.mod_small by lia. lia.
  - cbn [digitsB]. destruct (IH (n / b)) as (d & r & E & Hd).
    + rewrite !Nat2Z.inj_succ, !Z.pow_succ_r in * by lia. split.
      * apply Z.div_le_lower_bound; lia.
      * apply Z.div_lt_upper_bound; lia.
    + cbn [digitsB] in E. rewrite E. exists d, (r ++ [n mod b]). split; [reflexivity|exact Hd].
Qed.

Lemma min_digits_exact b k n : 1 < b -> (S k <= 24)%nat -> b ^ Z.of_nat k <= n < b ^ Z.of_nat (S k) ->
  min_digits b n = digitsB b (S k) n.
Proof.
  intros Hb Hk Hn. unfold min_digits.
  assert (Hpos : 0 < b ^ Z.of_nat k) by (apply Z.pow_pos_nonneg; lia).
  replace 24%nat with ((24 - S k) + S k)%nat by lia.
  rewrite digitsB_split by lia.
  rewrite Z.div_small by lia. rewrite digitsB_zero by lia. rewrite drop_zeros_repeat.
  destruct (digitsB_head b k Hb n Hn) as (d & r & E & Hd). rewrite E. cbn [drop_zeros].
  destruct (Z.eqb_spec d 0); [contradiction|reflexivity].
Qed.
