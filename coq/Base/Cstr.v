(* Specifications of the C library functions the byte-string helpers are ports of, stated on the
   NUL-terminated prefix ([cprefix], Base/Common.v) of their arguments. Definitions only. *)
From Verif Require Import Base.Common.

(* strcmp on NUL-free strings, unsigned char comparison: the difference of the first differing bytes,
   where the end of a string counts as a NUL *)
Fixpoint strcmp_spec (a b : list Z) : Z :=
  match a, b with
  | [], [] => 0
  | [], y :: _ => - y
  | x :: _, [] => x
  | x :: a', y :: b' => if x =? y then strcmp_spec a' b' else x - y
  end.
Definition lower_spec (c : Z) : Z := if (65 <=? c) && (c <=? 90) then c + 32 else c.   (* tolower, C locale *)
Definition upper_spec (c : Z) : Z := if (97 <=? c) && (c <=? 122) then c - 32 else c.  (* toupper, C locale *)
Definition strcasecmp_spec (a b : list Z) : Z := strcmp_spec (map lower_spec a) (map lower_spec b).

(* strstr, relationally: [n] occurs in [h] at offset [k] *)
Definition occurs_at (h n : list Z) (k : nat) : Prop :=
  exists pre post, h = pre ++ n ++ post /\ length pre = k.
(* r is strstr(h, n) - h, or -1 for NULL: the first occurrence, or none at all *)
Definition strstr_rel (h n : list Z) (r : Z) : Prop :=
  (r = -1 /\ forall k, ~ occurs_at h n k) \/
  (exists k, r = Z.of_nat k /\ occurs_at h n k /\ forall q, (q < k)%nat -> ~ occurs_at h n q).

(* FNV-1a / FNV-1 over [bits]-bit words *)
Definition fnv1a_spec (bits prime init : Z) (l : list Z) : Z :=
  fold_left (fun h c => (Z.lxor h c * prime) mod 2 ^ bits) l init.
Definition fnv1_spec (bits prime init : Z) (l : list Z) : Z :=
  fold_left (fun h c => Z.lxor ((h * prime) mod 2 ^ bits) c) l init.

(* the lines of a byte stream: split at LF, a final unterminated non-empty piece is a line too;
   each line loses one trailing CR *)
Definition strip_cr (l : list Z) : list Z :=
  match rev l with c :: r => if c =? 13 then rev r else l | [] => l end.
Fixpoint split_lines_acc (cur : list Z) (s : list Z) : list (list Z) :=     (* cur: current line, reversed *)
  match s with
  | [] => match cur with [] => [] | _ => [strip_cr (rev cur)] end
  | c :: r => if c =? 10 then strip_cr (rev cur) :: split_lines_acc [] r else split_lines_acc (c :: cur) r
  end.
Definition split_lines (s : list Z) : list (list Z) := split_lines_acc [] s.

(* DBCS parity of a byte string read from a character boundary: 0 complete, 1 ends in a lead byte, 2 in a trail byte *)
Definition dbcs_step (st c : Z) : Z := if st =? 1 then 2 else if 128 <=? c then 1 else 0.
Definition dbcs_final (s : list Z) : Z := fold_left dbcs_step s 0.
