(* The "odd" binary search of go-pttbbs (cache.getBidByNameCore / getBidByClassCore; the same skeleton as
   cmsys.findRecordStartIdxBinSearch) over an abstract comparison, and the one-way scan that
   FindBoardIdxByName / FindBoardIdxByClass run from where it stops.

   [c i] is the comparison of the key with entry i of the sorted array (> 0: key sorts after the entry).
   The array is sorted for the key when the sign of [c] never increases along it ([mono]). *)
From Verif Require Import Base.Common.
Ltac Zify.zify_post_hook ::= Z.to_euclidean_division_equations.

Section Odd.
  Variable c : Z -> Z.

  (* one call of the core on [s, e]: (index it stopped at, exact hit?) *)
  Fixpoint core (fuel : nat) (s e : Z) : res (Z * bool) :=
    match fuel with
    | O => Hang
    | S f =>
        let idx := Z.quot (s + e) 2 in
        let j := c idx in
        if j =? 0 then Ok (idx, true)
        else if e =? s then Ok (idx, false)
        else if idx =? s then (if j <? 0 then Ok (idx, false) else core f e e)
        else if 0 <? j then core f idx e
        else core f s idx
    end.

  Definition sfuel (n : Z) : nat := S (S (Z.to_nat n)).

  (* getBidBy*Core on n entries: (-1, false) on an empty table *)
  Definition search (n : Z) : res (Z * bool) :=
    if n - 1 <? 0 then Ok (-1, false) else core (sfuel n) 0 (n - 1).

  (* the ascending / descending fix-up loops of FindBoardIdxBy*; [up] stops at n, [down] at -1 *)
  Fixpoint up (fuel : nat) (idx n : Z) : res Z :=
    match fuel with
    | O => Hang
    | S f => if idx <? n then (if c idx <=? 0 then Ok idx else up f (idx + 1) n) else Ok idx
    end.
  Fixpoint down (fuel : nat) (idx : Z) : res Z :=
    match fuel with
    | O => Hang
    | S f => if 0 <=? idx then (if 0 <=? c idx then Ok idx else down f (idx - 1)) else Ok idx
    end.

  (* FindBoardIdxBy*: SortIdx (1-based) of the exact entry, else of the nearest entry in the direction, else -1 *)
  Definition find (n : Z) (asc : bool) : res Z :=
    match search n with
    | Ok (idx, true) => Ok (idx + 1)
    | Ok (idx, false) =>
        if idx =? -1 then Ok (-1)
        else if asc then
          match up (sfuel n) idx n with Ok i => Ok (if i =? n then -1 else i + 1) | Crash => Crash | Hang => Hang end
        else
          match down (sfuel n) idx with Ok i => Ok (if i =? -1 then -1 else i + 1) | Crash => Crash | Hang => Hang end
    | Crash => Crash
    | Hang => Hang
    end.

  (* the linear scan: from the first entry upwards / from the last entry downwards *)
  Definition scan (n : Z) (asc : bool) : res Z :=
    if asc then match up (sfuel n) 0 n with Ok i => Ok (if i =? n then -1 else i + 1) | Crash => Crash | Hang => Hang end
    else match down (sfuel n) (n - 1) with Ok i => Ok (if i =? -1 then -1 else i + 1) | Crash => Crash | Hang => Hang end.

  (* ---------------------------------------------------------------- proofs *)
  Definition mono (n : Z) : Prop :=
    forall i j, 0 <= i -> i <= j -> j < n -> (0 < c j -> 0 < c i) /\ (0 <= c j -> 0 <= c i).

  Definition inv (n s e : Z) : Prop :=
    0 <= s /\ s <= e /\ e <= n - 1 /\ (forall i, 0 <= i < s -> 0 < c i) /\ (forall i, e < i < n -> c i < 0) /\
    (e = n - 1 \/ c e < 0).

  Definition post (n : Z) (r : Z * bool) : Prop :=
    let '(idx, found) := r in
    0 <= idx < n /\
    if found then c idx = 0
    else (forall i, 0 <= i < n -> c i <> 0) /\ (forall i, 0 <= i < idx -> 0 < c i) /\
         (forall i, idx < i < n -> c i < 0) /\ (c idx < 0 \/ idx = n - 1).

  Lemma core_spec n : mono n -> forall f s e, inv n s e -> e - s + 2 <= Z.of_nat f ->
    exists r, core f s e = Ok r /\ post n r.
  Proof.
    intros Hm. induction f as [|f IH]; intros s e (H0 & Hse & Hen & Hlo & Hhi & Hend) Hf; [lia|].
    cbn [core].
    assert (Hq : s <= Z.quot (s + e) 2 <= e /\ (s < e -> Z.quot (s + e) 2 < e) /\ (Z.quot (s + e) 2 = s -> e <= s + 1)) by lia.
    set (idx := Z.quot (s + e) 2) in *. clearbody idx.
    destruct (Z.eqb_spec (c idx) 0) as [Hj0|Hj0].
    { exists (idx, true). split; [reflexivity|]. cbn. split; [lia|exact Hj0]. }
    destruct (Z.eqb_spec e s) as [->|Hes].
    { exists (idx, false). split; [reflexivity|]. assert (idx = s) by lia. subst idx. cbn. split; [lia|].
      split; [|split; [exact Hlo|split; [exact Hhi|]]].
      - intros i Hi. destruct (Z.eq_dec i s) as [->|Hne]; [exact Hj0|].
        destruct (Z_lt_le_dec i s); [specialize (Hlo i ltac:(lia)); lia|specialize (Hhi i ltac:(lia)); lia].
      - destruct Hend; [right; lia|left; lia]. }
    destruct (Z.eqb_spec idx s) as [His|His].
    { destruct (Z.ltb_spec (c idx) 0) as [Hneg|Hpos].
      - exists (idx, false). split; [reflexivity|]. cbn. split; [lia|].
        assert (Habove : forall i, idx < i < n -> c i < 0).
        { intros i Hi. destruct (Hm idx i ltac:(lia) ltac:(lia) ltac:(lia)) as [_ H2]. lia. }
        split; [|split; [intros i Hi; apply Hlo; lia|split; [exact Habove|left; exact Hneg]]].
        intros i Hi. destruct (Z.eq_dec i idx) as [->|Hne]; [exact Hj0|].
        destruct (Z_lt_le_dec i idx); [specialize (Hlo i ltac:(lia)); lia|specialize (Habove i ltac:(lia)); lia].
      - apply IH; [|lia]. unfold inv. split; [lia|]. split; [lia|]. split; [lia|]. split; [|split; [exact Hhi|exact Hend]].
        intros i Hi. destruct (Hm i idx ltac:(lia) ltac:(lia) ltac:(lia)) as [H1 _]. apply H1. lia. }
    destruct (Z.ltb_spec 0 (c idx)) as [Hpos|Hneg].
    - apply IH; [|lia]. unfold inv. split; [lia|]. split; [lia|]. split; [lia|]. split; [|split; [exact Hhi|exact Hend]].
      intros i Hi. destruct (Hm i idx ltac:(lia) ltac:(lia) ltac:(lia)) as [H1 _]. apply H1. lia.
    - apply IH; [|lia]. unfold inv. split; [lia|]. split; [lia|]. split; [lia|]. split; [exact Hlo|]. split; [|right; lia].
      intros i Hi. destruct (Hm idx i ltac:(lia) ltac:(lia) ltac:(lia)) as [_ H2]. lia.
  Qed.

  Lemma sfuel_val n : 0 <= n -> Z.of_nat (sfuel n) = n + 2.
  Proof. unfold sfuel. lia. Qed.

  Lemma search_spec n : mono n -> 0 < n -> exists r, search n = Ok r /\ post n r.
  Proof.
    intros Hm Hn. unfold search. destruct (Z.ltb_spec (n - 1) 0); [lia|].
    apply core_spec; [exact Hm| |rewrite sfuel_val; lia].
    unfold inv. split; [lia|]. split; [lia|]. split; [lia|]. split; [intros; lia|]. split; [intros; lia|left; reflexivity].
  Qed.

  Lemma up_spec n : forall f a, 0 <= a <= n -> n - a + 1 <= Z.of_nat f ->
    exists r, up f a n = Ok r /\ a <= r <= n /\ (forall i, a <= i < r -> 0 < c i) /\ (r = n \/ c r <= 0).
  Proof.
    induction f as [|f IH]; intros a Ha Hf; [lia|]. cbn [up].
    destruct (Z.ltb_spec a n).
    - destruct (Z.leb_spec (c a) 0).
      + exists a. split; [reflexivity|]. split; [lia|]. split; [intros; lia|right; lia].
      + destruct (IH (a + 1) ltac:(lia) ltac:(lia)) as (r & E & Hr & Hall & Hstop). exists r. split; [exact E|].
        split; [lia|]. split; [|exact Hstop]. intros i Hi. destruct (Z.eq_dec i a) as [->|]; [lia|apply Hall; lia].
    - exists a. split; [reflexivity|]. split; [lia|]. split; [intros; lia|left; lia].
  Qed.

  Lemma down_spec : forall f a, -1 <= a -> a + 2 <= Z.of_nat f ->
    exists r, down f a = Ok r /\ -1 <= r <= a /\ (forall i, r < i <= a -> c i < 0) /\ (r = -1 \/ 0 <= c r).
  Proof.
    induction f as [|f IH]; intros a Ha Hf; [lia|]. cbn [down].
    destruct (Z.leb_spec 0 a).
    - destruct (Z.leb_spec 0 (c a)).
      + exists a. split; [reflexivity|]. split; [lia|]. split; [intros; lia|right; lia].
      + destruct (IH (a - 1) ltac:(lia) ltac:(lia)) as (r & E & Hr & Hall & Hstop). exists r. split; [exact E|].
        split; [lia|]. split; [|exact Hstop]. intros i Hi. destruct (Z.eq_dec i a) as [->|]; [lia|apply Hall; lia].
    - exists a. split; [reflexivity|]. split; [lia|]. split; [intros; lia|left; lia].
  Qed.

  (* the search never hangs or crashes, and an exact answer really is an entry equal to the key;
     "none" (0 from GetBid) is returned exactly when no entry equals the key *)
  Theorem search_exact n : mono n -> 0 <= n ->
    exists idx found, search n = Ok (idx, found) /\
      (found = true -> 0 <= idx < n /\ c idx = 0) /\
      (found = false -> forall i, 0 <= i < n -> c i <> 0).
  Proof.
    intros Hm Hn. destruct (Z.eq_dec n 0) as [->|Hne].
    - exists (-1), false. split; [reflexivity|]. split; [discriminate|]. intros; lia.
    - destruct (search_spec n Hm ltac:(lia)) as ([idx found] & E & Hp). exists idx, found. split; [exact E|].
      cbn in Hp. destruct found; split; try discriminate; intros _; tauto.
  Qed.

  (* FindBoardIdxBy* = the linear scan, unless it returns an entry equal to the key (any of them) *)
  Theorem find_eq_scan n asc : mono n -> 0 <= n ->
    exists r, find n asc = Ok r /\ ((1 <= r <= n /\ c (r - 1) = 0) \/ scan n asc = Ok r).
  Proof.
    intros Hm Hn. unfold find. destruct (Z.eq_dec n 0) as [->|Hne].
    { exists (-1). split; [reflexivity|]. right. destruct asc; reflexivity. }
    destruct (search_spec n Hm ltac:(lia)) as ([idx found] & E & Hp). rewrite E. cbn in Hp.
    destruct Hp as (Hidx & Hp). destruct found.
    { exists (idx + 1). split; [reflexivity|]. left. replace (idx + 1 - 1) with idx by lia. split; [lia|exact Hp]. }
    destruct Hp as (Hnz & Hlo & Hhi & Hend).
    destruct (Z.eqb_spec idx (-1)); [lia|].
    unfold scan. destruct asc.
    - destruct (up_spec n (sfuel n) idx ltac:(lia) ltac:(rewrite sfuel_val; lia)) as (r & E1 & Hr & Hall & Hstop).
      destruct (up_spec n (sfuel n) 0 ltac:(lia) ltac:(rewrite sfuel_val; lia)) as (r0 & E0 & Hr0 & Hall0 & Hstop0).
      rewrite E1, E0. eexists. split; [reflexivity|]. right.
      assert (r = r0); [|subst; reflexivity].
      destruct (Z_lt_le_dec r0 idx) as [Hlt|Hge].
      + specialize (Hlo r0 ltac:(lia)). lia.
      + destruct (Z.eq_dec r r0) as [|Hne2]; [assumption|exfalso].
        destruct (Z_lt_le_dec r r0).
        * specialize (Hall0 r ltac:(lia)). destruct Hstop; lia.
        * specialize (Hall r0 ltac:(lia)). destruct Hstop0; lia.
    - destruct (down_spec (sfuel n) idx ltac:(lia) ltac:(rewrite sfuel_val; lia)) as (r & E1 & Hr & Hall & Hstop).
      destruct (down_spec (sfuel n) (n - 1) ltac:(lia) ltac:(rewrite sfuel_val; lia)) as (r0 & E0 & Hr0 & Hall0 & Hstop0).
      rewrite E1, E0. eexists. split; [reflexivity|]. right.
      assert (r = r0); [|subst; reflexivity].
      destruct (Z_lt_le_dec idx r0) as [Hlt|Hge].
      + specialize (Hhi r0 ltac:(lia)). destruct Hstop0; lia.
      + destruct (Z.eq_dec r r0) as [|Hne2]; [assumption|exfalso].
        destruct (Z_lt_le_dec r r0).
        * specialize (Hall r0 ltac:(lia)). destruct Hstop0; lia.
        * specialize (Hall0 r ltac:(lia)). destruct Hstop; lia.
  Qed.
End Odd.
