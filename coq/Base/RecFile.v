(* Files as byte lists: positional write (pwrite semantics: a write beyond the end first fills the
   gap with zero bytes, as a seek past EOF followed by a write does), positional read, record count.
   Shared by C01 (partial updates) and C05 (record-file operations). *)
From Verif Require Import Base.Common.

Definition write_at (off : nat) (bs : list Z) (f : list Z) : list Z :=
  firstn off f ++ repeat 0 (off - length f) ++ bs ++ skipn (off + length bs) f.

Definition read_at (off n : nat) (f : list Z) : list Z := firstn n (skipn off f).

(* number of complete records of size sz (os.Stat size / sz, floor) *)
Definition count (sz : nat) (f : list Z) : nat := length f / sz.

(* the k-th record, 0-based *)
Definition record (sz k : nat) (f : list Z) : list Z := read_at (k * sz) sz f.

(* ------------------------------------------------------------------ lemmas *)

Lemma skipn_skipn' {A} (x y : nat) : forall l : list A, skipn x (skipn y l) = skipn (y + x) l.
Proof.
  induction y as [|y IH]; intros l; [reflexivity|]. destruct l as [|a l]; [rewrite !skipn_nil; reflexivity|].
  cbn [skipn Nat.add]. apply IH.
Qed.

Lemma write_at_length off bs f : length (write_at off bs f) = Nat.max (length f) (off + length bs).
Proof.
  unfold write_at. rewrite !app_length, firstn_length, repeat_length, skipn_length. lia.
Qed.

(* inside the file: nothing but the addressed bytes changes, the length stays *)
Lemma write_at_inside off bs f : (off + length bs <= length f)%nat ->
  write_at off bs f = firstn off f ++ bs ++ skipn (off + length bs) f.
Proof.
  intros H. unfold write_at. replace (off - length f)%nat with 0%nat by lia. reflexivity.
Qed.

Lemma write_at_length_inside off bs f : (off + length bs <= length f)%nat ->
  length (write_at off bs f) = length f.
Proof. intros H. rewrite write_at_length. lia. Qed.

Lemma firstn_write_at off bs f n : (n <= off)%nat -> (n <= length f)%nat ->
  firstn n (write_at off bs f) = firstn n f.
Proof.
  intros H1 H2. unfold write_at.
  destruct (Nat.le_gt_cases off (length f)) as [Hle|Hgt].
  - rewrite firstn_app, firstn_firstn, firstn_length. replace (Nat.min n off) with n by lia.
    replace (n - Nat.min off (length f))%nat with 0%nat by lia. cbn [firstn]. apply app_nil_r.
  - rewrite (firstn_all2 (n:=off) f) by lia. rewrite firstn_app.
    replace (n - length f)%nat with 0%nat by lia. cbn [firstn]. apply app_nil_r.
Qed.

Lemma skipn_write_at off bs f n : (off + length bs <= n)%nat ->
  skipn n (write_at off bs f) = skipn n f.
Proof.
  intros H. unfold write_at.
  destruct (Nat.le_gt_cases off (length f)) as [Hle|Hgt].
  - replace (off - length f)%nat with 0%nat by lia. cbn [repeat app].
    rewrite skipn_app, firstn_length. replace (Nat.min off (length f)) with off by lia.
    rewrite (skipn_all2 (n:=n) (firstn off f)) by (rewrite firstn_length; lia). cbn [app].
    rewrite skipn_app. rewrite (skipn_all2 (n:=(n - off)%nat) bs) by lia. cbn [app].
    rewrite skipn_skipn'. f_equal. lia.
  - rewrite (firstn_all2 (n:=off) f) by lia.
    rewrite (skipn_all2 (n:=(off + length bs)%nat) f) by lia.
    rewrite (skipn_all2 (n:=n) f) by lia. rewrite app_nil_r.
    apply skipn_all2. rewrite !app_length, repeat_length. lia.
Qed.

Lemma read_at_write_at off bs f : read_at off (length bs) (write_at off bs f) = bs.
Proof.
  unfold read_at, write_at. rewrite !app_assoc. rewrite <- app_assoc.
  rewrite skipn_app.
  assert (Hl : length (firstn off f ++ repeat 0 (off - length f)) = off).
  { rewrite app_length, firstn_length, repeat_length. lia. }
  rewrite (skipn_all2 (n:=off)) by lia. rewrite Hl. replace (off - off)%nat with 0%nat by lia.
  cbn [app skipn]. rewrite firstn_app. rewrite firstn_all. replace (length bs - length bs)%nat with 0%nat by lia.
  cbn [firstn]. apply app_nil_r.
Qed.

(* a read that lies entirely before or entirely after the written range sees the old bytes *)
Lemma read_at_write_at_before off bs f o n : (o + n <= off)%nat -> (o + n <= length f)%nat ->
  read_at o n (write_at off bs f) = read_at o n f.
Proof.
  intros H1 H2. unfold read_at.
  rewrite <- (firstn_skipn (o + n) (write_at off bs f)).
  rewrite firstn_write_at by lia.
  rewrite skipn_app. rewrite firstn_app.
  rewrite firstn_length, skipn_length, firstn_length.
  replace (n - (Nat.min (o + n) (length f) - o))%nat with 0%nat by lia.
  replace (o - Nat.min (o + n) (length f))%nat with 0%nat by lia. cbn [firstn skipn]. rewrite app_nil_r.
  rewrite <- (firstn_skipn (o + n) f) at 2. rewrite skipn_app, firstn_app.
  rewrite firstn_length, skipn_length, firstn_length.
  replace (n - (Nat.min (o + n) (length f) - o))%nat with 0%nat by lia.
  replace (o - Nat.min (o + n) (length f))%nat with 0%nat by lia. cbn [firstn skipn]. rewrite app_nil_r. reflexivity.
Qed.

Lemma read_at_write_at_after off bs f o n : (off + length bs <= o)%nat ->
  read_at o n (write_at off bs f) = read_at o n f.
Proof.
  intros H. unfold read_at. rewrite skipn_write_at by lia. reflexivity.
Qed.

Lemma read_at_length o n f : (o + n <= length f)%nat -> length (read_at o n f) = n.
Proof. intros H. unfold read_at. rewrite firstn_length, skipn_length. lia. Qed.

(* a write that starts at or after position a leaves the first a bytes alone and acts on the rest *)
Lemma write_at_skip a o bs f : (a <= length f)%nat ->
  write_at (a + o) bs f = firstn a f ++ write_at o bs (skipn a f).
Proof.
  intros Ha. unfold write_at. rewrite skipn_length.
  replace (a + o - length f)%nat with (o - (length f - a))%nat by lia.
  rewrite <- (firstn_skipn a f) at 1. rewrite firstn_app, firstn_length.
  replace (Nat.min a (length f)) with a by lia. replace (a + o - a)%nat with o by lia.
  rewrite (firstn_all2 (n:=(a + o)%nat) (firstn a f)) by (rewrite firstn_length; lia).
  rewrite <- app_assoc. rewrite skipn_skipn'.
  replace (a + (o + length bs))%nat with (a + o + length bs)%nat by lia. reflexivity.
Qed.

(* a read window that contains the written range sees the write, relative to the window *)
Lemma read_at_write_at_within a n o bs f : (o + length bs <= n)%nat -> (a + n <= length f)%nat ->
  read_at a n (write_at (a + o) bs f) = write_at o bs (read_at a n f).
Proof.
  intros H1 H2. unfold read_at. rewrite write_at_skip by lia.
  rewrite skipn_app, firstn_length. replace (Nat.min a (length f)) with a by lia. rewrite Nat.sub_diag.
  rewrite (skipn_all2 (n:=a) (firstn a f)) by (rewrite firstn_length; lia). cbn [app skipn].
  set (g := skipn a f). assert (Hg : (n <= length g)%nat) by (unfold g; rewrite skipn_length; lia).
  rewrite !write_at_inside by (try rewrite firstn_length; lia).
  rewrite firstn_app, firstn_length. replace (Nat.min o (length g)) with o by lia.
  rewrite (firstn_all2 (n:=n) (firstn o g)) by (rewrite firstn_length; lia).
  rewrite firstn_firstn. replace (Nat.min o n) with o by lia.
  f_equal. rewrite firstn_app. replace (n - o - length bs)%nat with (n - (o + length bs))%nat by lia.
  rewrite (firstn_all2 (n:=(n - o)%nat) bs) by lia. f_equal.
  symmetry. apply skipn_firstn_comm.
Qed.
