(* Text tables: a generated file carries a big table as string literals of upper-case hex digits
   (one string = a few dozen rows of 8 digits "AAAABBBB"); [hexrows] turns them into list (Z*Z).
   Reason: coqc elaborates a byte-string literal several times faster than the same rows written as
   binary Z literals, and so does ocamlopt on the extracted model. Used by Gen/Big5Tab.v. *)
From Coq Require Import ZArith List Strings.Byte.
Import ListNotations.
Open Scope Z_scope.

Inductive bstr := BStr (l : list Byte.byte).
Definition of_bstr (b : bstr) : list Byte.byte := match b with BStr l => l end.
Declare Scope bstr_scope.
Delimit Scope bstr_scope with bstr.
String Notation bstr BStr of_bstr : bstr_scope.

Definition hexval (b : Byte.byte) : Z :=
  match b with
  | x30 => 0 | x31 => 1 | x32 => 2 | x33 => 3 | x34 => 4 | x35 => 5 | x36 => 6 | x37 => 7
  | x38 => 8 | x39 => 9 | x41 => 10 | x42 => 11 | x43 => 12 | x44 => 13 | x45 => 14 | x46 => 15
  | _ => 0
  end.

Definition hex4 (a b c d : Byte.byte) : Z := ((hexval a * 16 + hexval b) * 16 + hexval c) * 16 + hexval d.

Fixpoint rows_of (l : list Byte.byte) : list (Z * Z) :=
  match l with
  | a :: b :: c :: d :: e :: f :: g :: h :: r => (hex4 a b c d, hex4 e f g h) :: rows_of r
  | _ => []
  end.

Definition hexrows (chunks : list bstr) : list (Z * Z) := flat_map (fun s => rows_of (of_bstr s)) chunks.
