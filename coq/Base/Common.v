(* Shared vocabulary of the executable models: results, byte lists, list access on Z indices,
   and the wire convention of [run_case] (what the OCaml driver and the Go driver both print). *)
From Coq Require Export ZArith List Bool Lia.
Export ListNotations.
Open Scope Z_scope.

(* A Go call either returns, panics (index/slice out of range, negative make), or does not return. *)
Inductive res (A : Type) : Type :=
| Ok (a : A)
| Crash
| Hang.
Arguments Ok {A} a.
Arguments Crash {A}.
Arguments Hang {A}.

Definition res_bind {A B} (r : res A) (f : A -> res B) : res B :=
  match r with Ok a => f a | Crash => Crash | Hang => Hang end.
Definition res_map {A B} (f : A -> B) (r : res A) : res B :=
  match r with Ok a => Ok (f a) | Crash => Crash | Hang => Hang end.
Definition is_ok {A} (r : res A) : bool := match r with Ok _ => true | _ => false end.

(* wire convention: first number is the status *)
Definition ST_OK : Z := 0.
Definition ST_CRASH : Z := 1.
Definition ST_HANG : Z := 2.
Definition ST_ERR : Z := 3.
Definition ST_BADCASE : Z := 9.
Definition wire {A} (f : A -> list Z) (r : res A) : list Z :=
  match r with Ok a => ST_OK :: f a | Crash => [ST_CRASH] | Hang => [ST_HANG] end.

Definition is_byte (b : Z) : bool := (0 <=? b) && (b <? 256).
Definition bytes_ok (l : list Z) : bool := forallb is_byte l.

(* l[i] with Go's bounds check *)
Definition nthZ (l : list Z) (i : Z) : option Z :=
  if (i <? 0) then None else nth_error l (Z.to_nat i).
Definition lenZ {A} (l : list A) : Z := Z.of_nat (length l).

(* l[a:b] with Go's bounds check (cap = len) *)
Definition sliceZ {A} (l : list A) (a b : Z) : option (list A) :=
  if (0 <=? a) && (a <=? b) && (b <=? lenZ l)
  then Some (firstn (Z.to_nat (b - a)) (skipn (Z.to_nat a) l)) else None.

Definition wrap32 (x : Z) : Z := (* two's complement int32 *)
  let m := x mod 4294967296 in if m <? 2147483648 then m else m - 4294967296.
Definition wrapu32 (x : Z) : Z := x mod 4294967296.
Definition wrapu64 (x : Z) : Z := x mod 18446744073709551616.
Definition wrap8 (x : Z) : Z :=
  let m := x mod 256 in if m <? 128 then m else m - 256.
Definition wrapu8 (x : Z) : Z := x mod 256.
Definition wrapu16 (x : Z) : Z := x mod 65536.
Definition wrap16 (x : Z) : Z :=
  let m := x mod 65536 in if m <? 32768 then m else m - 65536.

(* pad / truncate to n bytes: copy(dst[:n], src) into a zeroed array *)
Definition fixlen (n : nat) (l : list Z) : list Z :=
  firstn n l ++ repeat 0 (n - length l).

Fixpoint cprefix (l : list Z) : list Z :=   (* bytes before the first NUL *)
  match l with [] => [] | c :: r => if c =? 0 then [] else c :: cprefix r end.
