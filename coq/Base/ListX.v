(* List lemmas missing from the 8.16 standard library. *)
From Verif Require Import Base.Common.

Lemma In_firstn {A} (x : A) n : forall l, In x (firstn n l) -> In x l.
Proof.
  induction n as [|n IH]; intros l H; [destruct H|]. destruct l as [|a l]; [destruct H|].
  cbn in H. destruct H as [->|H]; [left; reflexivity|right; apply IH; exact H].
Qed.

Lemma In_skipn {A} (x : A) n : forall l, In x (skipn n l) -> In x l.
Proof.
  induction n as [|n IH]; intros l H; [exact H|]. destruct l as [|a l]; [destruct H|].
  right. apply IH. exact H.
Qed.

Lemma fixlen_length n l : length (fixlen n l) = n.
Proof. unfold fixlen. rewrite app_length, firstn_length, repeat_length. lia. Qed.
