(* Type shapes of Go record structs, as emitted by gosync. *)
From Coq Require Import ZArith List String.
Inductive ty : Type :=
| TBool | TI8 | TU8 | TI16 | TU16 | TI32 | TU32 | TI64 | TU64 | TWord | TOpaque
| TArr (n : Z) (t : ty)
| TStruct (name : string).
