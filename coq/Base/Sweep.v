(* Lifting a finite sweep evaluated by vm_compute to a universally quantified statement. *)
From Verif Require Import Base.Common.

Definition zrange (n : nat) : list Z := map Z.of_nat (seq 0 n).

Lemma zrange_in n v : 0 <= v < Z.of_nat n -> In v (zrange n).
Proof.
  intros H. unfold zrange. replace v with (Z.of_nat (Z.to_nat v)) by lia.
  apply in_map. apply in_seq. lia.
Qed.

Lemma sweep (P : Z -> bool) n : forallb P (zrange n) = true -> forall v, 0 <= v < Z.of_nat n -> P v = true.
Proof. intros H v Hv. rewrite forallb_forall in H. apply H. apply zrange_in. exact Hv. Qed.

Lemma bytes_ok_forall l : bytes_ok l = true <-> Forall (fun b => 0 <= b < 256) l.
Proof.
  unfold bytes_ok. rewrite forallb_forall, Forall_forall. unfold is_byte.
  split; intros H x Hx; specialize (H x Hx); lia.
Qed.
