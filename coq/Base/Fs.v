(* A tiny file-system model for crash-atomicity arguments (C19).
   A file system is a finite map from names to contents; the atomic steps are the three system
   calls a "write a temporary file, then rename it over the target" save consists of.
   ASSUMPTION (trusted base, DESIGN section 3): each step is atomic with respect to the process
   dying - in particular [Rename] replaces the target in one step (POSIX rename(2)) - and data
   written before the process dies survives it (page cache; no power loss). *)
From Verif Require Import Base.Common.

Definition fs := list (Z * list Z).          (* association list, first binding wins *)

Inductive op : Type :=
| Create (n : Z)                             (* open(O_CREAT|O_TRUNC) *)
| Write (n : Z) (bs : list Z)                (* one write(2) at the end of file n *)
| Rename (a b : Z).                          (* rename(a, b) *)

Fixpoint lookup (n : Z) (s : fs) : option (list Z) :=
  match s with
  | [] => None
  | (m, c) :: r => if m =? n then Some c else lookup n r
  end.

Fixpoint remove (n : Z) (s : fs) : fs :=
  match s with
  | [] => []
  | (m, c) :: r => if m =? n then remove n r else (m, c) :: remove n r
  end.

Definition set (n : Z) (c : list Z) (s : fs) : fs := (n, c) :: remove n s.

Definition step (s : fs) (o : op) : fs :=
  match o with
  | Create n => set n [] s
  | Write n bs => match lookup n s with Some c => set n (c ++ bs) s | None => s end
  | Rename a b => match lookup a s with Some c => set b c (remove a s) | None => s end
  end.

Definition exec (s : fs) (ops : list op) : fs := fold_left step ops s.

(* the op list of a save through a temporary file *)
Definition save_ops (tmp dst : Z) (chunks : list (list Z)) : list op :=
  Create tmp :: map (Write tmp) chunks ++ [Rename tmp dst].

(* ---------------------------------------------------------------- lemmas *)

Lemma lookup_remove_same n s : lookup n (remove n s) = None.
Proof.
  induction s as [|[m c] r IH]; [reflexivity|]. cbn [remove].
  destruct (m =? n) eqn:E; [exact IH|]. cbn [lookup]. rewrite E. exact IH.
Qed.

Lemma lookup_remove_other n m s : n <> m -> lookup n (remove m s) = lookup n s.
Proof.
  intros Hne. induction s as [|[k c] r IH]; [reflexivity|]. cbn [remove lookup].
  destruct (k =? m) eqn:E1.
  - destruct (k =? n) eqn:E2; [lia|exact IH].
  - cbn [lookup]. destruct (k =? n); [reflexivity|exact IH].
Qed.

Lemma lookup_set_same n c s : lookup n (set n c s) = Some c.
Proof. unfold set. cbn [lookup]. rewrite Z.eqb_refl. reflexivity. Qed.

Lemma lookup_set_other n m c s : n <> m -> lookup n (set m c s) = lookup n s.
Proof.
  intros Hne. unfold set. cbn [lookup]. destruct (m =? n) eqn:E; [lia|].
  apply lookup_remove_other. exact Hne.
Qed.

(* writes to the temporary file: its content grows, every other file is untouched *)
Lemma exec_writes tmp chunks : forall s c, lookup tmp s = Some c ->
  lookup tmp (exec s (map (Write tmp) chunks)) = Some (c ++ concat chunks) /\
  forall n, n <> tmp -> lookup n (exec s (map (Write tmp) chunks)) = lookup n s.
Proof.
  induction chunks as [|ch r IH]; intros s c Hc.
  - cbn. rewrite app_nil_r. split; [exact Hc|reflexivity].
  - cbn [map exec fold_left step]. rewrite Hc.
    destruct (IH (set tmp (c ++ ch) s) (c ++ ch) (lookup_set_same _ _ _)) as [H1 H2].
    split.
    + unfold exec in H1. rewrite H1. cbn [concat]. rewrite app_assoc. reflexivity.
    + intros n Hn. unfold exec in H2. rewrite (H2 n Hn). apply lookup_set_other. exact Hn.
Qed.

Lemma exec_app s a b : exec s (a ++ b) = exec (exec s a) b.
Proof. unfold exec. apply fold_left_app. Qed.

Lemma firstn_map {A B} (f : A -> B) n : forall l, firstn n (map f l) = map f (firstn n l).
Proof. induction n as [|n IH]; intros [|x l]; cbn; [reflexivity..|]. rewrite IH. reflexivity. Qed.

(* a complete save leaves exactly the new image under the target name *)
Theorem save_complete tmp dst chunks s : tmp <> dst ->
  lookup dst (exec s (save_ops tmp dst chunks)) = Some (concat chunks).
Proof.
  intros Hne. unfold save_ops. change (Create tmp :: ?l) with ([Create tmp] ++ l).
  rewrite exec_app, exec_app.
  set (s1 := exec s [Create tmp]).
  assert (H1 : lookup tmp s1 = Some []) by (unfold s1; cbn; apply lookup_set_same).
  destruct (exec_writes tmp chunks s1 [] H1) as [H2 _].
  remember (exec s1 (map (Write tmp) chunks)) as s2 eqn:E2. clear E2.
  unfold exec. cbn [fold_left step]. rewrite H2. cbn [app]. apply lookup_set_same.
Qed.

(* every prefix of the save (the process dies after n steps, for any n) leaves the target either
   exactly as it was or holding the complete new image *)
Theorem save_prefix_atomic tmp dst chunks s n : tmp <> dst ->
  let s' := exec s (firstn n (save_ops tmp dst chunks)) in
  lookup dst s' = lookup dst s \/ lookup dst s' = Some (concat chunks).
Proof.
  intros Hne. cbv zeta.
  destruct (Nat.le_gt_cases (length (save_ops tmp dst chunks)) n) as [Hall|Hlt].
  - right. rewrite firstn_all2 by exact Hall. apply save_complete. exact Hne.
  - left. unfold save_ops in *. cbn [length] in Hlt. rewrite app_length, map_length in Hlt. cbn [length] in Hlt.
    destruct n as [|n]; [reflexivity|].
    cbn [firstn]. rewrite firstn_app, map_length.
    replace (n - length chunks)%nat with 0%nat by lia. cbn [firstn]. rewrite app_nil_r.
    rewrite firstn_map.
    change (Create tmp :: ?l) with ([Create tmp] ++ l). rewrite exec_app.
    set (s1 := exec s [Create tmp]).
    assert (H1 : lookup tmp s1 = Some []) by (unfold s1; cbn; apply lookup_set_same).
    destruct (exec_writes tmp (firstn n chunks) s1 [] H1) as [_ H2].
    rewrite (H2 dst) by lia. unfold s1. cbn. apply lookup_set_other. lia.
Qed.
