(* C18 — ReadLine over a reader that can fail in the middle of the stream (read errors as events), and
   cmsys.FileFindRecord / FileExistsRecord over the lines of a file of any size *)
From Verif Require Import Base.Common Base.Cstr Gen.StrTab Model.C18 Proofs.C18_cmp Proofs.C18_lines.

(* no event of the list is a read error: all are bytes *)
Definition no_err (l : list Z) : Prop := forall c, In c l -> c < 256.

Lemma no_err_cons c l : no_err (c :: l) -> c < 256 /\ no_err l.
Proof. intros H. split; [apply H; left; reflexivity|intros x Hx; apply H; right; exact Hx]. Qed.
Lemma no_err_app l r : no_err (l ++ r) -> no_err l /\ no_err r.
Proof. intros H. split; intros x Hx; apply H; apply in_or_app; [left|right]; exact Hx. Qed.
Lemma not_err c : c < 256 -> is_err_ev c = false.
Proof. intros H. unfold is_err_ev. apply Z.leb_gt. exact H. Qed.

(* ------------------------------------------------------------------ ReadBytes over events *)
Lemma rbe_lf : forall l r, no_err l -> ~ In 10 l -> read_bytes_ev (l ++ 10 :: r) = (l ++ [10], None, r).
Proof.
  induction l as [|c l IH]; intros r E N; [reflexivity|].
  apply no_err_cons in E. destruct E as [Ec El].
  cbn [app read_bytes_ev]. rewrite (not_err c Ec).
  destruct (c =? 10) eqn:Q; [apply Z.eqb_eq in Q; exfalso; apply N; left; lia|].
  rewrite IH; [reflexivity|exact El|intros H; apply N; right; exact H].
Qed.
Lemma rbe_err : forall l e r, no_err l -> ~ In 10 l -> 256 <= e -> read_bytes_ev (l ++ e :: r) = (l, Some e, r).
Proof.
  induction l as [|c l IH]; intros e r E N He.
  - cbn [app read_bytes_ev]. unfold is_err_ev. apply Z.leb_le in He. rewrite He. reflexivity.
  - apply no_err_cons in E. destruct E as [Ec El].
    cbn [app read_bytes_ev]. rewrite (not_err c Ec).
    destruct (c =? 10) eqn:Q; [apply Z.eqb_eq in Q; exfalso; apply N; left; lia|].
    rewrite IH; [reflexivity|exact El|intros H; apply N; right; exact H|exact He].
Qed.
Lemma rbe_end : forall l, no_err l -> ~ In 10 l -> read_bytes_ev l = (l, Some EV_EOF, []).
Proof.
  induction l as [|c l IH]; intros E N; [reflexivity|].
  apply no_err_cons in E. destruct E as [Ec El].
  cbn [read_bytes_ev]. rewrite (not_err c Ec).
  destruct (c =? 10) eqn:Q; [apply Z.eqb_eq in Q; exfalso; apply N; left; lia|].
  rewrite IH; [reflexivity|exact El|intros H; apply N; right; exact H].
Qed.

(* every event list starts with a run of bytes without LF, followed by an LF, by an error event, or by nothing *)
Lemma ev_cases : forall s,
  exists l, no_err l /\ ~ In 10 l /\
    (s = l \/ (exists r, s = l ++ 10 :: r) \/ (exists e r, 256 <= e /\ s = l ++ e :: r)).
Proof.
  induction s as [|c s IH].
  - exists []. split; [intros x []|]. split; [intros []|]. left. reflexivity.
  - destruct (Z_lt_ge_dec c 256) as [Hc|Hc].
    + destruct (Z.eq_dec c 10) as [->|Hn].
      * exists []. split; [intros x []|]. split; [intros []|]. right. left. exists s. reflexivity.
      * destruct IH as [l [E [N H]]]. exists (c :: l).
        split; [intros x [<-|Hx]; [exact Hc|apply E; exact Hx]|].
        split; [intros [H1|H1]; [lia|exact (N H1)]|].
        destruct H as [->|[[r ->]|[e [r [He ->]]]]].
        -- left. reflexivity.
        -- right. left. exists r. reflexivity.
        -- right. right. exists e, r. split; [exact He|reflexivity].
    + exists []. split; [intros x []|]. split; [intros []|]. right. right. exists c, s. split; [lia|reflexivity].
Qed.

(* ------------------------------------------------------------------ one call of ReadLine *)
Lemma cr_step_gen {B} (k : list Z -> B) (l : list Z) :
  res_bind (match l with [] => Ok false | _ => last_is l 13 end)
           (fun b => let line := if b then removelast l else l in Ok (k line))
  = Ok (k (strip_cr l)).
Proof.
  unfold strip_cr. destruct l as [|x l]; [reflexivity|]. rewrite last_is_rev.
  destruct (rev (x :: l)) as [|c r] eqn:R.
  - apply (f_equal (@rev Z)) in R. rewrite rev_involutive in R. discriminate.
  - cbn [res_bind]. destruct (c =? 13); [|reflexivity].
    apply (f_equal (@rev Z)) in R. rewrite rev_involutive in R. cbn [rev] in R. rewrite R.
    rewrite removelast_last. reflexivity.
Qed.

Lemma rl_finish_lf l rest : rl_finish (l ++ [10]) rest = Ok (RlLine (strip_cr l), rest).
Proof.
  unfold rl_finish. rewrite match_nonnil by (destruct l; discriminate).
  rewrite last_is_rev. rewrite rev_app_distr. cbn [rev app res_bind Z.eqb Pos.eqb].
  rewrite removelast_last. apply (cr_step_gen (fun line => (RlLine line, rest))).
Qed.
Lemma rl_finish_nolf l rest : ~ In 10 l -> l <> [] -> rl_finish l rest = Ok (RlLine (strip_cr l), rest).
Proof.
  intros N NE. unfold rl_finish. rewrite match_nonnil by exact NE.
  rewrite last_is_rev. destruct (rev l) as [|c r] eqn:Rv.
  - apply (f_equal (@rev Z)) in Rv. rewrite rev_involutive in Rv. cbn in Rv. congruence.
  - assert (Hc : c <> 10).
    { intros ->. apply N. apply in_rev. rewrite Rv. left. reflexivity. }
    apply Z.eqb_neq in Hc. cbn [res_bind]. rewrite Hc. apply (cr_step_gen (fun line => (RlLine line, rest))).
Qed.

(* a complete line: returned without its LF and one CR *)
Lemma read_line_ev_lf l r : no_err l -> ~ In 10 l -> read_line_ev (l ++ 10 :: r) = Ok (RlLine (strip_cr l), r).
Proof. intros E N. unfold read_line_ev. rewrite rbe_lf by assumption. apply rl_finish_lf. Qed.
(* a read error other than io.EOF, wherever it falls: the error, and nothing of the bytes read before it *)
Lemma read_line_ev_err l e r : no_err l -> ~ In 10 l -> 256 < e -> read_line_ev (l ++ e :: r) = Ok (RlErr e, r).
Proof.
  intros E N He. unfold read_line_ev. rewrite rbe_err by (try assumption; lia).
  unfold EV_EOF. destruct (e =? 256) eqn:Q; [apply Z.eqb_eq in Q; lia|reflexivity].
Qed.
(* an io.EOF handed out in the middle (a file that grows later): what was read is the last line so far *)
Lemma read_line_ev_eofev l r : no_err l -> ~ In 10 l ->
  read_line_ev (l ++ 256 :: r) = Ok (match l with [] => RlErr EV_EOF | _ => RlLine (strip_cr l) end, r).
Proof.
  intros E N. unfold read_line_ev. rewrite rbe_err by (try assumption; lia).
  unfold EV_EOF. cbn [Z.eqb Pos.eqb]. destruct l as [|c l]; [reflexivity|].
  apply rl_finish_nolf; [exact N|discriminate].
Qed.
(* the end of the stream *)
Lemma read_line_ev_end l : no_err l -> ~ In 10 l ->
  read_line_ev l = Ok (match l with [] => RlErr EV_EOF | _ => RlLine (strip_cr l) end, []).
Proof.
  intros E N. unfold read_line_ev. rewrite rbe_end by assumption.
  unfold EV_EOF. cbn [Z.eqb Pos.eqb]. destruct l as [|c l]; [reflexivity|].
  apply rl_finish_nolf; [exact N|discriminate].
Qed.

(* ReadLine returns on every event stream, and what is left is a suffix that is shorter unless it was empty *)
Lemma read_line_ev_total s : exists o rest, read_line_ev s = Ok (o, rest).
Proof.
  destruct (ev_cases s) as [l [E [N [->|[[r ->]|[e [r [He ->]]]]]]]].
  - eexists. eexists. apply read_line_ev_end; assumption.
  - eexists. eexists. apply read_line_ev_lf; assumption.
  - destruct (Z.eq_dec e 256) as [->|Hn].
    + eexists. eexists. apply read_line_ev_eofev; assumption.
    + eexists. eexists. apply read_line_ev_err; try assumption. lia.
Qed.

(* ------------------------------------------------------------------ n calls *)
Lemma read_calls_total : forall n s, exists o, read_calls n s = Ok o /\ length o = n.
Proof.
  induction n as [|n IH]; intros s; [exists []; split; reflexivity|].
  cbn [read_calls]. destruct (read_line_ev_total s) as [o [rest ->]]. cbn [res_bind fst snd].
  destruct (IH rest) as [os [-> L]]. cbn [res_map]. exists (o :: os). split; [reflexivity|cbn; rewrite L; reflexivity].
Qed.

Lemma read_calls_nil : forall n, read_calls n [] = Ok (repeat (RlErr EV_EOF) n).
Proof. induction n as [|n IH]; [reflexivity|]. cbn [read_calls read_line_ev read_bytes_ev rl_finish res_bind fst snd Z.eqb Pos.eqb EV_EOF]. rewrite IH. reflexivity. Qed.

Lemma lf_cases : forall s : list Z, (exists l r, ~ In 10 l /\ s = l ++ 10 :: r) \/ ~ In 10 s.
Proof.
  intros s. destruct (rbl_cases s) as [[l [r [N [S _]]]]|[N _]]; [left; exists l, r; split; assumption|right; exact N].
Qed.

(* a healthy reader: the lines of the stream, then io.EOF for ever — the event model agrees with [read_lines] *)
Lemma read_calls_clean : forall k s n, (length s <= k)%nat -> no_err s ->
  read_calls (length (split_lines s) + n) s = Ok (map RlLine (split_lines s) ++ repeat (RlErr EV_EOF) n).
Proof.
  induction k as [|k IH]; intros s n L E.
  - destruct s; [|cbn in L; lia]. cbn [split_lines split_lines_acc length map app Nat.add]. apply read_calls_nil.
  - destruct (lf_cases s) as [[l [r [N ->]]]|N].
    + apply no_err_app in E. destruct E as [El Er]. apply no_err_cons in Er. destruct Er as [_ Er].
      rewrite split_lines_lf by exact N. cbn [length Nat.add read_calls map app].
      rewrite read_line_ev_lf by assumption. cbn [res_bind fst snd].
      rewrite app_length in L. cbn [length] in L. rewrite IH by (try exact Er; lia). reflexivity.
    + destruct s as [|x s]; [cbn [split_lines split_lines_acc length map app Nat.add]; apply read_calls_nil|].
      rewrite split_lines_last by (try exact N; discriminate). cbn [length Nat.add read_calls map app].
      rewrite read_line_ev_end by assumption. cbn [res_bind fst snd]. rewrite read_calls_nil. reflexivity.
Qed.
Lemma readline_ev_clean s n : no_err s ->
  read_calls (length (split_lines s) + n) s = Ok (map RlLine (split_lines s) ++ repeat (RlErr EV_EOF) n) /\
  read_lines s = Ok (split_lines s).
Proof. intros E. split; [apply (read_calls_clean (length s)); [lia|exact E]|apply readline_split_lines]. Qed.

(* [whole] ends at a line boundary *)
Definition at_boundary (whole : list Z) : Prop := whole = [] \/ exists w, whole = w ++ [10].
Lemma at_boundary_tail l r : at_boundary (l ++ 10 :: r) -> at_boundary r.
Proof.
  intros [H|[w H]]; [destruct l; discriminate|].
  destruct r as [|y r0]; [left; reflexivity|].
  destruct (@exists_last Z (y :: r0)) as [r' [x Hr]]; [discriminate|].
  rewrite Hr in H. change (l ++ 10 :: r' ++ [x]) with (l ++ (10 :: r') ++ [x]) in H.
  rewrite app_assoc in H. apply app_inj_tail in H. destruct H as [_ ->].
  right. exists r'. exact Hr.
Qed.
Lemma at_boundary_nolf w : at_boundary w -> ~ In 10 w -> w = [].
Proof. intros [H|[w' ->]] N; [exact H|]. exfalso. apply N. apply in_or_app. right. left. reflexivity. Qed.

(* a read error other than io.EOF that falls after the complete lines [whole] and a fragment [frag] of the next
   line (empty or not): the calls return the lines of [whole], then the error — the fragment is never handed out —
   and then go on with what follows the error *)
Lemma read_calls_error : forall k whole frag e rest n more, (length whole <= k)%nat ->
  no_err whole -> at_boundary whole -> no_err frag -> ~ In 10 frag -> 256 < e ->
  read_calls n rest = Ok more ->
  read_calls (length (split_lines whole) + S n) (whole ++ frag ++ e :: rest)
  = Ok (map RlLine (split_lines whole) ++ RlErr e :: more).
Proof.
  induction k as [|k IH]; intros whole frag e rest n more L E B Ef Nf He Hm.
  - destruct whole; [|cbn in L; lia]. cbn [split_lines split_lines_acc length map app Nat.add read_calls].
    rewrite read_line_ev_err by assumption. cbn [res_bind fst snd]. rewrite Hm. reflexivity.
  - destruct (lf_cases whole) as [[l [r [N ->]]]|N].
    + apply at_boundary_tail in B. apply no_err_app in E. destruct E as [El Er]. apply no_err_cons in Er. destruct Er as [_ Er].
      rewrite split_lines_lf by exact N. cbn [length Nat.add read_calls map app].
      rewrite <- app_assoc. cbn [app]. rewrite read_line_ev_lf by assumption. cbn [res_bind fst snd].
      rewrite app_length in L. cbn [length] in L.
      rewrite (IH r frag e rest n more) by (try assumption; lia). reflexivity.
    + rewrite (at_boundary_nolf whole B N). cbn [split_lines split_lines_acc length map app Nat.add read_calls].
      rewrite read_line_ev_err by assumption. cbn [res_bind fst snd]. rewrite Hm. reflexivity.
Qed.

Lemma until_err_lines ls e more : until_err (map RlLine ls ++ RlErr e :: more) = (ls, Some e).
Proof. induction ls as [|l ls IH]; [reflexivity|]. cbn [map app until_err]. rewrite IH. reflexivity. Qed.
Lemma until_err_eof ls n : until_err (map RlLine ls ++ repeat (RlErr EV_EOF) (S n)) = (ls, Some EV_EOF).
Proof. cbn [repeat]. apply until_err_lines. Qed.

Lemma readline_io_error whole frag e rest n :
  no_err whole -> at_boundary whole -> no_err frag -> ~ In 10 frag -> 256 < e ->
  exists more, read_calls n rest = Ok more /\
    read_calls (length (split_lines whole) + S n) (whole ++ frag ++ e :: rest)
      = Ok (map RlLine (split_lines whole) ++ RlErr e :: more) /\
    until_err (map RlLine (split_lines whole) ++ RlErr e :: more) = (split_lines whole, Some e).
Proof.
  intros E B Ef Nf He. destruct (read_calls_total n rest) as [more [Hm _]]. exists more.
  split; [exact Hm|]. split; [apply (read_calls_error (length whole)); (assumption || lia)|apply until_err_lines].
Qed.

(* "SYSOP\n\nguest\nteemocogs-12" <EIO> "3456789\nlast\n": three lines, the error, and (for a caller that goes on) the
   rest; the same stream without the error *)
Example readline_io_error_ex :
  read_calls 6 [83; 10; 10; 103; 13; 10; 116; 45; 49; 50; 257; 51; 52; 10; 108; 10]
    = Ok [RlLine [83]; RlLine []; RlLine [103]; RlErr 257; RlLine [51; 52]; RlLine [108]] /\
  until_err [RlLine [83]; RlLine []; RlLine [103]; RlErr 257; RlLine [51; 52]; RlLine [108]] = ([[83]; []; [103]], Some 257) /\
  read_calls 5 [83; 10; 10; 103; 13; 10; 116; 45; 49; 50; 51; 52; 10; 108]
    = Ok [RlLine [83]; RlLine []; RlLine [103]; RlLine [116; 45; 49; 50; 51; 52]; RlLine [108]] /\
  read_calls 3 [97; 256; 98; 10; 256] = Ok [RlLine [97]; RlLine [98]; RlErr 256].
Proof. vm_compute. repeat split. Qed.

(* ------------------------------------------------------------------ FileFindRecord *)
Lemma tok_end_nosep sep : forall line idx e, (forall c, In c line -> existsb (Z.eqb c) sep = false) -> tok_end line sep idx e = e.
Proof.
  induction line as [|c line IH]; intros idx e H; [reflexivity|].
  cbn [tok_end]. rewrite (H c) by (left; reflexivity). apply IH. intros x Hx. apply H. right. exact Hx.
Qed.
Lemma tokenize_first_prefix line sep : exists tail, line = tokenize_first line sep ++ tail.
Proof. unfold tokenize_first. eexists. symmetry. apply firstn_skipn. Qed.
Lemma tokenize_first_nosep line sep : (forall c, In c line -> existsb (Z.eqb c) sep = false) -> tokenize_first line sep = line.
Proof.
  intros H. unfold tokenize_first. rewrite tok_end_nosep by exact H. unfold lenZ. rewrite Nat2Z.id. apply firstn_all.
Qed.

Lemma find_record_spec key : forall lines idx0,
  (find_record key lines idx0 = 0 /\ forall l, In l lines -> line_matches key l = false) \/
  (exists pre l post, lines = pre ++ l :: post /\ find_record key lines idx0 = idx0 + lenZ pre + 1 /\
     line_matches key l = true /\ forall l', In l' pre -> line_matches key l' = false).
Proof.
  induction lines as [|l lines IH]; intros idx0; [left; split; [reflexivity|intros l []]|].
  cbn [find_record]. destruct (line_matches key l) eqn:M.
  - right. exists [], l, lines. split; [reflexivity|]. split; [unfold lenZ; cbn; lia|]. split; [exact M|intros l' []].
  - destruct (IH (idx0 + 1)) as [[H0 Hn]|[pre [m [post [-> [Hi [Hm Hp]]]]]]].
    + left. split; [exact H0|]. intros l' [<-|Hl]; [exact M|apply Hn; exact Hl].
    + right. exists (l :: pre), m, post. split; [reflexivity|]. split; [rewrite Hi; unfold lenZ; cbn [length]; lia|].
      split; [exact Hm|]. intros l' [<-|Hl]; [exact M|apply Hp; exact Hl].
Qed.

(* FileFindRecord answers the 1-based number of the first line of the file (lines as [split_lines] cuts them, of any
   length) whose first token equals the key under strcasecmp, 0 if no line does; FileExistsRecord is "> 0" *)
Lemma file_find_record_spec content key :
  exists idx, file_find_record content key = Ok idx /\ file_exists_record content key = Ok (0 <? idx) /\ 0 <= idx /\
    ((idx = 0 /\ forall l, In l (split_lines content) -> line_matches key l = false) \/
     (exists pre l post, split_lines content = pre ++ l :: post /\ idx = lenZ pre + 1 /\
        line_matches key l = true /\ forall l', In l' pre -> line_matches key l' = false)).
Proof.
  unfold file_exists_record, file_find_record. rewrite readline_split_lines. cbn [res_map].
  eexists. split; [reflexivity|]. split; [reflexivity|].
  destruct (find_record_spec key (split_lines content) 0) as [[H0 Hn]|[pre [l [post [S [Hi [Hm Hp]]]]]]].
  - split; [lia|]. left. split; assumption.
  - split; [rewrite Hi; unfold lenZ; lia|]. right. exists pre, l, post. split; [exact S|]. split; [rewrite Hi; lia|]. split; assumption.
Qed.
Lemma line_matches_spec key line :
  line_matches key line = (strcasecmp_spec (cprefix key) (cprefix (tokenize_first line BYTES_SPACE)) =? 0) /\
  (exists tail, line = tokenize_first line BYTES_SPACE ++ tail) /\
  ((forall c, In c line -> existsb (Z.eqb c) BYTES_SPACE = false) -> tokenize_first line BYTES_SPACE = line).
Proof.
  split; [unfold line_matches; rewrite cstrcasecmp_eq; reflexivity|].
  split; [apply tokenize_first_prefix|apply tokenize_first_nosep].
Qed.

(* a key on the line after a line of 70 000 bytes would be an [Example] too large for the kernel; a short one *)
Example file_find_record_ex :
  file_find_record [103; 10; 10; 120; 120; 120; 120; 10; 83; 89; 83; 13; 10; 108] [115; 121; 115] = Ok 4 /\
  file_find_record [103; 10; 10; 120; 120; 120; 120; 10; 83; 89; 83; 13; 10; 108] [76; 0; 7] = Ok 5 /\
  file_find_record [103; 10; 10; 120; 120; 120; 120; 10; 83; 89; 83; 13; 10; 108] [122] = Ok 0 /\
  file_find_record [97; 32; 98; 9; 99; 10] [97; 32; 98] = Ok 1.
Proof. vm_compute. repeat split. Qed.

Lemma no_crash_io : (forall n s, exists o, read_calls n s = Ok o) /\ (forall content key, exists i, file_find_record content key = Ok i).
Proof.
  split; [intros n s; destruct (read_calls_total n s) as [o [H _]]; exists o; exact H|].
  intros content key. destruct (file_find_record_spec content key) as [i [H _]]. exists i. exact H.
Qed.
